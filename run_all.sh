#!/bin/sh
# Runs every claimed check (quick tier by default) on /repo as it stands, in sequence; prints one line each.
cd "$(dirname "$0")"
TIER="${1:-quick}"
fail=0
for p in $(python3 -c "import json; print(' '.join(c['property_id'] for c in json.load(open('MANIFEST.json'))['checks']))"); do
  out=$(./check "$p" --tier "$TIER" 2>&1); rc=$?
  echo "$out" | grep -E "^(VIOLATION|KNOWN-FINDING|$p:)" | cut -c1-220
  [ $rc -ne 0 ] && fail=1
done
python3-vt - <<'PY'
import json,glob,jsonschema
sch=json.load(open('/root/.vp/EVIDENCE.schema.json'))
bad=0
for f in sorted(glob.glob('/verif/evidence/C*.json')):
    e=json.load(open(f))
    try:
        jsonschema.validate(e,sch)
    except Exception as ex:
        print('INVALID',f,str(ex)[:100]); bad=1
    c=e['coverage']
    if e['level']=='proof' and c.get('obligations')!=c.get('discharged'):
        print('UNDISCHARGED',f,c.get('obligations'),c.get('discharged')); bad=1
print('evidence files ok' if not bad else 'evidence problems')
PY
exit $fail
