#!/bin/sh
# Regenerates lean/Mtv/Gen/Links.lean (property C20) from the working tree of xelaj/mtproto
# (${VERIF_REPO:-/repo}): what deeplinks.ReservedHosts() returns, read through the C20 harness binary
# built from that tree, and the unicode.ToLower table of the Go toolchain. The file is rewritten only
# when its content changes. (`./check C20` does the same on every run.)
set -e
cd "$(dirname "$0")/.."
export GOFLAGS=-mod=mod GOPROXY=off GOSUMDB=off GOTOOLCHAIN=local CGO_ENABLED=0
python3 checks/c20.py "${VERIF_REPO:-/repo}"
