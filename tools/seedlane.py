#!/usr/bin/env python3
"""tools/seedlane.py <src-root> <id> [<id> …]
First triage of freshly written seeded changes WITHOUT touching /repo, so that several lanes can run side by
side: for each id (Cxx-mN, files under <src-root>/Cxx/mN) copy the files to /verif/seeded/<id>/, confirm the
change in the scratch worktree /tmp/seeds/wt-Cxx (tools/seedconfirm.sh: moved to /repo's HEAD; builds, the
repository's tests pass, the demonstration fails with it and passes without), then run the property's own
check against that worktree with the change applied (VERIF_REPO, evidence diverted) and write meta.json.
The recorded final result of a change comes from tools/seed.py recheck (git -C /repo apply … undo)."""
import sys, os, json, shutil, subprocess, re, time
V = "/verif"
needs = {}
try:
    needs = json.load(open("/tmp/seeds/needs8.json"))
except Exception:
    pass

def sh(cmd, timeout=2400):
    try:
        p = subprocess.run(cmd, shell=True, capture_output=True, text=True, timeout=timeout)
        return p.returncode, (p.stdout + p.stderr).strip()
    except subprocess.TimeoutExpired:
        return 124, "timeout"

root = sys.argv[1]
for sid in sys.argv[2:]:
    P, M = sid.split("-")
    src = os.path.join(root, P, M)
    dst = os.path.join(V, "seeded", sid)
    wt = os.environ.get("SEED_WT_PREFIX", "/tmp/seeds/wt-") + P
    if not os.path.isfile(os.path.join(src, "patch.diff")):
        print(sid, "no patch"); continue
    os.makedirs(dst, exist_ok=True)
    for f in os.listdir(src):
        if os.path.isfile(os.path.join(src, f)) and not f.startswith("confirm."):
            shutil.copy(os.path.join(src, f), dst)
    rc, out = sh("%s/tools/seedconfirm.sh %s %s" % (V, dst, wt))
    confirmed = out.strip().splitlines()[-1] if out.strip() else "NOT-CONFIRMED: no output"
    meta = {"id": sid, "property": P, "needs_to_manifest": needs.get(sid, "") or (open(os.path.join(src, "needs.txt")).read().strip() if os.path.isfile(os.path.join(src, "needs.txt")) else ""),
            "repo_commit": sh("git -C /repo rev-parse --short HEAD")[1],
            "confirmation": {"cmd": "tools/seedconfirm.sh seeded/%s <scratch worktree>" % sid, "result": confirmed},
            "origin": "fresh sub-agent given only the property text and a scratch worktree (wave %s)" % os.environ.get("SEED_WAVE", "8")}
    if confirmed.startswith("CONFIRMED"):
        sh("git -C %s checkout -q -- . ; git -C %s clean -qfd" % (wt, wt))
        rc, out = sh("git -C %s apply %s/patch.diff" % (wt, dst))
        t0 = time.time()
        ev = "%s/.build/ev-wt-%s" % (V, sid)
        rc, out = sh("cd %s && VERIF_REPO=%s VERIF_EVIDENCE_DIR=%s timeout 1500 ./check %s 2>&1" % (V, wt, ev, P))
        v = [l for l in out.splitlines() if l.startswith("VIOLATION")][:3]
        line = " ".join(v) if v else "no-violation-line"
        caught = rc == 1 and bool(v)
        meta["first_run"] = {"cmd": "VERIF_REPO=<scratch worktree with the change applied> ./check %s" % P,
                             "exit": rc, "output": line[:400], "caught": caught,
                             "with_input": caught and "no-failing-input-found" not in line,
                             "seconds": round(time.time() - t0)}
        rp = re.search(r"replay=(\S+)", line)
        if rp and os.path.isfile(rp.group(1)):
            open(os.path.join(dst, "replay.%s.txt" % P), "w").write(open(rp.group(1)).read()[:3000])
        sh("git -C %s checkout -q -- . ; git -C %s clean -qfd" % (wt, wt))
        shutil.rmtree(ev, ignore_errors=True)
    json.dump(meta, open(os.path.join(dst, "meta.json"), "w"), indent=1)
    print(sid, confirmed[:60], "|", json.dumps(meta.get("first_run", {}))[:300], flush=True)
