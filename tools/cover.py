#!/usr/bin/env python3
"""tools/cover.py Cxx [Cyy …] [--tier quick|thorough]
Which statements of the library does a check's Go side actually execute?  Builds the property's harness binary
with `go build -cover -coverpkg=github.com/xelaj/mtproto/...` (VERIF_COVER in lib/vlib.py), runs the check as
usual (evidence diverted), converts the counters with `go tool covdata textfmt` and writes
coverage/Cxx.json + coverage/Cxx.txt: per anchored file (properties.jsonl anchors.files) the statements
covered / total and every uncovered block with its source lines.  A generator gap shows up here as an uncovered
block of an anchored function BEFORE a seeded change lands in it.  Generated files (*_gen.go) are summarised only.
Not a check and not evidence: a measurement of the correspondence run's reach."""
import sys, os, json, subprocess, shutil, re, collections
V = "/verif"
REPO = os.environ.get("VERIF_REPO", "/repo")
args = [a for a in sys.argv[1:] if not a.startswith("--")]
tier = "quick"
if "--tier" in sys.argv:
    tier = sys.argv[sys.argv.index("--tier") + 1]; args = [a for a in args if a != tier]
props = {json.loads(l)["id"]: json.loads(l) for l in open(os.path.join(V, "properties.jsonl"))}
env = dict(os.environ, GOFLAGS="-mod=mod", GOPROXY="off", GOSUMDB="off", GOTOOLCHAIN="local")
os.makedirs(os.path.join(V, "coverage"), exist_ok=True)
for P in args:
    cd = os.path.join(V, ".build", "cover", P); shutil.rmtree(cd, ignore_errors=True); os.makedirs(cd)
    e = dict(env, VERIF_COVER=cd, VERIF_EVIDENCE_DIR=os.path.join(V, ".build", "ev-cover"))
    r = subprocess.run(["./check", P, "--tier", tier], cwd=V, env=e, capture_output=True, text=True)
    tail = [l for l in r.stdout.splitlines() if l.startswith(("VIOLATION", "KNOWN", P + ":"))][-3:]
    prof = os.path.join(cd, "profile.txt")
    subprocess.run(["go", "tool", "covdata", "textfmt", "-i=" + cd, "-o=" + prof], env=env, capture_output=True, text=True)
    blocks = collections.defaultdict(dict)   # file -> (l0,c0,l1,c1) -> [nstmt, count]
    if os.path.exists(prof):
        for l in open(prof):
            m = re.match(r"github.com/xelaj/mtproto/(\S+?):(\d+)\.(\d+),(\d+)\.(\d+) (\d+) (\d+)", l)
            if not m: continue
            f = m.group(1); k = tuple(int(x) for x in m.group(2, 3, 4, 5))
            b = blocks[f].setdefault(k, [int(m.group(6)), 0]); b[1] += int(m.group(7))
    anchored = props[P]["anchors"]["files"]
    out = {"property": P, "tier": tier, "check_exit": r.returncode, "check_lines": tail, "files": {}}
    txt = ["# %s — statement coverage of the anchored files under the check's own operations (%s tier)" % (P, tier), ""]
    for f in anchored:
        bs = blocks.get(f)
        if bs is None:
            out["files"][f] = None; txt.append("%-55s not compiled into the harness / no statements" % f); continue
        tot = sum(b[0] for b in bs.values()); cov = sum(b[0] for b in bs.values() if b[1] > 0)
        unc = sorted(k for k, b in bs.items() if b[1] == 0)
        out["files"][f] = {"statements": tot, "covered": cov, "uncovered_blocks": [list(k) for k in unc] if not f.endswith("_gen.go") else len(unc)}
        txt.append("%-55s %5d / %5d statements  (%d uncovered blocks)" % (f, cov, tot, len(unc)))
        if f.endswith("_gen.go"): continue
        try: src = open(os.path.join(REPO, f)).read().splitlines()
        except OSError: src = []
        for (l0, c0, l1, c1) in unc:
            first = src[l0 - 1].strip() if l0 - 1 < len(src) else ""
            nxt = src[l0].strip() if l0 < len(src) and l1 > l0 else ""
            txt.append("      %4d-%-4d %s %s" % (l0, l1, first[:90], ("| " + nxt[:70]) if nxt else ""))
    json.dump(out, open(os.path.join(V, "coverage", P + ".json"), "w"), indent=1)
    open(os.path.join(V, "coverage", P + ".txt"), "w").write("\n".join(txt) + "\n")
    print(P, "exit", r.returncode, " ".join("%s:%s/%s" % (os.path.basename(f), (v or {}).get("covered"), (v or {}).get("statements")) for f, v in out["files"].items() if not f.endswith("_gen.go"))[:400], flush=True)
    if os.path.exists(prof):
        shutil.copy(prof, os.path.join(V, ".build", "cover", P + ".profile"))
    shutil.rmtree(cd, ignore_errors=True)

# union over every profile kept so far: statements of the library no check's Go side executes
allb = collections.defaultdict(dict)
import glob
profs = sorted(glob.glob(os.path.join(V, ".build", "cover", "C*.profile")))
for pf in profs:
    for l in open(pf):
        m = re.match(r"github.com/xelaj/mtproto/(\S+?):(\d+)\.(\d+),(\d+)\.(\d+) (\d+) (\d+)", l)
        if not m or m.group(1).startswith("verifharness/"): continue
        k = tuple(int(x) for x in m.group(2, 3, 4, 5))
        b = allb[m.group(1)].setdefault(k, [int(m.group(6)), 0]); b[1] += int(m.group(7))
if len(profs) >= 2:
    txt = ["# statements of the library that the Go side of NO check executes (union of %d checks: %s)" % (len(profs), " ".join(os.path.basename(x)[:3] for x in profs)), ""]
    for f in sorted(allb):
        bs = allb[f]; tot = sum(b[0] for b in bs.values()); cov = sum(b[0] for b in bs.values() if b[1] > 0)
        unc = sorted(k for k, b in bs.items() if b[1] == 0)
        if f.endswith("_gen.go") or "verif_" in f:
            txt.append("%-55s %5d / %5d statements" % (f, cov, tot)); continue
        txt.append("%-55s %5d / %5d statements  (%d uncovered blocks)" % (f, cov, tot, len(unc)))
        try: src = open(os.path.join(REPO, f)).read().splitlines()
        except OSError: src = []
        for (l0, c0, l1, c1) in unc:
            first = src[l0 - 1].strip() if l0 - 1 < len(src) else ""
            nxt = src[l0].strip() if l0 < len(src) and l1 > l0 else ""
            txt.append("      %4d-%-4d %s %s" % (l0, l1, first[:90], ("| " + nxt[:70]) if nxt else ""))
    open(os.path.join(V, "coverage", "UNION.txt"), "w").write("\n".join(txt) + "\n")
