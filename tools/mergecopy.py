#!/usr/bin/env python3
"""tools/mergecopy.py <private copy of /verif> [--dry]: brings the files a builder changed in its private copy
(/tmp/vf-*) into /verif: copied when /verif still has the version the copy started from, merged three-way
(git merge-file) otherwise; MANIFEST.json is skipped (regenerate with tools_manifest.py)."""
import sys, os, subprocess, shutil, tempfile
C = sys.argv[1].rstrip("/"); dry = "--dry" in sys.argv
V = "/verif"
def sh(cmd, cwd=None):
    p = subprocess.run(cmd, shell=True, capture_output=True, cwd=cwd)
    return p.returncode, p.stdout
base = sh("git rev-parse HEAD", C)[1].decode().strip()
rc, out = sh("git status --porcelain -uall", C)
files = []
for l in out.decode().splitlines():
    f = l[3:].strip().strip('"')
    if " -> " in f: f = f.split(" -> ")[1]
    files.append((l[:2], f))
for st, f in files:
    if f in ("MANIFEST.json",) or f.startswith("evidence/") or f.endswith(".pyc"):
        continue
    src = os.path.join(C, f); dst = os.path.join(V, f)
    if f.startswith("seeded/"):
        # only the builder's note on a seed is taken over: the "strengthened" field of meta.json
        if f.endswith("/meta.json") and os.path.exists(src) and os.path.exists(dst):
            import json
            try:
                a = json.load(open(src)); b = json.load(open(dst))
            except ValueError:
                continue
            if "strengthened" in a and a.get("strengthened") != b.get("strengthened"):
                print("note   %s" % f)
                if not dry:
                    b["strengthened"] = a["strengthened"]; json.dump(b, open(dst, "w"), indent=1)
        elif f.endswith("/patch.diff") or "/patch.orig" in f:
            if os.path.exists(src) and (not os.path.exists(dst) or open(src,"rb").read() != open(dst,"rb").read()):
                print("PATCH differs (not taken automatically):", f)
        continue
    if not os.path.exists(src):
        print("DELETED in copy (ignored):", f); continue
    theirs = open(src, "rb").read()
    rcb, basec = sh("git show %s:%s" % (base, f), V)
    cur = open(dst, "rb").read() if os.path.exists(dst) else None
    if cur is None or (rcb == 0 and cur == basec):
        act = "copy"
    elif cur == theirs:
        act = "same"
    else:
        act = "merge"
    print("%-6s %s" % (act, f))
    if dry or act == "same":
        continue
    os.makedirs(os.path.dirname(dst), exist_ok=True)
    if act == "copy":
        shutil.copy2(src, dst)
    else:
        with tempfile.TemporaryDirectory() as td:
            b = os.path.join(td, "base"); t = os.path.join(td, "theirs")
            open(b, "wb").write(basec if rcb == 0 else b""); open(t, "wb").write(theirs)
            r = subprocess.run(["git", "merge-file", dst, b, t])
            if r.returncode != 0:
                print("   CONFLICT in", f)
