#!/bin/sh
# Regenerates lean/Mtv/Gen/ErrTables.lean (property C17) from the working tree of xelaj/mtproto
# (${VERIF_REPO:-/repo}): specificErrors, errorMessages, defaultDCList, shape of tryToProcessErr.
# The file is written only when its content changes. Also leaves the facts as JSON for `vh c17`.
set -e
cd "$(dirname "$0")/.."
export GOFLAGS=-mod=mod GOPROXY=off GOSUMDB=off GOTOOLCHAIN=local CGO_ENABLED=0
mkdir -p .build lean/Mtv/Gen
(cd harness && go build -o ../.build/c17facts ./cmd/c17facts)
.build/c17facts -repo "${VERIF_REPO:-/repo}" -lean lean/Mtv/Gen/ErrTables.lean -json .build/c17facts.json
