#!/bin/sh
# Regenerates every lean/Mtv/Gen/*.lean from the working tree (run by setup.sh before the first
# full Lean build; each check regenerates its own files again on every run).
# Runs every executable tools/regen_*.sh; add a property's generator as tools/regen_<prop>.sh.
set -e
cd "$(dirname "$0")/.."
for f in tools/regen_*.sh; do
  case "$f" in tools/regen_all.sh) continue ;; esac
  if [ -x "$f" ]; then "$f"; fi
done
