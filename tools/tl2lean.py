#!/usr/bin/env python3
"""tl2lean — reads TL schema text (.tl) and writes it as Lean data (Mtv.Gen.Schema*).

It shares no code with the repository's tlparser. Lean re-validates its reading: for every
definition the structured form must print back to the (whitespace-normalised) source line
(`Mtv.Schema.render d = d.raw`), so only "the file consists of these lines" is trusted.

usage: tl2lean.py <name> <file.tl> <out.lean>      name: Api | Mt
"""
import json
import re
import sys

PRIMS = {"int", "long", "double", "string", "bytes", "Bool", "true", "int128", "int256"}


def lean_str(s):
    """a byte string as a Lean `BStr` literal ⟨length, big-endian value⟩ (ASCII only)"""
    b = s.encode("ascii")
    return "⟨%d, 0x%s⟩" % (len(b), b.hex() if b else "0")


def parse_type(t):
    """type expression -> Lean term of Mtv.Schema.STy"""
    if t == "#":
        return ".flagsWord"
    if t.startswith("!"):
        return "(.bang %s)" % lean_str(t[1:])
    m = re.fullmatch(r"(Vector|vector)<(.+)>", t)
    if m:
        return "(.vec %s %s)" % ("true" if m.group(1) == "Vector" else "false", parse_type(m.group(2)))
    if t.startswith("%"):
        return "(.bare %s)" % lean_str(t[1:])
    if t in PRIMS:
        return "(.prim %s)" % lean_str(t)
    return "(.ref %s)" % lean_str(t)


def main():
    name, src, out = sys.argv[1], sys.argv[2], sys.argv[3]
    defs = []
    meta = []
    skipped = []
    commented = []
    is_func = False
    for ln in open(src, encoding="utf-8"):
        line = " ".join(ln.strip().split())
        if line.startswith("//"):
            # a definition that the file carries only as a comment (not part of the schema)
            mc = re.fullmatch(r"// ?([A-Za-z0-9_.]+)#([0-9a-fA-F]+)( [^=]*)? = ([^;]+);", line)
            if mc:
                commented.append("(%s, 0x%s)" % (json.dumps(mc.group(1)), mc.group(2)))
            continue
        if not line:
            continue
        if line == "---functions---":
            is_func = True
            continue
        if line == "---types---":
            is_func = False
            continue
        if not line.endswith(";"):
            skipped.append(line)
            continue
        body = line[:-1].strip()
        m = re.fullmatch(r"([A-Za-z0-9_.]+)#([0-9a-fA-F]+)((?: [^=]+)?) = (.+)", body)
        if not m:
            skipped.append(line)      # builtins without an id: int ? = Int; vector {t:Type} …; message …
            continue
        dname, idtext, ptext, result = m.group(1), m.group(2), m.group(3).strip(), m.group(4).strip()
        params = []
        for tok in ptext.split():
            if tok.startswith("{") and tok.endswith("}"):
                params.append("⟨%s, none, (.typeParam %s)⟩" % (lean_str(tok[1:-1].split(":")[0]), lean_str(tok[1:-1].split(":")[1])))
                continue
            pname, ptype = tok.split(":", 1)
            cond = "none"
            mm = re.fullmatch(r"flags\.(\d+)\?(.+)", ptype)
            if mm:
                cond = "(some %s)" % mm.group(1)
                ptype = mm.group(2)
            params.append("⟨%s, %s, %s⟩" % (lean_str(pname), cond, parse_type(ptype)))
        meta.append((int(idtext, 16), result, is_func, bool([t for t in ptext.split()])))
        defs.append((int(idtext, 16), "/- %s -/ ⟨%s, 0x%s, %s, [%s], %s, %s, %s, %s⟩" % (
            body.replace("-/", "- /"), lean_str(dname), idtext, lean_str(idtext), ", ".join(params), lean_str(result),
            parse_type(result),
            "true" if is_func else "false", lean_str(body))))
    defs = [t for _, t in sorted(defs, key=lambda x: x[0])]   # by id: the registry is sorted the same way
    chunk = 40
    with open(out + ".tmp", "w", encoding="utf-8") as f:
        f.write("/- GENERATED on every run from %s by tools/tl2lean.py. Never committed. -/\n" % src)
        f.write("import Mtv.Schema.Types\nnamespace Mtv.Gen\nopen Mtv.Schema\n\n")
        n = 0
        for i in range(0, len(defs), chunk):
            f.write("def schema%s%d : List Def := [\n  " % (name, n))
            f.write(",\n  ".join(defs[i:i + chunk]))
            f.write("\n]\n\n")
            n += 1
        f.write("def schema%sChunks : List (List Def) := [%s]\n\n" % (name, ", ".join("schema%s%d" % (name, k) for k in range(n))))
        f.write("def schema%s : List Def := schema%sChunks.flatten\n\n" % (name, name))
        # the tables `mkTypeTable` / `mkNonEnum` compute, as literals (Lean proves them equal)
        tt = {}
        order = []
        nonenum = []
        for (cid, res, isf, hasp) in sorted(meta):
            if isf:
                continue
            if res not in tt:
                tt[res] = []
                order.append(res)
            tt[res].append(cid)
            if hasp and res not in nonenum:
                nonenum.append(res)
        f.write("def typeTable%s : List (BStr × List Nat) := [\n  %s\n]\n\n" % (
            name, ",\n  ".join("(%s, [%s])" % (lean_str(r), ", ".join("0x%08x" % c for c in tt[r])) for r in order)))
        f.write("def nonEnum%s : List BStr := [%s]\n\n" % (name, ", ".join(lean_str(r) for r in nonenum)))
        f.write("/-- definitions that occur only inside comments of the file (name, id): not part of the schema -/\n")
        f.write("def schema%sCommented : List (String × Nat) := [%s]\n\n" % (name, ", ".join(commented)))
        f.write("/-- lines of the file that carry no constructor id (builtins) and are not translated -/\n")
        f.write("def schema%sSkipped : List String := [%s]\n\nend Mtv.Gen\n" % (name, ", ".join(json.dumps(s) for s in skipped)))
    import os
    new = open(out + ".tmp", encoding="utf-8").read()
    if os.path.exists(out) and open(out, encoding="utf-8").read() == new:
        os.remove(out + ".tmp")
    else:
        os.replace(out + ".tmp", out)


if __name__ == "__main__":
    main()
