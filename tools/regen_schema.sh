#!/bin/sh
# Regenerates lean/Mtv/Gen/Schema{Api,Mt}.lean (the shipped TL schemas as Lean data) and
# lean/Mtv/Gen/Methods.lean (facts about the generated client methods and hand-written wrappers),
# lean/Mtv/Gen/Registry.lean (tools/regen_registry.sh) and lean/Mtv/Gen/RegistryFields.lean (every field of
# every registered struct with its tag as written: harness/cmd/c13fields, built against the same tree).
set -e
cd "$(dirname "$0")/.."
export GOFLAGS=-mod=mod GOPROXY=off GOSUMDB=off GOTOOLCHAIN=local CGO_ENABLED=0
REPO="${VERIF_REPO:-/repo}"
mkdir -p .build lean/Mtv/Gen
python3 tools/tl2lean.py Api "$REPO/schemes/api_latest.tl" lean/Mtv/Gen/SchemaApi.lean
python3 tools/tl2lean.py Mt "$REPO/schemes/mtproto.tl" lean/Mtv/Gen/SchemaMt.lean
(cd harness && go build -o ../.build/c13facts ./cmd/c13facts)
.build/c13facts "$REPO" lean/Mtv/Gen/Methods.lean
tools/regen_registry.sh
if [ "$REPO" != "/repo" ]; then
  # .build/regdump.go.mod (replace => $REPO) was written by regen_registry.sh just now
  (cd harness && go build -tags verif -modfile ../.build/regdump.go.mod -o ../.build/c13fields ./cmd/c13fields)
else
  (cd harness && go build -tags verif -o ../.build/c13fields ./cmd/c13fields)
fi
.build/c13fields lean/Mtv/Gen/RegistryFields.lean
python3 tools/gen_c13.py
