#!/bin/sh
# Regenerates lean/Mtv/Gen/ClientSkeleton.lean (properties C09/C10/C11/C16) from the working tree of
# xelaj/mtproto (${VERIF_REPO:-/repo}): the ordered statement skeleton of sendPacket, writeRPCResponse
# (network.go), makeRequest, processResponse and the cases of dispatchResponse (mtproto.go).
# The file is written only when its content changes.
set -e
cd "$(dirname "$0")/.."
export GOFLAGS=-mod=mod GOPROXY=off GOSUMDB=off GOTOOLCHAIN=local CGO_ENABLED=0
mkdir -p .build lean/Mtv/Gen
(cd harness && go build -o ../.build/c09facts ./cmd/c09facts)
.build/c09facts -repo "${VERIF_REPO:-/repo}" -lean lean/Mtv/Gen/ClientSkeleton.lean
