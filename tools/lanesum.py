#!/usr/bin/env python3
"""tools/lanesum.py <ids…|all9>: one line per seeded change from its meta.json (confirmation, first run)."""
import sys, json, os, glob
ids = sys.argv[1:]
if ids == ["all9"]:
    ids = sorted(os.path.basename(d) for d in glob.glob("/verif/seeded/C*-m1[67]"))
for i in ids:
    try: m = json.load(open("/verif/seeded/%s/meta.json" % i))
    except Exception as e: print(i, "no meta"); continue
    fr = m.get("first_run", {}); cb = m.get("caught_by")
    print("%-8s %-13s first: caught=%-5s input=%-5s %3ss | recheck=%s | %s" % (i, m["confirmation"]["result"][:13], fr.get("caught"), fr.get("with_input"), fr.get("seconds"), cb, "S" if "strengthened" in m else ""))
