#!/bin/bash
# tools/seedregress_wt.sh <repo copy> [id-glob]: like tools/seedregress.sh, but against a scratch copy of the repository
# (VERIF_REPO), so that it can run from a snapshot of /verif (`vp run --with-repo -- tools/seedregress_wt.sh
# '$VP_RUN_REPO'`) while /repo and /verif are in use. Prints one line per confirmed change: caught / MISSED.
R=$1; G=${2:-C*-m*}
V=$(cd "$(dirname "$0")/.." && pwd)
cd "$V"
export VERIF_REPO=$R VERIF_EVIDENCE_DIR=$V/.build/regress-evidence
mkdir -p "$VERIF_EVIDENCE_DIR"
for d in seeded/$G/; do
  id=$(basename $d)
  python3 - "$V/seeded/$id/meta.json" <<'PY' || continue
import json,sys
m=json.load(open(sys.argv[1]))
sys.exit(0 if m.get('confirmation',{}).get('result','').startswith('CONFIRMED') else 1)
PY
  p=${id%%-*}
  git -C "$R" checkout -q -- . ; git -C "$R" clean -qfd
  git -C "$R" apply "$V/seeded/$id/patch.diff" || { echo "$id DOES-NOT-APPLY"; continue; }
  out=$(timeout 1500 ./check $p 2>&1); rc=$?
  v=$(echo "$out" | grep -m1 '^VIOLATION')
  if [ $rc -eq 1 ] && [ -n "$v" ]; then echo "$id caught ${v##*replay=}" | cut -c1-160; else echo "$id MISSED: exit=$rc $(echo "$out" | tail -1 | cut -c1-160)"; fi
  git -C "$R" checkout -q -- . ; git -C "$R" clean -qfd
done
echo REGRESS-DONE
