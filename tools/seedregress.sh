#!/bin/bash
# tools/seedregress.sh: re-runs every confirmed seeded change against the check of its own property
# (tools/seed.py recheck) and lists the ones that are no longer caught. Takes about two hours.
cd /verif
for d in seeded/C*-m*/; do
  id=$(basename $d)
  python3 - "$id" <<'PY' || continue
import json,sys
m=json.load(open('/verif/seeded/%s/meta.json'%sys.argv[1]))
sys.exit(0 if m.get('confirmation',{}).get('result','').startswith('CONFIRMED') else 1)
PY
  prop=${id%%-*}
  out=$(tools/seed.py recheck $id --checks $prop 2>&1 | grep "^check=" | head -1)
  case "$out" in
    *"exit=1 VIOLATION"*"no-failing-input-found"*) echo "$id caught-no-input";;
    *"exit=1 VIOLATION"*) echo "$id caught";;
    *) echo "$id MISSED: $out";;
  esac
done
