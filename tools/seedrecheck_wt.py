#!/usr/bin/env python3
"""tools/seedrecheck_wt.py <id> [<id> …]   (env SEED_WT_PREFIX, default /tmp/seeds/wt9-)
Re-runs the property's own check for stored seeded changes against a scratch worktree of /repo's HEAD with the
change applied (never /repo itself, so it can run next to other work), and records the result in meta.json as
checks_run / caught_by — the same fields tools/seed.py recheck writes after `git -C /repo apply`."""
import sys, os, json, subprocess, time, re, shutil
V = "/verif"; pre = os.environ.get("SEED_WT_PREFIX", "/tmp/seeds/wt9-")
def sh(c, t=2400):
    try:
        p = subprocess.run(c, shell=True, capture_output=True, text=True, timeout=t); return p.returncode, (p.stdout + p.stderr).strip()
    except subprocess.TimeoutExpired: return 124, "timeout"
head = sh("git -C /repo rev-parse HEAD")[1]
for sid in sys.argv[1:]:
    P = sid.split("-")[0]; wt = pre + P; d = os.path.join(V, "seeded", sid)
    if not os.path.isdir(wt): sh("git -C /repo worktree add --detach %s HEAD" % wt)
    sh("git -C %s checkout -q -- . ; git -C %s clean -qfd; git -C %s checkout -q --detach %s" % (wt, wt, wt, head))
    rc, out = sh("git -C %s apply %s/patch.diff" % (wt, d))
    m = json.load(open(os.path.join(d, "meta.json")))
    if rc != 0:
        m["recheck_note"] = "patch no longer applies to /repo HEAD %s: %s" % (head[:7], out[:200]); print(sid, "patch does not apply"); json.dump(m, open(os.path.join(d, "meta.json"), "w"), indent=1); continue
    ev = "%s/.build/ev-rw-%s" % (V, sid); t0 = time.time()
    rc, out = sh("cd %s && VERIF_REPO=%s VERIF_EVIDENCE_DIR=%s timeout 1500 ./check %s 2>&1" % (V, wt, ev, P))
    v = [l for l in out.splitlines() if l.startswith("VIOLATION")][:3]; line = " ".join(v) if v else "no-violation-line"
    caught = rc == 1 and bool(v)
    m["checks_run"] = {"cmd": "VERIF_REPO=<scratch worktree of /repo %s with the change applied> ./check %s" % (head[:7], P),
                       "results": [{"check": P, "exit": rc, "output": line[:300], "caught": caught, "with_input": caught and "no-failing-input-found" not in line}], "seconds": round(time.time() - t0)}
    m["caught_by"] = [P] if caught else []
    rp = re.search(r"replay=(\S+)", line)
    if rp and os.path.isfile(rp.group(1)): open(os.path.join(d, "replay.%s.txt" % P), "w").write(open(rp.group(1)).read()[:3000])
    json.dump(m, open(os.path.join(d, "meta.json"), "w"), indent=1)
    sh("git -C %s checkout -q -- . ; git -C %s clean -qfd" % (wt, wt)); shutil.rmtree(ev, ignore_errors=True)
    print(sid, "caught" if caught else "MISSED", "input" if (caught and "no-failing" not in line) else "", m["checks_run"]["seconds"], "s", flush=True)
