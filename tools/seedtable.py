#!/usr/bin/env python3
"""Regenerates seeded/README.md from seeded/*/meta.json (+ optional 'strengthened' notes in meta)."""
import json, glob, os
rows = []
notconf = []
for f in sorted(glob.glob("/verif/seeded/*/meta.json")):
    m = json.load(open(f))
    res = m.get("checks_run", {}).get("results", [])
    caught = []
    for r in res:
        if r["caught"]:
            caught.append(r["check"] + (" (no-failing-input-found)" if "no-failing-input-found" in r["output"] else ""))
    missed = [r["check"] for r in res if not r["caught"]]
    if not m.get("confirmation", {}).get("result", "").startswith("CONFIRMED"):
        notconf.append((m["id"], m.get("needs_to_manifest", ""), m.get("strengthened", "") or m.get("confirmation", {}).get("result", "")))
        continue
    rows.append((m["id"], m["property"], m.get("needs_to_manifest", ""), ", ".join(caught) or "—",
                 ", ".join(missed) or "", m.get("strengthened", ""), m.get("confirmation", {}).get("result", "")[:9]))
out = ["# Seeded changes", "",
       "Each directory holds one change to xelaj/mtproto produced by a fresh sub-agent that was given only the",
       "text of one property and its own scratch worktree (nothing from /verif): `patch.diff`, the agent's",
       "demonstration (`demo_test.go`/`run.sh`, `README.md`) and `meta.json`. Every change was confirmed in a",
       "scratch worktree (`tools/seedconfirm.sh`: builds, the repository's tests pass, the demonstration fails",
       "with the change and passes without it) and then run against the checks with `tools/seedtest.sh`",
       "(`git -C /repo apply`, `./check …`, undo). None is ever committed to /repo.", "",
       "\"strengthened\" says what was added to the machinery when the first run missed the change or caught it",
       "only as a broken correspondence without a failing input.", "",
       "| id | needs to manifest | caught by | not caught by (also run) | strengthened |", "|---|---|---|---|---|"]
for r in rows:
    out.append("| %s | %s | %s | %s | %s |" % (r[0], r[2], r[3], r[4], r[5]))
n = len(rows); c = sum(1 for r in rows if r[3] != "—")
out += ["", "%d changes, %d caught by the check of their own property or a neighbouring one." % (n, c), ""]
if notconf:
    out += ["## Not confirmed (kept for the record, not counted)", "", "| id | change | why not |", "|---|---|---|"]
    out += ["| %s | %s | %s |" % r for r in notconf] + [""]
open("/verif/seeded/README.md", "w").write("\n".join(out))
print("%d seeds, %d caught" % (n, c))
