#!/bin/bash
# tools/seedconfirm.sh <dir-with-patch.diff-and-run.sh> <scratch-worktree>
# Confirms a seeded change in a scratch worktree of /repo (never in /repo itself):
#   (a) builds, (b) the repository's existing tests pass with it, (c) its demonstration fails with the
#   change and passes without it. Prints CONFIRMED or NOT-CONFIRMED:<why>; leaves the worktree clean.
set -u
D=$(cd "$1" && pwd); WT=$2
export GOFLAGS=-mod=mod GOPROXY=off GOSUMDB=off GOTOOLCHAIN=local
clean() { git -C "$WT" checkout -q -- . ; git -C "$WT" clean -qfd; }
clean
git -C "$WT" checkout -q --detach "$(git -C /repo rev-parse HEAD)" || { echo "NOT-CONFIRMED: cannot move worktree to /repo HEAD"; exit 2; }
# the demonstration's run.sh was written for the agent's worktree path; run it with WT substituted
RUN="$D/.run.confirm.sh"; sed "s#/tmp/seeds/wt9\\?-C[0-9][0-9]#$WT#g" "$D/run.sh" > "$RUN"; chmod +x "$RUN"
( cd "$D" && bash "$RUN" ) > "$D/confirm.without.log" 2>&1; r0=$?
clean
git -C "$WT" apply "$D/patch.diff" || { echo "NOT-CONFIRMED: patch does not apply to /repo HEAD"; rm -f "$RUN"; exit 2; }
( cd "$WT" && go build ./... && (cd internal/cmd/tlgen && go build ./...) && (cd telegram/deeplinks && go build ./...) ) > "$D/confirm.build.log" 2>&1 || { echo "NOT-CONFIRMED: does not build"; clean; rm -f "$RUN"; exit 2; }
( cd "$WT" && go test -vet=off -count=1 ./... && (cd internal/cmd/tlgen && go test -vet=off -count=1 ./...) && (cd telegram/deeplinks && go test -vet=off -count=1 ./...) ) > "$D/confirm.tests.log" 2>&1; rt=$?
( cd "$D" && bash "$RUN" ) > "$D/confirm.with.log" 2>&1; r1=$?
clean; rm -f "$RUN"
if [ $rt -ne 0 ]; then echo "NOT-CONFIRMED: existing tests fail with the change"; exit 2; fi
if [ $r0 -ne 0 ]; then echo "NOT-CONFIRMED: demonstration fails on the unchanged tree (exit $r0)"; exit 2; fi
if [ $r1 -eq 0 ]; then echo "NOT-CONFIRMED: demonstration passes with the change"; exit 2; fi
echo "CONFIRMED builds=yes tests=pass demo_without=pass demo_with=fail($r1)"
