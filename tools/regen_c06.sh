#!/bin/sh
# Regenerates lean/Mtv/Gen/SplitPQFacts.lean (property C06) from the working tree of xelaj/mtproto
# (${VERIF_REPO:-/repo}): the statement skeleton of math.SplitPQ (internal/math/math.go) - the imports and
# package-level values it refers to, its signature, every statement of its body in order with the nesting.
# The file is written only when its content changes.
set -e
cd "$(dirname "$0")/.."
export GOFLAGS=-mod=mod GOPROXY=off GOSUMDB=off GOTOOLCHAIN=local CGO_ENABLED=0
mkdir -p .build lean/Mtv/Gen
(cd harness && go build -o ../.build/c06facts ./cmd/c06facts)
.build/c06facts -repo "${VERIF_REPO:-/repo}" -lean lean/Mtv/Gen/SplitPQFacts.lean
