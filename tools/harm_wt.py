#!/usr/bin/env python3
"""tools/harm_wt.py <lane-name> <id> …: re-runs stored behaviour-preserving changes (seeded/harmless/<id>) against a scratch
worktree of /repo's HEAD with the change applied (own check of the property); prints alarm / none per change and writes
.build/harm-<lane>.json. Does not touch /repo or the stored meta.json."""
import sys, os, json, subprocess, shutil
V = "/verif"
def sh(c, t=2400):
    try:
        p = subprocess.run(c, shell=True, capture_output=True, text=True, timeout=t); return p.returncode, (p.stdout + p.stderr).strip()
    except subprocess.TimeoutExpired: return 124, "timeout"
lane = sys.argv[1]; wt = "/tmp/seeds/wth-" + lane; res = {}
head = sh("git -C /repo rev-parse HEAD")[1]
if not os.path.isdir(wt): sh("git -C /repo worktree add --detach %s HEAD" % wt)
for hid in sys.argv[2:]:
    P = hid.split("-")[0]; d = os.path.join(V, "seeded", "harmless", hid)
    sh("git -C %s checkout -q -- . ; git -C %s clean -qfd; git -C %s checkout -q --detach %s" % (wt, wt, wt, head))
    rc, out = sh("git -C %s apply %s/patch.diff" % (wt, d))
    if rc != 0: res[hid] = "patch-does-not-apply"; print(hid, res[hid], flush=True); continue
    ev = "%s/.build/ev-h-%s" % (V, hid)
    rc, out = sh("cd %s && VERIF_REPO=%s VERIF_EVIDENCE_DIR=%s timeout 1500 ./check %s 2>&1" % (V, wt, ev, P))
    v = [l for l in out.splitlines() if l.startswith("VIOLATION")]
    res[hid] = "none" if rc == 0 and not v else ("alarm-without-input" if v and all("no-failing-input-found" in l for l in v) else "ALARM-WITH-INPUT" if v else "exit-%d" % rc)
    if res[hid] != "none":
        for l in v[:2]:
            import re
            m = re.search(r"replay=(\S+)", l)
            if m and os.path.isfile(m.group(1)): shutil.copy(m.group(1), "%s/.build/harm-replay-%s.json" % (V, hid))
    shutil.rmtree(ev, ignore_errors=True)
    print(hid, res[hid], flush=True)
    json.dump(res, open("%s/.build/harm-%s.json" % (V, lane), "w"), indent=1)
sh("git -C %s checkout -q -- . ; git -C %s clean -qfd" % (wt, wt))
