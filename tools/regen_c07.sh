#!/bin/sh
# Regenerates lean/Mtv/Gen/HsChecks.lean (properties C06/C07) from the working tree of xelaj/mtproto
# (${VERIF_REPO:-/repo}): the ordered check skeleton of makeAuthKey, the answer type assertions of the
# request wrappers, the implementers of the two answer interfaces, the cases of makeRequest's switch.
# The file is written only when its content changes.
set -e
cd "$(dirname "$0")/.."
export GOFLAGS=-mod=mod GOPROXY=off GOSUMDB=off GOTOOLCHAIN=local CGO_ENABLED=0
mkdir -p .build lean/Mtv/Gen
(cd harness && go build -o ../.build/c07facts ./cmd/c07facts)
.build/c07facts -repo "${VERIF_REPO:-/repo}" -lean lean/Mtv/Gen/HsChecks.lean
