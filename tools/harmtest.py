#!/usr/bin/env python3
"""tools/harmtest.py <Cxx> <hN> [--checks Cxx,Cyy]
Ingests a behaviour-preserving change produced by a sub-agent (/tmp/seeds/outh-Cxx/hN: patch.diff, README.md)
into /verif/seeded/harmless/Cxx-hN/, checks in the scratch worktree that it builds and the repository's
tests pass, then runs the named checks against /repo with the change applied (undone afterwards) and records
whether a check raised an alarm: none (what is wanted) / VIOLATION … no-failing-input-found (a broken proof or
correspondence without a failing input: allowed by the brief, unwanted) / VIOLATION with an input (a false alarm
of an oracle: must be corrected)."""
import sys, os, json, shutil, subprocess, re, argparse
V = "/verif"; WT = "/tmp/seeds/confirm-wt"
ENV = "export GOFLAGS=-mod=mod GOPROXY=off GOSUMDB=off GOTOOLCHAIN=local; "
def sh(cmd):
    p = subprocess.run(cmd, shell=True, capture_output=True, text=True); return p.returncode, (p.stdout + p.stderr).strip()
ap = argparse.ArgumentParser(); ap.add_argument("prop"); ap.add_argument("h"); ap.add_argument("--checks", default="")
a = ap.parse_args()
hid = "%s-%s" % (a.prop, a.h); src = "/tmp/seeds/outh-%s/%s" % (a.prop, a.h); dst = os.path.join(V, "seeded", "harmless", hid)
os.makedirs(dst, exist_ok=True)
for f in ("patch.diff", "README.md"):
    if os.path.exists(os.path.join(src, f)): shutil.copy(os.path.join(src, f), dst)
head = sh("git -C /repo rev-parse HEAD")[1]
sh("git -C %s checkout -q -- . ; git -C %s clean -qfd; git -C %s checkout -q --detach %s" % (WT, WT, WT, head))
rc, out = sh("git -C %s apply %s/patch.diff" % (WT, dst))
meta = {"id": hid, "property": a.prop, "kind": "behaviour-preserving change (must not raise an alarm)", "repo_commit": head[:7]}
if rc != 0:
    meta["status"] = "patch does not apply to /repo HEAD"; json.dump(meta, open(dst + "/meta.json", "w"), indent=1); print(hid, meta["status"]); sys.exit(2)
rc, out = sh(ENV + "cd %s && go build ./... && go build -tags verif ./... && go test -vet=off -count=1 ./... && (cd internal/cmd/tlgen && go test -vet=off -count=1 ./...) && (cd telegram/deeplinks && go test -vet=off -count=1 ./...)" % WT)
sh("git -C %s checkout -q -- . ; git -C %s clean -qfd" % (WT, WT))
if rc != 0:
    meta["status"] = "does not build / existing tests fail"; json.dump(meta, open(dst + "/meta.json", "w"), indent=1); print(hid, meta["status"]); sys.exit(2)
checks = [c for c in (a.checks or a.prop).split(",") if c]
rc, out = sh("%s/tools/seedtest.sh %s %s" % (V, dst, " ".join(checks)))
res = []
for l in out.splitlines():
    m = re.match(r"check=(\S+) exit=(\d+) (.*)", l)
    if m:
        alarm = "none" if m.group(2) == "0" and "VIOLATION" not in m.group(3) else ("no-failing-input-found" if "no-failing-input-found" in m.group(3) else "with-input")
        res.append({"check": m.group(1), "exit": int(m.group(2)), "alarm": alarm, "output": m.group(3)[:300]})
meta["status"] = "builds, tests pass"; meta["checks_run"] = res
json.dump(meta, open(dst + "/meta.json", "w"), indent=1)
print(hid, " ".join("%s:%s" % (r["check"], r["alarm"]) for r in res))
