#!/bin/sh
# Regenerates lean/Mtv/Gen/Registry.lean (the TL constructor registry of the working tree, read by
# reflection through the verif-tagged hook) — used by C01, C02, C13, C15.
set -e
cd "$(dirname "$0")/.."
export GOFLAGS=-mod=mod GOPROXY=off GOSUMDB=off GOTOOLCHAIN=local CGO_ENABLED=0
REPO="${VERIF_REPO:-/repo}"
mkdir -p .build lean/Mtv/Gen
cd harness
if [ "$REPO" != "/repo" ]; then
  sed "s#=> /repo#=> $REPO#" go.mod > ../.build/regdump.go.mod
  cp go.sum ../.build/regdump.go.sum
  go build -tags verif -modfile ../.build/regdump.go.mod -o ../.build/regdump ./cmd/regdump
else
  go build -tags verif -o ../.build/regdump ./cmd/regdump
fi
../.build/regdump ../lean/Mtv/Gen/Registry.lean
