#!/bin/bash
# tools/seedtest.sh <seeded/<id>-dir> <Cxx> [<Cyy> …]
# Applies a seeded change to /repo, runs the named checks (evidence diverted so that the committed
# evidence of the unchanged tree is untouched), and undoes the change straight afterwards.
set -u
D=$(cd "$1" && pwd); shift
[ -z "$(git -C /repo status --porcelain)" ] || { echo "/repo is not clean"; exit 2; }
export VERIF_EVIDENCE_DIR=/verif/.build/seed-evidence
mkdir -p "$VERIF_EVIDENCE_DIR"
trap 'git -C /repo apply -R "$D/patch.diff" 2>/dev/null; git -C /repo checkout -q -- .' EXIT
git -C /repo apply "$D/patch.diff" || exit 2
: > "$D/check_result.txt"
for P in "$@"; do
  out=$(cd /verif && timeout 1500 ./check "$P" 2>&1); rc=$?
  v=$(echo "$out" | grep -m3 '^VIOLATION' )
  echo "check=$P exit=$rc ${v:-no-violation-line}" | tee -a "$D/check_result.txt"
  rp=$(echo "$v" | head -1 | sed -n 's/.*replay=\([^ ]*\).*/\1/p')
  [ -n "$rp" ] && [ -f "$rp" ] && head -c 3000 "$rp" > "$D/replay.$P.txt"
done
