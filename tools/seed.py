#!/usr/bin/env python3
"""tools/seed.py ingest <Cxx> <mN> --needs "<what it needs to manifest>" [--checks Cxx,Cyy] [--src DIR]
Copies a seeded change produced by a sub-agent (patch.diff, demonstration, README.md) to
/verif/seeded/<Cxx>-<mN>/, confirms it in a scratch worktree (tools/seedconfirm.sh), runs the named
checks against /repo with the change applied (tools/seedtest.sh; the change is undone afterwards) and
writes meta.json.  `tools/seed.py recheck <id> [--checks …]` re-runs the checks for a stored change."""
import sys, os, json, shutil, subprocess, argparse, re, time
V = "/verif"
WT = "/tmp/seeds/confirm-wt"

def sh(cmd):
    p = subprocess.run(cmd, shell=True, capture_output=True, text=True)
    return p.returncode, (p.stdout + p.stderr).strip()

def props():
    return {json.loads(l)["id"]: json.loads(l) for l in open(V + "/properties.jsonl") if l.strip()}

def main():
    ap = argparse.ArgumentParser()
    ap.add_argument("cmd"); ap.add_argument("prop"); ap.add_argument("m", nargs="?")
    ap.add_argument("--needs", default=""); ap.add_argument("--checks", default=""); ap.add_argument("--src", default=""); ap.add_argument("--no-checks", action="store_true")
    a = ap.parse_args()
    if a.cmd == "ingest":
        sid = "%s-%s" % (a.prop, a.m)
        src = a.src or "/tmp/seeds/%s-%s/%s" % ({"m3": "out2", "m4": "out2", "m5": "out3", "m6": "out3", "m7": "out4", "m8": "out4", "m9": "out5", "m10": "out5", "m11": "out6", "m12": "out6", "m13": "out7", "m14": "out7"}.get(a.m, "out"), a.prop, a.m)
        dst = os.path.join(V, "seeded", sid)
        os.makedirs(dst, exist_ok=True)
        for f in os.listdir(src):
            if os.path.isfile(os.path.join(src, f)) and not f.startswith("confirm."):
                shutil.copy(os.path.join(src, f), dst)
        rc, out = sh("WT=%s %s/tools/seedconfirm.sh %s %s" % (WT, V, dst, WT))
        print(out)
        confirmed = out.strip().splitlines()[-1] if out.strip() else "NOT-CONFIRMED: no output"
        meta = {"id": sid, "property": a.prop, "needs_to_manifest": a.needs,
                "repo_commit": sh("git -C /repo rev-parse --short HEAD")[1],
                "confirmation": {"cmd": "tools/seedconfirm.sh seeded/%s <scratch worktree>" % sid, "result": confirmed},
                "origin": "fresh sub-agent given only the property text and a scratch worktree"}
        json.dump(meta, open(os.path.join(dst, "meta.json"), "w"), indent=1)
        if not confirmed.startswith("CONFIRMED"):
            return 2
        if a.no_checks:
            return 0
    else:
        sid = a.prop if a.m is None else "%s-%s" % (a.prop, a.m)
        dst = os.path.join(V, "seeded", sid)
        meta = json.load(open(os.path.join(dst, "meta.json")))
    checks = [c for c in (a.checks or meta["property"]).split(",") if c]
    t0 = time.time()
    rc, out = sh("%s/tools/seedtest.sh %s %s" % (V, dst, " ".join(checks)))
    print(out)
    res = []
    for l in out.splitlines():
        m = re.match(r"check=(\S+) exit=(\d+) (.*)", l)
        if m:
            res.append({"check": m.group(1), "exit": int(m.group(2)), "output": m.group(3)[:300],
                        "caught": int(m.group(2)) == 1 and "VIOLATION" in m.group(3)})
    meta["checks_run"] = {"cmd": "tools/seedtest.sh seeded/%s %s" % (sid, " ".join(checks)),
                          "results": res, "seconds": round(time.time() - t0)}
    meta["caught_by"] = [r["check"] for r in res if r["caught"]]
    json.dump(meta, open(os.path.join(dst, "meta.json"), "w"), indent=1)
    return 0

sys.exit(main())
