#!/bin/sh
# Regenerates lean/Mtv/Gen/CallGraph.lean (C19) from the working tree, so that the first full Lean build
# of setup.sh finds it (./check C19 regenerates it again on every run).
set -e
cd "$(dirname "$0")/.."
export GOFLAGS=-mod=mod GOPROXY=off GOSUMDB=off GOTOOLCHAIN=local CGO_ENABLED=0
REPO=${VERIF_REPO:-/repo}
mkdir -p .build lean/Mtv/Gen
[ -f harness-c19/go.sum ] || cp "$REPO/go.sum" harness-c19/go.sum 2>/dev/null || true
(cd harness-c19 && go build -o ../.build/c19graph ./cmd/c19graph)
.build/c19graph -repo "$REPO" -out lean/Mtv/Gen/CallGraph.lean -json .build/c19graph.setup.json >/dev/null
echo "c19graph: call graph regenerated"
