#!/bin/bash
# tools/wtcheck.sh <seed id> <check> [tier]: runs one check against a scratch worktree (/tmp/seeds/wt-<Cxx>) with the
# seeded change applied (diagnosis while /repo is busy; the recorded result comes from tools/seed.py recheck).
id=$1; c=$2; tier=${3:-quick}; W=${SEED_WT_PREFIX:-/tmp/seeds/wt-}${id%%-*}
git -C $W checkout -q -- . ; git -C $W clean -qfd
git -C $W apply /verif/seeded/$id/patch.diff || exit 2
cd /verif && VERIF_REPO=$W VERIF_EVIDENCE_DIR=/verif/.build/ev-wt-$id ./check $c --tier $tier 2>&1 | tail -4 | cut -c1-400
git -C $W checkout -q -- . ; git -C $W clean -qfd
