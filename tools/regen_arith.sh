#!/bin/sh
# Regenerates lean/Mtv/Gen/Arith.lean (properties C04/C05/C08/C10) from the working tree of xelaj/mtproto
# (${VERIF_REPO:-/repo}): the integer arithmetic of GenerateMessageId, ige.Encrypt, EncryptMessageWithTempKeys,
# abridged WriteMsg and DeserializeEncrypted, operator by operator, as definitions over BitVec 64.
# The file is written only when its content changes.
set -e
cd "$(dirname "$0")/.."
export GOFLAGS=-mod=mod GOPROXY=off GOSUMDB=off GOTOOLCHAIN=local CGO_ENABLED=0
mkdir -p .build lean/Mtv/Gen
(cd harness && go build -o ../.build/arithfacts ./cmd/arithfacts)
.build/arithfacts -repo "${VERIF_REPO:-/repo}" -lean lean/Mtv/Gen/Arith.lean
