"""Shared machinery of the /verif checks: building the Go harness from the current /repo working
tree, building and auditing the Lean project, running the correspondence (Go harness vs Lean
driver on the same operation lines), the violation protocol, known findings, evidence files."""
import fcntl
import hashlib
import json
import os
import re
import shutil
import subprocess
import sys
import time

VERIF = os.path.dirname(os.path.dirname(os.path.abspath(__file__)))
LEAN = os.path.join(VERIF, "lean")
HARNESS = os.path.join(VERIF, "harness")
BUILD = os.path.join(VERIF, ".build")
# VERIF_EVIDENCE_DIR: used by tools/seedtest.sh so that runs against a deliberately broken tree do
# not overwrite the committed evidence of the unchanged tree
EVID = os.environ.get("VERIF_EVIDENCE_DIR") or os.path.join(VERIF, "evidence")
REPLAYS = os.path.join(EVID, "replays")


def driver_path(prop):
    return os.path.join(LEAN, ".lake", "build", "bin", "drv-" + prop.lower())


def vh_path(prop):
    return os.path.join(BUILD, "vh-" + prop.lower())


def same_up_to_unknown_errors(g, l):
    """The Go side prints the error class `err:?` when the code refused with an error text the harness does not
    know (a reworded message): the line then agrees with the model's line whatever error class the model names
    at that place. Known texts are still compared class by class."""
    if "err:?" not in g:
        return False
    pat = re.escape(g).replace(re.escape("err:?"), r"err:[^ ,;]*")
    return re.fullmatch(pat, l) is not None


ALLOWED_AXIOMS = {"propext", "Classical.choice", "Quot.sound"}
FORBIDDEN = re.compile(r"\b(sorry|admit|native_decide|bv_decide|implemented_by|unsafe)\b|^\s*axiom\s|maxHeartbeats\s+0\b")

TRUSTED_BASE = [
    "Lean 4.33.0 kernel (thorough tier: re-checked by leanchecker)",
    "axioms allowed in property theorems: propext, Classical.choice, Quot.sound (audited with #print axioms on every run)",
    "the Go harness (cmd/vh): canonicalisation of results, its independent spec oracle (Judge), the diff",
    "Go toolchain and standard library; go-dry CancelableReader as used by the repository",
]


def go_env(repo):
    e = dict(os.environ)
    e.update({"GOFLAGS": "-mod=mod", "GOPROXY": "off", "GOSUMDB": "off", "GOTOOLCHAIN": "local",
              "CGO_ENABLED": "0"})
    return e


class Lock:
    def __init__(self, name):
        os.makedirs(BUILD, exist_ok=True)
        self.path = os.path.join(BUILD, name + ".lock")

    def __enter__(self):
        self.f = open(self.path, "w")
        fcntl.flock(self.f, fcntl.LOCK_EX)
        return self

    def __exit__(self, *a):
        fcntl.flock(self.f, fcntl.LOCK_UN)
        self.f.close()


def _limit_as():
    import resource
    lim = 24 << 30
    try:
        resource.setrlimit(resource.RLIMIT_AS, (lim, lim))
    except (ValueError, OSError):
        pass


def run(cmd, cwd=None, env=None, timeout=None, stdin=None, stdout=subprocess.PIPE, limit_mem=False):
    try:
        p = subprocess.run(cmd, cwd=cwd, env=env, timeout=timeout, stdin=stdin, stdout=stdout,
                           stderr=subprocess.STDOUT, text=True, preexec_fn=_limit_as if limit_mem else None)
    except subprocess.TimeoutExpired as e:
        out = e.stdout if isinstance(e.stdout, str) else (e.stdout or b"").decode(errors="replace")
        return 124, (out or "") + "\n[timeout after %ss]" % timeout
    return p.returncode, p.stdout if p.stdout is not None else ""


class Ctx:
    def __init__(self, prop, tier, seed, repo):
        self.prop = prop
        self.tier = tier
        self.seed = seed
        self.repo = repo
        self.t0 = time.time()
        self.work = os.path.join(BUILD, "run", "%s-%d" % (prop, os.getpid()))
        shutil.rmtree(self.work, ignore_errors=True)
        os.makedirs(self.work, exist_ok=True)
        self.obligations = []      # (name, ok, detail)
        self.violations = []       # dicts
        self.known_hits = {}       # finding id -> description
        self.known_ops = set()
        self.notes = []
        self.coverage_extra = {}
        self.assumptions = []
        self.samples = []
        self.evaluations = 0
        self.distinct = 0
        self.findings = load_findings(prop)

    # ---- building ------------------------------------------------------------------------------
    def build_harness(self, extra_files=()):
        """go build -tags verif of this property's harness (framework files, shared x_*.go files,
        the property's own cXX*.go files) against the repo's current working tree."""
        import glob
        sub = self.prop.lower()
        d = os.path.join(HARNESS, "cmd", "vh")
        files = ["main.go", "util.go"] + sorted(os.path.basename(f) for f in glob.glob(os.path.join(d, "x_*.go"))) \
            + sorted(os.path.basename(f) for f in glob.glob(os.path.join(d, sub + "*.go"))) + list(extra_files)
        files = [os.path.join("cmd", "vh", f) for f in dict.fromkeys(files)]
        with Lock("go-" + sub):
            env = go_env(self.repo)
            # the binary belongs to this run (its own directory): a concurrent run of the same check against
            # another tree (VERIF_REPO) must not replace it between build and use
            self.vh_bin = os.path.join(self.work, "vh-" + sub)
            args = ["go", "build", "-tags", "verif", "-o", self.vh_bin]
            covdir = None
            if os.environ.get("VERIF_COVER"):
                # tools/cover.py: statement coverage of the library under this check's operations. The counters are
                # only written by a binary built from a package directory, not from a list of files
                covdir = os.path.join(HARNESS, "cmd", "zcov%d" % os.getpid())
                shutil.rmtree(covdir, ignore_errors=True); os.makedirs(covdir)
                for f in files:
                    shutil.copy(os.path.join(HARNESS, f), covdir)
                files = ["./cmd/" + os.path.basename(covdir)]
                args += ["-cover", "-coverpkg=github.com/xelaj/mtproto/..."]
            if os.path.realpath(self.repo) != "/repo":
                mf = os.path.join(self.work, "go.mod")
                txt = open(os.path.join(HARNESS, "go.mod")).read().replace("=> /repo", "=> " + self.repo)
                open(mf, "w").write(txt)
                shutil.copy(os.path.join(HARNESS, "go.sum"), os.path.join(self.work, "go.sum"))
                args += ["-modfile", mf]
            args += files
            rc, out = run(args, cwd=HARNESS, env=env, timeout=900)
            if covdir:
                shutil.rmtree(covdir, ignore_errors=True)
        if rc != 0:
            self.obligation("go build -tags verif (harness + /repo working tree)", False, out[-3000:])
            return False
        return True

    def lake(self, targets, timeout=3000):
        with Lock("lake"):
            rc, out = run(["lake", "build"] + targets, cwd=LEAN, timeout=timeout)
        return rc, out

    def lean_check(self, modules, theorems, extra_modules=()):
        """Build the property modules and the driver; audit every property theorem's axioms."""
        t = time.time()
        rc, out = self.lake(list(modules) + list(extra_modules) + ["drv-" + self.prop.lower()])
        if rc != 0:
            # find which theorem/file failed
            errs = [l for l in out.splitlines() if "error" in l][:12]
            self.obligation("lake build " + " ".join(modules), False, "\n".join(errs))
            return False
        self.obligation("lake build " + " ".join(modules) + " drv-" + self.prop.lower(), True, "")
        # forbidden constructs in all proof/model sources
        bad = grep_forbidden()
        self.obligation("no sorry/admit/axiom/native_decide/bv_decide/implemented_by/unsafe in lean sources",
                        not bad, "; ".join(bad[:5]))
        # axioms audit
        os.makedirs(os.path.join(BUILD, "audit"), exist_ok=True)
        af = os.path.join(BUILD, "audit", "%s_%d.lean" % (self.prop, os.getpid()))
        with open(af, "w") as f:
            for m in modules:
                f.write("import %s\n" % m)
            for th in theorems:
                f.write("#print axioms %s\n" % th)
        with Lock("lake"):
            rc, out = run(["lake", "env", "lean", af], cwd=LEAN, timeout=900)
        os.remove(af)
        found = {}
        for m in re.finditer(r"'([^']+)' (depends on axioms: \[([^\]]*)\]|does not depend on any axioms)", out.replace("\n", " ")):
            ax = [a.strip() for a in (m.group(3) or "").split(",") if a.strip()]
            found[m.group(1)] = ax
        ok_all = True
        for th in theorems:
            if th not in found:
                self.obligation("theorem " + th, False, "not found / does not elaborate: " + out[-400:])
                ok_all = False
                continue
            extra = [a for a in found[th] if a not in ALLOWED_AXIOMS]
            self.obligation("theorem " + th, not extra, "axioms: " + ",".join(found[th]))
            ok_all = ok_all and not extra
        self.coverage_extra["lean_wall_s"] = round(time.time() - t, 1)
        if self.tier == "thorough":
            for m in modules:
                with Lock("lake"):
                    rc, out = run(["lake", "env", "leanchecker", m], cwd=LEAN, timeout=3000)
                self.obligation("leanchecker " + m, rc == 0, out[-300:])
        return ok_all

    def obligation(self, name, ok, detail):
        self.obligations.append((name, bool(ok), detail))

    # ---- correspondence ------------------------------------------------------------------------
    def vh(self, sub, extra_args, d, timeout=3000):
        os.makedirs(d, exist_ok=True)
        env = dict(os.environ)
        env.setdefault("GOMEMLIMIT", "6GiB")
        if os.environ.get("VERIF_COVER"):
            env["GOCOVERDIR"] = os.environ["VERIF_COVER"]
        rc, out = run([getattr(self, "vh_bin", None) or vh_path(self.prop), sub, "-dir", d] + extra_args, cwd=self.work, env=env, timeout=timeout,
                      limit_mem=True)
        return rc, out

    def driver(self, d, timeout=3000):
        with open(os.path.join(d, "ops.txt")) as fin, open(os.path.join(d, "lean.out"), "w") as fout:
            p = subprocess.run([driver_path(self.prop)], stdin=fin, stdout=fout, stderr=subprocess.PIPE, timeout=timeout)
        return p.returncode, p.stderr.decode(errors="replace")

    def correspond(self, sub, ops_file=None, label="gen", seed=None, tier=None):
        """Run the Go harness (generation or replay of ops) and the Lean driver on the same ops.
        Returns (mismatches, judge_violations, meta)."""
        d = os.path.join(self.work, "%s-%s" % (sub, label))
        shutil.rmtree(d, ignore_errors=True)
        args = ["-seed", str(self.seed if seed is None else seed), "-tier", tier or self.tier]
        if ops_file:
            args += ["-ops", ops_file]
        rc, out = self.vh(sub, args, d)
        if rc != 0 or not os.path.exists(os.path.join(d, "meta.json")):
            # the harness itself died (fatal error, OOM, timeout): the culprit is the op written to
            # ops.txt that has no result line in go.out
            last = ""
            try:
                ops = open(os.path.join(d, "ops.txt")).read().splitlines()
                done = open(os.path.join(d, "go.out")).read().splitlines()
                last = ops[len(done)] if len(done) < len(ops) else (ops[-1] if ops else "")
            except OSError:
                pass
            return [], [{"op": last, "out": "process-died", "why": "the harness process died while running this operation (fatal error / out of memory / timeout): " + out[-400:]}], {}
        rc, err = self.driver(d)
        ops = open(os.path.join(d, "ops.txt")).read().splitlines()
        go = open(os.path.join(d, "go.out")).read().splitlines()
        le = open(os.path.join(d, "lean.out")).read().splitlines()
        meta = json.load(open(os.path.join(d, "meta.json")))
        mism = []
        if rc != 0:
            mism.append({"op": ops[len(le)] if len(le) < len(ops) else "", "go": "", "lean": "driver-crashed: " + err[-300:]})
        for i, op in enumerate(ops):
            g = go[i] if i < len(go) else "<missing>"
            l = le[i] if i < len(le) else "<missing>"
            if g != l and not same_up_to_unknown_errors(g, l):
                mism.append({"op": op, "go": g, "lean": l})
        self.evaluations += meta.get("evaluations", 0)
        self.distinct += meta.get("distinct_ops", 0)
        for s in meta.get("samples", [])[:4]:
            if len(self.samples) < 8:
                self.samples.append(s)
        key = "distribution" if label == "gen" else "distribution_" + label
        self.coverage_extra[key] = {"tags": meta.get("tags"), "out_classes": meta.get("out_classes"),
                                    "extra": meta.get("extra")}
        return mism, meta.get("judge_violations") or [], meta

    # ---- violation protocol --------------------------------------------------------------------
    def match_finding(self, v):
        for f in self.findings:
            if f.get("kind") != "finding":
                continue
            m = f.get("match", {})
            ok = True
            for k, rx in m.items():
                field = {"op_regex": "op", "why_regex": "why", "out_regex": "out"}.get(k)
                if field is None or not re.search(rx, v.get(field, "")):
                    ok = False
            if ok:
                return f
        return None

    def report_failing_input(self, v, source):
        """v: {op, out, why}. A concrete failing input on the real code."""
        f = self.match_finding(v)
        if f is not None:
            self.known_hits[f["id"]] = f.get("description", "")
            self.known_ops.add(v.get("op", ""))
            return
        v = dict(v)
        v["source"] = source
        self.violations.append(v)

    def report_unexplained(self, what, detail):
        self.violations.append({"no_input": True, "what": what, "detail": detail})

    def finish(self, level="proof", checker_cmd="", rule="", extra_trusted=()):
        os.makedirs(REPLAYS, exist_ok=True)
        lines = []
        # one replay per distinct violation (cap the number written)
        seen = set()
        nviol = 0
        for v in self.violations:
            if v.get("no_input"):
                key = "noinput:" + v["what"]
            else:
                key = v["op"] + "|" + v.get("why", "")[:80]
            if key in seen:
                continue
            seen.add(key)
            nviol += 1
            if nviol > 3:
                continue
            h = hashlib.sha1(key.encode()).hexdigest()[:12]
            path = os.path.join(REPLAYS, "%s-%s.json" % (self.prop, h))
            rep = {"property": self.prop, "seed": self.seed, "tier": self.tier}
            if v.get("no_input"):
                rep.update({"kind": "no-failing-input-found", "unchecked": v["what"], "detail": v["detail"]})
                json.dump(rep, open(path, "w"), indent=1)
                lines.append("VIOLATION property=%s replay=%s no-failing-input-found" % (self.prop, path))
            else:
                rep.update({"kind": "failing-input", "ops": v.get("ops") or [v["op"]], "observed": v.get("out", ""),
                            "why": v.get("why", ""), "source": v.get("source", "")})
                json.dump(rep, open(path, "w"), indent=1)
                lines.append("VIOLATION property=%s replay=%s" % (self.prop, path))
        for fid, desc in sorted(self.known_hits.items()):
            print("KNOWN-FINDING: property=%s %s: %s" % (self.prop, fid, desc))
        for l in lines:
            print(l)
        nob = len(self.obligations)
        ndis = sum(1 for o in self.obligations if o[1])
        cov = {
            "obligations": nob,
            "discharged": ndis,
            "checker_cmd": checker_cmd or "lake build Mtv.Props.%s && lake env lean <audit: #print axioms of every property theorem>" % self.prop,
            "trusted_base": TRUSTED_BASE + list(extra_trusted),
            "obligation_list": [{"name": n, "ok": ok, "detail": d[:300]} for (n, ok, d) in self.obligations],
            "evaluations": self.evaluations,
            "distinct_nontrivial": self.distinct,
            "rule": rule,
            "samples": self.samples or [{"note": "no correspondence operations in this run"}],
            "known_findings_hit": sorted(self.known_hits.keys()),
        }
        cov.update(self.coverage_extra)
        ev = {
            "property_id": self.prop,
            "tier": self.tier,
            "seed": self.seed,
            "level": level,
            "coverage": cov,
            "assumptions": self.assumptions,
            "wall_s": round(time.time() - self.t0, 2),
            "violations": nviol,
        }
        os.makedirs(EVID, exist_ok=True)
        tmp = os.path.join(EVID, ".%s.json.%d" % (self.prop, os.getpid()))
        json.dump(ev, open(tmp, "w"), indent=1)
        os.replace(tmp, os.path.join(EVID, "%s.json" % self.prop))
        shutil.rmtree(self.work, ignore_errors=True)
        failed_ob = [o for o in self.obligations if not o[1]]
        print("%s: %d/%d obligations discharged, %d correspondence evaluations, %d violation(s), %d known finding(s), %.1fs" %
              (self.prop, ndis, nob, self.evaluations, nviol, len(self.known_hits), time.time() - self.t0))
        for o in failed_ob[:5]:
            print("  failed obligation: %s :: %s" % (o[0], o[2][:300].replace("\n", " | ")))
        return 1 if nviol else 0


ARITH_LEAN = os.path.join(LEAN, "Mtv", "Gen", "Arith.lean")
ARITH_THEOREMS = {
    "C10": ["Mtv.Arith.generateMessageId_is_genId", "Mtv.Arith.generateMessageId_after_2038_negative",
            "Mtv.Arith.sendPacketMsgId_is_nextId", "Mtv.Arith.seqNoContent_odd", "Mtv.Arith.seqNo_of_even",
            "Mtv.Arith.code_send_enabled"],
    "C05": ["Mtv.Arith.encryptPaddedLen_is_padLen", "Mtv.Arith.encryptPaddedLen_aligned", "Mtv.Arith.tempNeedToAdd_is_tempPadLen"],
    "C08": ["Mtv.Arith.abridged_length_bytes", "Mtv.Arith.code_abridged_frame"],
    "C04": ["Mtv.Arith.parityMod_is_mod4"],
}


def regen_arith(ctx):
    """gen_hook (C04 C05 C08 C10): the integer arithmetic of a few functions of the working tree, translated operator by
    operator into Lean definitions over BitVec 64 (harness/cmd/arithfacts, go/parser) — Mtv/Gen/Arith.lean. The theorems of
    Mtv/Props/Arith.lean relate them to the hand-written models and are re-checked by the kernel. A failing extraction
    removes the generated file, so that the proof build fails instead of using stale facts; when the definitions changed
    and the theorems no longer build, the boundary-table search of lean/Search/Arith.lean names inputs on which the code's
    arithmetic and the model differ (recorded with the obligation, i.e. in the replay of a violation without a run-time input)."""
    exe = os.path.join(BUILD, "arithfacts")
    with Lock("go-arithfacts"):
        rc, out = run(["go", "build", "-o", exe, "./cmd/arithfacts"], cwd=HARNESS, env=go_env(ctx.repo), timeout=600)
        if rc == 0:
            rc, out = run([exe, "-repo", ctx.repo, "-lean", ARITH_LEAN], timeout=120)
    ctx.obligation("arithfacts: integer arithmetic of GenerateMessageId, sendPacket (msg_id bump), serializePacket (seq_no), ige.Encrypt, "
                   "EncryptMessageWithTempKeys, abridged WriteMsg, DeserializeEncrypted translated from %s (go/parser)" % ctx.repo, rc == 0, out[-600:])
    if rc != 0:
        try:
            os.remove(ARITH_LEAN)
        except OSError:
            pass
        return False
    with Lock("lake"):
        rc2, out2 = run(["lake", "build", "Mtv.Props.Arith"], cwd=LEAN, timeout=1800)
    if rc2 != 0:
        with Lock("lake"):
            run(["lake", "build", "Mtv.Gen.Arith"], cwd=LEAN, timeout=600)
            rc3, out3 = run(["lake", "env", "lean", "Search/Arith.lean"], cwd=LEAN, timeout=600)
        found = [l for l in out3.splitlines() if l.startswith("arith-search")]
        errs = [l for l in out2.splitlines() if "error" in l][:6]
        ctx.obligation("Mtv.Props.Arith: the arithmetic as written in the working tree equals the models (kernel)", False,
                       "\n".join(errs + found) or out3[-400:])
        return False
    return True


def grep_forbidden():
    bad = []
    for root, _, files in os.walk(os.path.join(LEAN, "Mtv")):
        for fn in files:
            if not fn.endswith(".lean"):
                continue
            p = os.path.join(root, fn)
            incomment = 0
            try:
                lines = open(p, encoding="utf-8").read().splitlines(True)
            except FileNotFoundError:
                # a generated file (Mtv/Gen) that another property's check is regenerating right now: a module that
                # needs it fails its own build while it is missing
                continue
            for i, line in enumerate(lines, 1):
                # strip block and line comments (coarse but conservative)
                s = line
                out = ""
                j = 0
                while j < len(s):
                    if s.startswith("/-", j):
                        incomment += 1
                        j += 2
                    elif s.startswith("-/", j) and incomment:
                        incomment -= 1
                        j += 2
                    elif incomment:
                        j += 1
                    elif s.startswith("--", j):
                        break
                    else:
                        out += s[j]
                        j += 1
                if FORBIDDEN.search(out):
                    bad.append("%s:%d" % (os.path.relpath(p, LEAN), i))
    return bad


def load_findings(prop):
    p = os.path.join(VERIF, "known_findings.json")
    if not os.path.exists(p):
        return []
    data = json.load(open(p))
    out = [f for f in data.get("findings", []) if f.get("property") == prop]
    frag = os.path.join(VERIF, "known_findings.d", prop + ".json")
    if os.path.exists(frag):
        out += [f for f in json.load(open(frag)).get("findings", []) if f.get("property") == prop]
    return out


def generic_check(ctx, sub, modules, theorems, rule, search_seeds=(101, 202, 303), extra_trusted=(),
                  gen_hook=None, extra_modules=(), extra_files=()):
    """The standard pipeline: build harness; (regenerate); build+audit Lean; corpus; correspondence;
    violation protocol; evidence."""
    if not ctx.build_harness(extra_files):
        ctx.report_unexplained("go build of the harness against the working tree", ctx.obligations[-1][2][-800:])
        return ctx.finish(rule=rule, extra_trusted=extra_trusted)
    if gen_hook is not None:
        gen_hook(ctx)
    proofs_ok = ctx.lean_check(modules, theorems, extra_modules=extra_modules)
    broken = []
    if not proofs_ok:
        broken = [o for o in ctx.obligations if not o[1]]
    have_driver = os.path.exists(driver_path(ctx.prop))
    all_mism = []
    runs = []
    corpus = os.path.join(VERIF, "corpus", sub + ".ops")
    if os.path.exists(corpus):
        runs.append(("corpus", corpus, None, None))
    runs.append(("gen", None, None, None))
    for label, opsf, sd, tr in runs:
        if not have_driver:
            break
        mism, judged, meta = ctx.correspond(sub, ops_file=opsf, label=label, seed=sd, tier=tr)
        for v in judged:
            ctx.report_failing_input(v, "property oracle on the real code (%s)" % label)
        if mism:
            all_mism += mism
    explained_ops = {v["op"] for v in ctx.violations if not v.get("no_input")} | ctx.known_ops
    unexplained = [m for m in all_mism if m["op"] not in explained_ops]
    ctx.obligation("correspondence: Go implementation == Lean model on every generated operation",
                   not all_mism, "%d disagreement(s); first: %s" % (len(all_mism), json.dumps(all_mism[0])[:500]) if all_mism else "")

    def n_inputs():
        return len([v for v in ctx.violations if not v.get("no_input")])

    if (unexplained or broken) and n_inputs() == 0:
        # A proof obligation or the correspondence broke without a failing input at hand:
        # search for one (other seeds, wider generation) with the property oracle on the real code.
        before = n_inputs()
        if have_driver:
            for sd in search_seeds:
                mism, judged, meta = ctx.correspond(sub, label="search%d" % sd, seed=sd,
                                                    tier="thorough" if ctx.tier == "thorough" else "quick")
                for v in judged:
                    ctx.report_failing_input(v, "violation search after a broken proof obligation / correspondence (seed %d)" % sd)
                if n_inputs() > before:
                    break
        if n_inputs() == before:
            for m in unexplained[:1]:
                ctx.report_unexplained("correspondence op no longer agrees: " + m["op"][:300],
                                       {"op": m["op"], "go": m["go"][:600], "lean": m["lean"][:600], "count": len(unexplained)})
            for o in broken:
                ctx.report_unexplained("proof obligation no longer checks: " + o[0], o[2][:800])
    return ctx.finish(rule=rule, extra_trusted=extra_trusted)


def replay(ctx, sub, path):
    rep = json.load(open(path))
    if not ctx.build_harness():
        print("build failed")
        return 1
    ctx.lake(["drv-" + ctx.prop.lower()])
    if rep.get("kind") == "no-failing-input-found":
        print("replay names an unchecked obligation, not an input:", rep.get("unchecked"))
        print(json.dumps(rep.get("detail"))[:1500])
        return 1
    opsf = os.path.join(ctx.work, "replay.ops")
    open(opsf, "w").write("\n".join(rep["ops"]) + "\n")
    mism, judged, meta = ctx.correspond(sub, ops_file=opsf, label="replay")
    rc = 0
    for v in judged:
        print("REPRODUCED: op=%s\n  observed=%s\n  why=%s" % (v["op"][:500], v["out"][:500], v["why"][:500]))
        rc = 1
    for m in mism or []:
        print("MODEL-DISAGREES: op=%s\n  go=%s\n  lean=%s" % (m["op"][:500], m["go"][:500], m["lean"][:500]))
        rc = 1
    if rc == 0:
        print("replay passes: the recorded input no longer violates the property")
    shutil.rmtree(ctx.work, ignore_errors=True)
    return rc
