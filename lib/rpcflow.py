"""Two-stage flow shared by C09, C10, C11, C16 (the client machine):
stage 1: the Go harness runs scenarios on the real client against the scripted peer and judges each trace with
         its independent oracle (the property's clause);
stage 2: every trace is replayed through the Lean machine (`step`), and through the Go oracle again, and the two
         verdicts are compared (trace validation: the implementation's behaviour must be a run of the model)."""
import json
import os

import vlib


SKELETON_LEAN = os.path.join(vlib.LEAN, "Mtv", "Gen", "ClientSkeleton.lean")


def regen_skeleton(ctx):
    """gen_hook: the ordered statement skeleton of the client's send and receive paths (go/ast), from the
    working tree the harness was built against. A failing extraction removes the generated file, so that the
    proof build fails instead of silently using stale facts."""
    exe = os.path.join(vlib.BUILD, "c09facts")
    with vlib.Lock("go-c09facts"):
        rc, out = vlib.run(["go", "build", "-o", exe, "./cmd/c09facts"], cwd=vlib.HARNESS,
                           env=vlib.go_env(ctx.repo), timeout=600)
        if rc == 0:
            rc, out = vlib.run([exe, "-repo", ctx.repo, "-lean", SKELETON_LEAN], timeout=120)
    ctx.obligation("c09facts: statement skeleton of sendPacket, writeRPCResponse, makeRequest, processResponse, "
                   "dispatchResponse extracted from %s (go/parser)" % ctx.repo, rc == 0, out[-600:])
    if rc != 0:
        try:
            os.remove(SKELETON_LEAN)
        except OSError:
            pass
    return rc == 0


def run(ctx, sub, modules, theorems, rule, gen_hook=None):
    if not ctx.build_harness():
        ctx.report_unexplained("go build of the harness against the working tree", ctx.obligations[-1][2][-800:])
        return ctx.finish(rule=rule)
    if gen_hook is not None:
        gen_hook(ctx)
    ok = ctx.lean_check(modules, theorems)
    broken = [o for o in ctx.obligations if not o[1]]
    # stage 1 (corpus first)
    traces = []
    runs = []
    corpus = os.path.join(vlib.VERIF, "corpus", sub + ".ops")
    if os.path.exists(corpus):
        runs.append(("corpus", corpus))
    runs.append(("gen", None))
    for label, opsf in runs:
        d = os.path.join(ctx.work, "%s-%s" % (sub, label))
        args = ["-seed", str(ctx.seed), "-tier", ctx.tier]
        if opsf:
            args += ["-ops", opsf]
        rc, out = ctx.vh(sub, args, d)
        if rc != 0 or not os.path.exists(os.path.join(d, "meta.json")):
            last = ""
            try:
                ops = open(os.path.join(d, "ops.txt")).read().splitlines()
                done = open(os.path.join(d, "go.out")).read().splitlines()
                last = ops[len(done)] if len(done) < len(ops) else (ops[-1] if ops else "")
            except OSError:
                pass
            ctx.report_failing_input({"op": last, "out": "process-died",
                                      "why": "the client process died while running this scenario: " + out[-500:]},
                                     "stage 1 (%s)" % label)
            continue
        meta = json.load(open(os.path.join(d, "meta.json")))
        ctx.evaluations += meta.get("evaluations", 0)
        ctx.distinct += meta.get("distinct_ops", 0)
        ctx.coverage_extra["distribution_" + label] = {"tags": meta.get("tags")}
        for v in meta.get("judge_violations") or []:
            ctx.report_failing_input(v, "property oracle on the trace of the real client (%s)" % label)
        ops = open(os.path.join(d, "ops.txt")).read().splitlines()
        go = open(os.path.join(d, "go.out")).read().splitlines()
        for op, g in zip(ops, go):
            if " trace=" in g and g.startswith("note=- "):
                traces.append((op, g.split(" trace=", 1)[1]))
            if len(ctx.samples) < 3:
                ctx.samples.append({"scenario": op[:300], "trace": g[:600]})
    # stage 2: trace validation
    if traces and os.path.exists(vlib.driver_path(ctx.prop)):
        f = os.path.join(ctx.work, "stage2.ops")
        open(f, "w").write("\n".join("%s.trace %s" % (sub, t) for _, t in traces) + "\n")
        mism, judged, meta2 = ctx.correspond(sub, ops_file=f, label="traces")
        ctx.coverage_extra["traces_validated_against_impl"] = len(traces)
        bad = 0
        if mism:
            explained = {v["op"] for v in ctx.violations if not v.get("no_input")}
            for m in mism:
                idx = None
                # map the trace op back to its scenario
                for (op, t) in traces:
                    if m["op"].endswith(t):
                        idx = op
                        break
                bad += 1
                if idx in explained:
                    continue
                if m["go"].startswith("bad:"):
                    ctx.report_failing_input({"op": idx or m["op"][:300], "out": m["go"][:300], "why": m["go"][4:].replace("_", " ")},
                                             "property oracle on a trace (stage 2)")
                else:
                    ctx.report_unexplained("trace of the real client is not a run of the model: " + (idx or "")[:200],
                                           {"scenario": idx, "model": m["lean"][:400], "oracle": m["go"][:200], "trace": m["op"][:1500]})
        ctx.obligation("trace validation: every trace of the real client is a run of the Lean machine ending quiescent",
                       bad == 0, "%d of %d traces rejected" % (bad, len(traces)))
    concrete = [v for v in ctx.violations if not v.get("no_input")]
    if broken and not concrete:
        for o in broken:
            ctx.report_unexplained("proof obligation no longer checks: " + o[0], o[2][:800])
    return ctx.finish(rule=rule, extra_trusted=[
        "the scripted peer (own MTProto 1.0 server envelope and TL by hand), the scenario runner and the Go trace oracle",
        "goroutine scheduling is whatever the Go runtime does during the run: interleavings are sampled, not enumerated; "
        "preemption inside a machine step and data races are not modelled"])


def replay(ctx, sub, path):
    rep = json.load(open(path))
    if not ctx.build_harness():
        return 1
    ctx.lake(["drv-" + ctx.prop.lower()])
    if rep.get("kind") == "no-failing-input-found":
        print("replay names an unchecked obligation:", rep.get("unchecked"))
        print(json.dumps(rep.get("detail"))[:2000])
        return 1
    f = os.path.join(ctx.work, "replay.ops")
    open(f, "w").write("\n".join(rep["ops"]) + "\n")
    d = os.path.join(ctx.work, "replay")
    rc, out = ctx.vh(sub, ["-ops", f], d)
    if rc != 0:
        print("REPRODUCED: the client process died: " + out[-400:])
        return 1
    meta = json.load(open(os.path.join(d, "meta.json")))
    rcode = 0
    for v in meta.get("judge_violations") or []:
        print("REPRODUCED: %s\n  why=%s\n  trace=%s" % (v["op"][:400], v["why"][:400], v["out"][:800]))
        rcode = 1
    if rcode == 0:
        print("replay passes (note: scheduling is not replayed exactly; run it several times)")
    return rcode
