"""gen hook shared by the TL properties: regenerate Mtv/Gen/Registry.lean from the working tree."""
import os
import subprocess
import vlib


def regen_registry(ctx):
    env = dict(os.environ)
    env["VERIF_REPO"] = ctx.repo
    with vlib.Lock("regdump"):
        p = subprocess.run([os.path.join(vlib.VERIF, "tools", "regen_registry.sh")], env=env,
                           stdout=subprocess.PIPE, stderr=subprocess.STDOUT, text=True, timeout=900)
    ctx.obligation("regenerate Mtv/Gen/Registry.lean from the working tree (reflection over tl.VerifRegistry)",
                   p.returncode == 0, p.stdout[-1500:])
