/-
  Shared by the drivers of C06 and C07: the executable primitives plugged into the handshake model
  (Lean SHA-1, AES-256, square-and-multiply), token parsing and the canonical result line of one
  exchange (the same text the Go harness prints, `hsResultLine` in x_hsserver.go).
-/
import Driver.Util
import Mtv.Handshake.Server
import Mtv.Crypto.Aes
import Mtv.Crypto.Sha1
import Mtv.Gen.Registry
namespace Driver.Hs
open Mtv Mtv.Handshake Driver

def aesE (key : Bytes) : Bytes → Bytes :=
  let k := Mtv.Crypto.aes256Expand key
  fun b => Mtv.Crypto.aes256EncryptBlock k b

def aesD (key : Bytes) : Bytes → Bytes :=
  let k := Mtv.Crypto.aes256Expand key
  fun b => Mtv.Crypto.aes256DecryptBlock k b

/-- the factoring parameter from the operation's hint: `(p, q)` when they multiply to the asked number -/
def splitOf (hint : Option (Nat × Nat)) : Nat → Option (Nat × Nat) := fun pq =>
  match hint with
  | some (p, q) => if p * q = pq ∧ 1 < p ∧ p < q then some (p, q) else none
  | none => none

def prims (hint : Option (Nat × Nat)) : Prims :=
  { H := Mtv.Crypto.sha1, E := aesE, D := aesD, split := splitOf hint, gunzip := fun _ => none }

def showOutcome : Option (Outcome Unit) → String
  | none => "hang"
  | some (.ok _) => "ok"
  | some (.err k) => "err:" ++ k
  | some (.panic s) => if s = "recv" then "died" else "panic:" ++ s

def plainFrames : List Action → List Bytes
  | [] => []
  | .sendPlain b :: r => b :: plainFrames r
  | _ :: r => plainFrames r

def encCount : List Action → Nat
  | [] => 0
  | .sendEnc _ :: r => 1 + encCount r
  | _ :: r => encCount r

def stores : List Action → List String
  | [] => []
  | .saveSession k h s :: r => s!"{showBytes k}/{toHexD h}/{toSigned 64 s}/srv" :: stores r
  | _ :: r => stores r

def showBool (b : Bool) : String := if b then "true" else "false"

def resultLine (st : HsState) (acts : List Action) : String :=
  s!"res={showOutcome st.result} frames={showList ((plainFrames acts).map showBytes)} encframes={encCount acts} " ++
  s!"key={showBytes st.authKey} salt={toSigned 64 st.salt} enc={showBool st.encrypted} svc={showBool st.serviceMode} " ++
  s!"stored={showList (stores acts)}"

def hexNat? (s : String) : Option Nat := (parseBytes? s).map fromBE

def natList? (s : String) : Option (List Nat) := (splitComma s).mapM (·.toNat?)

end Driver.Hs
