import Driver.Util
namespace Driver.C11
open Mtv Driver

/-- operations of property C11; not built yet -/
def handle : List String → String
  | _ => "bad-op"

end Driver.C11
