import Driver.RpcTrace
namespace Driver.C11
def handle (toks : List String) : String := Driver.RpcTrace.handle "c11" toks
end Driver.C11
