import Driver.Util
import Mtv.Session.Store
import Mtv.Session.Start
import Mtv.Session.Cut
import Mtv.Crypto.Sha1
namespace Driver.C12
open Mtv Mtv.Session Driver

/-- `key,hash,salt,hostname` (bytes tokens, decimal salt) -/
def parseSess? (t : String) : Option Session :=
  match t.splitOn "," with
  | [k, h, s, n] => do
    pure { key := ← parseBytes? k, hash := ← parseBytes? h, salt := ← s.toInt?, hostname := ← parseBytes? n }
  | _ => none

def showSess (s : Session) : String :=
  s!"{showBytes s.key}/{showBytes s.hash}/{s.salt}/{showBytes s.hostname}"

def showRes : Outcome Session → String
  | .ok s => "ok:" ++ showSess s
  | .err k => "err:" ++ k
  | .panic p => "panic:" ++ p

def showUnit : Outcome Unit → String
  | .ok _ => "ok"
  | .err k => "err:" ++ k
  | .panic p => "panic:" ++ p

def str (s : String) : Bytes := s.toUTF8.toList

/-- the path a shape stands for, and the directories that exist -/
def baseShape? : String → Option (Path × List Path)
  | "abs" => some (str "/w/d/s.json", [str "/w/d/", str "."])
  | "rel" => some (str "d/s.json", [str "d/", str "."])
  | "dotrel" => some (str "./s.json", [str "./", str "."])
  | "bare" => some (str "s.json", [str "."])
  | "nodir" => some (str "/w/missing/s.json", [str "."])
  | "relnodir" => some (str "missing/s.json", [str "."])
  | _ => none

/-- `<path shape>` or `<path shape>+<environment>`: the environment of the process (where its temporary directory is,
whether it exists) is no argument of the model's `store`/`load` — they depend on the path and its directory alone -/
def shape? (t : String) : Option (Path × List Path) :=
  match t.splitOn "+" with
  | [b] => baseShape? b
  | [b, e] => if e = "notmp" ∨ e = "tmpfile" ∨ e = "tmpdev" then baseShape? b else none
  | _ => none

/-- what `Config.SessionStorage` is in `c12.cfg`: the file loader on a path, or a storage of the application's own -/
inductive CfgStorage where
  | file (p : Path)
  | mem (s : Option Session)

def mkFS (dirs : List Path) : FS := ⟨fun q => if q ∈ dirs then some .dir else none⟩

def FS.remove (fs : FS) (p : Path) : FS := ⟨fun q => if q = p then none else fs.stat q⟩

structure World where
  path : Path
  fs : FS
  loaders : List Loader   -- loaders 0..2
  /-- number of `S` items so far (session objects still in their callers' hands) -/
  passed : Nat := 0
  /-- number of sessions the `Load`s have handed out so far -/
  handed : Nat := 0
  /-- the clients started so far, each with the loader it was started on -/
  clients : List (Nat × Client) := []

def World.loader (w : World) (i : Nat) : Loader := w.loaders.getD i (Loader.new w.path)

def World.setLoader (w : World) (i : Nat) (l : Loader) : World := { w with loaders := w.loaders.set i l }

def mkWorld (path : Path) (dirs : List Path) : World :=
  { path := path, fs := mkFS dirs, loaders := List.replicate 3 (Loader.new path) }

def cfgHost : Bytes := str "cfg.host:443"

/-- the address in the stored session of `c12.wire` (on the Go side: the loopback listener "stored") -/
def storedHost : Bytes := str "stored.host:443"

/-- the request `c12.wire` makes: `ping#7abe77ec ping_id:long` -/
def pingBody (id : Nat) : Bytes := [0xec, 0x77, 0xbe, 0x7a] ++ leBytes id 8

/-- what a started client holds: `C<enc>:<key>/<key id>/<salt>/<address>`, `Cerr:<class>` -/
def showClient : Outcome Client → String
  | .ok c => s!"C{if c.encrypted then 1 else 0}:{showBytes c.authKey}/{showBytes c.authKeyHash}/{c.serverSalt}/{showBytes c.addr}"
  | .err e => "Cerr:" ++ e
  | .panic q => "panic:" ++ q

def isOk {α} : Outcome α → Bool
  | .ok _ => true
  | _ => false

/-- what a client does to itself (item `MC`): key / key id bytes rewritten, another salt. Lists are values: nothing
else in the world changes. -/
def mutateClient (c : Client) : List Char → Client
  | [] => c
  | 'k' :: r => mutateClient { c with authKey := c.authKey.map (· ^^^ 0xff) } r
  | 'h' :: r => mutateClient { c with authKeyHash := c.authKeyHash.map (· ^^^ 0xff) } r
  | 'z' :: r => mutateClient { c with authKey := c.authKey.map (fun _ => 0), authKeyHash := c.authKeyHash.map (fun _ => 0) } r
  | 's' :: r => mutateClient { c with serverSalt := -c.serverSalt - 1 } r
  | _ :: r => mutateClient c r

/-- one item of a history; `none` = ill-formed -/
def runItem (w : World) (t : String) : Option (World × String) :=
  match t.splitOn ":" with
  | ["S", i, sess, m] => do
    let i ← i.toNat?
    let s ← parseSess? sess
    let m ← m.toNat?
    if i ≥ 3 then none else
    let (l, fs, o) := (w.loader i).store w.fs s m
    pure ({ w.setLoader i l with fs := fs, passed := w.passed + 1 }, showUnit o)
  | ["L", i] => do
    let i ← i.toNat?
    if i ≥ 3 then none else
    let (l, o) := (w.loader i).load w.fs
    pure ({ w.setLoader i l with handed := w.handed + (if isOk o then 1 else 0) }, showRes o)
  | ["F"] =>
    let (_, o) := (Loader.new w.path).load w.fs
    some ({ w with handed := w.handed + (if isOk o then 1 else 0) }, showRes o)
  | ["C", i] => do
    -- `NewMTProto(Config{SessionStorage: loader i, ServerHost: cfgHost})`: the loader's `Load` runs (and fills its
    -- cache), the client takes over what it returned
    let i ← i.toNat?
    if i ≥ 3 then none else
    let (l, _) := (w.loader i).load w.fs
    let c := newClient (w.loader i) w.fs cfgHost
    let cs := match c with | .ok c => w.clients ++ [(i, c)] | _ => w.clients
    pure ({ w.setLoader i l with clients := cs }, showClient c)
  -- the caller of the n-th `Store` / the holder of the n-th loaded session goes on with ITS object: `Loader.store`
  -- took a value and `Loader.load` returned one, so nothing in the world depends on it
  | ["MS", n, _] => do
    let n ← n.toNat?
    pure (w, if n < w.passed then "ok" else "none")
  | ["MG", n, _] => do
    let n ← n.toNat?
    pure (w, if n < w.handed then "ok" else "none")
  | ["MC", n, modes] => do
    let n ← n.toNat?
    match w.clients[n]? with
    | some (i, c) => pure ({ w with clients := w.clients.set n (i, mutateClient c modes.toList) }, "ok")
    | none => pure (w, "none")
  | ["V", n, m] => do
    -- `SaveSession`: `Store`, through the storage the client was started on, of what the client holds
    let n ← n.toNat?
    let m ← m.toNat?
    match w.clients[n]? with
    | some (i, c) =>
      let s : Session := { key := c.authKey, hash := c.authKeyHash, salt := c.serverSalt, hostname := c.addr }
      let (l, fs, o) := (w.loader i).store w.fs s m
      pure ({ w.setLoader i l with fs := fs }, showUnit o)
    | none => pure (w, "none")
  | ["H"] =>
    -- sessions and clients are values in the model: what was handed out stays what it was
    some (w, "held=same")
  | ["X", content, m] => do
    let c ← parseBytes? content
    let m ← m.toNat?
    pure ({ w with fs := w.fs.write w.path c m }, "ok")
  | ["D"] => some ({ w with fs := FS.remove w.fs w.path }, "ok")
  | _ => none

def runItems (w : World) : List String → Option (List String)
  | [] => some []
  | t :: ts => do
    let (w', o) ← runItem w t
    let rest ← runItems w' ts
    pure (o :: rest)

/-- classes of the load results of all strict prefixes of `data`, in order of first appearance
replaced by a fixed order -/
def prefixClasses (data : Bytes) : List (String × Nat) :=
  let outs := (List.range data.length).map fun k =>
    match readSession (data.take k) with
    | .ok _ => "ok"
    | .err e => e
    | .panic _ => "panic"
  ["ok", "syntax", "type", "b64key", "b64hash", "b64salt", "panic"].filterMap fun c =>
    let n := (outs.filter (· == c)).length
    if n = 0 then none else some (c, n)

def handle : List String → String
  | ["c12.b64", b] =>
    match parseBytes? b with
    | some bs =>
      let e := b64Encode bs
      let d := match b64Decode e with | some x => "ok:" ++ showBytes x | none => "err"
      s!"enc={showBytes e} dec={d}"
    | none => "bad-op"
  | ["c12.b64d", t] =>
    match parseBytes? t with
    | some bs => match b64Decode bs with | some x => "ok:" ++ showBytes x | none => "err"
    | none => "bad-op"
  | ["c12.file", c] =>
    match parseBytes? c with
    | some data => showRes (readSession data)
    | none => "bad-op"
  | ["c12.rt", sh, sess] =>
    match shape? sh, parseSess? sess with
    | some (p, dirs), some s =>
      let fs := mkFS dirs
      let (l, fs1, o) := (Loader.new p).store fs s 0
      let file := match fs1.stat p with | some (.file d _) => showBytes d | _ => "none"
      let (_, same) := l.load fs1
      let (_, fresh) := (Loader.new p).load fs1
      s!"store={showUnit o} file={file} same={showRes same} fresh={showRes fresh}"
    | _, _ => "bad-op"
  | "c12.seq" :: sh :: items =>
    match shape? sh with
    | some (p, dirs) =>
      match runItems (mkWorld p dirs) items with
      | some outs => joinSp outs
      | none => "bad-op"
    | none => "bad-op"
  | "c12.nat" :: sh :: items =>
    match shape? sh with
    | some (p, dirs) =>
      match runItems (mkWorld p dirs) items with
      | some outs => joinSp outs
      | none => "bad-op"
    | none => "bad-op"
  | ["c12.torn", sess] =>
    match parseSess? sess with
    | some s =>
      let data := writeSession s
      let cls := (prefixClasses data).map fun (c, n) => s!"{c}={n}"
      s!"n={data.length} {joinSp cls}"
    | none => "bad-op"
  | ["c12.resume", present, sess] =>
    match parseSess? sess with
    | some s =>
      let p := str "/w/d/s.json"
      let fs0 := mkFS [str "/w/d/", str "."]
      let data := writeSession s
      let fs? : Option FS :=
        if present = "1" then some (fs0.write p data 0)
        else if present = "0" then some fs0
        else match present.toList with
          | 't' :: k => (String.ofList k).toNat?.map fun k => fs0.write p (data.take k) 0
          | _ => none
      match fs? with
      | none => "bad-op"
      | some fs =>
        match newClient (Loader.new p) fs cfgHost with
        | .ok c =>
          let saved : Session := { key := c.authKey, hash := c.authKeyHash, salt := c.serverSalt, hostname := c.addr }
          s!"enc={if c.encrypted then 1 else 0} key={showBytes c.authKey} salt={c.serverSalt} saved={showSess saved}"
        | .err e => "err:" ++ e
        | .panic q => "panic:" ++ q
    | none => "bad-op"
  -- a `Store` of the newer session cut by the operating system at every byte 0 … n, an older session at the path:
  -- the file the model's write leaves (`cutWrite`: truncate, then front to back), read and classified against the
  -- two stored sessions; `Store` reports an error at every cut before the end
  | ["c12.cut", sh, pre, so, sn] =>
    match parseSess? so, parseSess? sn with
    | some o, some n =>
      if ¬ (sh = "abs" ∨ sh = "rel" ∨ sh = "dotrel" ∨ sh = "bare") ∨ ¬ (pre = "0" ∨ pre = "1") then "bad-op" else
      let oldF := writeSession o
      let newF := writeSession n
      let cls := (List.range (newF.length + 1)).map fun k => classifyCut o n (cutWrite oldF newF k)
      let cnt (c : CutClass) : Nat := (cls.filter (· == c)).length
      let line := s!"error:{cnt .error},older:{cnt .older},newer:{cnt .newer},third:{cnt .third}"
      s!"n={newF.length} cuts={newF.length + 1} storefail={newF.length} same={line} fresh={line} first=-"
    | _, _ => "bad-op"
  | ["c12.cfg", kind, state, file, sa, sb] =>
    match parseSess? sa, parseSess? sb with
    | some a, some b =>
      let storeP := str "/w/d/storage.json"
      let fs0 := mkFS [str "/w/d/", str "."]
      -- Config.SessionStorage
      let stg? : Option (Option CfgStorage × FS) :=
        if state ≠ "0" ∧ state ≠ "1" then none
        else if kind = "file" then
          some (some (.file storeP), if state = "1" then fs0.write storeP (writeSession a) 0 else fs0)
        else if kind = "mem" then some (some (.mem (if state = "1" then some a else none)), fs0)
        else if kind = "nil" then some (none, fs0)
        else none
      -- Config.AuthKeyFile
      let fileP := str "/w/d/authkey.json"
      let dataB := writeSession b
      let file? : Option (Path × Option Bytes) :=
        if file = "unset" then some ([], none)
        else if file = "0" then some (fileP, none)
        else if file = "nodir" then some (str "/w/d/missing/authkey.json", none)
        else if file = "1" then some (fileP, some dataB)
        else match file.toList with
          | 't' :: k => (String.ofList k).toNat?.map fun k => (fileP, some (dataB.take k))
          | _ => none
      match stg?, file? with
      | some (stg, fs1), some (fp, content) =>
        let fs := match content with | some c => fs1.write fp c 0 | none => fs1
        let chosen := chooseStorage stg fp
        let client : Outcome Client :=
          match chosen with
          | .given (.file p) => newClient (Loader.new p) fs cfgHost
          | .given (.mem (some s)) => startClient (.session s) cfgHost
          | .given (.mem none) => startClient .notFound cfgHost
          | .file p => newClient (Loader.new p) fs cfgHost
          | .none => .err "nostorage"
        match client with
        | .ok c =>
          let sess : Session := { key := c.authKey, hash := c.authKeyHash, salt := c.serverSalt, hostname := c.addr }
          let viaFile (p : Path) : String :=
            let (_, fs2, o) := (Loader.new p).store (FS.remove fs p) sess 0
            match o with
            | .ok _ => showRes ((Loader.new p).load fs2).2
            | _ => "save-failed"
          let saved := match chosen with
            | .given (.file p) => viaFile p
            | .given (.mem _) => "ok:" ++ showSess sess
            | .file p => viaFile p
            | .none => "-"
          s!"client={showClient client} saved={saved} other={if kind = "nil" then "-" else "same"}"
        | _ => s!"client={showClient client} saved=- other=-"
      | _, _ => "bad-op"
    | _, _ => "bad-op"
  -- the started client as the server sees it: `Client.firstMessage` (Start.lean) of the client the model starts on
  -- the store — where it connects, plain text or not, the key id in front, the salt, the request
  | ["c12.wire", kind, state, key, hash, salt, ping] =>
    match parseBytes? key, parseBytes? hash, salt.toInt?, ping.toNat? with
    | some k, some h, some salt, some ping =>
      let s : Session := { key := k, hash := h, salt := salt, hostname := storedHost }
      let p := str "/w/d/s.json"
      let fs0 := mkFS [str "/w/d/", str "."]
      let fs := if state = "1" then fs0.write p (writeSession s) 0 else fs0
      let client? : Option (Outcome Client) :=
        if state ≠ "0" ∧ state ≠ "1" then none
        else if kind = "file" ∨ kind = "given" then some (newClient (Loader.new p) fs cfgHost)
        else if kind = "mem" then some (startClient (if state = "1" then .session s else .notFound) cfgHost)
        else none
      match client? with
      | none => "bad-op"
      | some (.ok c) =>
        let f := c.firstMessage Mtv.Crypto.sha1
        let conn := if f.addr = storedHost then "stored" else if f.addr = cfgHost then "configured" else "none"
        if f.plain then s!"client=C0 conn={conn} first=plain"
        else s!"client=C1 conn={conn} first=enc keyid={toHexD f.keyId} open=ok salt={f.salt} seq=1 body={toHexD (pingBody ping)}"
      | some (.err e) => "client=Cerr:" ++ e
      | some (.panic q) => "panic:" ++ q
    | _, _, _, _ => "bad-op"
  | _ => "bad-op"

end Driver.C12
