import Driver.Util
namespace Driver.C12
open Mtv Driver

/-- operations of property C12; not built yet -/
def handle : List String → String
  | _ => "bad-op"

end Driver.C12
