import Driver.Util
import Mtv.Crypto.Sha1
import Mtv.Crypto.Sha256
import Mtv.Crypto.Sha512
import Mtv.Crypto.Hmac
import Mtv.Crypto.Pbkdf2
import Mtv.Crypto.Aes
import Mtv.Crypto.Crc32
namespace Driver.CRYPTO
open Mtv Mtv.Crypto Driver

/-- `n`-fold iteration `x ← f x` (used by the chained/benchmark operations) -/
def iter (f : Bytes → Bytes) : Nat → Bytes → Bytes
  | 0, x => x
  | n + 1, x => iter f n (f x)

/-- operations comparing the executable Lean primitives with Go's standard library -/
def handle : List String → String
  | ["crypto.sha1", m] =>
    match parseBytes? m with
    | some m => toHex (sha1 m)
    | none => "bad-op"
  | ["crypto.sha256", m] =>
    match parseBytes? m with
    | some m => toHex (sha256 m)
    | none => "bad-op"
  | ["crypto.sha512", m] =>
    match parseBytes? m with
    | some m => toHex (sha512 m)
    | none => "bad-op"
  | ["crypto.hmac512", k, m] =>
    match parseBytes? k, parseBytes? m with
    | some k, some m => toHex (hmacSha512 k m)
    | _, _ => "bad-op"
  | ["crypto.pbkdf2", pw, salt, it, dk] =>
    match parseBytes? pw, parseBytes? salt, it.toNat?, dk.toNat? with
    | some pw, some salt, some it, some dk => toHexD (pbkdf2HmacSha512 pw salt it dk)
    | _, _, _, _ => "bad-op"
  | ["crypto.aesenc", k, b] =>
    match parseBytes? k, parseBytes? b with
    | some k, some b =>
      if k.length = 32 ∧ b.length = 16 then toHex (aes256EncryptBlock (aes256Expand k) b) else "bad-op"
    | _, _ => "bad-op"
  | ["crypto.aesdec", k, b] =>
    match parseBytes? k, parseBytes? b with
    | some k, some b =>
      if k.length = 32 ∧ b.length = 16 then toHex (aes256DecryptBlock (aes256Expand k) b) else "bad-op"
    | _, _ => "bad-op"
  | ["crypto.crc32", m] =>
    match parseBytes? m with
    | some m => toString (crc32 m)
    | none => "bad-op"
  -- chained forms: x ← H(x) / x ← E_k(x), n times (many primitive calls per line; also the speed test)
  | ["crypto.sha1chain", m, n] =>
    match parseBytes? m, n.toNat? with
    | some m, some n => toHexD (iter sha1 n m)
    | _, _ => "bad-op"
  | ["crypto.sha256chain", m, n] =>
    match parseBytes? m, n.toNat? with
    | some m, some n => toHexD (iter sha256 n m)
    | _, _ => "bad-op"
  | ["crypto.sha512chain", m, n] =>
    match parseBytes? m, n.toNat? with
    | some m, some n => toHexD (iter sha512 n m)
    | _, _ => "bad-op"
  | ["crypto.aesencchain", k, b, n] =>
    match parseBytes? k, parseBytes? b, n.toNat? with
    | some k, some b, some n =>
      if k.length = 32 ∧ b.length = 16 then
        let ek := aes256Expand k
        toHex (iter (aes256EncryptBlock ek) n b)
      else "bad-op"
    | _, _, _ => "bad-op"
  | ["crypto.aesdecchain", k, b, n] =>
    match parseBytes? k, parseBytes? b, n.toNat? with
    | some k, some b, some n =>
      if k.length = 32 ∧ b.length = 16 then
        let ek := aes256Expand k
        toHex (iter (aes256DecryptBlock ek) n b)
      else "bad-op"
    | _, _, _ => "bad-op"
  | _ => "bad-op"

end Driver.CRYPTO
