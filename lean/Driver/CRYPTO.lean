import Driver.Util
namespace Driver.CRYPTO
open Mtv Driver

/-- operations comparing the executable Lean primitives with Go's; not built yet -/
def handle : List String → String
  | _ => "bad-op"

end Driver.CRYPTO
