import Driver.HsShared
import Mtv.Session.Start
import Mtv.Handshake.SplitPQ
import Mtv.Handshake.Conn
/-
  Line-protocol driver of property C06: the client machine against `ServerSpec` (`exchange`), with the
  executable SHA-1 / AES-256 / modular exponentiation plugged in.
    c06.hs <tag> <nonce> <new_nonce> <b> <padseed> <pad16> <n> <e> <d> <server_nonce> <p> <q> <g> <a>
           <dh_prime> <time> <spad16> <minimal> <fps>
  <fps>: `-`, or a comma-separated list of the further fingerprints the server offers, in which `*` stands
  for that of its own key (no `*`: its own comes last).
    c06.seq <tag> <keyobj> <k> { <store> <the 18 tokens of a c06.hs after its tag> } x k
  several exchanges of one process. The model has no state that outlives an exchange and no notion of the
  object the caller keeps its key in: each exchange is answered on its own. <store> is what the session
  storage's `Load` returns to `NewMTProto` (`Mtv.Session.startClient`): no client at all when it fails, a blank
  client that runs the key exchange for both ways of saying "nothing stored". `<store>+<warnings>`: what the
  application does with the client's `Warnings` channel (nil | buffered | unread | drained): the client machine has
  no such channel — a key exchange with a conformant server sends nothing on it —, the suffix is only checked.
  `<store>+<warnings>+<first>`: the request(s) the application issues after the exchange (`/`-separated:
  ping | pingdelay | salts | config | bytes<N>); checked only — the result line ends with the exchange, what the
  conformant server makes of the encrypted messages is the oracle's on the Go side.
    c06.hist <tag> <history> <store> <the 18 tokens>
  the exchange as step `x` of a history of ONE client object (`dial,disc,fail1..3` before it, `reconnect,disc,create`
  after it; see `hsPlan` in x_hsserver.go). The exchange itself is answered like a `c06.hs`: the model's client
  is a function of its configuration and the replies - nothing outlives a `CreateConnection` -, which is the
  statement the history operations test on the real client. The steps around it are printed with the outcome each
  has on its own (`pre=… post=…`).
  <time>: a number (the `server_time` announced), or `now+K` / `now-K`: a server whose clock is K seconds ahead of /
  behind the machine's the operation runs on. The client machine does not look at `server_time` (the model has no
  msg_ids), so a stand-in date ± K is announced; what the server thinks of the first encrypted request's msg_id is
  judged on the real client only.
    c06.env <tag> <delivery> <session> <store>[+<warnings>[+<first>]] <the 18 tokens>
  the exchange in another environment: <delivery> = in how many pieces and at what pace the network hands the
  server's frames to the client's socket (whole | half | cut<k> | tail<k> | each<k>, optionally @<ms>), <session> =
  where the client keeps its session (stub | tmp | otherdev | deep | rel | relsub | tmpdir-missing | tmpdir-file |
  tmpdir-otherdev | tmpdir-unset: a file in that kind of place). The client machine reads reply BODIES (framing and
  the byte stream under it are C08's) and hands the session to `saveSession` (where a storage keeps it is not the
  machine's): both tokens are checked and the exchange is answered like a `c06.hs` - which is the statement these
  operations test on the real client.
    c06.draw <tag> <refusal> <more> <the 18 tokens>
  the client's own draws as an input: the 18 tokens hold what crypto/rand delivers first (nonce, new_nonce, the DH
  exponent b), <more> (`-` or lower-case hex, a multiple of 256 bytes up to 2048) what it delivers after them. The client
  machine draws its exponent ONCE (`Draws.b`, as `math.MakeGAB` does): <more> is checked and not read, the exchange is
  answered like a `c06.hs` - for EVERY b, tiny, huge or a multiple of the group order (`hs_agree_any_draw`). <refusal>
  (`silent` | `close`): what the conformant server does with a request it has to refuse (g_b not in (1, dh_prime-1)):
  nothing - the machine keeps waiting (`hang`) -, or it drops the connection: the reading routine's EOF case
  (`Mtv.Handshake.connStep … (.eof …)`, the model of C07) ends the waiting step with `err:badResponse`.
    c06.split <tag> <pq>       the guard of handshake.go + the MODEL of math.SplitPQ (`guardedSplit`'s two halves, printed
                               apart): `refused` | `ok <p1> <p2>` | `running` | `panic:div0`. The model runs with the fixed
                               draw stream `drvDraws` and `drvRounds` rounds; by `splitPQ_semiprime` the pair does not
                               depend on the draws, so it must be the pair the real function returns.
    c06.splitraw <tag> <pq>    the model without the guard, pq = 0 or 1 only (the witnesses of `splitPQ_panics_below_two`)
    c06.mulmod <tag> <a> <b> <c> <n>   `mulAddMod n a b c`, the inner loop of the model
-/
namespace Driver.C06
open Mtv Mtv.Handshake Driver Driver.Hs

/-- the further fingerprints before and after the server's own (`*`) -/
def fpsAround? (s : String) : Option (List Nat × List Nat) :=
  let ts := splitComma s
  let before := ts.takeWhile (· ≠ "*")
  let after := (ts.dropWhile (· ≠ "*")).drop 1
  match before.mapM (·.toNat?), after.mapM (·.toNat?) with
  | some b, some a => some (b, a)
  | _, _ => none

/-- the `<time>` token -/
def timeTok? (t : String) : Option Nat :=
  match t.toList with
  | 'n' :: 'o' :: 'w' :: '+' :: k => (String.ofList k).toNat?.bind fun k => if k ≤ 100000 then some (1800000000 + k) else none
  | 'n' :: 'o' :: 'w' :: '-' :: k => (String.ofList k).toNat?.bind fun k => if k ≤ 100000 then some (1800000000 - k) else none
  | _ => t.toNat?.bind fun k => if k < 2 ^ 31 then some k else none

/-- one request the application issues after the exchange: `ping | pingdelay | salts | config | bytes<N>`, N a decimal
number without leading zeros, at most 4096 (`hsRequest` in x_hsserver.go) -/
def requestTok (t : String) : Bool :=
  t ∈ ["ping", "pingdelay", "salts", "config"] ||
  (match t.toList with
   | 'b' :: 'y' :: 't' :: 'e' :: 's' :: ds =>
     ds.all Char.isDigit && 1 ≤ ds.length && ds.length ≤ 4 && (ds.length = 1 || ds.head? ≠ some '0') &&
       (match (String.ofList ds).toNat? with | some n => n ≤ 4096 | none => false)
   | _ => false)

/-- `/`-separated list of one to four requests -/
def firstTok (t : String) : Bool :=
  let rs := t.splitOn "/"
  1 ≤ rs.length && rs.length ≤ 4 && rs.all requestTok

/-- `<store>`, `<store>+<warnings>` or `<store>+<warnings>+<first>` (the requests issued after the exchange: the client
machine ends with the exchange; what the server reads afterwards is judged on the real client only) -/
def storeTok? (t : String) : Option String :=
  let warn (w : String) : Bool := w ∈ ["nil", "buffered", "unread", "drained"]
  match t.splitOn "+" with
  | [st] => some st
  | [st, w] => if warn w then some st else none
  | [st, w, f] => if warn w && firstTok f then some st else none
  | _ => none

/-- configuration of the client and secrets of the server of a `c06.hs` line -/
def parseHs : List String → Option (Cfg × Secrets)
  | ["c06.hs", _tag, nonce, nn, b, _ps, pad, n, e, d, sn, p, q, g, a, dhp, t, spad, mn, xfp] =>
    match parseBytes? nonce, parseBytes? nn, parseBytes? b, parseBytes? pad, hexNat? n, e.toNat?, hexNat? d with
    | some nonce, some nn, some b, some pad, some n, some e, some d =>
      match hexNat? sn, p.toNat?, q.toNat?, g.toNat?, hexNat? a, hexNat? dhp, timeTok? t, parseBytes? spad, fpsAround? xfp with
      | some sn, some p, some q, some g, some a, some dhp, some t, some spad, some xfp =>
        if nonce.length ≠ 16 ∨ nn.length ≠ 32 ∨ b.length ≠ 256 ∨ pad.length ≠ 16 ∨ spad.length ≠ 16 then none else
        let c : Cfg := { R := Mtv.Gen.registry, P := prims (some (p, q)), key := ⟨n, e⟩, d := ⟨nonce, nn, b, pad⟩ }
        let s : Secrets := { d := d, serverNonce := sn, p := p, q := q, g := g, a := a, dhPrime := dhp, time := t,
                             pad := spad, minimal := mn == "1", extraFps := xfp.1, laterFps := xfp.2 }
        some (c, s)
      | _, _, _, _, _, _, _, _, _ => none
    | _, _, _, _, _, _, _ => none
  | _ => none

def handleHs (ts : List String) : String :=
  match parseHs ts with
  | some (c, s) =>
    let x := exchange c s
    let srv := match x.server with
      | some r => s!"srv=done skey={showBytes r.authKey} ssalt={toSigned 64 r.salt} shash={toHexD r.hash}"
      | none => "srv=refused skey=- ssalt=0 shash=-"
    resultLine x.client x.actions ++ " " ++ srv
  | none => "bad-op"

/-! ### `c06.draw`: the client's draws as an input, the stream going on after the first exponent -/

/-- `-`, or lower-case hex of 256, 512, … 2048 bytes -/
def moreTok (t : String) : Bool :=
  t = "-" ||
  (t.toList.all (fun ch => ch.isDigit || ('a' ≤ ch && ch ≤ 'f')) &&
    (match parseBytes? t with
     | some b => b.length ≠ 0 && b.length % 256 = 0 && b.length ≤ 2048
     | none => false))

def handleDraw : List String → String
  | "c06.draw" :: _tag :: refusal :: more :: rest =>
    if (refusal ≠ "silent" ∧ refusal ≠ "close") ∨ !moreTok more ∨ rest.length ≠ 18 then "bad-op" else
    match parseHs ("c06.hs" :: "x" :: rest) with
    | some (c, s) =>
      let x := exchange c s
      match x.server with
      | some _ => handleHs ("c06.hs" :: "x" :: rest)
      | none =>
        -- the server refused a request (or the client gave up before). `close`: the connection is dropped, the
        -- reading routine of this connection reads EOF (C07's model of the connection, as repaired)
        let st := if refusal = "close" then
            (connStep true (afterExchange true c x.client) (.eof true c)).1.hs
          else x.client
        resultLine st x.actions ++ " srv=refused skey=- ssalt=0 shash=-"
    | none => "bad-op"
  | _ => "bad-op"

/-! ### `c06.hist`: the exchange as one step of what happens on a client object -/

/-- one bit of the byte at `off` inverted -/
def flipAt (off : Nat) (b : Bytes) : Bytes :=
  b.take off ++ (match b.drop off with | x :: r => (x ^^^ 1) :: r | [] => [])

/-- How the client machine ends against the server that misbehaves ONCE: everything as `exchange`, but the reply
of step `k` (1 `resPQ`, 2 `server_DH_params_ok`, 3 `dh_gen_ok`) leaves with one bit wrong - in `nonce`,
`server_nonce`, `new_nonce_hash1` (bytes 4.., 20.., 36.. of the body; `hsFaulty` on the Go side). -/
def faultyOutcome (c : Cfg) (s : Secrets) (k : Nat) : String :=
  let f := fun (stage : Nat) (r : Bytes) => if stage = k then flipAt (4 + 16 * (stage - 1)) r else r
  let (st0, a0) := hsStart c
  match a0 with
  | [.sendPlain req1] =>
    match srvResPQ c.R c.P c.key s req1 with
    | none => "refused"
    | some (nonce, r1) =>
      let (st1, a1) := hsStep c st0 (f 1 r1)
      match a1 with
      | [.sendPlain req2] =>
        match srvDH c.R c.P c.key s nonce req2 with
        | none => "refused"
        | some (nn, r2) =>
          let (st2, a2) := hsStep c st1 (f 2 r2)
          match a2 with
          | [.sendPlain req3] =>
            match srvGen c.R c.P s nonce nn req3 with
            | none => "refused"
            | some (_, r3) => showOutcome (hsStep c st2 (f 3 r3)).1.result
          | _ => showOutcome st2.result
      | _ => showOutcome st1.result
  | _ => showOutcome st0.result

/-- the steps before `x`: `dial` only while the server has not been up (no `failK` earlier), not `disc` first -/
def preOk : List String → Bool → Bool → Bool
  | [], _, _ => true
  | st :: r, first, up =>
    if st = "dial" then !up && preOk r false up
    else if st = "disc" then !first && preOk r false up
    else if st ∈ ["fail1", "fail2", "fail3"] then preOk r false true
    else false

/-- the steps after `x`: `create` only directly after `disc`, no `disc` after `disc`, `reconnect` not after
`disc`, the last step leaves the client connected -/
def postOk : List String → String → Bool
  | [], prev => prev ≠ "disc"
  | st :: r, prev =>
    if st = "reconnect" ∨ st = "disc" then prev ≠ "disc" && postOk r st
    else if st = "create" then prev = "disc" && postOk r st
    else false

/-- `a,b,x,c` ↦ `([a, b], [c])` when it is a history by the rules above (`hsHistoryOk`) -/
def history? (h : String) : Option (List String × List String) :=
  let ts := h.splitOn ","
  let pre := ts.takeWhile (· ≠ "x")
  match ts.dropWhile (· ≠ "x") with
  | [] => none
  | _ :: post =>
    if pre.length ≤ 6 ∧ post.length ≤ 4 ∧ preOk pre true false ∧ postOk post "" then some (pre, post) else none

/-- How a step before `x` ends on its own. `dial`: nothing listens, the connect error; `disc`: `Disconnect`
returns nil; `failK`: the client machine against the server misbehaving at step K. (The model's client has no
state that outlives a `CreateConnection`: what these steps leave behind is exactly what must not matter.) -/
def preOutcome (c : Cfg) (s : Secrets) : String → String
  | "dial" => "err:connect"
  | "fail1" => faultyOutcome c s 1
  | "fail2" => faultyOutcome c s 2
  | "fail3" => faultyOutcome c s 3
  | _ => "ok"

def showSteps (xs : List String) : String := if xs.isEmpty then "-" else ",".intercalate xs

def handleHist : List String → String
  | "c06.hist" :: _tag :: hist :: store :: rest =>
    match history? hist, (storeTok? store).bind Mtv.Session.loadedOfMode?, parseHs ("c06.hs" :: "x" :: rest) with
    | some (pre, post), some r, some (c, s) =>
      match Mtv.Session.startClient r [] with
      | .ok cl =>
        if !cl.runsKeyExchange then "bad-op" else
        let line := handleHs ("c06.hs" :: "x" :: rest)
        let pre := pre.map fun st => st ++ ":" ++ preOutcome c s st
        -- `Reconnect`, `Disconnect`, `CreateConnection` of a client that holds a key: no exchange, nil
        let post := if line.startsWith "res=ok " then post.map (· ++ ":ok") else []
        s!"pre={showSteps pre} {line} post={showSteps post}"
      | _ => "bad-op"
    | _, _, _ => "bad-op"
  | _ => "bad-op"

/-- what both sides print when `NewMTProto` returned an error: nothing was sent, held or stored -/
def noClientLine : String :=
  "res=err:new frames=- encframes=0 key=- salt=0 enc=false svc=false stored=- srv=refused skey=- ssalt=0 shash=-"

def chunks (n : Nat) (xs : List String) : Nat → List (List String)
  | 0 => []
  | fuel + 1 => if xs.isEmpty then [] else xs.take n :: chunks n (xs.drop n) fuel

/-- one exchange of a sequence: `<store>` and the 18 tokens -/
def handleStep : List String → String
  | store :: rest =>
    match (storeTok? store).bind Mtv.Session.loadedOfMode? with
    | none => "bad-op"
    | some r =>
      match Mtv.Session.startClient r [] with
      | .ok c => if c.runsKeyExchange then handleHs ("c06.hs" :: "x" :: rest) else "bad-op"
      | .err _ => if (handleHs ("c06.hs" :: "x" :: rest)) = "bad-op" then "bad-op" else noClientLine
      | .panic _ => "bad-op"
  | [] => "bad-op"

/-! ### `c06.split`, `c06.splitraw`, `c06.mulmod`: the model of `math.SplitPQ` -/

/-- decimal number without sign or leading zeros, at most 40 digits -/
def dec? (t : String) : Option Nat :=
  let ds := t.toList
  if ds.isEmpty ∨ ds.length > 40 ∨ !ds.all Char.isDigit ∨ (ds.length > 1 ∧ ds.head? = some '0') then none else t.toNat?

/-- the stream of draws the driver gives the model (any stream gives the same pair on a product of two primes) -/
def drvDraws (i : Nat) : Nat × Nat :=
  (((i + 1) * 0x9E3779B97F4A7C15 + 0x94D049BB133111EB) % 2 ^ 64 / 16,
   ((i + 1) * 0xBF58476D1CE4E5B9 + 0x2545F4914F6CDD1D) % 2 ^ 64)

/-- rounds of the outer loop the driver gives the model (the first round alone has 2^18 steps of the walk) -/
def drvRounds : Nat := 48

/-- Miller-Rabin: does base `a` prove the odd `n = d·2^s + 1` composite? -/
def mrComposite (n d s a : Nat) : Bool :=
  let x := powMod (a % n) d n
  if x = 1 ∨ x = n - 1 ∨ a % n = 0 then false
  else
    let rec sq : Nat → Nat → Bool
      | 0, _ => true
      | k + 1, x => let x := x * x % n; if x = n - 1 then false else sq k x
    sq (s - 1) x

def twoAdic : Nat → Nat → Nat → Nat × Nat
  | 0, d, s => (d, s)
  | fuel + 1, d, s => if d % 2 = 0 ∧ d ≠ 0 then twoAdic fuel (d / 2) (s + 1) else (d, s)

/-- the driver's stand-in for `big.Int.ProbablyPrime(0)` (not part of the verified model: math/big is assumed):
trial division by the primes below 40 and Miller-Rabin to those twelve bases, exact below 3.3·10^24 — and so is
Go's Baillie-PSW below 2^64; the two are compared on every `c06.split` -/
def probablyPrime (n : Nat) : Bool :=
  let ps := [2, 3, 5, 7, 11, 13, 17, 19, 23, 29, 31, 37]
  if n < 2 then false
  else if ps.contains n then true
  else if ps.any (fun p => n % p = 0) then false
  else
    let (d, s) := twoAdic 128 (n - 1) 0
    ps.all fun a => !mrComposite n d s a

def showSplit : SplitResult → String
  | .ok (p1, p2) => s!"ok {p1} {p2}"
  | .panic _ => "panic:div0"
  | .running => "running"

def handleSplit : List String → String
  | ["c06.split", _tag, pq] =>
    match dec? pq with
    | some pq =>
      if pq ≥ 2 ^ 64 then "bad-op"
      -- the two halves of `guardedSplit probablyPrime drvRounds drvDraws`
      else if pq < 4 || probablyPrime pq then "refused"
      else showSplit (splitPQ drvRounds drvDraws pq)
    | none => "bad-op"
  | ["c06.splitraw", _tag, pq] =>
    match dec? pq with
    | some pq => if pq > 1 then "bad-op" else showSplit (splitPQ drvRounds drvDraws pq)
    | none => "bad-op"
  | ["c06.mulmod", _tag, a, b, c, n] =>
    match dec? a, dec? b, dec? c, dec? n with
    | some a, some b, some c, some n => toString (mulAddMod n a b c)
    | _, _, _, _ => "bad-op"
  | _ => "bad-op"

/-! ### `c06.env`: the exchange in another environment -/

def smallNat? (ds : List Char) (lo hi : Nat) : Bool :=
  ds.all Char.isDigit && 1 ≤ ds.length && ds.length ≤ 6 && (ds.length = 1 || ds.head? ≠ some '0') &&
    (match (String.ofList ds).toNat? with | some n => lo ≤ n && n ≤ hi | none => false)

/-- `whole | half | cut<k> | tail<k> | each<k>` (k = 1..100000), optionally `@<ms>` (0..200) (`hsDeliveryOk`) -/
def deliveryTok (t : String) : Bool :=
  let kind (k : String) : Bool :=
    k = "whole" || k = "half" ||
    (match k.toList with
     | 'c' :: 'u' :: 't' :: ds => smallNat? ds 1 100000
     | 't' :: 'a' :: 'i' :: 'l' :: ds => smallNat? ds 1 100000
     | 'e' :: 'a' :: 'c' :: 'h' :: ds => smallNat? ds 1 100000
     | _ => false)
  match t.splitOn "@" with
  | [k] => kind k
  | [k, ms] => kind k && smallNat? ms.toList 0 200
  | _ => false

def placeTok (t : String) : Bool :=
  t ∈ ["stub", "tmp", "otherdev", "deep", "rel", "relsub", "tmpdir-missing", "tmpdir-file", "tmpdir-otherdev", "tmpdir-unset"]

def handleEnv : List String → String
  | "c06.env" :: _tag :: delivery :: place :: cfg :: rest =>
    if !deliveryTok delivery || !placeTok place || rest.length ≠ 18 then "bad-op" else
    match storeTok? cfg with
    | some st =>
      -- a file that is not there is the not-found answer; a storage that cannot be read is not an environment of these
      if st = "fail" || (place ≠ "stub" && st ≠ "notfound") then "bad-op" else handleStep (cfg :: rest)
    | none => "bad-op"
  | _ => "bad-op"

def handle : List String → String
  | "c06.env" :: ts => handleEnv ("c06.env" :: ts)
  | "c06.draw" :: ts => handleDraw ("c06.draw" :: ts)
  | "c06.split" :: ts => handleSplit ("c06.split" :: ts)
  | "c06.splitraw" :: ts => handleSplit ("c06.splitraw" :: ts)
  | "c06.mulmod" :: ts => handleSplit ("c06.mulmod" :: ts)
  | "c06.seq" :: _tag :: keyobj :: k :: rest =>
    match k.toNat? with
    | some k =>
      if keyobj ∉ ["fresh", "slot", "setn"] ∨ k = 0 ∨ rest.length ≠ 19 * k then "bad-op" else
      let outs := (chunks 19 rest k).map handleStep
      if outs.contains "bad-op" then "bad-op" else " | ".intercalate outs
    | none => "bad-op"
  | "c06.hist" :: ts => handleHist ("c06.hist" :: ts)
  | ts => handleHs ts

end Driver.C06
