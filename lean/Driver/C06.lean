import Driver.Util
namespace Driver.C06
open Mtv Driver

/-- operations of property C06; not built yet -/
def handle : List String → String
  | _ => "bad-op"

end Driver.C06
