import Driver.HsShared
import Mtv.Session.Start
/-
  Line-protocol driver of property C06: the client machine against `ServerSpec` (`exchange`), with the
  executable SHA-1 / AES-256 / modular exponentiation plugged in.
    c06.hs <tag> <nonce> <new_nonce> <b> <padseed> <pad16> <n> <e> <d> <server_nonce> <p> <q> <g> <a>
           <dh_prime> <time> <spad16> <minimal> <fps>
  <fps>: `-`, or a comma-separated list of the further fingerprints the server offers, in which `*` stands
  for that of its own key (no `*`: its own comes last).
    c06.seq <tag> <keyobj> <k> { <store> <the 18 tokens of a c06.hs after its tag> } x k
  several exchanges of one process. The model has no state that outlives an exchange and no notion of the
  object the caller keeps its key in: each exchange is answered on its own. <store> is what the session
  storage's `Load` returns to `NewMTProto` (`Mtv.Session.startClient`): no client at all when it fails, a blank
  client that runs the key exchange for both ways of saying "nothing stored". `<store>+<warnings>`: what the
  application does with the client's `Warnings` channel (nil | buffered | unread | drained): the client machine has
  no such channel — a key exchange with a conformant server sends nothing on it —, the suffix is only checked.
  <time>: a number (the `server_time` announced), or `now+K` / `now-K`: a server whose clock is K seconds ahead of /
  behind the machine's the operation runs on. The client machine does not look at `server_time` (the model has no
  msg_ids), so a stand-in date ± K is announced; what the server thinks of the first encrypted request's msg_id is
  judged on the real client only.
-/
namespace Driver.C06
open Mtv Mtv.Handshake Driver Driver.Hs

/-- the further fingerprints before and after the server's own (`*`) -/
def fpsAround? (s : String) : Option (List Nat × List Nat) :=
  let ts := splitComma s
  let before := ts.takeWhile (· ≠ "*")
  let after := (ts.dropWhile (· ≠ "*")).drop 1
  match before.mapM (·.toNat?), after.mapM (·.toNat?) with
  | some b, some a => some (b, a)
  | _, _ => none

/-- the `<time>` token -/
def timeTok? (t : String) : Option Nat :=
  match t.toList with
  | 'n' :: 'o' :: 'w' :: '+' :: k => (String.ofList k).toNat?.bind fun k => if k ≤ 100000 then some (1800000000 + k) else none
  | 'n' :: 'o' :: 'w' :: '-' :: k => (String.ofList k).toNat?.bind fun k => if k ≤ 100000 then some (1800000000 - k) else none
  | _ => t.toNat?.bind fun k => if k < 2 ^ 31 then some k else none

/-- `<store>` or `<store>+<warnings>` -/
def storeTok? (t : String) : Option String :=
  match t.splitOn "+" with
  | [st] => some st
  | [st, w] => if w ∈ ["nil", "buffered", "unread", "drained"] then some st else none
  | _ => none

def handleHs : List String → String
  | ["c06.hs", _tag, nonce, nn, b, _ps, pad, n, e, d, sn, p, q, g, a, dhp, t, spad, mn, xfp] =>
    match parseBytes? nonce, parseBytes? nn, parseBytes? b, parseBytes? pad, hexNat? n, e.toNat?, hexNat? d with
    | some nonce, some nn, some b, some pad, some n, some e, some d =>
      match hexNat? sn, p.toNat?, q.toNat?, g.toNat?, hexNat? a, hexNat? dhp, timeTok? t, parseBytes? spad, fpsAround? xfp with
      | some sn, some p, some q, some g, some a, some dhp, some t, some spad, some xfp =>
        if nonce.length ≠ 16 ∨ nn.length ≠ 32 ∨ b.length ≠ 256 ∨ pad.length ≠ 16 ∨ spad.length ≠ 16 then "bad-op" else
        let c : Cfg := { R := Mtv.Gen.registry, P := prims (some (p, q)), key := ⟨n, e⟩, d := ⟨nonce, nn, b, pad⟩ }
        let s : Secrets := { d := d, serverNonce := sn, p := p, q := q, g := g, a := a, dhPrime := dhp, time := t,
                             pad := spad, minimal := mn == "1", extraFps := xfp.1, laterFps := xfp.2 }
        let x := exchange c s
        let srv := match x.server with
          | some r => s!"srv=done skey={showBytes r.authKey} ssalt={toSigned 64 r.salt} shash={toHexD r.hash}"
          | none => "srv=refused skey=- ssalt=0 shash=-"
        resultLine x.client x.actions ++ " " ++ srv
      | _, _, _, _, _, _, _, _, _ => "bad-op"
    | _, _, _, _, _, _, _ => "bad-op"
  | _ => "bad-op"

/-- what both sides print when `NewMTProto` returned an error: nothing was sent, held or stored -/
def noClientLine : String :=
  "res=err:new frames=- encframes=0 key=- salt=0 enc=false svc=false stored=- srv=refused skey=- ssalt=0 shash=-"

def chunks (n : Nat) (xs : List String) : Nat → List (List String)
  | 0 => []
  | fuel + 1 => if xs.isEmpty then [] else xs.take n :: chunks n (xs.drop n) fuel

/-- one exchange of a sequence: `<store>` and the 18 tokens -/
def handleStep : List String → String
  | store :: rest =>
    match (storeTok? store).bind Mtv.Session.loadedOfMode? with
    | none => "bad-op"
    | some r =>
      match Mtv.Session.startClient r [] with
      | .ok c => if c.runsKeyExchange then handleHs ("c06.hs" :: "x" :: rest) else "bad-op"
      | .err _ => if (handleHs ("c06.hs" :: "x" :: rest)) = "bad-op" then "bad-op" else noClientLine
      | .panic _ => "bad-op"
  | [] => "bad-op"

def handle : List String → String
  | "c06.seq" :: _tag :: keyobj :: k :: rest =>
    match k.toNat? with
    | some k =>
      if keyobj ∉ ["fresh", "slot", "setn"] ∨ k = 0 ∨ rest.length ≠ 19 * k then "bad-op" else
      let outs := (chunks 19 rest k).map handleStep
      if outs.contains "bad-op" then "bad-op" else " | ".intercalate outs
    | none => "bad-op"
  | ts => handleHs ts

end Driver.C06
