import Driver.HsShared
/-
  Line-protocol driver of property C06: the client machine against `ServerSpec` (`exchange`), with the
  executable SHA-1 / AES-256 / modular exponentiation plugged in.
    c06.hs <tag> <nonce> <new_nonce> <b> <padseed> <pad16> <n> <e> <d> <server_nonce> <p> <q> <g> <a>
           <dh_prime> <time> <spad16> <minimal> <fps>
  <fps>: `-`, or a comma-separated list of the further fingerprints the server offers, in which `*` stands
  for that of its own key (no `*`: its own comes last).
-/
namespace Driver.C06
open Mtv Mtv.Handshake Driver Driver.Hs

/-- the further fingerprints before and after the server's own (`*`) -/
def fpsAround? (s : String) : Option (List Nat × List Nat) :=
  let ts := splitComma s
  let before := ts.takeWhile (· ≠ "*")
  let after := (ts.dropWhile (· ≠ "*")).drop 1
  match before.mapM (·.toNat?), after.mapM (·.toNat?) with
  | some b, some a => some (b, a)
  | _, _ => none

def handle : List String → String
  | ["c06.hs", _tag, nonce, nn, b, _ps, pad, n, e, d, sn, p, q, g, a, dhp, t, spad, mn, xfp] =>
    match parseBytes? nonce, parseBytes? nn, parseBytes? b, parseBytes? pad, hexNat? n, e.toNat?, hexNat? d with
    | some nonce, some nn, some b, some pad, some n, some e, some d =>
      match hexNat? sn, p.toNat?, q.toNat?, g.toNat?, hexNat? a, hexNat? dhp, t.toNat?, parseBytes? spad, fpsAround? xfp with
      | some sn, some p, some q, some g, some a, some dhp, some t, some spad, some xfp =>
        if nonce.length ≠ 16 ∨ nn.length ≠ 32 ∨ b.length ≠ 256 ∨ pad.length ≠ 16 ∨ spad.length ≠ 16 then "bad-op" else
        let c : Cfg := { R := Mtv.Gen.registry, P := prims (some (p, q)), key := ⟨n, e⟩, d := ⟨nonce, nn, b, pad⟩ }
        let s : Secrets := { d := d, serverNonce := sn, p := p, q := q, g := g, a := a, dhPrime := dhp, time := t,
                             pad := spad, minimal := mn == "1", extraFps := xfp.1, laterFps := xfp.2 }
        let x := exchange c s
        let srv := match x.server with
          | some r => s!"srv=done skey={showBytes r.authKey} ssalt={toSigned 64 r.salt} shash={toHexD r.hash}"
          | none => "srv=refused skey=- ssalt=0 shash=-"
        resultLine x.client x.actions ++ " " ++ srv
      | _, _, _, _, _, _, _, _, _ => "bad-op"
    | _, _, _, _, _, _, _ => "bad-op"
  | _ => "bad-op"

end Driver.C06
