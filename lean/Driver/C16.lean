import Driver.RpcTrace
namespace Driver.C16
def handle (toks : List String) : String := Driver.RpcTrace.handle "c16" toks
end Driver.C16
