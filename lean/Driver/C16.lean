import Driver.RpcTrace
import Driver.C16Life
namespace Driver.C16
/-- a trace is replayed through the RPC machine (as for C09–C11) and, when that accepts it, through the lifecycle
machine around it (Mtv/Client/Lifecycle.lean) -/
def handle (toks : List String) : String :=
  let r := Driver.RpcTrace.handle "c16" toks
  match toks with
  | [op, trace] =>
    if op == "c16.trace" && r.startsWith "ok" then
      match Driver.C16Life.replay trace with
      | none => r
      | some why => "life:" ++ why
    else r
  | _ => r
end Driver.C16
