import Driver.Util
namespace Driver.C16
open Mtv Driver

/-- operations of property C16; not built yet -/
def handle : List String → String
  | _ => "bad-op"

end Driver.C16
