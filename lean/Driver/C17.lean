import Driver.Util
import Mtv.Client.Errors
import Mtv.Client.ErrHeld
import Mtv.Client.LifecycleSerial
import Mtv.Props.C17Inflight
namespace Driver.C17
open Mtv Mtv.Client Driver

def showParam : Param → String
  | .none => "none"
  | .int n => s!"int:{n}"
  | .str b => s!"str:{toHexD b}"

def showOutcome {α} (f : α → String) : Outcome α → String
  | .ok a => f a
  | .err k => s!"err:{k}"
  | .panic site => s!"panic:{site}"

def parseParam? (t : String) : Option Param :=
  match t.splitOn ":" with
  | ["int", n] => n.toInt?.map Param.int
  | ["str", h] => (fromHex? h).map Param.str
  | _ => none

/-- `id:sym` — data centre `id` configured with the (symbolic) address `sym` -/
def parseDc? (t : String) : Option (Int × Bytes) :=
  match t.splitOn ":" with
  | [i, a] => do
    let n ← i.toInt?
    if a.isEmpty then none else pure (n, a.toUTF8.toList)
  | _ => none

def parseDcs? (s : String) : Option DCList := (splitComma s).mapM parseDc?

def showDecision : Decision → String
  | .returned => "decision=returned"
  | .dcNotFound n => s!"decision=notfound dc={n}"
  | .migrate n a => s!"decision=migrate dc={n} addr={toHexD a}"
  | .panic site => s!"panic:{site}"

/-- the structured error as the request-path operations print it -/
def showErr (e : NativeErr) : String :=
  s!"code={e.code} msg={toHexD e.message} param={showParam e.param}"

/-- `48` = hex of the symbol of the home peer "H" -/
def homeSym : String := "48"

/-- `c17.req` / `c17.two`: MakeRequest against the home peer that answers `rpc_error code msg`; the data centres of
`over` are peers that answer pong, or — `second = some (code2, msg2)` — an error the client returns. The
model: the decision of `onRpcError`; a migration is followed by one more request at the new address. -/
def reqOutcomeOn (dcl : DCList) (c : Int) (m : Bytes) (second : Option (Int × Bytes)) (value : String := "") : String :=
  match onRpcError dcl c m with
  | .ok (e, .returned) => s!"outcome=returned {showErr e} reqs={homeSym}:1"
  | .ok (e, .dcNotFound n) => s!"outcome=notfound dc={n} {showErr e} reqs={homeSym}:1"
  | .ok (_, .migrate _ a) =>
    match second with
    | none => s!"outcome=answered by={toHexD a}{value} reqs={homeSym}:1,{toHexD a}:1"
    | some (c2, m2) =>
      match onRpcError dcl c2 m2 with
      | .ok (e2, .returned) => s!"outcome=returned {showErr e2} reqs={homeSym}:1,{toHexD a}:1"
      | .ok _ => "bad-op"
      | .err k => s!"err:{k}"
      | .panic site => s!"panic:{site}"
  | .ok (_, .panic site) => s!"panic:{site}"
  | .err k => s!"err:{k}"
  | .panic site => s!"panic:{site}"

def reqOutcome (over : DCList) (c : Int) (m : Bytes) (second : Option (Int × Bytes)) (value : String := "") : String :=
  reqOutcomeOn (setDCList Gen.defaultDCList over) c m second value

/-- the calls of a `c17.hist` history: `id:SYM,…` or `-` (an empty argument) per `SetDCList` call; `C`, the place of
`CreateConnection` (at most once), is no call — the table does not depend on when the connection is made -/
def parseCalls? (s : String) : Option (List DCList) :=
  let toks := s.splitOn "/"
  if (toks.filter (· == "C")).length > 1 then none else
  (toks.filter (· != "C")).mapM fun t => if t == "-" then some [] else
    match parseDcs? t with
    | some [] => none
    | some d => if (d.map (·.1)).eraseDups.length = d.length then some d else none
    | none => none

def storeOk (s : String) : Bool := ["ok", "fail", "slow", "file", "gone"].contains s

/-- the second answer of `c17.req2` must be an error the client returns (not PHONE_MIGRATE_n) -/
def secondReturned (c2 : Int) (m2 : Bytes) : Bool :=
  match rpcErrorToNative c2 m2 with
  | .ok e => match processErr [] e.message e.param with | .returned => true | _ => false
  | _ => true

/-- the kind of a call (`c17.call` / `c17.home`): what its answer is -/
def kindOk (tok : String) : Bool :=
  match tok.splitOn ":" with
  | ["obj"] => true
  | ["bool", "t"] => true
  | ["bool", "f"] => true
  | [k, n] =>
    (k == "vlong" || k == "vint" || k == "vobj") &&
      (match n.toNat? with | some v => v ≤ 100000 && toString v == n | none => false)
  | _ => false

def shapeOk (s : String) : Bool := ["plain", "gz", "cont", "cgz"].contains s

/-- `code:hex,…` — the replies of `c17.ident` / `c17.callers` (codes are int32) -/
def parseItems? (s : String) : Option (List Reply) :=
  (s.splitOn ",").mapM fun t =>
    match t.splitOn ":" with
    | [c, h] => do
      let n ← c.toInt?
      let m ← fromHex? h
      if n < -2147483648 || n > 2147483647 then none else pure (n, m)
    | _ => none

/-- a held error as `c17.ident` / `c17.callers` print it -/
def showHeld : Outcome NativeErr → String :=
  showOutcome fun e =>
    s!"code={e.code} msg={toHexD e.message} desc={toHexD e.description} param={showParam e.param} err={toHexD e.errorText}"

def joinBar (xs : List String) : String := " | ".intercalate xs

def parMode (mode : String) : Bool :=
  mode.startsWith "par" &&
    (match (mode.drop 3).toNat? with | some k => 2 ≤ k && k ≤ 16 && toString k == (mode.drop 3).toString | none => false)

/-- `c17.race`: what the old data centre does behind its PHONE_MIGRATE answer: `fin`, `rst` (optionally with a delay in
microseconds), `half`, `keep` -/
def raceCloseOk (t : String) : Bool :=
  let num (r : String) : Bool := r.isEmpty || (r.length ≤ 7 && (match r.toNat? with | some n => n ≤ 1000000 && r.all Char.isDigit | none => false))
  if t == "half" || t == "keep" then true
  else if t.startsWith "fin" then num (t.drop 3).toString
  else if t.startsWith "rst" then num (t.drop 3).toString
  else false

/-- `none` or `<point>:<µs>` -/
def raceHoldOk (t : String) : Bool :=
  t == "none" ||
  (["read:", "write:", "recv:process:", "call:sent:"].any fun p =>
    t.startsWith p && (t.drop p.length).toString.length ≤ 7 && (match (t.drop p.length).toString.toNat? with
      | some n => n ≤ 1000000 && (t.drop p.length).toString.all Char.isDigit && !(t.drop p.length).toString.isEmpty
      | none => false))

/-- operations of property C17 -/
def handle : List String → String
  -- PHONE_MIGRATE_X answered together with a hang-up, `iters` runs on the real client: the serialised lifecycle model
  -- (`Life.migrateWithHangupSettles`: both orders in which the reading routine and the caller take the lock) says the
  -- client ends reading on one usable connection with one reading routine - in every run
  | ["c17.race", close, hold, procs, iters] =>
    match procs.toNat?, iters.toNat? with
    | some p, some n =>
      if !(raceCloseOk close && raceHoldOk hold) || p < 1 || p > 64 || n < 1 || n > 100000 ||
          !(procs.all Char.isDigit) || procs.length > 7 || toString n != iters then "bad-op"
      else if Life.migrateWithHangupSettles then s!"race ok={n}/{n}" else "race stranded"
    | _, _ => "bad-op"
  -- several calls in flight when the old data centre answers every one of them PHONE_MIGRATE_2 (`iters` runs on the real
  -- client): the property's answer - every call returns what the configured data centre made for it. The lifecycle model of
  -- the code AS IT IS says otherwise for two calls or more (Props/C17Inflight.lean: `unnamed_request_stays_pending`,
  -- witness `second_migrating_call_is_stranded`): known finding D33 - the driver answers what that model says
  | ["c17.inflight", calls, procs, iters] =>
    match calls.toNat?, procs.toNat?, iters.toNat? with
    | some c, some p, some n =>
      if c < 1 || c > 16 || p < 1 || p > 64 || n < 1 || n > 1000 || toString c != calls || toString p != procs || toString n != iters
      then "bad-op"
      -- one call: `migrate_with_hangup_settles` / the control. Two or more: the model of the code as it is strands the
      -- second caller (`Life.strandedHistory`: its request is still registered when everything else has settled)
      else if c == 1 then "inflight ok"
      else match Life.run (Life.connected0 {} true 7) Life.strandedHistory with
        | some s => if (lookupPending s.m.pending 1004).isSome then "inflight stranded" else "inflight ok"
        | none => "inflight model-history-not-enabled"
    | _, _, _ => "bad-op"
  -- identity of the errors handed out: what the callers HOLD after all the replies were converted (`heldAfter`: a
  -- new cell per conversion), what each conversion returned although earlier callers wrote into their errors
  -- (`returnedWith`); goroutines: every result has its own cell, so the interleaving does not enter
  | ["c17.ident", mode, items] =>
    match parseItems? items with
    | none => "bad-op"
    | some rs =>
      if mode == "hold" || parMode mode then joinBar ((heldAfter rs).map showHeld)
      else if mode == "mut" then joinBar ((returnedWith (scribbledHistory ⟨-7, [], [], .none⟩ 0 rs)).map showHeld)
      else if mode == "exp" then
        joinBar (rs.map fun r => showOutcome (fun (x : Bytes × Param) => s!"name={toHexD x.1} param={showParam x.2}") (tryExpand r.2))
      else "bad-op"
  -- the same through the client: one caller per reply (none of them PHONE_MIGRATE_n), every caller holds the error of
  -- ITS reply whatever the order and timing of the answers
  | ["c17.callers", mode, items] =>
    match parseItems? items with
    | none => "bad-op"
    | some rs =>
      if !(["s", "f", "r", "w"].contains mode) || rs.length > 64 then "bad-op"
      else if rs.all (fun r => secondReturned r.1 r.2) then
        joinBar ((heldAfter rs).map showHeld) ++ s!" | reqs={rs.length}"
      else "bad-op"
  -- every kind of call through the request path: the decision is that of `c17.req` — what the call's answer is
  -- and how it is delivered do not enter; the caller gets the value of the peer the model says answers
  | ["c17.home", kind, shape] =>
    if kindOk kind && shapeOk shape then s!"outcome=answered by={homeSym} value={kind} reqs={homeSym}:1" else "bad-op"
  | ["c17.call", kind, shape, dcs, code, msg] =>
    if !(kindOk kind && shapeOk shape) then "bad-op" else
    match parseDcs? dcs, code.toInt?, fromHex? msg with
    | some over, some c, some m =>
      if c < -2147483648 || c > 2147483647 then "bad-op" else reqOutcome over c m none s!" value={kind}"
    | _, _, _ => "bad-op"
  -- the migration under a faulty / slow / file session store and after a history of SetDCList calls: the table is
  -- `dclistAfter` (theorem `dclist_after_calls`: the right-biased union of the default list and all arguments); the
  -- session store is no argument of the decision
  | ["c17.hist", store, calls, code, msg] =>
    if !storeOk store then "bad-op" else
    match parseCalls? calls, code.toInt?, fromHex? msg with
    | some cs, some c, some m =>
      if cs.isEmpty ∧ calls ≠ "C" then "bad-op" else reqOutcomeOn (dclistAfter Gen.defaultDCList cs) c m none
    | _, _, _ => "bad-op"
  | ["c17.req", dcs, code, msg] =>
    match parseDcs? dcs, code.toInt?, fromHex? msg with
    | some over, some c, some m => reqOutcome over c m none
    | _, _, _ => "bad-op"
  | ["c17.req2", dcs, code, msg, code2, msg2] =>
    match parseDcs? dcs, code.toInt?, fromHex? msg, code2.toInt?, fromHex? msg2 with
    | some over, some c, some m, some c2, some m2 =>
      if secondReturned c2 m2 then reqOutcome over c m (some (c2, m2)) else "bad-op"
    | _, _, _, _, _ => "bad-op"
  -- two clients in one process: the table the OTHER one was given (`_other`, at any time `_when`) does not enter
  | ["c17.two", _when, other, dcs, code, msg] =>
    match parseDcs? other, parseDcs? dcs, code.toInt?, fromHex? msg with
    | some _, some over, some c, some m => reqOutcome over c m none
    | _, _, _, _ => "bad-op"
  -- error answers through the real request path: the Go side prints "rpc ok" when every caller got its own
  -- structured error (judged on the trace by the oracle of C09–C11/C16); delivery itself is C09's model
  | ["c17.rpc", _kinds, _plan] => "rpc ok"
  | ["c17.expand", msg] =>
    match fromHex? msg with
    | some m => showOutcome (fun (r : Bytes × Param) => s!"name={toHexD r.1} param={showParam r.2}") (tryExpand m)
    | none => "bad-op"
  | ["c17.native", code, msg] =>
    match code.toInt?, fromHex? msg with
    | some c, some m =>
      showOutcome (fun (e : NativeErr) =>
        s!"code={e.code} msg={toHexD e.message} desc={toHexD e.description} param={showParam e.param}")
        (rpcErrorToNative c m)
    | _, _ => "bad-op"
  | ["c17.process", dcs, code, msg] =>
    match parseDcs? dcs, code.toInt?, fromHex? msg with
    | some over, some c, some m =>
      showOutcome (fun (r : NativeErr × Decision) => showDecision r.2)
        (onRpcError (setDCList Gen.defaultDCList over) c m)
    | _, _, _ => "bad-op"
  | ["c17.atoi", txt] =>
    match fromHex? txt with
    | some t => match atoi t with | some n => s!"int:{n}" | none => "err"
    | none => "bad-op"
  | ["c17.sprintf", fmt, operand] =>
    match fromHex? fmt, parseParam? operand with
    | some f, some a =>
      match sprintf1 f a with
      | some o => s!"out={toHexD o}"
      | none => "format-not-modelled"
    | _, _ => "bad-op"
  | _ => "bad-op"

end Driver.C17
