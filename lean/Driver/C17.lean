import Driver.Util
namespace Driver.C17
open Mtv Driver

/-- operations of property C17; not built yet -/
def handle : List String → String
  | _ => "bad-op"

end Driver.C17
