import Driver.Util
import Mtv.Client.Errors
namespace Driver.C17
open Mtv Mtv.Client Driver

def showParam : Param → String
  | .none => "none"
  | .int n => s!"int:{n}"
  | .str b => s!"str:{toHexD b}"

def showOutcome {α} (f : α → String) : Outcome α → String
  | .ok a => f a
  | .err k => s!"err:{k}"
  | .panic site => s!"panic:{site}"

def parseParam? (t : String) : Option Param :=
  match t.splitOn ":" with
  | ["int", n] => n.toInt?.map Param.int
  | ["str", h] => (fromHex? h).map Param.str
  | _ => none

/-- `id:sym` — data centre `id` configured with the (symbolic) address `sym` -/
def parseDc? (t : String) : Option (Int × Bytes) :=
  match t.splitOn ":" with
  | [i, a] => do
    let n ← i.toInt?
    if a.isEmpty then none else pure (n, a.toUTF8.toList)
  | _ => none

def parseDcs? (s : String) : Option DCList := (splitComma s).mapM parseDc?

def showDecision : Decision → String
  | .returned => "decision=returned"
  | .dcNotFound n => s!"decision=notfound dc={n}"
  | .migrate n a => s!"decision=migrate dc={n} addr={toHexD a}"
  | .panic site => s!"panic:{site}"

/-- operations of property C17 -/
def handle : List String → String
  -- error answers through the real request path: the Go side prints "rpc ok" when every caller got its own
  -- structured error (judged on the trace by the oracle of C09–C11/C16); delivery itself is C09's model
  | ["c17.rpc", _kinds, _plan] => "rpc ok"
  | ["c17.expand", msg] =>
    match fromHex? msg with
    | some m => showOutcome (fun (r : Bytes × Param) => s!"name={toHexD r.1} param={showParam r.2}") (tryExpand m)
    | none => "bad-op"
  | ["c17.native", code, msg] =>
    match code.toInt?, fromHex? msg with
    | some c, some m =>
      showOutcome (fun (e : NativeErr) =>
        s!"code={e.code} msg={toHexD e.message} desc={toHexD e.description} param={showParam e.param}")
        (rpcErrorToNative c m)
    | _, _ => "bad-op"
  | ["c17.process", dcs, code, msg] =>
    match parseDcs? dcs, code.toInt?, fromHex? msg with
    | some over, some c, some m =>
      showOutcome (fun (r : NativeErr × Decision) => showDecision r.2)
        (onRpcError (setDCList Gen.defaultDCList over) c m)
    | _, _, _ => "bad-op"
  | ["c17.atoi", txt] =>
    match fromHex? txt with
    | some t => match atoi t with | some n => s!"int:{n}" | none => "err"
    | none => "bad-op"
  | ["c17.sprintf", fmt, operand] =>
    match fromHex? fmt, parseParam? operand with
    | some f, some a =>
      match sprintf1 f a with
      | some o => s!"out={toHexD o}"
      | none => "format-not-modelled"
    | _, _ => "bad-op"
  | _ => "bad-op"

end Driver.C17
