import Driver.Loop
import Driver.C18
def main : IO Unit := Driver.mainLoop Driver.C18.handle
