import Driver.TLVal
import Mtv.TL.Decode
import Mtv.Gen.Registry
namespace Driver.C15
open Mtv Mtv.TL Driver Driver.TLVal

/-- hint types on the line protocol: `i32 i64 u32 f64 bool str bytes`, `p<hexid>` (pointer to a
registered struct), `f<name>` (interface) — each meaning a slice of that element type -/
def parseElem? (s : String) : Option Ty :=
  match s with
  | "i32" => some .int32
  | "u32" => some .uint32
  | "i64" => some .int64
  | "f64" => some .f64
  | "bool" => some .bool
  | "str" => some .str
  | "bytes" => some .bytes
  | _ =>
    match s.toList with
    | 'p' :: r => (hexNat? r).map Ty.ptr
    | 'f' :: r => some (.iface (String.ofList r))
    | 'e' :: r => some (.enum (String.ofList r))
    | _ => none

def parseHints? (s : String) : Option (List Ty) :=
  (splitComma s).mapM fun t => (parseElem? t).map Ty.vec

/-- gzip table: `comp:plain;comp:plain` (hex), `-` for empty; a payload not in the table fails -/
def parseGz? (s : String) : Option (List (Bytes × Bytes)) :=
  if s = "-" then some [] else
  (s.splitOn ";").mapM fun e =>
    match e.splitOn ":" with
    | [c, p] => do pure (← fromHex? c, ← fromHex? p)
    | _ => none

def gunzipOf (tbl : List (Bytes × Bytes)) (c : Bytes) : Option Bytes :=
  (tbl.find? (fun e => e.1 == c)).map (·.2)

def fuelFor (bs : Bytes) (tbl : List (Bytes × Bytes)) : Nat :=
  64 * (bs.length + (tbl.foldl (fun a e => a + e.2.length) 0)) + 4096

/-- one member of a concurrent batch: `u/<bytes>/<hints>` (unknown object) or `n/<id>/<bytes>` (named
type); no gzip_packed inside (the generator leaves such inputs out of the batches) -/
def parMember (s : String) : Option String :=
  match s.splitOn "/" with
  | ["u", b, hints] =>
    match parseBytes? b, parseHints? hints with
    | some bs, some hs => some (showOutcome (decodeUnknown Mtv.Gen.registry (gunzipOf []) (fuelFor bs []) hs bs))
    | _, _ => none
  | ["n", id, b] =>
    match hexNat? id.toList, parseBytes? b with
    | some id, some bs => some (showOutcome (decodeNamed Mtv.Gen.registry (gunzipOf []) (fuelFor bs []) id bs))
    | _, _ => none
  | _ => none

def handle : List String → String
  -- `c15.par <mode> <n> <seed> <member>…`: n goroutines decode every member at the same time, each in its own
  -- order (in a new process or in the harness process). Decoding is a function of the bytes: whatever the
  -- interleaving, every member has the result of the sequential model; the line is those results in order.
  | "c15.par" :: mode :: n :: seed :: m :: ms =>
    if (mode == "fresh" || mode == "here") && n.toNat?.isSome && seed.toNat?.isSome then
      match (m :: ms).mapM parMember with
      | some outs => " ;; ".intercalate outs
      | none => "bad-op"
    else "bad-op"
  | ["c15.unk", b, hints, gz] =>
    match parseBytes? b, parseHints? hints, parseGz? gz with
    | some bs, some hs, some tbl =>
      showOutcome (decodeUnknown Mtv.Gen.registry (gunzipOf tbl) (fuelFor bs tbl) hs bs)
    | _, _, _ => "bad-op"
  | ["c15.named", id, b, gz] =>
    match hexNat? id.toList, parseBytes? b, parseGz? gz with
    | some id, some bs, some tbl =>
      showOutcome (decodeNamed Mtv.Gen.registry (gunzipOf tbl) (fuelFor bs tbl) id bs)
    | _, _, _ => "bad-op"
  | _ => "bad-op"

end Driver.C15
