import Driver.TLVal
import Mtv.TL.Decode
import Mtv.TL.DecodeCost
import Mtv.TL.Encode
import Mtv.Crypto.Crc32
import Mtv.Gen.Registry
namespace Driver.C15
open Mtv Mtv.TL Driver Driver.TLVal

/-- hint types on the line protocol: `i32 i64 u32 f64 bool str bytes`, `p<hexid>` (pointer to a
registered struct), `f<name>` (interface) — each meaning a slice of that element type -/
def parseElem? (s : String) : Option Ty :=
  match s with
  | "i32" => some .int32
  | "u32" => some .uint32
  | "i64" => some .int64
  | "f64" => some .f64
  | "bool" => some .bool
  | "str" => some .str
  | "bytes" => some .bytes
  | _ =>
    match s.toList with
    | 'p' :: r => (hexNat? r).map Ty.ptr
    | 'f' :: r => some (.iface (String.ofList r))
    | 'e' :: r => some (.enum (String.ofList r))
    | _ => none

def parseHints? (s : String) : Option (List Ty) :=
  (splitComma s).mapM fun t => (parseElem? t).map Ty.vec

/-- gzip table: `comp:plain;comp:plain` (hex), `-` for empty; a payload not in the table fails -/
def parseGz? (s : String) : Option (List (Bytes × Bytes)) :=
  if s = "-" then some [] else
  (s.splitOn ";").mapM fun e =>
    match e.splitOn ":" with
    | [c, p] => do pure (← fromHex? c, ← fromHex? p)
    | _ => none

def gunzipOf (tbl : List (Bytes × Bytes)) (c : Bytes) : Option Bytes :=
  (tbl.find? (fun e => e.1 == c)).map (·.2)

/-- The fuel every operation is decoded with: `fuelBound` (Mtv/TL/Decode.lean) for the registry of the
working tree, the length of the input and the longest text a packed object unpacks to in this operation
(`G`; every `gunzip` used below answers only texts of at most that length). Theorem `decode_never_loops`
(Props/C15): with this fuel neither entry point reports the fuel error, whatever the input — so a fuel error
printed by this driver (`fuel-exhausted`, which the Go side never prints) would refute the model, not
the input. -/
def fuelFor (bs : Bytes) (G : Nat) : Nat := fuelBound Mtv.Gen.registry G bs.length

def tblG (tbl : List (Bytes × Bytes)) : Nat := tbl.foldl (fun a e => max a e.2.length) 0

/-- as `showOutcome`, with the model's own fuel error told apart from the decoder's errors -/
def showOut (o : Outcome Val) : String :=
  match o with
  | .err "fuel" => "fuel-exhausted"
  | o => showOutcome o

/-! ### packed objects nested to any depth (`c15.nest`): the input is built here exactly as the Go side builds
it — gzip members whose deflate stream consists of stored blocks, so that n levels are n·39 bytes — and the
model's `gunzip` is the reader of such members -/

partial def storedBlocks (p : Bytes) : Bytes :=
  if p.length ≤ 65535 then [1] ++ leBytes p.length 2 ++ leBytes (65535 - p.length) 2 ++ p
  else [0, 0xff, 0xff, 0, 0] ++ p.take 65535 ++ storedBlocks (p.drop 65535)

/-- RFC 1952 member: header without optional parts, stored blocks, CRC-32 and length of the text -/
def storedGzip (p : Bytes) : Bytes :=
  [0x1f, 0x8b, 8, 0, 0, 0, 0, 0, 0, 0xff] ++ storedBlocks p ++
    leBytes (Mtv.Crypto.crc32 p) 4 ++ leBytes (p.length % 2 ^ 32) 4

partial def inflateStored (b acc : Bytes) : Option Bytes :=
  match b with
  | hd :: l0 :: l1 :: n0 :: n1 :: rest =>
    let len := l0.toNat + 256 * l1.toNat
    if hd > 1 then none
    else if n0.toNat + 256 * n1.toNat != 65535 - len then none
    else if rest.length < len then none
    else
      let acc' := acc ++ rest.take len
      if hd == 1 then some acc' else inflateStored (rest.drop len) acc'
  | _ => none

/-- what `GzipPacked.popMessageAsBytes` gets from a member of that shape (it ignores the trailer's verdict) -/
def gunzipStored (b : Bytes) : Option Bytes :=
  match b with
  | 0x1f :: 0x8b :: 8 :: 0 :: _ :: _ :: _ :: _ :: _ :: _ :: body => inflateStored body []
  | _ => none

/-- `gunzipStored`, answering only texts of at most `G` bytes (the hypothesis of `decode_never_loops`) -/
def gunzipStoredUpTo (G : Nat) (b : Bytes) : Option Bytes :=
  match gunzipStored b with
  | some y => if y.length ≤ G then some y else none
  | none => none

def packLevel (inner : Bytes) : Option Bytes :=
  match putMessage (storedGzip inner) with
  | .ok s => some (leBytes 0x3072cfa1 4 ++ s)
  | _ => none

/-- `n` levels around `core`: level `g` = gzip_packed, level `rg` = rpc_result holding a gzip_packed -/
def nestBytes (level : String) : Nat → Bytes → Option Bytes
  | 0, b => some b
  | n + 1, b => do
    let inner ← nestBytes level n b
    let g ← packLevel inner
    if level == "rg" then pure (leBytes 0xf35c6d01 4 ++ leBytes (n + 1) 8 ++ g) else pure g

def placeBytes (place : String) (x : Bytes) : Option Bytes :=
  match place with
  | "root" => some x
  | "rpc" => some (leBytes 0xf35c6d01 4 ++ leBytes 7 8 ++ x)
  | "cont" => some (leBytes 0x73f1f8dc 4 ++ leBytes 1 4 ++ leBytes 0x5e0b700a00000001 8 ++ leBytes 1 4 ++ leBytes x.length 4 ++ x)
  | _ => none

/-! ### repeated groups whose counts are as large as the guard allows (`c15.rep`) -/

def countFor (mode : String) (left : Nat) : Option Nat :=
  match mode with
  | "left" => some left
  | "leftp1" => some (left + 1)
  | "left4" => some (left / 4)
  | "left12" => some (left / 12)
  | "max31" => some (2 ^ 31 - 1)
  | "one" => some 1
  | "two" => some 2
  | _ => none

/-- `off` = position of a 4-byte count inside the segment (`none`: the segment has none); the count is computed
from the number of bytes that follow the count in the whole input -/
def patchSeg (mode : String) (total start : Nat) (seg : Bytes) (off : Option Nat) : Option Bytes :=
  match off with
  | none => some seg
  | some o =>
    if seg.length < o + 4 then none else
    (countFor mode (total - (start + o + 4))).map fun c => seg.take o ++ leBytes c 4 ++ seg.drop (o + 4)

def repBytes (mode : String) (pre : Bytes) (preOff : Option Nat) (unit : Bytes) (off : Option Nat) (k : Nat)
    (suffix : Bytes) : Option Bytes := do
  let total := pre.length + k * unit.length + suffix.length
  let p ← patchSeg mode total 0 pre preOff
  let us ← (List.range k).mapM fun i => patchSeg mode total (pre.length + i * unit.length) unit off
  pure (p ++ us.flatten ++ suffix)

def parseOff? (s : String) : Option (Option Nat) :=
  if s == "-" then some none else s.toNat?.map some

/-- one member of a concurrent batch: `u/<bytes>/<hints>` (unknown object) or `n/<id>/<bytes>` (named
type); no gzip_packed inside (the generator leaves such inputs out of the batches) -/
def parMember (s : String) : Option String :=
  match s.splitOn "/" with
  | ["u", b, hints] =>
    match parseBytes? b, parseHints? hints with
    | some bs, some hs => some (showOut (decodeUnknown Mtv.Gen.registry (gunzipOf []) (fuelFor bs 0) hs bs))
    | _, _ => none
  | ["n", id, b] =>
    match hexNat? id.toList, parseBytes? b with
    | some id, some bs => some (showOut (decodeNamed Mtv.Gen.registry (gunzipOf []) (fuelFor bs 0) id bs))
    | _, _ => none
  | _ => none

/-- result and cost of one decode: `<result> ## cost=<alloc units>,<gunzip calls>,<bytes gunzip produced>` -/
def showCost (p : Outcome Val × Cost) : String :=
  showOut p.1 ++ " ## cost=" ++ toString p.2.alloc ++ "," ++ toString p.2.gzCalls ++ "," ++ toString p.2.gzOut

def handle : List String → String
  -- `c15.cost u <bytes> <hints> <gz>` / `c15.cost n <id> <bytes> <gz>`: the instrumented decoder
  -- (Mtv/TL/DecodeCost.lean; theorems cost_erasure, decode_alloc_linear): the result of `c15.unk` / `c15.named`
  -- and next to it what the model says the call allocates. The Go side measures the real call against it.
  | ["c15.cost", "u", b, hints, gz] =>
    match parseBytes? b, parseHints? hints, parseGz? gz with
    | some bs, some hs, some tbl =>
      showCost (decodeUnknownC Mtv.Gen.registry (gunzipOf tbl) (fuelFor bs (tblG tbl)) hs bs)
    | _, _, _ => "bad-op"
  | ["c15.cost", "n", id, b, gz] =>
    match hexNat? id.toList, parseBytes? b, parseGz? gz with
    | some id, some bs, some tbl =>
      showCost (decodeNamedC Mtv.Gen.registry (gunzipOf tbl) (fuelFor bs (tblG tbl)) id bs)
    | _, _, _ => "bad-op"
  -- `c15.par <mode> <n> <seed> <member>…`: n goroutines decode every member at the same time, each in its own
  -- order (in a new process or in the harness process). Decoding is a function of the bytes: whatever the
  -- interleaving, every member has the result of the sequential model; the line is those results in order.
  | "c15.par" :: mode :: n :: seed :: m :: ms =>
    if (mode == "fresh" || mode == "here") && n.toNat?.isSome && seed.toNat?.isSome then
      match (m :: ms).mapM parMember with
      | some outs => " ;; ".intercalate outs
      | none => "bad-op"
    else "bad-op"
  -- `c15.stack fresh <target> <k> <unit> <suffix>`: unit x k ++ suffix decoded by a new process with a small stack
  -- (the depth of the real decoder's recursion, D28). The model has no stack and does not carry the limit of
  -- 10000 nested objects; every generated operation repeats a unit that opens an object and never closes it, so
  -- in the model as well the input is an object cut short: the class of the result is an error. Only operations
  -- of that form (no suffix) are answered.
  | ["c15.stack", "fresh", _, k, _, "-"] => if k.toNat?.isSome then "err" else "bad-op"
  | ["c15.unk", b, hints, gz] =>
    match parseBytes? b, parseHints? hints, parseGz? gz with
    | some bs, some hs, some tbl =>
      showOut (decodeUnknown Mtv.Gen.registry (gunzipOf tbl) (fuelFor bs (tblG tbl)) hs bs)
    | _, _, _ => "bad-op"
  | ["c15.named", id, b, gz] =>
    match hexNat? id.toList, parseBytes? b, parseGz? gz with
    | some id, some bs, some tbl =>
      showOut (decodeNamed Mtv.Gen.registry (gunzipOf tbl) (fuelFor bs (tblG tbl)) id bs)
    | _, _, _ => "bad-op"
  -- `c15.nest <place> <level> <n> <core> <hints>`: packed objects nested n deep around `core`
  | ["c15.nest", place, level, n, core, hints] =>
    match n.toNat?, parseBytes? core, parseHints? hints with
    | some n, some core, some hs =>
      if level != "g" && level != "rg" then "bad-op" else
      match (nestBytes level n core).bind (placeBytes place) with
      | some bs => showOut (decodeUnknown Mtv.Gen.registry (gunzipStoredUpTo bs.length) (fuelFor bs bs.length) hs bs)
      | none => "bad-op"
    | _, _, _ => "bad-op"
  -- `c15.rep <target> <mode> <k> <pre> <preoff> <unit> <off> <suffix>`: pre, k times unit, suffix; counts by mode
  | ["c15.rep", target, mode, k, pre, preOff, unit, off, suffix] =>
    match k.toNat?, parseBytes? pre, parseOff? preOff, parseBytes? unit, parseOff? off, parseBytes? suffix with
    | some k, some pre, some preOff, some unit, some off, some suffix =>
      match repBytes mode pre preOff unit off k suffix with
      | none => "bad-op"
      | some bs =>
        match target.splitOn ":" with
        | ["u", hints] =>
          match parseHints? hints with
          | some hs => showOut (decodeUnknown Mtv.Gen.registry (gunzipOf []) (fuelFor bs 0) hs bs)
          | none => "bad-op"
        | ["n", id] =>
          match hexNat? id.toList with
          | some id => showOut (decodeNamed Mtv.Gen.registry (gunzipOf []) (fuelFor bs 0) id bs)
          | none => "bad-op"
        | _ => "bad-op"
    | _, _, _, _, _, _ => "bad-op"
  | _ => "bad-op"

end Driver.C15
