import Driver.Util
namespace Driver.C15
open Mtv Driver

/-- operations of property C15; not built yet -/
def handle : List String → String
  | _ => "bad-op"

end Driver.C15
