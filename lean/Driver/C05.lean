import Driver.Util
import Mtv.Ige.Wrap
import Mtv.Crypto.Aes
import Mtv.Crypto.Sha1
/-
  Line-protocol driver of property C05. The register model and the wrappers of `Mtv.Ige` are run
  with the executable AES-256 and SHA-1 of `Mtv.Crypto` plugged in for the parameters `E D H`.
-/
namespace Driver.C05
open Mtv Mtv.Ige Driver

def aesE (key : Bytes) : Bytes → Bytes :=
  let k := Mtv.Crypto.aes256Expand key
  fun b => Mtv.Crypto.aes256EncryptBlock k b

def aesD (key : Bytes) : Bytes → Bytes :=
  let k := Mtv.Crypto.aes256Expand key
  fun b => Mtv.Crypto.aes256DecryptBlock k b

def H : Bytes → Bytes := Mtv.Crypto.sha1

/-- content of the caller's output buffer before the call (the harness fills it the same way) -/
def outFill (n : Nat) : Bytes := List.replicate n 0xA5

def showErr : Option IgeErr → String
  | none => "-"
  | some e => errName e

def showRes (r : IgeResult) : String :=
  s!"err={showErr r.err} out={showBytes r.out} in={showBytes r.data}"

def showOutcome : Outcome Bytes → String
  | .ok b => "ok:" ++ showBytes b
  | .err e => "err:" ++ e
  | .panic s => "panic:internal/aes_ige." ++ s

def showKV : Outcome (Bytes × Bytes) → String
  | .ok (k, v) => s!"key={showBytes k} iv={showBytes v}"
  | .err e => "err:" ++ e
  | .panic s => "panic:internal/aes_ige." ++ s

/-- `n` bytes of the 64-bit linear congruential generator (MMIX constants) started at `seed`: the top
byte of each successive state (the harness's `c05Bytes` expands the token `r<n>:<seed>` the same way) -/
def lcgBytes (n : Nat) (seed : UInt64) : Bytes :=
  let rec go : Nat → UInt64 → Array UInt8 → Array UInt8
    | 0, _, acc => acc
    | k + 1, s, acc =>
      let s' := s * 6364136223846793005 + 1442695040888963407
      go k s' (acc.push (s' >>> 56).toUInt8)
  (go n seed #[]).toList

/-- byte-string tokens: those of `Driver.parseBytes?` plus `r<n>:<seed>` (long pseudo-random inputs) -/
def pb? (s : String) : Option Bytes :=
  match s.toList with
  | 'r' :: rest =>
    match (String.ofList rest).splitOn ":" with
    | [n, seed] =>
      match n.toNat?, seed.toNat? with
      | some n, some sd => if sd < 18446744073709551616 then some (lcgBytes n (UInt64.ofNat sd)) else none
      | _, _ => none
    | _ => none
  | _ => Driver.parseBytes? s

/-- one bit of a ciphertext flipped (`bit` counted from the least significant bit of byte 0, modulo the
length) — the harness's `c05Damaged` does the same -/
def flipBit (ct : Bytes) (bit : Nat) : Bytes :=
  if ct.length = 0 then ct else
  let b := bit % (8 * ct.length)
  (ct.take (b / 8)) ++ ((ct.drop (b / 8)).take 1).map (fun x => x ^^^ UInt8.ofNat (2 ^ (b % 8))) ++ ct.drop (b / 8 + 1)

/-- the ciphertext of `c05.tdecbad`: a conformant peer's message damaged (`flip:<bit>`), replaced by random
bytes of the same length (`rand:<seed>`), or made under other nonces (`keys:<n2>:<s2>`) -/
def damaged? (how : String) (nb sb pad answer : Bytes) : Option Bytes :=
  match how.splitOn ":" with
  | ["flip", b] => b.toNat?.map fun bit => flipBit (conformantMsg H aesE nb sb answer pad) bit
  | ["rand", sd] =>
    match sd.toNat? with
    | some sd => if sd < 18446744073709551616 then some (lcgBytes (20 + answer.length + pad.length) (UInt64.ofNat sd)) else none
    | none => none
  | ["keys", n2, s2] =>
    match pb? n2, pb? s2 with
    | some n2, some s2 => if n2.length ≠ 32 ∨ s2.length ≠ 16 then none else some (conformantMsg H aesE n2 s2 answer pad)
    | _, _ => none
  | _ => none

/-- the ordinary operations (one call each) -/
def handle1 : List String → String
  | ["c05.enc", key, iv, data] =>
    match pb? key, pb? iv, pb? data with
    | some k, some v, some d =>
      if k.length ≠ 32 ∨ v.length ≠ 32 then "bad-op" else
      let ek := Mtv.Crypto.aes256Expand k
      showRes (doEncrypt (fun b => Mtv.Crypto.aes256EncryptBlock ek b) v d (outFill d.length))
    | _, _, _ => "bad-op"
  | ["c05.dec", key, iv, data] =>
    match pb? key, pb? iv, pb? data with
    | some k, some v, some d =>
      if k.length ≠ 32 ∨ v.length ≠ 32 then "bad-op" else
      let dk := Mtv.Crypto.aes256Expand k
      showRes (doDecrypt (fun b => Mtv.Crypto.aes256DecryptBlock dk b) v d (outFill d.length))
    | _, _, _ => "bad-op"
  | ["c05.msgenc", authKey, msg] =>
    match pb? authKey, pb? msg with
    | some ak, some m => showOutcome (encryptMsg H aesE m ak)
    | _, _ => "bad-op"
  | ["c05.msgdec", authKey, msgKey, ct] =>
    match pb? authKey, pb? msgKey, pb? ct with
    | some ak, some mk, some c => showOutcome (decryptMsg H aesD c ak mk)
    | _, _, _ => "bad-op"
  | ["c05.mkey", msg] =>
    match pb? msg with
    | some m => showOutcome (.ok (messageKey H m))
    | none => "bad-op"
  | ["c05.kdf", msgKey, authKey, d] =>
    match pb? msgKey, pb? authKey with
    | some mk, some ak =>
      if d == "0" then showKV (generateAESIGE H mk ak false)
      else if d == "1" then showKV (generateAESIGE H mk ak true)
      else "bad-op"
    | _, _ => "bad-op"
  | ["c05.tkeys", n, s] =>
    match pb? n, pb? s with
    | some nb, some sb => showKV (.ok (generateTempKeys H (fromBE nb) (fromBE sb)))
    | _, _ => "bad-op"
  | ["c05.tenc", n, s, _seed, rnd, msg] =>
    match pb? n, pb? s, pb? rnd, pb? msg with
    | some nb, some sb, some r, some m =>
      if r.length < 16 then "bad-op" else
      match encryptTemp H aesE m (fromBE nb) (fromBE sb) r with
      | .ok ct => s!"ct={toHexD ct} rt={showOutcome (decryptTemp H aesD ct (fromBE nb) (fromBE sb))}"
      | o => showOutcome o
    | _, _, _, _ => "bad-op"
  | ["c05.tnopad", n, s, data] =>
    match pb? n, pb? s, pb? data with
    | some nb, some sb, some d => showOutcome (encryptTempNoPad H aesE d (fromBE nb) (fromBE sb))
    | _, _, _ => "bad-op"
  | ["c05.tdec", n, s, pad, answer] =>
    -- a conformant peer's message (32-byte new_nonce, 16-byte server_nonce), built from the
    -- specification only, handed to the model of DecryptMessageWithTempKeys
    match pb? n, pb? s, pb? pad, pb? answer with
    | some nb, some sb, some p, some a =>
      if nb.length ≠ 32 ∨ sb.length ≠ 16 ∨ (20 + a.length + p.length) % 16 ≠ 0 then "bad-op" else
      let ct := conformantMsg H aesE nb sb a p
      s!"ct={showBytes ct} out={showOutcome (decryptTemp H aesD ct (fromBE nb) (fromBE sb))}"
    | _, _, _, _ => "bad-op"
  | ["c05.tdecbad", n, s, pad, answer, how] =>
    -- the same message, damaged: valid length, refused where no cut point matches (whatever the model says)
    match pb? n, pb? s, pb? pad, pb? answer with
    | some nb, some sb, some p, some a =>
      if nb.length ≠ 32 ∨ sb.length ≠ 16 ∨ (20 + a.length + p.length) % 16 ≠ 0 then "bad-op" else
      match damaged? how nb sb p a with
      | some ct => s!"ct={showBytes ct} out={showOutcome (decryptTemp H aesD ct (fromBE nb) (fromBE sb))}"
      | none => "bad-op"
    | _, _, _, _ => "bad-op"
  | ["c05.tdecraw", n, s, ct] =>
    match pb? n, pb? s, pb? ct with
    | some nb, some sb, some c => showOutcome (decryptTemp H aesD c (fromBE nb) (fromBE sb))
    | _, _, _ => "bad-op"
  | _ => "bad-op"

/-- the members of a batch line: the token lists between the `|` tokens (the tokens in front of the first
`|` are the header) -/
def splitBars (toks : List String) : List (List String) :=
  let rec go : List String → List String → List (List String) → List (List String)
    | [], cur, acc => (cur.reverse :: acc).reverse
    | t :: ts, cur, acc => if t == "|" then go ts [] (cur.reverse :: acc) else go ts (t :: cur) acc
  go toks [] []

/-- a member of a batch is an ordinary operation. Inside a batch `c05.tenc` is run only for payloads that need
no padding (the padding comes from the process-wide random source, which a batch cannot seed per member). -/
def member (op : List String) : String :=
  match op with
  | ["c05.tenc", _, _, _, _, msg] =>
    match pb? msg with
    | some m => if (20 + m.length) % 16 ≠ 0 then "bad-op" else handle1 op
    | none => "bad-op"
  | _ => handle1 op

/-- `c05.par <rounds> <iters> | member | …` (the members run at the same time in the harness) and
`c05.seq | member | …` (one after another, nothing in between): every call is a call on its own, so the
answer is the members' answers; `conc=same` is what the harness prints when no member's concurrent result
differed from its result alone. -/
def handle (toks : List String) : String :=
  match toks with
  | "c05.par" :: _ =>
    match splitBars toks with
    | ["c05.par", r, i] :: m :: ms =>
      match r.toNat?, i.toNat? with
      | some r, some i =>
        if r < 1 ∨ i < 1 ∨ r * i > 1048576 then "bad-op" else
        " | ".intercalate ((m :: ms).map member) ++ " | conc=same"
      | _, _ => "bad-op"
    | _ => "bad-op"
  | "c05.seq" :: _ =>
    match splitBars toks with
    | ["c05.seq"] :: m :: ms => " | ".intercalate ((m :: ms).map member)
    | _ => "bad-op"
  | "c05.seqip" :: _ =>
    -- the members one after another in the SAME caller memory refilled in place (the harness seeds the
    -- padding source per member, so `c05.tenc` is an ordinary operation here): calls on their own
    match splitBars toks with
    | ["c05.seqip"] :: m :: ms => " | ".intercalate ((m :: ms).map handle1)
    | _ => "bad-op"
  | _ => handle1 toks

end Driver.C05
