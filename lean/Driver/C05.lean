import Driver.Util
namespace Driver.C05
open Mtv Driver

/-- operations of property C05; not built yet -/
def handle : List String → String
  | _ => "bad-op"

end Driver.C05
