import Driver.Util
import Mtv.Ige.Wrap
import Mtv.Crypto.Aes
import Mtv.Crypto.Sha1
/-
  Line-protocol driver of property C05. The register model and the wrappers of `Mtv.Ige` are run
  with the executable AES-256 and SHA-1 of `Mtv.Crypto` plugged in for the parameters `E D H`.
-/
namespace Driver.C05
open Mtv Mtv.Ige Driver

def aesE (key : Bytes) : Bytes → Bytes :=
  let k := Mtv.Crypto.aes256Expand key
  fun b => Mtv.Crypto.aes256EncryptBlock k b

def aesD (key : Bytes) : Bytes → Bytes :=
  let k := Mtv.Crypto.aes256Expand key
  fun b => Mtv.Crypto.aes256DecryptBlock k b

def H : Bytes → Bytes := Mtv.Crypto.sha1

/-- content of the caller's output buffer before the call (the harness fills it the same way) -/
def outFill (n : Nat) : Bytes := List.replicate n 0xA5

def showErr : Option IgeErr → String
  | none => "-"
  | some e => errName e

def showRes (r : IgeResult) : String :=
  s!"err={showErr r.err} out={showBytes r.out} in={showBytes r.data}"

def showOutcome : Outcome Bytes → String
  | .ok b => "ok:" ++ showBytes b
  | .err e => "err:" ++ e
  | .panic s => "panic:internal/aes_ige." ++ s

def showKV : Outcome (Bytes × Bytes) → String
  | .ok (k, v) => s!"key={showBytes k} iv={showBytes v}"
  | .err e => "err:" ++ e
  | .panic s => "panic:internal/aes_ige." ++ s

/-- `n` bytes of the 64-bit linear congruential generator (MMIX constants) started at `seed`: the top
byte of each successive state (the harness's `c05Bytes` expands the token `r<n>:<seed>` the same way) -/
def lcgBytes (n : Nat) (seed : UInt64) : Bytes :=
  let rec go : Nat → UInt64 → Array UInt8 → Array UInt8
    | 0, _, acc => acc
    | k + 1, s, acc =>
      let s' := s * 6364136223846793005 + 1442695040888963407
      go k s' (acc.push (s' >>> 56).toUInt8)
  (go n seed #[]).toList

/-- byte-string tokens: those of `Driver.parseBytes?` plus `r<n>:<seed>` (long pseudo-random inputs) -/
def pb? (s : String) : Option Bytes :=
  match s.toList with
  | 'r' :: rest =>
    match (String.ofList rest).splitOn ":" with
    | [n, seed] =>
      match n.toNat?, seed.toNat? with
      | some n, some sd => if sd < 18446744073709551616 then some (lcgBytes n (UInt64.ofNat sd)) else none
      | _, _ => none
    | _ => none
  | _ => Driver.parseBytes? s

def handle : List String → String
  | ["c05.enc", key, iv, data] =>
    match pb? key, pb? iv, pb? data with
    | some k, some v, some d =>
      if k.length ≠ 32 ∨ v.length ≠ 32 then "bad-op" else
      let ek := Mtv.Crypto.aes256Expand k
      showRes (doEncrypt (fun b => Mtv.Crypto.aes256EncryptBlock ek b) v d (outFill d.length))
    | _, _, _ => "bad-op"
  | ["c05.dec", key, iv, data] =>
    match pb? key, pb? iv, pb? data with
    | some k, some v, some d =>
      if k.length ≠ 32 ∨ v.length ≠ 32 then "bad-op" else
      let dk := Mtv.Crypto.aes256Expand k
      showRes (doDecrypt (fun b => Mtv.Crypto.aes256DecryptBlock dk b) v d (outFill d.length))
    | _, _, _ => "bad-op"
  | ["c05.msgenc", authKey, msg] =>
    match pb? authKey, pb? msg with
    | some ak, some m => showOutcome (encryptMsg H aesE m ak)
    | _, _ => "bad-op"
  | ["c05.msgdec", authKey, msgKey, ct] =>
    match pb? authKey, pb? msgKey, pb? ct with
    | some ak, some mk, some c => showOutcome (decryptMsg H aesD c ak mk)
    | _, _, _ => "bad-op"
  | ["c05.tkeys", n, s] =>
    match pb? n, pb? s with
    | some nb, some sb => showKV (.ok (generateTempKeys H (fromBE nb) (fromBE sb)))
    | _, _ => "bad-op"
  | ["c05.tenc", n, s, _seed, rnd, msg] =>
    match pb? n, pb? s, pb? rnd, pb? msg with
    | some nb, some sb, some r, some m =>
      if r.length < 16 then "bad-op" else
      match encryptTemp H aesE m (fromBE nb) (fromBE sb) r with
      | .ok ct => s!"ct={toHexD ct} rt={showOutcome (decryptTemp H aesD ct (fromBE nb) (fromBE sb))}"
      | o => showOutcome o
    | _, _, _, _ => "bad-op"
  | ["c05.tnopad", n, s, data] =>
    match pb? n, pb? s, pb? data with
    | some nb, some sb, some d => showOutcome (encryptTempNoPad H aesE d (fromBE nb) (fromBE sb))
    | _, _, _ => "bad-op"
  | ["c05.tdec", n, s, pad, answer] =>
    -- a conformant peer's message (32-byte new_nonce, 16-byte server_nonce), built from the
    -- specification only, handed to the model of DecryptMessageWithTempKeys
    match pb? n, pb? s, pb? pad, pb? answer with
    | some nb, some sb, some p, some a =>
      if nb.length ≠ 32 ∨ sb.length ≠ 16 ∨ (20 + a.length + p.length) % 16 ≠ 0 then "bad-op" else
      let ct := conformantMsg H aesE nb sb a p
      s!"ct={showBytes ct} out={showOutcome (decryptTemp H aesD ct (fromBE nb) (fromBE sb))}"
    | _, _, _, _ => "bad-op"
  | ["c05.tdecraw", n, s, ct] =>
    match pb? n, pb? s, pb? ct with
    | some nb, some sb, some c => showOutcome (decryptTemp H aesD c (fromBE nb) (fromBE sb))
    | _, _, _ => "bad-op"
  | _ => "bad-op"

end Driver.C05
