import Driver.Loop
import Driver.C13
def main : IO Unit := Driver.mainLoop Driver.C13.handle
