import Driver.Util
namespace Driver.C01
open Mtv Driver

/-- operations of property C01; not built yet -/
def handle : List String → String
  | _ => "bad-op"

end Driver.C01
