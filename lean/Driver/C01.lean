import Driver.TLVal
import Mtv.TL.Encode
import Mtv.TL.Decode
import Mtv.Gen.Registry
namespace Driver.C01
open Mtv Mtv.TL Driver Driver.TLVal

def noGunzip : Bytes → Option Bytes := fun _ => none

def fuelFor (bs : Bytes) : Nat := 64 * bs.length + 4096

/-- element types of hints on the line protocol: `i32 i64 u32 f64 bool str bytes`, `p<hexid>` (pointer to a
registered struct), `f<name>` (interface) — each hint is the slice of that element type -/
def parseElem? (s : String) : Option Ty :=
  match s with
  | "i32" => some .int32
  | "u32" => some .uint32
  | "i64" => some .int64
  | "f64" => some .f64
  | "bool" => some .bool
  | "str" => some .str
  | "bytes" => some .bytes
  | _ =>
    match s.toList with
    | 'p' :: r => (hexNat? r).map Ty.ptr
    | 'f' :: r => some (.iface (String.ofList r))
    | _ => none

def parseHints? (s : String) : Option (List Ty) :=
  (splitComma s).mapM fun t => (parseElem? t).map Ty.vec

def hintReqId : Nat := 0x5e0b700a00000041

/-- `c01.hint`: the serialisation of a vector, alone / inside rpc_result / gzip_packed / both, through the
decoder model with the hints of the operation. Decoding is a function of (bytes, hints): every one of the
`rounds` decodings has the same answer and the arguments (hints, bytes, the value) are what they were.
compress/gzip is not modelled: the model's `gunzip` parameter answers the serialisation of the vector for the
packed_data of the wrapping (an empty string here). -/
def hintLine (wrap v hints rounds : String) : String :=
  match parse? v, parseHints? hints, rounds.toNat? with
  | some val, some hs, some n =>
    if n < 1 || n > 16 then "bad-op" else
    match val with
    | .vec _ _ =>
      match encVal Mtv.Gen.registry val with
      | .err _ => "enc=err"
      | .panic _ => "enc=panic"
      | .ok inner =>
        let packed : Bytes := leBytes crcGzip 4 ++ [0, 0, 0, 0]
        let rpc (b : Bytes) : Bytes := leBytes 0xf35c6d01 4 ++ (leBytes hintReqId 8 ++ b)
        let job : Option (Bytes × (Bytes → Option Bytes)) :=
          if wrap == "top" then some (inner, noGunzip)
          else if wrap == "rpc" then some (rpc inner, noGunzip)
          else if wrap == "gz" then some (packed, fun _ => some inner)
          else if wrap == "rpcgz" then some (rpc packed, fun _ => some inner)
          else none
        match job with
        | none => "bad-op"
        | some (outer, gunzip) =>
          let one := showOutcome (decodeUnknown Mtv.Gen.registry gunzip (fuelFor inner) hs outer)
          let rs := (List.range n).map fun i => s!"r{i + 1}={one}"
          s!"enc={showBytes inner} {" ".intercalate rs} hints=same data=same val=same"
    | _ => "bad-op"
  | _, _, _ => "bad-op"

/-! `c01.wrap`: descriptors of the hand-written wrapper structs (not registered, so not in `Mtv.Gen.registry`) come
with the operation, written by the harness from reflection over the working tree:
`<hexid>:<FlagIndex|->:<field>/<field>/…`, field = `<type>[@<bit>[b]]`, type as in `parseElem?` with a leading `v`
for a vector. -/
partial def parseTyTok (cs : List Char) : Option Ty :=
  match cs with
  | 'v' :: r => (parseTyTok r).map Ty.vec
  | _ => parseElem? (String.ofList cs)

def splitOnChar (c : Char) (cs : List Char) : List (List Char) :=
  cs.foldr (fun x acc =>
    if x == c then [] :: acc else
    match acc with
    | [] => [[x]]
    | a :: rest => (x :: a) :: rest) [[]]

def parseField? (i : Nat) (cs : List Char) : Option FieldDesc :=
  match splitOnChar '@' cs with
  | [t] => (parseTyTok t).map fun ty => ⟨s!"f{i}", ty, none⟩
  | [t, fl] =>
    let inBits := fl.getLast? == some 'b'
    let digits := if inBits then fl.dropLast else fl
    match parseTyTok t, (String.ofList digits).toNat? with
    | some ty, some b => some ⟨s!"f{i}", ty, some ⟨b, inBits⟩⟩
    | _, _ => none
  | _ => none

def parseDesc? (s : String) : Option CtorDesc :=
  match splitOnChar ':' s.toList with
  | [idh, fi, fs] =>
    let fidx : Option (Option Nat) :=
      if fi == ['-'] then some none else (String.ofList fi).toNat?.map some
    let fields := (splitOnChar '/' fs).zipIdx.mapM fun (f, i) => parseField? i f
    match hexNat? idh, fidx, fields with
    | some id, some k, some fds => some ⟨id, "wrapper", .struct, k, [], fds⟩
    | _, _, _ => none
  | _ => none

mutual
partial def valHasId (ids : List Nat) : Val → Bool
  | .obj id fs => ids.contains id || valsHaveId ids fs
  | .vec _ items => valsHaveId ids items
  | _ => false
partial def valsHaveId (ids : List Nat) : List Val → Bool
  | [] => false
  | v :: vs => valHasId ids v || valsHaveId ids vs
end

/-- the encoder needs no registration (it walks the Go value): the model's encoder on the registry extended by
the wrapper descriptors. Decoding: the wrapper NAMED at the top is known to the decoder by its type; everything
below it is decoded by constructor id against the registered constructors, where the wrappers are not - the model
has one registry for both, so the driver applies that rule itself: a wrapper below the top is refused, and
decoding the whole by id is answered on the registry as it is. -/
def wrapLine (descs v : String) : String :=
  match (splitComma descs).mapM parseDesc?, parse? v with
  | some ws, some (.obj id fs) =>
    if !(ws.any (·.id == id)) then "bad-op" else
    match encVal (Mtv.Gen.registry ++ ws) (.obj id fs) with
    | .ok bs =>
      let named :=
        if valsHaveId (ws.map (·.id)) fs then "err"
        else showOutcome (decodeNamed (Mtv.Gen.registry ++ ws.filter (·.id == id)) noGunzip (fuelFor bs) id bs)
      let unk := showOutcome (decodeUnknown Mtv.Gen.registry noGunzip (fuelFor bs) [] bs)
      s!"enc={showBytes bs} again=same spec=same named={named} unknown={unk}"
    | .err _ => "enc=err"
    | .panic _ => "enc=panic"
  | _, _ => "bad-op"

def handle : List String → String
  | ["c01.wrap", descs, v] => wrapLine descs v
  | ["c01.hint", wrap, _ety, v, hints, rounds, spare] =>
    match spare.toNat? with
    | some k => if k ≤ 16 then hintLine wrap v hints rounds else "bad-op"
    | none => "bad-op"
  | ["c01.rt", _id, v] =>
    match parse? v with
    | none => "bad-op"
    | some val =>
      let enc := encVal Mtv.Gen.registry val
      match enc, val with
      | .ok bs, .obj id _ =>
        let named := decodeNamed Mtv.Gen.registry noGunzip (fuelFor bs) id bs
        let unk := decodeUnknown Mtv.Gen.registry noGunzip (fuelFor bs) [] bs
        s!"enc={showBytes bs} named={showOutcome named} unknown={showOutcome unk}"
      | .ok bs, _ => s!"enc={showBytes bs} named=- unknown=-"
      | .err _, _ => "enc=err"
      | .panic _, _ => "enc=panic"
  | ["c01.dag", idHex, v, plan] =>
    -- identity / aliasing of Go values (harness c01alias.go): values of the model are trees, so a Go value in
    -- which objects or backing arrays are shared is answered by the model on the tree it unfolds to - the text of
    -- the operation -, and every "did it change" comparison with `same` (the model's functions return values)
    if !(["tree", "hc", "hcp", "arena", "arena3", "tnil"].contains plan) then "bad-op" else
    match parse? v, hexNat? idHex.toList with
    | some (.obj id fs), some id' =>
      if id != id' then "bad-op" else
      match Mtv.Gen.registry.find id with
      | none => "bad-op"
      | some d =>
        if d.kind != .struct then "bad-op" else
        match encVal Mtv.Gen.registry (.obj id fs) with
        | .ok bs =>
          if plan == "tnil" then s!"enc={showBytes bs}" else
          let named := decodeNamed Mtv.Gen.registry noGunzip (fuelFor bs) id bs
          let unk := decodeUnknown Mtv.Gen.registry noGunzip (fuelFor bs) [] bs
          s!"enc={showBytes bs} tree=same arg=same again=same named={showOutcome named} unknown={showOutcome unk} inp=same twice=same indep=same ret=same"
        | .err _ => "enc=err"
        | .panic _ => "enc=panic"
    | _, _ => "bad-op"
  | ["c01.msg", b, rest] =>
    -- PutMessage / PopMessage on a byte string followed by `rest`
    match parseBytes? b, parseBytes? rest with
    | some bs, some r =>
      match putMessage bs with
      | .ok e =>
        let back := match popMessage (e ++ r) with
          | .ok (m, r') => s!"{showBytes m}/{showBytes r'}"
          | .err _ => "err"
          | .panic _ => "panic"
        s!"enc={showBytes e} dec={back}"
      | .err _ => "enc=err"
      | .panic _ => "enc=panic"
    | _, _ => "bad-op"
  | ["c01.sdec", _id, b] =>
    -- bytes written from a schema line: decoded by constructor id, the result serialised again
    match parseBytes? b with
    | none => "bad-op"
    | some bs =>
      match decodeUnknown Mtv.Gen.registry noGunzip (fuelFor bs) [] bs with
      | .ok v =>
        let re := match encVal Mtv.Gen.registry v with
          | .ok e => if e == bs then "same" else "diff"
          | .err _ => "err"
          | .panic _ => "panic"
        s!"dec={showVal v} re={re}"
      | .err _ => "dec=err"
      | .panic _ => "dec=panic"
  | ["c01.reg"] =>
    -- what the Go side prints when every object handed to the registration functions has an id of its own:
    -- as many distinct ids as registrations (the registry this driver is built with IS the list of ids)
    let n := Mtv.Gen.registry.length
    s!"registered={n} declared={n} lost=-"
  | _ => "bad-op"

end Driver.C01
