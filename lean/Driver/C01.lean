import Driver.TLVal
import Mtv.TL.Encode
import Mtv.TL.Decode
import Mtv.Gen.Registry
namespace Driver.C01
open Mtv Mtv.TL Driver Driver.TLVal

def noGunzip : Bytes → Option Bytes := fun _ => none

def fuelFor (bs : Bytes) : Nat := 64 * bs.length + 4096

/-- element types of hints on the line protocol: `i32 i64 u32 f64 bool str bytes`, `p<hexid>` (pointer to a
registered struct), `f<name>` (interface) — each hint is the slice of that element type -/
def parseElem? (s : String) : Option Ty :=
  match s with
  | "i32" => some .int32
  | "u32" => some .uint32
  | "i64" => some .int64
  | "f64" => some .f64
  | "bool" => some .bool
  | "str" => some .str
  | "bytes" => some .bytes
  | _ =>
    match s.toList with
    | 'p' :: r => (hexNat? r).map Ty.ptr
    | 'f' :: r => some (.iface (String.ofList r))
    | _ => none

def parseHints? (s : String) : Option (List Ty) :=
  (splitComma s).mapM fun t => (parseElem? t).map Ty.vec

def hintReqId : Nat := 0x5e0b700a00000041

/-- `c01.hint`: the serialisation of a vector, alone / inside rpc_result / gzip_packed / both, through the
decoder model with the hints of the operation. Decoding is a function of (bytes, hints): every one of the
`rounds` decodings has the same answer and the arguments (hints, bytes, the value) are what they were.
compress/gzip is not modelled: the model's `gunzip` parameter answers the serialisation of the vector for the
packed_data of the wrapping (an empty string here). -/
def hintLine (wrap v hints rounds : String) : String :=
  match parse? v, parseHints? hints, rounds.toNat? with
  | some val, some hs, some n =>
    if n < 1 || n > 16 then "bad-op" else
    match val with
    | .vec _ _ =>
      match encVal Mtv.Gen.registry val with
      | .err _ => "enc=err"
      | .panic _ => "enc=panic"
      | .ok inner =>
        let packed : Bytes := leBytes crcGzip 4 ++ [0, 0, 0, 0]
        let rpc (b : Bytes) : Bytes := leBytes 0xf35c6d01 4 ++ (leBytes hintReqId 8 ++ b)
        let job : Option (Bytes × (Bytes → Option Bytes)) :=
          if wrap == "top" then some (inner, noGunzip)
          else if wrap == "rpc" then some (rpc inner, noGunzip)
          else if wrap == "gz" then some (packed, fun _ => some inner)
          else if wrap == "rpcgz" then some (rpc packed, fun _ => some inner)
          else none
        match job with
        | none => "bad-op"
        | some (outer, gunzip) =>
          let one := showOutcome (decodeUnknown Mtv.Gen.registry gunzip (fuelFor inner) hs outer)
          let rs := (List.range n).map fun i => s!"r{i + 1}={one}"
          s!"enc={showBytes inner} {" ".intercalate rs} hints=same data=same val=same"
    | _ => "bad-op"
  | _, _, _ => "bad-op"

def handle : List String → String
  | ["c01.hint", wrap, _ety, v, hints, rounds, spare] =>
    match spare.toNat? with
    | some k => if k ≤ 16 then hintLine wrap v hints rounds else "bad-op"
    | none => "bad-op"
  | ["c01.rt", _id, v] =>
    match parse? v with
    | none => "bad-op"
    | some val =>
      let enc := encVal Mtv.Gen.registry val
      match enc, val with
      | .ok bs, .obj id _ =>
        let named := decodeNamed Mtv.Gen.registry noGunzip (fuelFor bs) id bs
        let unk := decodeUnknown Mtv.Gen.registry noGunzip (fuelFor bs) [] bs
        s!"enc={showBytes bs} named={showOutcome named} unknown={showOutcome unk}"
      | .ok bs, _ => s!"enc={showBytes bs} named=- unknown=-"
      | .err _, _ => "enc=err"
      | .panic _, _ => "enc=panic"
  | ["c01.msg", b, rest] =>
    -- PutMessage / PopMessage on a byte string followed by `rest`
    match parseBytes? b, parseBytes? rest with
    | some bs, some r =>
      match putMessage bs with
      | .ok e =>
        let back := match popMessage (e ++ r) with
          | .ok (m, r') => s!"{showBytes m}/{showBytes r'}"
          | .err _ => "err"
          | .panic _ => "panic"
        s!"enc={showBytes e} dec={back}"
      | .err _ => "enc=err"
      | .panic _ => "enc=panic"
    | _, _ => "bad-op"
  | ["c01.sdec", _id, b] =>
    -- bytes written from a schema line: decoded by constructor id, the result serialised again
    match parseBytes? b with
    | none => "bad-op"
    | some bs =>
      match decodeUnknown Mtv.Gen.registry noGunzip (fuelFor bs) [] bs with
      | .ok v =>
        let re := match encVal Mtv.Gen.registry v with
          | .ok e => if e == bs then "same" else "diff"
          | .err _ => "err"
          | .panic _ => "panic"
        s!"dec={showVal v} re={re}"
      | .err _ => "dec=err"
      | .panic _ => "dec=panic"
  | ["c01.reg"] =>
    -- what the Go side prints when every object handed to the registration functions has an id of its own:
    -- as many distinct ids as registrations (the registry this driver is built with IS the list of ids)
    let n := Mtv.Gen.registry.length
    s!"registered={n} declared={n} lost=-"
  | _ => "bad-op"

end Driver.C01
