import Driver.TLVal
import Mtv.TL.Encode
import Mtv.TL.Decode
import Mtv.Gen.Registry
namespace Driver.C01
open Mtv Mtv.TL Driver Driver.TLVal

def noGunzip : Bytes → Option Bytes := fun _ => none

def fuelFor (bs : Bytes) : Nat := 64 * bs.length + 4096

def handle : List String → String
  | ["c01.rt", _id, v] =>
    match parse? v with
    | none => "bad-op"
    | some val =>
      let enc := encVal Mtv.Gen.registry val
      match enc, val with
      | .ok bs, .obj id _ =>
        let named := decodeNamed Mtv.Gen.registry noGunzip (fuelFor bs) id bs
        let unk := decodeUnknown Mtv.Gen.registry noGunzip (fuelFor bs) [] bs
        s!"enc={showBytes bs} named={showOutcome named} unknown={showOutcome unk}"
      | .ok bs, _ => s!"enc={showBytes bs} named=- unknown=-"
      | .err _, _ => "enc=err"
      | .panic _, _ => "enc=panic"
  | ["c01.msg", b, rest] =>
    -- PutMessage / PopMessage on a byte string followed by `rest`
    match parseBytes? b, parseBytes? rest with
    | some bs, some r =>
      match putMessage bs with
      | .ok e =>
        let back := match popMessage (e ++ r) with
          | .ok (m, r') => s!"{showBytes m}/{showBytes r'}"
          | .err _ => "err"
          | .panic _ => "panic"
        s!"enc={showBytes e} dec={back}"
      | .err _ => "enc=err"
      | .panic _ => "enc=panic"
    | _, _ => "bad-op"
  | ["c01.sdec", _id, b] =>
    -- bytes written from a schema line: decoded by constructor id, the result serialised again
    match parseBytes? b with
    | none => "bad-op"
    | some bs =>
      match decodeUnknown Mtv.Gen.registry noGunzip (fuelFor bs) [] bs with
      | .ok v =>
        let re := match encVal Mtv.Gen.registry v with
          | .ok e => if e == bs then "same" else "diff"
          | .err _ => "err"
          | .panic _ => "panic"
        s!"dec={showVal v} re={re}"
      | .err _ => "dec=err"
      | .panic _ => "dec=panic"
  | ["c01.reg"] =>
    -- what the Go side prints when every object handed to the registration functions has an id of its own:
    -- as many distinct ids as registrations (the registry this driver is built with IS the list of ids)
    let n := Mtv.Gen.registry.length
    s!"registered={n} declared={n} lost=-"
  | _ => "bad-op"

end Driver.C01
