/-
  Trace validation for C09, C10, C11, C16: a trace of the real client (events observed by the scripted
  server, the callers and the session store, see harness/cmd/vh/x_rpcsrv.go) is parsed into machine
  events and replayed through `Mtv.Client.step`. Output: `ok w=<warnings>` when every event is enabled and
  the final state is quiescent, else where and why it is not.
-/
import Driver.Util
import Mtv.Client.Machine
namespace Driver.RpcTrace
open Mtv Mtv.Client Driver

/-- split at the first `n-1` separators only -/
def splitN (s : String) (sep : Char) (n : Nat) : List String :=
  let rec go (cs : List Char) (cur : List Char) (n : Nat) (acc : List String) : List String :=
    match cs with
    | [] => (String.ofList cur.reverse :: acc).reverse
    | c :: rest =>
      if c == sep && n > 1 then go rest [] (n - 1) (String.ofList cur.reverse :: acc)
      else go rest (c :: cur) n acc
  go s.toList [] n []

def dropSuffixChar (s : String) : String := String.ofList (s.toList.dropLast)

/-- split at `sep` outside square brackets (members of a container may be containers) -/
def splitTop (s : String) (sep : Char) : List String :=
  let rec go (cs : List Char) (cur : List Char) (depth : Nat) (acc : List String) : List String :=
    match cs with
    | [] => (String.ofList cur.reverse :: acc).reverse
    | c :: rest =>
      if c == '[' then go rest (c :: cur) (depth + 1) acc
      else if c == ']' then go rest (c :: cur) (depth - 1) acc
      else if c == sep && depth == 0 then go rest [] depth (String.ofList cur.reverse :: acc)
      else go rest (c :: cur) depth acc
  go s.toList [] 0 []

/-- message descriptor → `Msg` -/
partial def parseDesc (d : String) : Option Msg :=
  if d.startsWith "res(" then
    match splitN (dropSuffixChar ((d.drop 4).toString)) '/' 2 with
    | [id, v] => id.toNat?.map fun i => Msg.res i v
    | _ => none
  else if d.startsWith "salt(" then
    match splitN (dropSuffixChar ((d.drop 5).toString)) '/' 2 with
    | [id, ns] => do pure (Msg.salt (← id.toNat?) (← ns.toInt?))
    | _ => none
  else if d.startsWith "news(" then (dropSuffixChar ((d.drop 5).toString)).toInt?.map Msg.news
  else if d.startsWith "badmsg(" then (dropSuffixChar ((d.drop 7).toString)).toNat?.map Msg.badmsg
  else if d == "pong" || d == "ack" then some .quiet
  -- the empty container: ignored like a pong — unless it is nested too deep, then refused like any container
  else if d == "cont()" then some (.cont [])
  else if d == "deep" then some (.cont [])   -- levels of a very deep message the trace does not spell out
  else if d == "upd" || d == "unk" || d == "trunc" || d == "gzbad" then some .odd
  -- a well-formed service request / informational message the client has no use for: reported, nothing else
  else if d.startsWith "svc(" then some .odd
  else if d.startsWith "cont[" then
    let inner := dropSuffixChar ((d.drop 5).toString)
    let members := if inner.isEmpty then [] else splitTop inner '|'
    (members.mapM fun m =>
      match splitN m ':' 3 with
      | [mid, seq, dd] => do pure ((← mid.toNat?), (← seq.toNat?), (← parseDesc dd))
      | _ => none).map Msg.cont
  else none

inductive Parsed where
  | ev (e : Ev)
  | skip
  | warn
  | junk           -- J:<hex>: a transport-level frame that is no sealed message (error code, too short, other key id): one warning
  | plain          -- an unencrypted frame: a key exchange on a resumed session
  | sendFault                  -- injected fault: the write of a caller's request failed (the request never entered the machine)
  | ackFault (ids : List Nat)  -- injected fault: the write of the acknowledgement naming these ids failed
  | storeFault (salt : Int)    -- injected fault: the session store refused to write this salt
  | bad (why : String)

def parseEvent (e : String) : Parsed :=
  match splitN e ':' 2 with
  | ["N", _] => .skip
  | ["C"] => .skip
  -- C:<kind>: what ends the connection next (eof, drop, rst, cut: the peer; app: Reconnect() of the application);
  -- A:<n>:<auth_key_id>: the key id of the first encrypted frame on connection n; E:<caller>:<outcome>: a request
  -- issued without a connection. Events of the connection lifecycle (Driver/C16Life.lean), none of the RPC machine
  | ["C", _] => .skip
  | ["A", _] => .skip
  | ["E", _] => .skip
  | ["Z"] => .skip   -- the scenario is over, the peer goes away
  | ["P", _] => .plain
  -- the application's handler was called (the Go oracle counts these)
  | ["H", _] => .skip
  -- a plain-text frame written to the keyed session by the peer
  | ["U", rest] =>
    match splitN rest ':' 2 with
    | [mid, d] =>
      match mid.toNat?, parseDesc d with
      | some mid, some m => .ev (.plain mid m)
      | _, _ => .bad e
    | _ => .bad e
  -- the client's own keepalive ping (one per minute of a connection's life): not a caller's request; the Go oracle
  -- checks its msg_id and seq_no against the rest of the outgoing stream
  | ["K", _] => .skip
  | ["J", _] => .junk
  -- conn-broken: the connection could not be read any further and is replaced (the consequence of a lost
  -- connection, event C, like "reconnect")
  | ["V", cls] => if cls == "reconnect" || cls == "ackfail" || cls == "storefail" || cls == "conn-broken" then .skip else .warn
  | ["F", rest] =>
    match rest.splitOn ":" with
    | ["k", ids] => match (ids.splitOn "+").mapM (·.toNat?) with
      | some ids => .ackFault ids
      | none => .bad e
    | ["s", salt] => match salt.toInt? with
      | some x => .storeFault x
      | none => .bad e
    | ["q", _] => .sendFault
    | _ => .bad e
  | ["W", s] => match s.toInt? with | some x => .ev (.store x) | none => .bad e
  | ["D", rest] =>
    match splitN rest ':' 2 with
    | [c, v] => match c.toNat? with | some c => .ev (.deliver c v) | none => .bad e
    | _ => .bad e
  | ["R", rest] =>
    match splitN rest ':' 3 with
    | [mid, seq, d] =>
      match mid.toNat?, seq.toNat?, parseDesc d with
      | some mid, some seq, some m => .ev (.recv mid seq m)
      | _, _, _ => .bad e
    | _ => .bad e
  | ["S", rest] =>
    match rest.splitOn ":" with
    | [c, mid, seq, salt, "q"] =>
      match c.toNat?, mid.toNat?, seq.toNat?, salt.toInt? with
      | some c, some mid, some seq, some salt => .ev (.send c mid seq salt)
      | _, _, _, _ => .bad e
    -- a request of another type than ping (the sixth field names its constructor): every request a caller
    -- can send is content-related, the machine's `send` asks for an odd seq_no
    | [c, mid, seq, salt, "q", _ctor] =>
      match c.toNat?, mid.toNat?, seq.toNat?, salt.toInt? with
      | some c, some mid, some seq, some salt => .ev (.send c mid seq salt)
      | _, _, _, _ => .bad e
    | ["L", mid, seq, _salt, "k", ids] =>
      match mid.toNat?, seq.toNat?, (ids.splitOn "+").mapM (·.toNat?) with
      | some mid, some seq, some ids => .ev (.ack mid seq ids)
      | _, _, _ => .bad e
    | _ => .bad e
  | _ => .bad e

def replay (trace : String) : String :=
  let evs := if trace.isEmpty then [] else trace.splitOn ","
  -- `failed`: request writes that failed and whose call has not returned the write error yet. Such a request never
  -- reached the wire: it is no event of the machine, and the error its call returns is no delivery
  let rec go (s : St) (es : List String) (k : Nat) (warns : Nat) (failed : Nat := 0) : String :=
    match es with
    | [] =>
      if !quiescent s then
        s!"not-quiescent deliver={s.owedDeliver.length} ack={s.owedAck.length} resend={s.owedResend.length} store={s.owedStore.length} pending={s.pending.length}"
      else if warns != s.warnings then s!"warnings model={s.warnings} observed={warns}"
      else s!"ok w={warns}"
    | e :: rest =>
      match parseEvent e with
      | .skip => go s rest (k + 1) warns failed
      | .warn => go s rest (k + 1) (warns + 1) failed
      | .junk => go (warnStep s) rest (k + 1) warns failed
      | .sendFault => go s rest (k + 1) warns (failed + 1)
      | .plain => s!"stuck@{k}:plaintext-frame-on-resumed-session"
      | .bad w => s!"unparsed@{k}:{w}"
      -- environment faults are events of the machine too (Ev.ackLost, Ev.storeLost)
      | .storeFault x =>
        match step s (.storeLost x) with
        | some s' => go s' rest (k + 1) warns failed
        | none => s!"stuck@{k}:{e}"
      | .ackFault ids =>
        match step s (.ackLost ids) with
        | some s' => go s' rest (k + 1) warns failed
        | none => s!"stuck@{k}:{e}"
      | .ev (.deliver c v) =>
        if failed > 0 && v.startsWith "err(sending_message" then go s rest (k + 1) warns (failed - 1)
        else match step s (.deliver c v) with
          | some s' => go s' rest (k + 1) warns failed
          | none => s!"stuck@{k}:{e}"
      | .ev ev =>
        match step s ev with
        | some s' => go s' rest (k + 1) warns failed
        | none => s!"stuck@{k}:{e}"
  go {} evs 0 0

def handle (prefix_ : String) : List String → String
  | [op, trace] => if op == prefix_ ++ ".trace" then replay trace else "bad-op"
  | [op] => if op == prefix_ ++ ".trace" then replay "" else "bad-op"
  | _ => "bad-op"

end Driver.RpcTrace
