import Driver.Util
import Mtv.Rand.Graph
import Mtv.Gen.CallGraph
namespace Driver.C19
open Mtv Mtv.Rand Driver

/-
  The Lean side of the C19 correspondence: what the regenerated call graph predicts for the dynamic
  experiments the Go harness makes on the real functions.

    c19.secret <fn> <k>   draw twice after identical math/rand seeding, try to predict from the clock
                          → fresh | predictable
    c19.hs <k>            the nonce of req_pq on the wire in two key exchanges after identical seeding
                          → fresh | predictable
    c19.reseed <fn> <k>   create a client, then draw: is the value a function of the clock at creation?
                          → independent | reseeded
    c19.xproc <fn>        draw once in each of two fresh processes → fresh | predictable
    c19.reader            is crypto/rand.Reader still the standard library's reader → os | replaced
    c19.path <fn>         diagnosis: a path from the function to a math/rand node (not sent by the harness)
-/

def M : Model := Mtv.Gen.CallGraph.model

def repo : String := "github.com/xelaj/mtproto"

def nodeName? : String → Option String
  | "nonce128" => some (repo ++ "/internal/encoding/tl.RandomInt128")
  | "nonce256" => some (repo ++ "/internal/encoding/tl.RandomInt256")
  | "dh_b" => some (repo ++ "/internal/math.MakeGAB")
  | "srp_a" => some (repo ++ "/telegram.GetInputCheckPassword")
  | "wire_nonce" => some "secret:nonce"
  | "wire_new_nonce" => some "secret:new_nonce"
  | "wire_dh_b" => some "secret:dh_b"
  | "new_client" => some (repo ++ ".NewMTProto")
  | _ => none

def indexOf (s : String) : List String → Nat → Option Nat
  | [], _ => none
  | x :: xs, i => if x == s then some i else indexOf s xs (i + 1)

def node? (key : String) : Option Nat :=
  match nodeName? key with
  | some n => indexOf n Mtv.Gen.CallGraph.names 0
  | none => none

/-- the static verdict for one function: everything it can reach is free of math/rand, clock readers and
    foreign readers, and it does reach crypto/rand -/
def good (x : Nat) : Bool := M.sourceOK x && M.sourcePure x && M.readerStores.isEmpty

def verdict (key : String) (yes no : String) : String :=
  if !M.ok then "extractor-failed" else
  match node? key with
  | some x => if good x then yes else no
  | none => "unknown-node"

def reseedVerdict (key : String) : String :=
  if !M.ok then "extractor-failed" else
  match node? key, node? "new_client" with
  | some x, some c =>
    let rc := reachM2 M.chunk M.adj c
    let rx := reachM2 M.chunk M.adj x
    -- creating a client reseeds a math/rand generator, and the function reads math/rand
    if someIn rc M.seeders && someIn rx M.mathRand then "reseeded" else "independent"
  | _, _ => "unknown-node"

def nameOf (i : Nat) : String := (Mtv.Gen.CallGraph.names.getD i "?")

def pathTo (key : String) (bad : List Nat) : String :=
  match node? key with
  | none => "unknown-node"
  | some x =>
    let r := reach2 M.chunk M.adj x
    match firstIn bad r.reverse with
    | none => "none"
    | some t => " -> ".intercalate ((backPath M.sc x r r.length t []).map nameOf)

def isFn (fn : String) : Bool := fn == "nonce128" || fn == "nonce256" || fn == "dh_b" || fn == "srp_a"

/-- one call of a history: `n128 | n256 | srp | gab.<g>.<dh_prime hex, non-zero>.<g_a hex | ->` -/
def preludeTokenOk (t : String) : Bool :=
  if t == "n128" || t == "n256" || t == "srp" then true else
  match t.splitOn "." with
  | ["gab", g, p, ga] =>
    (match g.toInt? with
     | some v => decide (-2147483648 ≤ v ∧ v ≤ 2147483647) && !g.startsWith "+"
     | none => false) &&
    (match fromHex? p with
     | some bs => !bs.isEmpty && bs.any (· != 0)
     | none => false) &&
    (ga == "-" || (match fromHex? ga with | some bs => !bs.isEmpty | none => false))
  | _ => false

def preludeOk (s : String) : Bool := s == "-" || (s.splitOn ",").all preludeTokenOk

/-- `secure_random` of account.password as the peer may send it: absent, or 0 … 4096 bytes all-zero (`z`), all-ones
(`f`), pseudo-random (`r`) -/
def secureRandomOk (t : String) : Bool :=
  t == "none" ||
  (match t.toList with
   | c :: ds => (c == 'z' || c == 'f' || c == 'r') && !ds.isEmpty &&
      (match (String.ofList ds).toNat? with
       | some n => n ≤ 4096 && toString n == String.ofList ds
       | none => false)
   | [] => false)

def scriptOk (s : String) : Bool :=
  let ps := s.splitOn ","
  ps.length ≤ 8 && ps.all fun p => p == "ok" || p == "retry" || p == "fail"

def faultModeOk (m : String) : Bool := ["err", "once", "eof", "part", "trickle", "none"].contains m

/-- all of the given nodes are sound in the regenerated graph -/
def verdictAll (keys : List String) (yes no : String) : String :=
  if !M.ok then "extractor-failed" else
  match keys.mapM node? with
  | some xs => if xs.all good then yes else no
  | none => "unknown-node"

def handle : List String → String
  -- the OS source fails / runs short at its k-th Read: the graph has no values and no failures — a secret whose every
  -- path ends in the OS source (no other generator, no clock) has nothing to be made of when the source does not
  -- deliver ("sound" is also the line the Go side prints when every secret that was emitted is backed by, and a
  -- function of, the bytes the source delivered — however the client ended)
  | ["c19.fault", wh, k, mode, seed] =>
    match k.toNat?, seed.toNat? with
    | some kn, some _ =>
      if !(faultModeOk mode) || kn > 64 || toString kn != k || ((mode == "none") != (kn == 0)) then "bad-op"
      else if wh == "kx" then verdictAll ["wire_nonce", "wire_new_nonce", "wire_dh_b"] "sound" "unbacked"
      else if isFn wh then verdict wh "sound" "unbacked"
      else "bad-op"
    | _, _ => "bad-op"
  -- the secret drawn WITH values the peer chose: the graph has no values — a generator whose every path ends in the OS
  -- source reads the full width whatever its other arguments are ("full" is also the line the Go side prints when
  -- the draws are full-width, distinct, and every byte read enters the secret)
  | ["c19.peer", "srp_a", sr, k] =>
    if secureRandomOk sr && k.toNat?.isSome then verdict "srp_a" "full" "short" else "bad-op"
  | ["c19.peer", "dh_b", gab, k] =>
    if (gab.splitOn ".").head? == some "gab" && preludeTokenOk gab && k.toNat?.isSome then verdict "dh_b" "full" "short" else "bad-op"
  -- the server answers set_client_DH_params with dh_gen_retry / dh_gen_fail / dh_gen_ok: every value that reaches
  -- client_DH_inner_data.g_b is computed from calls that end in the OS source ("fresh" is also the line the Go side
  -- prints when every g_b sent came from a fresh full-width draw, whatever the client did after the answer)
  | ["c19.retry", script, k] =>
    if scriptOk script && k.toNat?.isSome then verdict "wire_dh_b" "fresh" "short" else "bad-op"
  -- earlier calls with unusual parameters, then ordinary draws: a generator whose every path ends in crypto/rand
  -- and that keeps no state reads the full width from the OS source each time ("full" is also the line the Go
  -- side prints when the later draws are as wide and as fresh as the first)
  | ["c19.hist", fn, prelude, n] =>
    match n.toNat? with
    | some k => if isFn fn && preludeOk prelude && 2 ≤ k && k ≤ 64 then verdict fn "full" "short" else "bad-op"
    | none => "bad-op"
  | ["c19.secret", fn, k] =>
    if isFn fn && k.toNat?.isSome then verdict fn "fresh" "predictable" else "bad-op"
  | ["c19.hs", k] => if k.toNat?.isSome then verdict "wire_nonce" "fresh" "predictable" else "bad-op"
  | ["c19.reseed", fn, k] => if isFn fn && k.toNat?.isSome then reseedVerdict fn else "bad-op"
  | ["c19.xproc", fn] => if isFn fn then verdict fn "fresh" "predictable" else "bad-op"
  | ["c19.reader"] =>
    if !M.ok then "extractor-failed" else if M.readerStores.isEmpty then "os" else "replaced"
  | ["c19.path", fn] =>
    if (nodeName? fn).isSome then pathTo fn (M.mathRand ++ M.clock ++ M.suspect) else "bad-op"
  | _ => "bad-op"

end Driver.C19
