import Driver.Util
namespace Driver.C19
open Mtv Driver

/-- operations of property C19; not built yet -/
def handle : List String → String
  | _ => "bad-op"

end Driver.C19
