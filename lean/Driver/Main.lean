/-
  mtv-driver: one operation per input line, one result per output line.
  The first token selects the property driver by its prefix (`c08.`…).
-/
import Driver.C08
open Mtv

def dispatch (line : String) : String :=
  let toks := splitWs line
  match toks with
  | [] => "bad-op"
  | t :: _ =>
    if t.startsWith "c08." then Driver.C08.handle toks
    else "bad-op"

partial def loop (hin hout : IO.FS.Stream) : IO Unit := do
  let line ← hin.getLine
  if line.isEmpty then return ()
  let l := (line.dropEndWhile (fun c => c == '\n' || c == '\r')).toString
  hout.putStrLn (dispatch l)
  hout.flush
  loop hin hout

def main : IO Unit := do
  loop (← IO.getStdin) (← IO.getStdout)
