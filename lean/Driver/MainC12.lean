import Driver.Loop
import Driver.C12
def main : IO Unit := Driver.mainLoop Driver.C12.handle
