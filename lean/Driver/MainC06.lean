import Driver.Loop
import Driver.C06
def main : IO Unit := Driver.mainLoop Driver.C06.handle
