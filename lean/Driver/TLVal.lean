/-
  Text form of `Mtv.TL.Val` on the line protocol (one token, no spaces):
    w<n> word · l<n> long · d<bits> double · T / F · s<hex> (s- empty) · b<hex> / b- (empty, non-nil) / bN (nil)
    i<width>:<decimal> · v(a;b;c) / v() / vN · o<hexid>(f1;f2) · N
-/
import Driver.Util
import Mtv.TL.Types
namespace Driver.TLVal
open Mtv Mtv.TL

def hex8 (n : Nat) : String :=
  String.ofList ((List.range 8).reverse.map fun i => hexDigit ((n / 16 ^ i) % 16))

mutual
partial def showVal : Val → String
  | .word n => s!"w{n}"
  | .long n => s!"l{n}"
  | .dbl n => s!"d{n}"
  | .bool b => if b then "T" else "F"
  | .str bs => "s" ++ toHexD bs
  | .bytes isNil bs => if isNil then "bN" else "b" ++ toHexD bs
  | .big w n => s!"i{w}:{n}"
  | .vec isNil items => if isNil then "vN" else "v(" ++ showVals items ++ ")"
  | .obj id fs => "o" ++ hex8 id ++ "(" ++ showVals fs ++ ")"
  | .null => "N"
partial def showVals : List Val → String
  | [] => ""
  | [v] => showVal v
  | v :: vs => showVal v ++ ";" ++ showVals vs
end

def takeWhileC (p : Char → Bool) : List Char → List Char × List Char
  | [] => ([], [])
  | c :: cs => if p c then let (a, b) := takeWhileC p cs; (c :: a, b) else ([], c :: cs)

def hexNat? (cs : List Char) : Option Nat :=
  cs.foldlM (fun acc c => (hexVal? c).map (acc * 16 + ·)) 0

def isTokEnd (c : Char) : Bool := c == ';' || c == ')'

mutual
partial def parseVal : List Char → Option (Val × List Char)
  | 'w' :: cs => let (d, r) := takeWhileC Char.isDigit cs; (String.ofList d).toNat?.map fun n => (.word n, r)
  | 'l' :: cs => let (d, r) := takeWhileC Char.isDigit cs; (String.ofList d).toNat?.map fun n => (.long n, r)
  | 'd' :: cs => let (d, r) := takeWhileC Char.isDigit cs; (String.ofList d).toNat?.map fun n => (.dbl n, r)
  | 'T' :: cs => some (.bool true, cs)
  | 'F' :: cs => some (.bool false, cs)
  | 'N' :: cs => some (.null, cs)
  | 's' :: cs => let (d, r) := takeWhileC (fun c => !isTokEnd c) cs; (fromHex? (String.ofList d)).map fun b => (.str b, r)
  | 'b' :: 'N' :: cs => some (.bytes true [], cs)
  | 'b' :: cs => let (d, r) := takeWhileC (fun c => !isTokEnd c) cs; (fromHex? (String.ofList d)).map fun b => (.bytes false b, r)
  | 'i' :: cs =>
    let (w, r) := takeWhileC Char.isDigit cs
    match r with
    | ':' :: r2 =>
      let (d, r3) := takeWhileC Char.isDigit r2
      match (String.ofList w).toNat?, (String.ofList d).toNat? with
      | some w, some n => some (.big w n, r3)
      | _, _ => none
    | _ => none
  | 'v' :: 'N' :: cs => some (.vec true [], cs)
  | 'v' :: '(' :: cs => (parseVals cs).map fun (vs, r) => (.vec false vs, r)
  | 'o' :: cs =>
    let (h, r) := takeWhileC (fun c => c != '(') cs
    match hexNat? h, r with
    | some id, '(' :: r2 => (parseVals r2).map fun (vs, r3) => (.obj id vs, r3)
    | _, _ => none
  | _ => none
/-- after an opening parenthesis: items separated by `;` up to the closing parenthesis -/
partial def parseVals : List Char → Option (List Val × List Char)
  | ')' :: cs => some ([], cs)
  | cs =>
    match parseVal cs with
    | none => none
    | some (v, ')' :: r) => some ([v], r)
    | some (v, ';' :: r) => (parseVals r).map fun (vs, r2) => (v :: vs, r2)
    | some _ => none
end

def parse? (s : String) : Option Val :=
  match parseVal s.toList with
  | some (v, []) => some v
  | _ => none

def showOutcome (o : Outcome Val) : String :=
  match o with
  | .ok v => showVal v
  | .err _ => "err"
  | .panic _ => "panic"

def showOutcomeBytes (o : Outcome Bytes) : String :=
  match o with
  | .ok b => showBytes b
  | .err _ => "err"
  | .panic _ => "panic"

end Driver.TLVal
