import Driver.Loop
import Driver.C11
def main : IO Unit := Driver.mainLoop Driver.C11.handle
