import Driver.Loop
import Driver.C01
def main : IO Unit := Driver.mainLoop Driver.C01.handle
