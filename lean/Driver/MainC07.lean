import Driver.Loop
import Driver.C07
def main : IO Unit := Driver.mainLoop Driver.C07.handle
