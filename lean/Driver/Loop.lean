/-
  One operation per input line, one result per output line. Each property has its own driver
  executable `drv-cXX` (root `Driver.MainCXX`), so that a property's model can be rebuilt and linked
  independently of the others.
-/
import Mtv.Basic
namespace Driver
open Mtv

partial def loop (handle : List String → String) (hin hout : IO.FS.Stream) : IO Unit := do
  let line ← hin.getLine
  if line.isEmpty then return ()
  let l := (line.dropEndWhile (fun c => c == '\n' || c == '\r')).toString
  hout.putStrLn (handle (splitWs l))
  hout.flush
  loop handle hin hout

def mainLoop (handle : List String → String) : IO Unit := do
  loop handle (← IO.getStdin) (← IO.getStdout)

end Driver
