import Driver.Loop
import Driver.C04
def main : IO Unit := Driver.mainLoop Driver.C04.handle
