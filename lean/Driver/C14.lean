import Driver.Util
import Mtv.Tlgen.Parser
import Mtv.Tlgen.Classify
import Mtv.Tlgen.Emit
namespace Driver.C14
open Mtv Mtv.Tlgen Driver

/-! ### the text coding of the line protocol

A rune in `0x21..0x7d` other than `(` `)` stands for itself, every other rune is `~<hex code point>~`;
the empty string is `~~`. Used for schema texts (op tokens) and for every string inside a dump. -/

def hexNat (n : Nat) : String := String.ofList (Nat.toDigits 16 n)

def escChar (c : Char) : String :=
  if 0x21 ≤ c.toNat ∧ c.toNat ≤ 0x7d ∧ c ≠ '(' ∧ c ≠ ')' then String.singleton c
  else "~" ++ hexNat c.toNat ++ "~"

def esc (s : Str) : String :=
  if s.isEmpty then "~~" else String.join (s.map escChar)

def hexValue (s : Str) : Option Nat :=
  s.foldl (fun acc c => match acc, hexVal? c with
    | some a, some d => some (a * 16 + d)
    | _, _ => none) (some 0)

/-- inverse of `esc`; `none` on a malformed token. `h`: the hex digits (reversed) of an open `~…~`. -/
def unescGo : Option Str → Str → Str → Option Str
  | none, acc, [] => some acc.reverse
  | some _, _, [] => none
  | none, acc, c :: r => if c = '~' then unescGo (some []) acc r else unescGo none (c :: acc) r
  | some h, acc, c :: r =>
    if c = '~' then
      if h.isEmpty then unescGo none acc r else
      match hexValue h.reverse with
      | some n => if n < 0x110000 ∧ ¬ (0xd800 ≤ n ∧ n ≤ 0xdfff) then unescGo none (Char.ofNat n :: acc) r else none
      | none => none
    else unescGo (some (c :: h)) acc r

def unesc (s : String) : Option Str := unescGo none [] s.toList

/-! ### canonical dumps -/

def fnvChars (s : String) : Nat :=
  s.toList.foldl (fun h c => ((h ^^^ (c.toNat % 256)) * 16777619) % 4294967296) 2166136261

def showDump (s : String) : String :=
  if s.length ≤ 3000 then (if s.isEmpty then "-" else s) else s!"L{s.length}:{fnvChars s}"

def b01 (b : Bool) : String := if b then "1" else "0"

def dumpParam (p : Param) : String :=
  s!"(p {esc p.name} {esc p.type} {b01 p.isVector} {b01 p.isOptional} {p.bit})"

def dumpParams (ps : List Param) : String := "".intercalate (ps.map fun p => " " ++ dumpParam p)

def dumpObj (o : Obj) : String := s!"(o {esc o.name} {o.crc} {esc o.iface}{dumpParams o.params})"
def dumpMethod (m : Method) : String :=
  s!"(m {esc m.name} {m.crc} {esc m.respType} {b01 m.respIsList}{dumpParams m.params})"

def strLt (a b : Str) : Bool := (compare (String.ofList a) (String.ofList b)) == .lt

def insertSorted (x : Str × Str) : List (Str × Str) → List (Str × Str)
  | [] => [x]
  | y :: ys => if strLt x.1 y.1 then x :: y :: ys else y :: insertSorted x ys

def sortPairs (l : List (Str × Str)) : List (Str × Str) := l.foldr insertSorted []

def dumpStructure (s : Schema) : String :=
  " ".intercalate (s.objects.map dumpObj ++ s.methods.map dumpMethod)

def dumpComments (s : Schema) : String :=
  let pc (ps : List Param) := "".intercalate (ps.map fun p => " " ++ esc p.comment)
  " ".intercalate (
    s.objects.map (fun o => s!"(c {esc o.comment}{pc o.params})") ++
    s.methods.map (fun m => s!"(c {esc m.comment}{pc m.params})") ++
    (sortPairs s.typeComments).map (fun (k, v) => s!"(t {esc k} {esc v})"))

def showPErr : PErr → String
  | .commentEOF => "err:commentEOF"
  | .param => "err:param"
  | .crc => "err:crc"
  | .vectorType => "err:vectorType"
  | .loop => "loop"

def showParse (r : Except PErr Schema) : String :=
  match r with
  | .error e => showPErr e
  | .ok s => s!"ok S={showDump (dumpStructure s)} C={showDump (dumpComments s)}"

/-! ### classification dump (c14.classify) -/

def sortStrs (l : List Str) : List Str := (sortPairs (l.map fun s => (s, []))).map (·.1)

def dumpGroup (g : Str × List Str) : String := esc g.1 ++ ":" ++ ",".intercalate (g.2.map esc)

def dumpGroups (gs : List (Str × List Str)) : String :=
  let keys := sortStrs (gs.map (·.1))
  let find (k : Str) : List Str := match gs.find? (·.1 = k) with | some g => g.2 | none => []
  if gs.isEmpty then "-" else ";".intercalate (keys.map fun k => dumpGroup (k, find k))

def showClassify (s : Schema) : String :=
  let c := classify s.objects
  s!"enums={dumpGroups c.enums} singles={dumpGroups c.singles} types={dumpGroups c.types}"

/-! ### generated declarations (c14.gen) -/

/-- field and argument names are compared in ASCII lower case without `_` and `.` (the harness reads the
generated identifiers back the same way) -/
def normName (s : Str) : Str :=
  (s.filter fun c => c ≠ '_' ∧ c ≠ '.').map fun c =>
    if 'A' ≤ c ∧ c ≤ 'Z' then Char.ofNat (c.toNat + 32) else c

/-! #### `goify` (gen/utils.go over strcase.ToDelimited v0.1.2), for the `Obj` suffix decision

The suffix is written exactly when `goify name = goify type`. `normName` above agrees with that only for
constructors that are their type's name with a lower-case first letter; for `webpage` / `WebPage` (equal
under case folding, two Go identifiers) and `web_page` / `WebPage` (the same identifier, not equal under
case folding) the words matter. Port of the third-party splitting rule, statement by statement; like
`goify` itself it is not part of the verified model — its agreement with the real generator is what the
correspondence samples. -/

def isUp (c : Char) : Bool := 'A' ≤ c ∧ c ≤ 'Z'
def isLo (c : Char) : Bool := 'a' ≤ c ∧ c ≤ 'z'
def isNum (c : Char) : Bool := '0' ≤ c ∧ c ≤ '9'
def toLo (c : Char) : Char := if isUp c then Char.ofNat (c.toNat + 32) else c
def toUp (c : Char) : Char := if isLo c then Char.ofNat (c.toNat - 32) else c

/-- `strcase.ToDelimited(s, '|')` followed by `strings.ReplaceAll(_, ".", "|")`; `prev`: the byte before -/
def delimit : Option Char → Str → Str
  | _, [] => []
  | prev, v :: rest =>
    let lv := toLo v
    let plain : Str := if v = ' ' ∨ v = '_' ∨ v = '-' ∨ v = '.' then ['|'] else [lv]
    match rest with
    | [] => plain
    | next :: _ =>
      if (isUp v ∧ (isLo next ∨ isNum next)) ∨ (isLo v ∧ (isUp next ∨ isNum next)) ∨ (isNum v ∧ (isUp next ∨ isLo next)) then
        let before : Str := if isUp v && isLo next && (match prev with | some p => isUp p | none => false) then ['|'] else []
        let after : Str := if isLo v ∨ isNum v ∨ isNum next then ['|'] else []
        before ++ [lv] ++ after ++ delimit (some v) rest
      else plain ++ delimit (some v) rest

def splitBar : Str → List Str
  | [] => [[]]
  | c :: r =>
    match splitBar r with
    | [] => [[]]
    | w :: ws => if c = '|' then [] :: w :: ws else (c :: w) :: ws

def capitalizePatterns : List Str := ["id".toList, "api".toList, "url".toList, "p2p".toList, "sha".toList, "srp".toList]

/-- `goify(name, true)`; an empty word (where Go indexes `itemRunes[0]` and panics) is dropped (since the D30 repair the Go code does the same);
the generator's name pool has such names -/
def goName (s : Str) : Str :=
  ((splitBar (delimit none s)).map fun w =>
    if capitalizePatterns.contains w then w.map toUp
    else match w with
      | [] => []
      | c :: r => toUp c :: r).flatten

def showGoType : GoType → String
  | .prim n => n
  | .enumT t => "E:" ++ esc t
  | .ifaceT t => "I:" ++ esc t
  | .structPtr c => "S:" ++ esc c

def showTyped (t : GoType) (vec : Bool) : String := (if vec then "[]" else "") ++ showGoType t

def showField (f : GoField) : String :=
  s!" (f {String.ofList (normName f.name)} {showTyped f.type f.vec} {if f.tag.isEmpty then "-" else String.ofList f.tag})"

def showArg (f : GoField) : String := s!" (a {String.ofList (normName f.name)} {showTyped f.type f.vec})"

def showKind : DeclKind → String
  | .enumConst t => "enum:" ++ esc t
  | .single => "single"
  | .ifaceStruct t => "iface:" ++ esc t
  | .params => "params"

def showDecl (d : Decl) : String :=
  let fi := match d.flagIndex with | some i => toString i | none => "-"
  s!"(d {d.crc} {showKind d.kind} {b01 d.objSuffix} {fi}{String.join (d.fields.map showField)})"

def showFn (f : FnDecl) : String :=
  let args := match f.args with
    | none => " (a params P)"
    | some l => String.join (l.map showArg)
  s!"(fn {f.crc} {showTyped f.result f.resultVec}{args})"

def insertByCrc (x : Nat × String) : List (Nat × String) → List (Nat × String)
  | [] => [x]
  | y :: ys => if x.1 < y.1 then x :: y :: ys else y :: insertByCrc x ys

def showEmit (s : Schema) : String :=
  match emit goName s with
  | none => "gen=fail:panic"
  | some (ds, ms) =>
    let entries := ds.map (fun d => (d.crc, showDecl d)) ++
      ms.map (fun (d, f) => (d.crc, showDecl d ++ " " ++ showFn f))
    let sorted := entries.foldr insertByCrc []
    "gen=ok same=1 build=ok vet=ok D=" ++ showDump (" ".intercalate (sorted.map (·.2)))

/-- `sort.Slice(methods, name[i] < name[j])` leaves the slice as it is: the names are in non-decreasing
order already (Go compares strings bytewise; on UTF-8 that is the order of the code points) -/
def methodsSorted : List Str → Bool
  | a :: b :: r => !(b < a) && methodsSorted (b :: r)
  | _ => true

def handle : List String → String
  | "c14.parse" :: _tag :: text :: _expected =>
    match unesc text with
    | some src => showParse (parseSchema src)
    | none => "bad-op"
  | ["c14.classify", text] =>
    match unesc text with
    | some src =>
      match parseSchema src with
      | .ok s => showClassify s
      | .error e => showPErr e
    | none => "bad-op"
  | "c14.gen" :: _tag :: text :: _expected =>
    match unesc text with
    | some src =>
      match parseSchema src with
      | .ok s => showEmit s
      | .error _ => "gen=fail:parse"
    | none => "bad-op"
  -- several generations from one parsed schema object: about the history of one process, not about a
  -- function's value — the model's side is the line the property demands whenever the schema is one the
  -- generator accepts. One thing the code does to the caller's schema is mirrored (known finding
  -- generator-sorts-callers-methods): generateMethods sorts the caller's Methods slice by name in place.
  | ["c14.regen", _tag, text] =>
    match unesc text with
    | some src =>
      match parseSchema src with
      | .ok s =>
        match emit goName s with
        | none => "gens=fail"
        | some _ =>
          if methodsSorted (s.methods.map (·.name)) then "gens=ok,ok,ok,ok same=1 schema=unchanged fresh=1"
          else "gens=ok,ok,ok,ok same=1 schema=reordered fresh=1"
      | .error _ => "regen=unparsed"
    | none => "bad-op"
  -- the two observation-only operations: the model's side is what the property demands
  | ["c14.shipped", _path] => "parse=ok gen=ok same=1 build=ok vet=ok"
  | ["c14.sortfact"] => "maprange unknown=- missing-sort=-"
  | _ => "bad-op"

end Driver.C14
