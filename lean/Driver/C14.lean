import Driver.Util
namespace Driver.C14
open Mtv Driver

/-- operations of property C14; not built yet -/
def handle : List String → String
  | _ => "bad-op"

end Driver.C14
