import Driver.Loop
import Driver.CRYPTO
def main : IO Unit := Driver.mainLoop Driver.CRYPTO.handle
