import Driver.Loop
import Driver.C03
def main : IO Unit := Driver.mainLoop Driver.C03.handle
