import Driver.RpcTrace
namespace Driver.C09
def handle (toks : List String) : String := Driver.RpcTrace.handle "c09" toks
end Driver.C09
