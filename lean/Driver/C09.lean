import Driver.Util
namespace Driver.C09
open Mtv Driver

/-- operations of property C09; not built yet -/
def handle : List String → String
  | _ => "bad-op"

end Driver.C09
