import Driver.Util
import Mtv.Schema.C13Meth
namespace Driver.C13
open Mtv Mtv.Schema Mtv.TL Mtv.Gen Mtv.C13 Driver

def names (ds : List Def) : String := showList (ds.map fun d => d.name.toString)

/-- witnesses for every table obligation of C13: the definitions / methods / wrappers / registered
types for which it fails (all lists empty ⇔ the obligations hold) -/
def report : String :=
  let badCrc := (schemaApi ++ schemaMt).filter fun d => !defOk d
  let badApi := apiDefs.filter fun d => !defMatch TA registry d
  let badMt := serviceDefs.filter fun d => !defMatch TM registry d
  let badRows := (schemaApi.filter fun d => !typeRowOk TA d) ++ (schemaMt.filter fun d => !typeRowOk TM d)
  let badReg := registry.filter fun c => !regRowOk c
  let badMeth := (methods.filter isGenerated).filter fun m => !methodOk TA registry schemaApi m
  let badWrap := wrappers.filter fun w => !(wrapperOk TA registry schemaApi w && wrapperNames.contains w.schemaName)
  let extra := extraIds.filterMap fun id => (registry.find id).map fun c => c.name
  let badNames := (apiDefs ++ serviceDefs).flatMap fun d =>
    match lookupNames fieldNames d.id with
    | none => []   -- no registered type: named under api= / service=
    | some gs =>
      if (fieldParamNames d).length != gs.length then [s!"{d.name.toString}:<{gs.length}-fields>"]
      else (badNamePairs fieldNames d).map fun pg => s!"{d.name.toString}:{pg.1.toString}/{pg.2.toString}"
  -- the name table carries the registry's own field names (text compared by compiled code)
  let nameTable := regNamesChunksOk registryChunks fieldNamesChunks &&
    (List.zip registry fieldNames).all fun (c, n) =>
      c.fields.map (·.name) == n.2.map fun x => (BStr.toString ⟨x.1, x.2⟩)
  let dup := !(strictlySorted (registry.map (·.id)) && strictlySorted (schemaApi.map (·.id)) && strictlySorted (schemaMt.map (·.id)))
  s!"crc={names badCrc} api={names badApi} service={names badMt} rows={names badRows} " ++
  s!"reg={showList (badReg.map (·.name))} methods={showList (badMeth.map (·.name))} " ++
  s!"wrappers={showList (badWrap.map (·.name))} extra={showList extra} counts={tableCountsOk} dupids={dup} " ++
  s!"names={showList badNames} nametable={nameTable} " ++
  s!"ndefs={schemaApi.length + schemaMt.length} nreg={registry.length} nmethods={methods.length}"

def handle : List String → String
  | ["c13.report"] => report
  | _ => "bad-op"

end Driver.C13
