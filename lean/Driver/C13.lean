import Driver.Util
import Mtv.Schema.C13Meth
import Mtv.Schema.C13Enum
namespace Driver.C13
open Mtv Mtv.Schema Mtv.TL Mtv.Gen Mtv.C13 Driver

def hex32 (n : Nat) : String :=
  let ds := (Nat.toDigits 16 n)
  String.ofList (List.replicate (8 - ds.length) '0' ++ ds)

def names (ds : List Def) : String := showList (ds.map fun d => d.name.toString)

/-- witnesses for every table obligation of C13: the definitions / methods / wrappers / registered
types for which it fails (all lists empty ⇔ the obligations hold) -/
def report : String :=
  let badCrc := (schemaApi ++ schemaMt).filter fun d => !defOk d
  let badApi := apiDefs.filter fun d => !defMatch TA registry d
  let badMt := serviceDefs.filter fun d => !defMatch TM registry d
  let badRows := (schemaApi.filter fun d => !typeRowOk TA d) ++ (schemaMt.filter fun d => !typeRowOk TM d)
  let badReg := registry.filter fun c => !regRowOk c
  -- methods: the shape (which request, which arguments where, which result) / the body skeleton
  let badMeth := methods.filter fun m =>
    if isGenerated m then !methodShapeOk TA registry schemaApi m
    else handWrittenSkeletons.contains m.skeleton && !wrapperMethodOk wrappers m
  let badSkel := methods.filter fun m =>
    if isGenerated m then !skeletonOk m else !handWrittenSkeletons.contains m.skeleton
  let skelText := fun (m : MethodFact) =>
    m.name ++ ":" ++ (if m.skeleton.isEmpty then "empty" else ";".intercalate (m.skeleton.map BodyStmt.show))
  -- every reflected struct field is a field of the layout, tagged as its flag says
  let rows3 := List.zip registry (List.zip fieldNames allFields)
  let ctorName := fun (c : CtorDesc) =>
    match (schemaApi ++ schemaMt).find? (fun d => d.id == c.id) with
    | some d => d.name.toString
    | none => c.name
  let extraFields := rows3.flatMap fun (c, n, a) =>
    if c.kind != .struct then []
    else if c.id != n.1 || c.id != a.1 then [s!"{ctorName c}:<tables-misaligned>"]
    else
      let ex := (extraFieldsOf n.2 a.2).map fun g => s!"{ctorName c}:{g.toString}"
      if ex.isEmpty && a.2.map (·.1) != n.2 then [s!"{ctorName c}:<field-order>"] else ex
  let badTags := rows3.flatMap fun (c, n, a) =>
    if c.kind != .struct then [] else (badTagFieldsOf c n.2 a.2).map fun g => s!"{ctorName c}:{g.toString}"
  let fieldTable := regFieldsChunksOk registryChunks fieldNamesChunks allFieldsChunks
  let badWrap := wrappers.filter fun w => !(wrapperOk TA registry schemaApi w && wrapperNames.contains w.schemaName)
  let extra := extraIds.filterMap fun id => (registry.find id).map fun c => c.name
  let badNames := (apiDefs ++ serviceDefs).flatMap fun d =>
    match lookupNames fieldNames d.id with
    | none => []   -- no registered type: named under api= / service=
    | some gs =>
      if (fieldParamNames d).length != gs.length then [s!"{d.name.toString}:<{gs.length}-fields>"]
      else (badNamePairs fieldNames d).map fun pg => s!"{d.name.toString}:{pg.1.toString}/{pg.2.toString}"
  -- the name table carries the registry's own field names (text compared by compiled code)
  let nameTable := regNamesChunksOk registryChunks fieldNamesChunks &&
    (List.zip registry fieldNames).all fun (c, n) =>
      c.fields.map (·.name) == n.2.map fun x => (BStr.toString ⟨x.1, x.2⟩)
  -- enum constants by name: members without their constant / with a constant of another id (member:Constant=id),
  -- constants named after no member, String() cases with another text
  let badEnum := (badEnumMembers.map fun d =>
      match constsNamedAfter enumConsts d with
      | [] => s!"{d.name.toString}:<no-constant>"
      | [c] => s!"{d.name.toString}:{c.name.toString}={hex32 c.value}"
      | cs => s!"{d.name.toString}:<{cs.length}-constants>") ++
    ((badEnumConsts.filter fun c => (memberNamed schemaApi c).isNone).map fun c => s!"<no-member>:{c.name.toString}={hex32 c.value}") ++
    (badEnumStrings.map fun s => s!"{s.ty.toString}.String({hex32 s.id}):{s.text.toString}")
  let enumTables := enumTablesOk
  let dup := !(strictlySorted (registry.map (·.id)) && strictlySorted (schemaApi.map (·.id)) && strictlySorted (schemaMt.map (·.id)))
  s!"crc={names badCrc} api={names badApi} service={names badMt} rows={names badRows} " ++
  s!"reg={showList (badReg.map (·.name))} methods={showList (badMeth.map (·.name))} " ++
  s!"wrappers={showList (badWrap.map (·.name))} extra={showList extra} counts={tableCountsOk} dupids={dup} " ++
  s!"names={showList badNames} nametable={nameTable} " ++
  s!"skeleton={showList (badSkel.map skelText)} extra-field={showList extraFields} field-tag={showList badTags} " ++
  s!"fieldtable={fieldTable} enum-const={showList badEnum} enumtables={enumTables} " ++
  s!"ndefs={schemaApi.length + schemaMt.length} nreg={registry.length} nmethods={methods.length}"

/-- `c13.e2e <Method>[/<Query>] <args> <size> <shape> <k>`: one end-to-end call of a client method against the
scripted peer (harness/cmd/vh/c13e2e.go). The operation is about an exchange over a connection, not about
the value of a function of the model: the driver answers the line the Go side prints when the property
holds for the call (the request is the schema's serialisation of the arguments, the call returns the
value the peer answered with), derived from the operation's tokens. -/
def e2eOk (m a n sh : String) : String := s!"ok {m} {a} {n} {sh}"

/-- the method (and the query a wrapper is given) are rows of the regenerated method table: the methods the
Go side found by reflection are the ones the static obligations speak about -/
def e2eKnown (m : String) : Bool :=
  (m.splitOn "/").all fun part => methods.any fun f => f.name == part

/-- `c13.e2e.grp <Method> <dir> <Def> <flags.N> <pattern> <k>` (harness/cmd/vh/c13groups.go): a call in which the
parameters of definition `Def` conditional on flag bit N (the `true` ones aside) are non-zero (`n`) / zero (`z`) as
the pattern says, in the schema's order. The schema's answer: a set bit announces every one of them, so the
request carries them all (a zero as its zero) and the call returns the answer - unless a `z` member is an object
(nil has no serialisation): then the call must refuse with an error and send nothing. The driver checks the
operation against the regenerated schema table: the definition exists, has that group with that many members. -/
def grpMembers (d : Def) (b : Nat) : List Param :=
  d.params.filter fun p => p.cond == some b && p.ty != STy.prim bTrue

def grpExpect (m dir dn key pat : String) : Option String :=
  match key.splitOn ".", schemaApi.find? (fun d => d.name.toString == dn) with
  | [_, bs], some d =>
    match bs.toNat? with
    | some b =>
      let ms := grpMembers d b
      let ps := pat.toList
      let isObj := fun (p : Param) => match p.ty with
        | .ref _ => true
        | .bare _ => true
        | _ => false
      if ms.length < 2 || ms.length != ps.length || !(ps.all fun c => c == 'z' || c == 'n') || !ps.contains 'n'
         || !(dir == "arg" || (dir == "res" && !d.isFunc)) || !e2eKnown m then none
      else
        let refused := (List.zip ms ps).any fun (p, c) => c == 'z' && isObj p
        some ((if refused then "refused" else "ok") ++ s!" {m} {dir} {dn} {key} {pat}")
    | none => none
  | _, _ => none

/-- `c13.e2e.enum <Method> <dir> <Constant> <k>` (harness/cmd/vh/c13enum.go): the real client method is called with the
enum constant `telegram.<Constant>` BY NAME in its arguments / the answer carries the id of the schema constructor
the constant is named after. The driver checks the operation against the regenerated tables: the method is a row of
the method table, the constant a row of `Mtv.Gen.enumConsts` (go/parser) that is named after an enum member of the
schema; whether it carries that member's id is what the Go side observes (and `enum_constants_named` states). -/
def enumExpect (m dir c : String) : Option String :=
  if !(dir == "arg" || dir == "res") || !e2eKnown m then none else
  match enumConsts.find? (fun e => e.name.toString == c) with
  | some e => if (memberNamed schemaApi e).isSome then some s!"ok {m} {dir} {c}" else none
  | none => none

/-- `c13.e2e.opt <Method>[~v] <dir> <Def> <param> <state> <others> <k>` (harness/cmd/vh/c13opt.go): a call in which the
conditional `Vector<..>` / `bytes` parameter `param` of definition `Def` is the Go value nil (`nil`: the schema's "absent"), a
non-nil slice of length 0 (`e`, `cap`: the schema's "present, no elements") or has one element (`one`), the other
conditional parameters absent (`-`), present (`all`) or by the seed (`mix`). The schema's answer is `ok` (the request is
the schema's serialisation with the bit set iff the value is not nil, the call returns the answer) - unless the parameter
is present while the others are absent and an OBJECT shares its flag bit (nil has no serialisation): `refused`. The driver
checks the operation against the regenerated schema table: the definition exists and has a parameter of that name that is
conditional and of type `Vector<..>` / `bytes`; the method is a row of the method table. -/
def optExpect (m dir dn pn st oth : String) : Option String :=
  let mv : Option (String × Bool) := match m.splitOn "~" with
    | [mn] => some (mn, false)
    | [mn, "v"] => some (mn, true)
    | _ => none
  match mv, schemaApi.find? (fun d => d.name.toString == dn) with
  | some (mn, viaVec), some d =>
    match d.params.find? (fun p => p.name.toString == pn) with
    | some p =>
      match p.cond with
      | some b =>
        let isOpt := match p.ty with
          | .vec _ _ => true
          | .prim n => n == bBytes
          | _ => false
        let isObj := fun (q : Param) => match q.ty with
          | .ref _ => true
          | .bare _ => true
          | _ => false
        let dirOk := (dir == "arg" && (!viaVec || !d.isFunc)) || (dir == "res" && !d.isFunc && !viaVec && st != "cap")
        if !isOpt || !dirOk || !["nil", "e", "cap", "one"].contains st || !["-", "all", "mix"].contains oth || !e2eKnown mn then none
        else
          let partners := (grpMembers d b).filter fun q => q.name != p.name
          let refused := st != "nil" && oth == "-" && partners.any isObj
          some ((if refused then "refused" else "ok") ++ s!" {m} {dir} {dn} {pn} {st} {oth}")
      | none => none
    | none => none
  | _, _ => none

def handle : List String → String
  | ["c13.report"] => report
  | ["c13.e2e.opt", m, dir, dn, pn, st, oth, _k] => (optExpect m dir dn pn st oth).getD "bad-op"
  | ["c13.e2e.enum", m, dir, c, _k] => (enumExpect m dir c).getD "bad-op"
  | ["c13.e2e.grp", m, dir, dn, key, pat, _k] => (grpExpect m dir dn key pat).getD "bad-op"
  | ["c13.e2e", m, a, n, sh, _k] =>
    if (a == "z" || a == "p") && (["plain", "cont", "gz", "salt", "saltgz", "gzall"].contains sh || (["wrong", "null"].contains sh && !m.contains '/')) && e2eKnown m
    then e2eOk m a n sh else "bad-op"
  | _ => "bad-op"

end Driver.C13
