import Driver.Util
namespace Driver.C13
open Mtv Driver

/-- operations of property C13; not built yet -/
def handle : List String → String
  | _ => "bad-op"

end Driver.C13
