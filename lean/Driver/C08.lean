import Driver.Util
import Mtv.Framing.Model
namespace Driver.C08
open Mtv Mtv.Framing Driver

def parseMode? : String → Option Mode
  | "a" => some .abridged
  | "i" => some .intermediate
  | _ => none

def showMode : Mode → String
  | .abridged => "a"
  | .intermediate => "i"

def showErr : RErr → String
  | .eof => "eof" | .uerr => "uerr" | .notSupported => "notsupported" | .ambiguous => "ambiguous"

/-- announcement followed by frames up to the first refused message -/
def writeAll (md : Mode) : List Bytes → Bytes × String
  | [] => ([], "-")
  | m :: ms =>
    match frame md m with
    | none => ([], "notmultiple")
    | some f => let (r, e) := writeAll md ms; (f ++ r, e)

def showItem : Item → String
  | .msg mid b => s!"msg:{mid}:{showBytes b}"
  | .code c => s!"code:{c}"
  | .bad w => s!"bad:{w}"
  | .enc _ => "enc"

def buildItems (md : Mode) : List String → Option Bytes
  | [] => some []
  | t :: ts => do
    let rest ← buildItems md ts
    match t.splitOn ":" with
    | ["m", mid, body] =>
      let b ← parseBytes? body
      let f ← frame md (Unenc.serialize (← mid.toNat?) b)
      pure (f ++ rest)
    | ["c", c] =>
      let f ← frame md (leBytes (ofSigned 32 (← c.toInt?)) 4)
      pure (f ++ rest)
    | ["r", raw] => do pure ((← parseBytes? raw) ++ rest)
    | _ => none

/-- write the messages through the mode, read the announced stream back (any segmentation: the model
reads the concatenation, which `readFullSegs_eq_readN` justifies) -/
def rtOp (md msgs : String) : String :=
  match parseMode? md, parseBytesList? msgs with
  | some md, some ms =>
    let (b, e) := writeAll md ms
    if e ≠ "-" then s!"werr={e}" else
    match detect (announce md ++ b) with
    | .error e => s!"mode=err:{showErr e}"
    | .ok (md', s) =>
      let (fs, e) := readAll md' (s.length + 1) s
      s!"mode={showMode md'} msgs={showList (fs.map showBytes)} end={showErr e}"
  | _, _ => "bad-op"

/-- `c08.dl`: the client reads the stream `down` and the peer the stream `up` (mode `md`, the repository's TCP
connection with a short read timeout, idle times and late draining as the variant says). Timing is not part
of the model: a stream of frames read back is the list of messages, so both directions are answered by
`rtOp`; in the variants that leave one more read pending with nothing to arrive, that read — and only it —
ends with the read timeout. -/
def dlOp (md variant t idle down up : String) : String :=
  if !(["widle", "wpend", "wslow", "ridle", "rslow"].contains variant) then "bad-op" else
  if t.toNat?.isNone || idle.toNat?.isNone then "bad-op" else
  let rx := rtOp md down
  let tx := rtOp md up
  if rx == "bad-op" || tx == "bad-op" then "bad-op" else
  let rx := if (variant == "wpend" || variant == "wslow") && rx.endsWith "end=eof"
    then (rx.dropEnd 3).toString ++ "timeout" else rx
  s!"rx: {rx} | tx: {tx}"

/-- one step of `c08.seq` as the single operation it is: `d:<segments>` = `c08.read`, `w:<md>:<msgs>` and
`t:<md>:<msgs>` (the same over the repository's TCP connection; the peer's bytes) = `c08.write` -/
def seqStep (t : String) : Option (List String) :=
  match t.splitOn ":" with
  | ["d", segs] => some ["c08.read", segs]
  | ["w", md, msgs] => some ["c08.write", md, msgs]
  | ["t", md, msgs] => some ["c08.write", md, msgs]
  | _ => none

def handle1 : List String → String
  | ["c08.write", md, msgs] =>
    match parseMode? md, parseBytesList? msgs with
    | some md, some ms =>
      let (b, e) := writeAll md ms
      s!"bytes={showBytes (announce md ++ b)} err={e}"
    | _, _ => "bad-op"
  | ["c08.rt", md, _splits, msgs] => rtOp md msgs
  -- the same stream through transport.NewTCP + mode.Detect over loopback: the model is the same function
  | ["c08.det", md, _splits, msgs] => rtOp md msgs
  -- `c08.det` on a connection configured with another context / read timeout: the configuration is not an
  -- argument of the model's reader, the answer is that of `c08.det`
  | ["c08.cfg", ctx, t, md, _splits, msgs] =>
    if !(["bg", "todo", "val", "detached", "own", "cancel", "child", "deadline"].contains ctx) then "bad-op" else
    if t.isEmpty || t.length > 9 || !t.all Char.isDigit then "bad-op" else rtOp md msgs
  | ["c08.read", segs] =>
    match parseBytesList? segs with
    | some sg =>
      let s := sg.flatten
      match detect s with
      | .error e => s!"mode=err:{showErr e}"
      | .ok (md', s) =>
        let (fs, e) := readAll md' (s.length + 1) s
        s!"mode={showMode md'} msgs={showList (fs.map showBytes)} end={showErr e}"
    | none => "bad-op"
  | ["c08.dl", md, variant, t, idle, down, up] => dlOp md variant t idle down up
  | "c08.tcp" :: md :: _splits :: items =>
    match parseMode? md with
    | some md =>
      match buildItems md items with
      | some s =>
        let (its, e) := transportReadAll md (s.length + 1) s
        s!"items={showList (its.map showItem)} end={showErr e}"
      | none => "bad-op"
    | none => "bad-op"
  | _ => "bad-op"

/-- `c08.seq`: operations of one process one after another. The model's operations are functions of their
input alone — nothing is carried from one connection to the next — so each step is answered as the single
operation it is. -/
def handle : List String → String
  | "c08.seq" :: step :: steps =>
    match (step :: steps).mapM seqStep with
    | some ops =>
      let outs := ops.map handle1
      if outs.any (· == "bad-op") then "bad-op" else " ; ".intercalate outs
    | none => "bad-op"
  | op => handle1 op

end Driver.C08
