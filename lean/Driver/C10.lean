import Driver.RpcTrace
namespace Driver.C10
def handle (toks : List String) : String := Driver.RpcTrace.handle "c10" toks
end Driver.C10
