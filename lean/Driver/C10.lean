import Driver.Util
namespace Driver.C10
open Mtv Driver

/-- operations of property C10; not built yet -/
def handle : List String → String
  | _ => "bad-op"

end Driver.C10
