import Driver.Loop
import Driver.C15
def main : IO Unit := Driver.mainLoop Driver.C15.handle
