import Driver.HsShared
import Mtv.Handshake.Conn
/-
  Line-protocol driver of property C07: the client machine `hsRun` on the operation's draws, public
  key and three reply bodies, with the executable SHA-1 / AES-256 / modular exponentiation plugged in.
    c07.hs <tag> <nonce> <new_nonce> <b> <padseed> <pad16> <n> <e> <p> <q> <reply1> <reply2> <reply3>
    c07.seq <tag> <keyobj> <k> { <the 12 tokens of a c07.hs after its tag> } x k
  several exchanges of one process, the caller's key object (fresh | slot | setn) given the next key before
  each: the model's client is a function of ITS configuration and replies — no state outlives an exchange, a key
  is a value — so each exchange is answered on its own.
  A tag ending in `+after` (the server keeps talking after the client gave up), `+req` or `+retry` (the application
  goes on using the client object after the exchange was abandoned: a request, a second `CreateConnection`): the
  result line is that of the exchange up to the return of `CreateConnection`; what the real client does afterwards
  (it must write no encrypted message, store nothing) is judged by the oracle of the Go side only.
    c07.gone <tag> <old>+<new> <window_ms> <k> { <d> <the 12 tokens of a c07.hs after its tag> } x k
  k clients, one exchange each; after `CreateConnection` has returned the server does <old> with the connection
  (close | halfclose | reset | stay | atonce: closed in the same breath as the reply the client gives up at) and <new> with later connections (serve | replay | mute | drop | refuse). Each
  exchange is answered as a `c07.hs`, followed by what the connection machine (`Mtv.Handshake.Conn`, `createConnection` +
  `connFeed` as repaired) does on the network events of that behaviour: ` after=quiet` when an exchange that ended with
  an error is followed by NO action, ` after=resumed` when a completed exchange is followed by no action of a key
  exchange (at most a dial, a warning). <d> (the server key's private exponent, for the conformant server of later
  connections) and the window are the Go side's business.
-/
namespace Driver.C07
open Mtv Mtv.Handshake Driver Driver.Hs

def handleHs : List String → String
  | ["c07.hs", _tag, nonce, nn, b, _ps, pad, n, e, p, q, r1, r2, r3] =>
    match parseBytes? nonce, parseBytes? nn, parseBytes? b, parseBytes? pad, hexNat? n, e.toNat?,
          parseBytes? r1, parseBytes? r2, parseBytes? r3 with
    | some nonce, some nn, some b, some pad, some n, some e, some r1, some r2, some r3 =>
      if nonce.length ≠ 16 ∨ nn.length ≠ 32 ∨ b.length ≠ 256 ∨ pad.length ≠ 16 then "bad-op" else
      let hint : Option (Nat × Nat) := match p.toNat?, q.toNat? with
        | some p, some q => some (p, q)
        | _, _ => none
      let c : Cfg := { R := Mtv.Gen.registry, P := prims hint, key := ⟨n, e⟩, d := ⟨nonce, nn, b, pad⟩ }
      let (st, acts) := hsRun c [r1, r2, r3]
      resultLine st acts
    | _, _, _, _, _, _, _, _, _ => "bad-op"
  | _ => "bad-op"

/-- the network events of a server behaviour, as the client sees them -/
def goneEvents (old new : String) (next : Cfg) : Option (List NetEvent) :=
  if new ∉ ["serve", "replay", "mute", "drop", "refuse"] then none else
  match old with
  | "close" | "halfclose" | "atonce" => some [.eof (new != "refuse") next]
  | "reset" => some [.readError (new != "refuse") next]
  | "stay" => some []
  | _ => none

def isHsAction : ConnAction → Bool
  | .hs _ => true
  | _ => false

/-- one client of a `c07.gone`: the 12 tokens of its exchange -/
def handleGoneOne (old new : String) : List String → String
  | [nonce, nn, b, _ps, pad, n, e, p, q, r1, r2, r3] =>
    match parseBytes? nonce, parseBytes? nn, parseBytes? b, parseBytes? pad, hexNat? n, e.toNat?,
          parseBytes? r1, parseBytes? r2, parseBytes? r3 with
    | some nonce, some nn, some b, some pad, some n, some e, some r1, some r2, some r3 =>
      if nonce.length ≠ 16 ∨ nn.length ≠ 32 ∨ b.length ≠ 256 ∨ pad.length ≠ 16 then "bad-op" else
      let hint : Option (Nat × Nat) := match p.toNat?, q.toNat? with
        | some p, some q => some (p, q)
        | _, _ => none
      let c : Cfg := { R := Mtv.Gen.registry, P := prims hint, key := ⟨n, e⟩, d := ⟨nonce, nn, b, pad⟩ }
      match goneEvents old new c with
      | none => "bad-op"
      | some evs =>
        let (st, acts) := hsRun c [r1, r2, r3]
        let start := createConnection true c [r1, r2, r3]
        let fin := connFeed true start evs
        let extra := fin.2.drop start.2.length
        let after :=
          match st.result with
          | some (.ok _) => if extra.any isHsAction then s!"acts:{extra.length}" else "resumed"
          | _ => if extra.isEmpty then "quiet" else s!"acts:{extra.length}"
        resultLine st acts ++ " after=" ++ after
    | _, _, _, _, _, _, _, _, _ => "bad-op"
  | _ => "bad-op"

def chunks (n : Nat) (xs : List String) : Nat → List (List String)
  | 0 => []
  | fuel + 1 => if xs.isEmpty then [] else xs.take n :: chunks n (xs.drop n) fuel

def handleGone : List String → String
  | "c07.gone" :: _tag :: mode :: w :: k :: rest =>
    match mode.splitOn "+", w.toNat?, k.toNat? with
    | [old, new], some wn, some kn =>
      -- (numbers in canonical decimal only, as the Go side demands)
      if toString wn != w ∨ toString kn != k then "bad-op" else
      let w := wn
      let k := kn
      if w = 0 ∨ w > 60000 ∨ k = 0 ∨ k > 64 ∨ rest.length ≠ 13 * k then "bad-op" else
      let outs := (chunks 13 rest k).map fun c =>
        match c with
        | d :: ts =>
          match fromHex? d with
          | some db => if db.length = 0 ∨ db.length > 256 then "bad-op" else handleGoneOne old new ts
          | none => "bad-op"
        | [] => "bad-op"
      if outs.contains "bad-op" then "bad-op" else " | ".intercalate outs
    | _, _, _ => "bad-op"
  | _ => "bad-op"

def handle : List String → String
  | "c07.gone" :: rest => handleGone ("c07.gone" :: rest)
  | "c07.seq" :: _tag :: keyobj :: k :: rest =>
    match k.toNat? with
    | some k =>
      if keyobj ∉ ["fresh", "slot", "setn"] ∨ k = 0 ∨ rest.length ≠ 12 * k then "bad-op" else
      let outs := (chunks 12 rest k).map fun c => handleHs ("c07.hs" :: "x" :: c)
      if outs.contains "bad-op" then "bad-op" else " | ".intercalate outs
    | none => "bad-op"
  | ts => handleHs ts

end Driver.C07
