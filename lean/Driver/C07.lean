import Driver.HsShared
/-
  Line-protocol driver of property C07: the client machine `hsRun` on the operation's draws, public
  key and three reply bodies, with the executable SHA-1 / AES-256 / modular exponentiation plugged in.
    c07.hs <tag> <nonce> <new_nonce> <b> <padseed> <pad16> <n> <e> <p> <q> <reply1> <reply2> <reply3>
    c07.seq <tag> <keyobj> <k> { <the 12 tokens of a c07.hs after its tag> } x k
  several exchanges of one process, the caller's key object (fresh | slot | setn) given the next key before
  each: the model's client is a function of ITS configuration and replies — no state outlives an exchange, a key
  is a value — so each exchange is answered on its own.
  A tag ending in `+after` (the server keeps talking after the client gave up), `+req` or `+retry` (the application
  goes on using the client object after the exchange was abandoned: a request, a second `CreateConnection`): the
  result line is that of the exchange up to the return of `CreateConnection`; what the real client does afterwards
  (it must write no encrypted message, store nothing) is judged by the oracle of the Go side only.
-/
namespace Driver.C07
open Mtv Mtv.Handshake Driver Driver.Hs

def handleHs : List String → String
  | ["c07.hs", _tag, nonce, nn, b, _ps, pad, n, e, p, q, r1, r2, r3] =>
    match parseBytes? nonce, parseBytes? nn, parseBytes? b, parseBytes? pad, hexNat? n, e.toNat?,
          parseBytes? r1, parseBytes? r2, parseBytes? r3 with
    | some nonce, some nn, some b, some pad, some n, some e, some r1, some r2, some r3 =>
      if nonce.length ≠ 16 ∨ nn.length ≠ 32 ∨ b.length ≠ 256 ∨ pad.length ≠ 16 then "bad-op" else
      let hint : Option (Nat × Nat) := match p.toNat?, q.toNat? with
        | some p, some q => some (p, q)
        | _, _ => none
      let c : Cfg := { R := Mtv.Gen.registry, P := prims hint, key := ⟨n, e⟩, d := ⟨nonce, nn, b, pad⟩ }
      let (st, acts) := hsRun c [r1, r2, r3]
      resultLine st acts
    | _, _, _, _, _, _, _, _, _ => "bad-op"
  | _ => "bad-op"

def chunks (n : Nat) (xs : List String) : Nat → List (List String)
  | 0 => []
  | fuel + 1 => if xs.isEmpty then [] else xs.take n :: chunks n (xs.drop n) fuel

def handle : List String → String
  | "c07.seq" :: _tag :: keyobj :: k :: rest =>
    match k.toNat? with
    | some k =>
      if keyobj ∉ ["fresh", "slot", "setn"] ∨ k = 0 ∨ rest.length ≠ 12 * k then "bad-op" else
      let outs := (chunks 12 rest k).map fun c => handleHs ("c07.hs" :: "x" :: c)
      if outs.contains "bad-op" then "bad-op" else " | ".intercalate outs
    | none => "bad-op"
  | ts => handleHs ts

end Driver.C07
