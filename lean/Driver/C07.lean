import Driver.HsShared
/-
  Line-protocol driver of property C07: the client machine `hsRun` on the operation's draws, public
  key and three reply bodies, with the executable SHA-1 / AES-256 / modular exponentiation plugged in.
    c07.hs <tag> <nonce> <new_nonce> <b> <padseed> <pad16> <n> <e> <p> <q> <reply1> <reply2> <reply3>
-/
namespace Driver.C07
open Mtv Mtv.Handshake Driver Driver.Hs

def handle : List String → String
  | ["c07.hs", _tag, nonce, nn, b, _ps, pad, n, e, p, q, r1, r2, r3] =>
    match parseBytes? nonce, parseBytes? nn, parseBytes? b, parseBytes? pad, hexNat? n, e.toNat?,
          parseBytes? r1, parseBytes? r2, parseBytes? r3 with
    | some nonce, some nn, some b, some pad, some n, some e, some r1, some r2, some r3 =>
      if nonce.length ≠ 16 ∨ nn.length ≠ 32 ∨ b.length ≠ 256 ∨ pad.length ≠ 16 then "bad-op" else
      let hint : Option (Nat × Nat) := match p.toNat?, q.toNat? with
        | some p, some q => some (p, q)
        | _, _ => none
      let c : Cfg := { R := Mtv.Gen.registry, P := prims hint, key := ⟨n, e⟩, d := ⟨nonce, nn, b, pad⟩ }
      let (st, acts) := hsRun c [r1, r2, r3]
      resultLine st acts
    | _, _, _, _, _, _, _, _, _ => "bad-op"
  | _ => "bad-op"

end Driver.C07
