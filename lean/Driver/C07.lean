import Driver.Util
namespace Driver.C07
open Mtv Driver

/-- operations of property C07; not built yet -/
def handle : List String → String
  | _ => "bad-op"

end Driver.C07
