import Driver.Loop
import Driver.C02
def main : IO Unit := Driver.mainLoop Driver.C02.handle
