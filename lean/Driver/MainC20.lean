import Driver.Loop
import Driver.C20
def main : IO Unit := Driver.mainLoop Driver.C20.handle
