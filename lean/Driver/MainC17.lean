import Driver.Loop
import Driver.C17
def main : IO Unit := Driver.mainLoop Driver.C17.handle
