import Driver.Loop
import Driver.C14
def main : IO Unit := Driver.mainLoop Driver.C14.handle
