/-
  Line-protocol driver of C18. The driver plays BOTH sides written in Lean: the client model
  (Mtv.Srp.Client — must reproduce the Go client's bytes) and the specification server
  (Mtv.Srp.ServerSpec — judges the answer). H = Mtv.Crypto.sha256, KDF = PBKDF2-HMAC-SHA512 with
  100000 iterations and 64 bytes.

  Operations (byte strings: hex, `-` empty, `z<n>`, `p<n>`; numbers `v`, `b`: hex of the big-endian bytes):
    c18.srp <pw> <salt1> <salt2> <g> <p> <random> <srpB> <x|?> <v|?> <b|?>
        the internal computation (`telegram.VerifSRP`). `x` = PH2 supplied (hex) or `?`: the driver
        computes PH2 itself (PBKDF2, slow). `v`,`b` = the server's verifier and secret, or `?`: no server.
        result: `none` | `err:invalidB` | `panic:<site>` | `ok ga=<hex> m1=<hex>`, then with a server
        ` B=same|other srv=accept|reject|-`.
    c18.pub <pw> <mp|other|nil> <salt1> <salt2> <g> <p> <srpB> <srpId> <x|?> <v|?> <b|?>
        the public `telegram.GetInputCheckPassword` (draws its own random bytes): the result projected
        on what does not depend on them.
    c18.ph2 <pw> <salt1> <salt2>        PH2 alone (no Go counterpart in the repository's API; the Go side
        answers with its own independent computation — used to tie the executable KDF)
    c18.seq <c18.srp …> ; <c18.srp …> ; …   several exchanges in one process; results joined with ` ; `
-/
import Driver.Util
import Mtv.Srp.Client
import Mtv.Srp.ServerSpec
import Mtv.Crypto.Sha256
import Mtv.Crypto.Pbkdf2
namespace Driver.C18
open Mtv Mtv.Srp Driver

def H : Bytes → Bytes := Mtv.Crypto.sha256
def KDF (pw salt : Bytes) : Bytes := Mtv.Crypto.pbkdf2HmacSha512 pw salt 100000 64

/-- `?` = absent -/
def optBytes? (s : String) : Option (Option Bytes) :=
  if s = "?" then some none else (parseBytes? s).map some

structure SrvArgs where
  v : Nat
  b : Nat

def srvArgs? (v b : String) : Option (Option SrvArgs) :=
  match optBytes? v, optBytes? b with
  | some (some v), some (some b) => some (some ⟨fromBE v, fromBE b⟩)
  | some none, some none => some none
  | _, _ => none

def verdict (sv : Server) (b : Nat) (srpB ga m1 : Bytes) : String :=
  let same := if sv.B H b = fromBE srpB then "same" else "other"
  let acc := if sv.accepts H b ga m1 then "accept" else "reject"
  s!" B={same} srv={acc}"

def noVerdict (sv : Server) (b : Nat) (srpB : Bytes) : String :=
  let same := if sv.B H b = fromBE srpB then "same" else "other"
  s!" B={same} srv=-"

def xFor (x : Option Bytes) (pw : Bytes) (algo : Algo) : Nat :=
  match x with
  | some xb => fromBE xb
  | none => xOf H KDF pw algo

/-- the exchanges of a `c18.seq` line (separated by the token `;`) -/
def splitSemi (ts : List String) : List (List String) :=
  ts.foldr (fun t acc =>
    if t = ";" then [] :: acc
    else match acc with
      | [] => [[t]]
      | h :: r => (t :: h) :: r) [[]]

def handle1 : List String → String
  | ["c18.ph2", pw, s1, s2] =>
    match parseBytes? pw, parseBytes? s1, parseBytes? s2 with
    | some pw, some s1, some s2 => toHex (passwordHash2 H KDF pw s1 s2)
    | _, _, _ => "bad-op"
  | ["c18.srp", pw, s1, s2, g, p, random, srpB, x, v, b] =>
    match parseBytes? pw, parseBytes? s1, parseBytes? s2, g.toNat?, parseBytes? p, parseBytes? random,
          parseBytes? srpB, optBytes? x, srvArgs? v b with
    | some pw, some s1, some s2, some g, some p, some random, some srpB, some x, some srv =>
      let algo : Algo := { salt1 := s1, salt2 := s2, g := g, pBytes := p }
      -- the password hash is only needed (and only computed by the code) past the two early returns
      let r := if pw = [] then answerWithX H pw 0 srpB algo random
               else if !validate srpB algo then answerWithX H pw 0 srpB algo random
               else answerWithX H pw (xFor x pw algo) srpB algo random
      let sv? := srv.map fun a => (({ salt1 := s1, salt2 := s2, g := g, pBytes := p, v := a.v } : Server), a.b)
      match r with
      | .ok .none => "none" ++ (match sv? with | some (sv, b) => noVerdict sv b srpB | none => "")
      | .ok (.srp ga m1) =>
        s!"ok ga={toHexD ga} m1={toHexD m1}" ++
          (match sv? with | some (sv, b) => verdict sv b srpB ga m1 | none => "")
      | .err e => s!"err:{e}" ++ (match sv? with | some (sv, b) => noVerdict sv b srpB | none => "")
      | .panic s => s!"panic:{s}"
    | _, _, _, _, _, _, _, _, _ => "bad-op"
  | ["c18.pub", pw, kind, s1, s2, g, p, srpB, srpId, x, v, b] =>
    match parseBytes? pw, parseBytes? s1, parseBytes? s2, g.toNat?, parseBytes? p,
          parseBytes? srpB, srpId.toInt?, optBytes? x, srvArgs? v b with
    | some pw, some s1, some s2, some g, some p, some srpB, some srpId, some x, some srv =>
      let algo : Algo := { salt1 := s1, salt2 := s2, g := g, pBytes := p }
      -- any 256 bytes: by `srp_complete_public` the projection printed does not depend on them
      let random : Bytes := (List.range 256).map fun i => UInt8.ofNat ((i * 37 + 11) % 256)
      let r0 := if pw = [] then answerWithX H pw 0 srpB algo random
                else if !validate srpB algo then answerWithX H pw 0 srpB algo random
                else answerWithX H pw (xFor x pw algo) srpB algo random
      let r : Outcome InputCheck :=
        match kind with
        | "other" | "nil" => getInputCheckPassword H KDF pw .other srpB srpId random
        | _ => wrapAnswer srpId r0   -- = `getInputCheckPassword H KDF pw (.modPow algo) …`, x taken from the line
      if kind ≠ "mp" ∧ kind ≠ "other" ∧ kind ≠ "nil" then "bad-op" else
      match r with
      | .ok .empty => "empty"
      | .ok (.obj id ga m1) =>
        let vd := match srv with
          | some a => verdict { salt1 := s1, salt2 := s2, g := g, pBytes := p, v := a.v } a.b srpB ga m1
          | none => ""
        s!"obj srpid={id} alen={ga.length} m1len={m1.length}" ++ vd
      | .err e => s!"err:{e}"
      | .panic s => s!"panic:{s}"
    | _, _, _, _, _, _, _, _, _ => "bad-op"
  | _ => "bad-op"

/-- `c18.seq <op> ; <op> ; …`: the model's exchanges share nothing, so a sequence answers what each
exchange answers on its own. -/
def handle : List String → String
  | "c18.seq" :: rest => " ; ".intercalate ((splitSemi rest).map handle1)
  | op => handle1 op

end Driver.C18
