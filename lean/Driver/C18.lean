import Driver.Util
namespace Driver.C18
open Mtv Driver

/-- operations of property C18; not built yet -/
def handle : List String → String
  | _ => "bad-op"

end Driver.C18
