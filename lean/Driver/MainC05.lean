import Driver.Loop
import Driver.C05
def main : IO Unit := Driver.mainLoop Driver.C05.handle
