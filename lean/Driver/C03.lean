import Driver.Util
namespace Driver.C03
open Mtv Driver

/-- operations of property C03; not built yet -/
def handle : List String → String
  | _ => "bad-op"

end Driver.C03
