import Driver.Util
import Mtv.Envelope.Exec
namespace Driver.C03
open Mtv Mtv.Envelope Mtv.Envelope.Exec Driver

def showUnenc : Except Unenc.DErr (Nat × Bytes) → String
  | .ok (mid, body) => s!"ok mid={mid} body={showB body}"
  | .error .parity => "err:unencParity"
  | .error .length => "err:unencLength"

/-- one step of `c03.session`: `e:<salt>:<sid>:<msg_id>:<seq_no>:<padding>:<body>` (sealed by the
specification's server), `u:<msg_id>:<body>`, `r:<packet>` (these bytes as the frame's content), or `c:<code>` (the 4-byte frame of a signed transport error
code); the answer is that of `c03.route` / `c03.uroute` — the model of the receive path keeps nothing
between two frames -/
def sessionStep1 (key : Bytes) (t : String) : Option String :=
  match t.splitOn ":" with
  | "e" :: salt :: sid :: mid :: seq :: pad :: body =>
    match salt.toNat?, sid.toNat?, mid.toNat?, seq.toNat?, parseTok? pad, parseTok? (":".intercalate body) with
    | some salt, some sid, some mid, some seq, some pad, some body =>
      some (showRouted (route prims key (Spec.serverSeal prims key ⟨salt, sid, mid, seq, body⟩ pad)))
    | _, _, _, _, _, _ => none
  | ["c", code] =>
    match code.toInt? with
    | some c =>
      if c < -2147483648 ∨ 2147483647 < c then none
      else some (showRouted (route prims key (leBytes (ofSigned 32 c) 4)))
    | none => none
  | ["r", pkt] =>
    match parseTok? pkt with
    | some pkt => if pkt.length < 8 then none else some (showRouted (route prims key pkt))
    | none => none
  | "u" :: mid :: body =>
    match mid.toNat?, parseTok? (":".intercalate body) with
    | some mid, some body => some (showRouted (route prims key (Unenc.serialize mid body)))
    | _, _ => none
  | _ => none

/-- how the peer cuts the frame into pieces: `each` or comma-separated offsets -/
def cutsOk (c : String) : Bool :=
  c == "each" || (c.splitOn ",").all fun t => match t.toNat? with
    | some n => n < 2147483648
    | none => false

/-- `[<cuts>/]<step>`: the stream is the same bytes however the peer's writes cut it (the receive path
reads exact counts: `Mtv.Framing.readFullSegs_eq_readN`), so the answer does not depend on the cuts -/
def sessionStep (key : Bytes) (t : String) : Option String :=
  match t.splitOn "/" with
  | [step] => sessionStep1 key step
  | [cuts, step] => if cutsOk cuts then sessionStep1 key step else none
  | _ => none

/-- auth key token of `c03.mix`: a byte-string token or `nil` (no key yet) -/
def mixKey? (s : String) : Option Bytes := if s = "nil" then some [] else parseTok? s

/-- one step of `c03.mix` (harness/cmd/vh/c03mix.go): the model's function of the step's arguments alone — the
model has no state, so what was refused or accepted before a step cannot matter to it
(`Mtv.Envelope.seal_sequence_independent`, `open_sequence_independent`) -/
def mixStep (t : String) : Option String :=
  match t.splitOn "," with
  | ["s", key, salt, sid, mid, seq, ack, body] =>
    match mixKey? key, salt.toNat?, sid.toNat?, mid.toNat?, seq.toNat?, parseTok? body with
    | some key, some salt, some sid, some mid, some seq, some body =>
      if ack ≠ "0" ∧ ack ≠ "1" then none else
      some (showOutcome (fun pkt => s!"keyid={showB (pkt.take 8)} msgkey={showB (slice pkt 8 24)} ct={showB (pkt.drop 24)}")
        (sealClient prims key salt sid mid seq (ack = "1") body))
    | _, _, _, _, _, _ => none
  | ["o", key, salt, sid, mid, seq, body, pad] =>
    match mixKey? key, salt.toNat?, sid.toNat?, mid.toNat?, seq.toNat?, parseTok? body, parseTok? pad with
    | some key, some salt, some sid, some mid, some seq, some body, some pad =>
      some (showOutcome showMsg (openClient prims key (Spec.serverSeal prims key ⟨salt, sid, mid, seq, body⟩ pad)))
    | _, _, _, _, _, _, _ => none
  | ["d", key, pkt] =>
    match mixKey? key, parseTok? pkt with
    | some key, some pkt => some (showOutcome showMsg (openClient prims key pkt))
    | _, _ => none
  | ["us", mid, body] =>
    match mid.toNat?, parseTok? body with
    | some mid, some body => some ("bytes=" ++ showB (Unenc.serialize mid body))
    | _, _ => none
  | ["ud", d] =>
    match parseTok? d with
    | some d => some (showUnenc (Unenc.deserialize d))
    | none => none
  | _ => none

/-- operations of property C03 (see harness/cmd/vh/c03.go for the Go side of each) -/
def handle : List String → String
  -- Encrypted.Serialize
  | ["c03.seal", key, salt, sid, mid, seq, ack, body] =>
    match parseTok? key, salt.toNat?, sid.toNat?, mid.toNat?, seq.toNat?, parseTok? body with
    | some key, some salt, some sid, some mid, some seq, some body =>
      if ack ≠ "0" ∧ ack ≠ "1" then "bad-op" else
      showOutcome (fun pkt => s!"keyid={showB (pkt.take 8)} msgkey={showB (slice pkt 8 24)} ct={showB (pkt.drop 24)}")
        (sealClient prims key salt sid mid seq (ack = "1") body)
    | _, _, _, _, _, _ => "bad-op"
  -- the same with the struct's AuthKeyHash field filled in by the caller: the model derives the key id
  -- from the key alone, whatever the field holds
  | ["c03.seal", key, salt, sid, mid, seq, ack, body, _akh] =>
    handle ["c03.seal", key, salt, sid, mid, seq, ack, body]
  -- a packet sealed by the specification's server, opened by DeserializeEncrypted
  | ["c03.open", key, salt, sid, mid, seq, body, pad] =>
    match parseTok? key, salt.toNat?, sid.toNat?, mid.toNat?, seq.toNat?, parseTok? body, parseTok? pad with
    | some key, some salt, some sid, some mid, some seq, some body, some pad =>
      let pkt := Spec.serverSeal prims key ⟨salt, sid, mid, seq, body⟩ pad
      s!"pkt={showB pkt} " ++ showOutcome showMsg (openClient prims key pkt)
    | _, _, _, _, _, _, _ => "bad-op"
  -- the same server packet through transport.ReadMsg (after the framing layer)
  | ["c03.route", key, salt, sid, mid, seq, body, pad] =>
    match parseTok? key, salt.toNat?, sid.toNat?, mid.toNat?, seq.toNat?, parseTok? body, parseTok? pad with
    | some key, some salt, some sid, some mid, some seq, some body, some pad =>
      showRouted (route prims key (Spec.serverSeal prims key ⟨salt, sid, mid, seq, body⟩ pad))
    | _, _, _, _, _, _, _ => "bad-op"
  -- an unencrypted server message through transport.ReadMsg
  | ["c03.uroute", mid, body] =>
    match mid.toNat?, parseTok? body with
    | some mid, some body => showRouted (route prims [] (Unenc.serialize mid body))
    | _, _ => "bad-op"
  -- a sequence of server packets read by ONE transport: each is what `c03.route` / `c03.uroute` gives
  | "c03.session" :: key :: step :: steps =>
    match parseTok? key with
    | some key =>
      match (step :: steps).mapM (sessionStep key) with
      | some ls => " ; ".intercalate ls
      | none => "bad-op"
    | none => "bad-op"
  -- one process, one sequence of refused and accepted operations of several clients (mode: how the Go side
  -- treats the garbage collector and the scheduler — nothing the model has)
  | "c03.mix" :: mode :: step :: steps =>
    if mode ≠ "nogc" ∧ mode ≠ "gc" ∧ mode ≠ "p1" then "bad-op" else
    match (step :: steps).mapM mixStep with
    | some ls => " ; ".intercalate ls
    | none => "bad-op"
  -- several clients sealing/opening at the same time: an operation about the schedule, not about a
  -- function's value; the model's calls do not share anything, so each client's packets are what
  -- `sealClient`/`openClient` give one by one — the line the Go side prints when that is so
  | ["c03.par", clients, rounds, seed, maxLen] =>
    match clients.toNat?, rounds.toNat?, seed.toNat?, maxLen.toNat? with
    | some c, some r, some _, some _ =>
      if c = 0 ∨ r = 0 then "bad-op" else s!"par ok clients={c} messages={c * r}"
    | _, _, _, _ => "bad-op"
  -- generateAESIGE
  | ["c03.kdf", x, mk, ak] =>
    match parseTok? mk, parseTok? ak with
    | some mk, some ak =>
      if x ≠ "0" ∧ x ≠ "8" then "bad-op" else
      showOutcome (fun kv => s!"key={toHexD kv.1} iv={toHexD kv.2}") (kdf prims (if x = "8" then 8 else 0) mk ak)
    | _, _ => "bad-op"
  | ["c03.msgkey", d] =>
    match parseTok? d with
    | some d => "msgkey=" ++ toHexD (msgKey prims d)
    | none => "bad-op"
  | ["c03.keyid", d] =>
    match parseTok? d with
    | some d => "keyid=" ++ toHexD (authKeyId prims d)
    | none => "bad-op"
  -- Unencrypted.Serialize / DeserializeUnencrypted
  | ["c03.userial", mid, body] =>
    match mid.toNat?, parseTok? body with
    | some mid, some body => "bytes=" ++ showB (Unenc.serialize mid body)
    | _, _ => "bad-op"
  | ["c03.udeser", d] =>
    match parseTok? d with
    | some d => showUnenc (Unenc.deserialize d)
    | none => "bad-op"
  | ["c03.urt", mid, body] =>
    match mid.toNat?, parseTok? body with
    | some mid, some body => showUnenc (Unenc.deserialize (Unenc.serialize mid body))
    | _, _ => "bad-op"
  | _ => "bad-op"

end Driver.C03
