import Driver.Loop
import Driver.C08
def main : IO Unit := Driver.mainLoop Driver.C08.handle
