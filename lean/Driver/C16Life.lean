/-
  C16: the lifecycle part of trace validation. The trace of a scenario (harness/cmd/vh/x_rpcsrv.go) is replayed
  through `Mtv.Client.Life.step`: the events of the RPC machine are lifted (`LEv.mach`, enabled only while the model
  is connected), and the events about connections the scripted peer and the runner can observe become lifecycle events:

    N:<n>            the peer accepted TCP connection n (n > 1: a dial of the client succeeded → `redialOk`)
    C:<kind>         the cause the scenario imposes next: eof (orderly close), drop, rst, cut (the peer ends the
                     connection) — the reader meets `connClosed` or `connBroken`; app — Reconnect() of the
                     application from another goroutine → `appReconnect`. (bare `C`: old traces, as eof)
    V:conn-broken    the warning of `connBroken` (logged by another goroutine: its position is not reliable, only
                     the number is used; a dial nobody caused needs one: read deadline)
    V:reconnect      "can't reconnect": the dial failed → loss of the connection + `redialFailed`
    A:<n>:<id>       auth_key_id of the first encrypted frame on connection n: must be the same on every connection
    Z                the scenario is over (checked here: the client is reading, …); the peer goes away after it, the
                     client's redial then fails (V:reconnect) and the client gives up — `failed_redial_gives_up`
    P:…              an unencrypted frame of the client: a key exchange (refused, as in Driver/RpcTrace.lean)
    E:<c>:<outcome>  a request issued without a connection: write-error | panic-nil-transport → `callDown`

  At the end: no key exchange, one key id, as many dials as connections seen, at most one active reader, the client
  reading on its current connection, as many connection warnings as observed.
-/
import Driver.RpcTrace
import Mtv.Client.Lifecycle
import Mtv.Client.TransportFrame
namespace Driver.C16Life
open Mtv Mtv.Client Mtv.Client.Life Driver Driver.RpcTrace

structure R where
  s : LSt := {}
  cause : Option String := none
  brokenLeft : Nat := 0
  seenBroken : Bool := false
  failed : Nat := 0
  keySet : Bool := false
  conns : Nat := 0
  ended : Bool := false   -- Z seen: the scenario is over, the peer goes away (what follows is the client losing it)

def runL (s : LSt) (es : List LEv) : Option LSt := Life.run s es

def isN (e : String) : Bool := e.startsWith "N:"

/-- losses of a connection still to come that the peer (or nobody) caused -/
def peerLossesIn (es0 : List String) : Nat :=
  let es := es0.takeWhile fun e => e != "Z"
  (es.filter fun e => isN e || e == "V:reconnect").length - (es.filter fun e => e == "C:app").length

/-- the reader's side of a lost connection: broken (a warning is on record for it) or an orderly end -/
def lossEvent (r : R) (rest : List String) : LEv × R :=
  let remaining := peerLossesIn rest + 1
  if r.brokenLeft > 0 && (r.cause.isNone || r.seenBroken || r.brokenLeft ≥ remaining) then
    (.connBroken, { r with brokenLeft := r.brokenLeft - 1 })
  else (.connClosed, r)

def finalCheck (r : R) : Option String :=
  let s := r.s
  if s.keyExchanges != 0 then some s!"key-exchanges={s.keyExchanges}"
  else if s.dials != r.conns then some s!"dials model={s.dials} observed={r.conns}"
  else if (activeReaders s).length > 1 then some s!"active-readers={(activeReaders s).length}"
  else if !reading s then some "not-reading-at-the-end"
  else if r.brokenLeft != 0 then some s!"broken-connection-warnings-without-a-new-connection={r.brokenLeft}"
  else none

partial def go (r : R) (es : List String) (k : Nat) : Option String :=
  match es with
  | [] => if r.ended then none else finalCheck r
  | e :: rest =>
    let stuck := some s!"stuck@{k}:{e}"
    if e == "Z" then
      match finalCheck r with
      | some why => some why
      | none => go { r with ended := true } rest (k + 1)
    else if r.ended && e == "V:conn-broken" then go r rest (k + 1)
    else if isN e then
      if r.conns == 0 then go { r with conns := 1 } rest (k + 1)
      else
        let (evs, r1) :=
          if r.cause == some "app" then ([LEv.appReconnect], r)
          else if r.s.inflight.isEmpty then
            let (le, r1) := lossEvent r rest
            ([le], r1)
          else ([], r)   -- a dial is already in progress
        match runL r1.s evs with
        | none => stuck
        | some s1 =>
          match Life.step s1 (.redialOk s1.cur 0) with
          | none => stuck
          | some s2 => go { r1 with s := s2, cause := none, seenBroken := false, conns := r.conns + 1 } rest (k + 1)
    else if e == "C" then go { r with cause := some "eof" } rest (k + 1)
    else if e.startsWith "C:" then go { r with cause := some (e.drop 2).toString } rest (k + 1)
    else if e == "V:conn-broken" then go { r with seenBroken := true } rest (k + 1)
    else if e == "V:reconnect" then
      let (le, r1) := lossEvent r rest
      match runL r1.s [le] with
      | none => stuck
      | some s1 =>
        match Life.step s1 (.redialFailed s1.cur) with
        | none => stuck
        | some s2 => go { r1 with s := s2, cause := none, seenBroken := false } rest (k + 1)
    else if e.startsWith "A:" then
      match e.splitOn ":" with
      | [_, _, kid] =>
        match kid.toNat? with
        | some kid =>
          if !r.keySet then go { r with s := { r.s with keyId := kid }, keySet := true } rest (k + 1)
          else if kid == r.s.keyId then go r rest (k + 1)
          else some s!"another-auth-key@{k}:{e}"
        | none => some s!"unparsed@{k}:{e}"
      | _ => some s!"unparsed@{k}:{e}"
    else if e.startsWith "E:" then
      match e.splitOn ":" with
      | [_, c, o] =>
        let out := if o == "write-error" then some DownOutcome.writeError
                   else if o == "panic-nil-transport" then some DownOutcome.panicNilTransport else none
        match c.toNat?, out with
        | some c, some o =>
          match Life.step r.s (.callDown c o) with
          | some s1 => go { r with s := s1 } rest (k + 1)
          | none => stuck
        | _, _ => some s!"unparsed@{k}:{e}"
      | _ => some s!"unparsed@{k}:{e}"
    else
      let lift (ev : Ev) (r' : R) : Option String :=
        match Life.step r'.s (.mach ev) with
        | some s1 => go { r' with s := s1 } rest (k + 1)
        | none => stuck
      match parseEvent e with
      | .skip => go r rest (k + 1)
      | .warn => go r rest (k + 1)
      -- J:<hex>: the payload must be one the model calls no sealed message (under the key id of event A), and the
      -- client must be reading: `Frame.stepJ`
      | .junk =>
        let data := if e == "J:-" then some [] else Mtv.fromHex? (e.drop 2).toString
        match data with
        | none => some s!"unparsed@{k}:{e}"
        | some d =>
          if r.keySet && !Frame.junk (Mtv.leBytes r.s.keyId 8) d then some s!"frame-could-be-a-sealed-message@{k}:{e}"
          else match Frame.stepJ r.s (.frame d) with
            | some s1 => go { r with s := s1 } rest (k + 1)
            | none => stuck
      | .sendFault => go { r with failed := r.failed + 1 } rest (k + 1)
      | .plain => some s!"stuck@{k}:plaintext-frame-on-resumed-session"
      | .bad w => some s!"unparsed@{k}:{w}"
      | .storeFault x => lift (.storeLost x) r
      | .ackFault ids => lift (.ackLost ids) r
      | .ev (.deliver c v) =>
        if r.failed > 0 && v.startsWith "err(sending_message" then go { r with failed := r.failed - 1 } rest (k + 1)
        else lift (.deliver c v) r
      | .ev ev => lift ev r

/-- `none`: the trace is a run of the lifecycle machine that ends well -/
def replay (trace : String) : Option String :=
  let evs := if trace.isEmpty then [] else trace.splitOn ","
  let b := ((evs.takeWhile fun e => e != "Z").filter fun e => e == "V:conn-broken").length
  go { brokenLeft := b } evs 0

end Driver.C16Life
