import Driver.Util
import Mtv.Links.Resolve
namespace Driver.C20
open Mtv Mtv.Links Driver

def showOutcome : Outcome Deeplink → String
  | .ok (.resolve d) => s!"ok:resolve:{toHexD d}"
  | .ok (.join t) => s!"ok:join:{toHexD t}"
  | .err k => s!"err:{k}"
  | .panic s => s!"panic:{s}"

def showPErr : PErr → String
  | .ctl => "ctl" | .noscheme => "noscheme" | .colon => "colon" | .port => "port"
  | .bracket => "bracket" | .escape => "escape" | .hostchar => "hostchar" | .userinfo => "userinfo"

/-- operations of property C20 (see harness/cmd/vh/c20.go) -/
def handle : List String → String
  | ["c20.resolve", link] =>
    match fromHex? link with
    | some l => showOutcome (resolveString l)
    | none => "bad-op"
  | ["c20.rp", _link, "perr"] => "p=perr r=err:parse"
  | ["c20.rp", _link, scheme, host, path] =>
    match fromHex? scheme, fromHex? host, fromHex? path with
    | some s, some h, some p =>
      s!"p={toHexD s},{toHexD h},{toHexD p} r={showOutcome (resolveParsed s h p)}"
    | _, _, _ => "bad-op"
  | ["c20.parse", link] =>
    match fromHex? link with
    | some l =>
      match parse l with
      | .error e => s!"err:{showPErr e}"
      | .ok u => s!"ok s={toHexD u.scheme} h={toHexD u.host} p={toHexD u.path} o={toHexD u.opaq} q={toHexD u.rawQuery} f={toHexD u.fragment}"
    | none => "bad-op"
  | ["c20.hostname", host] =>
    match fromHex? host with
    | some h => s!"hostname={toHexD (hostname h)}"
    | none => "bad-op"
  | ["c20.tolower", s] =>
    match fromHex? s with
    | some b => s!"lower={toHexD (toLower b)}"
    | none => "bad-op"
  | ["c20.hosts"] => s!"hosts={showList (reservedHosts.map toHexD)}"
  | ["c20.alias", how, k, names, links] =>
    -- a caller writes through the slice `ReservedHosts()` returned. The model's `resolveString` is a function
    -- of the link alone and `reservedHosts` a constant: the answers before and after are the same, and the
    -- list afterwards is the regenerated one.
    match k.toNat?, (splitComma names).mapM fromHex?, (splitComma links).mapM fromHex? with
    | some _, some _, some ls =>
      if how ∉ ["read", "append", "assign", "prefix"] then "bad-op" else
      let rs := showList (ls.map fun l => showOutcome (resolveString l))
      s!"before={rs} after={rs} hosts={showList (reservedHosts.map toHexD)}"
    | _, _, _ => "bad-op"
  | ["c20.lowertab"] =>
    -- every rune of every run (and the ASCII letters) through `lowerRune`
    let cands := (List.range 128) ++ Mtv.Gen.Links.lowerRuns.flatMap fun (lo, hi, step, _) =>
      (List.range ((hi - lo) / step + 1)).map fun k => lo + k * step
    let ps := cands.filterMap fun r => if lowerRune r ≠ r then some s!"{r}:{lowerRune r}" else none
    s!"pairs={showList ps}"
  | _ => "bad-op"

end Driver.C20
