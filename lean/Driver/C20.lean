import Driver.Util
namespace Driver.C20
open Mtv Driver

/-- operations of property C20; not built yet -/
def handle : List String → String
  | _ => "bad-op"

end Driver.C20
