import Driver.Loop
import Driver.C19
def main : IO Unit := Driver.mainLoop Driver.C19.handle
