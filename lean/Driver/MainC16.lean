import Driver.Loop
import Driver.C16
def main : IO Unit := Driver.mainLoop Driver.C16.handle
