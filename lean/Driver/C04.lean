import Driver.Util
import Mtv.Envelope.Exec
import Driver.C03
namespace Driver.C04
open Mtv Mtv.Envelope Mtv.Envelope.Exec Driver

/-- operations of property C04 (see harness/cmd/vh/c04.go). The last token of each operation is the
generator's expectation for the Go-side oracle; the model does not look at it. -/
def handle : List String → String
  -- DeserializeEncrypted on an arbitrary packet
  | ["c04.open", key, pkt, _expect] =>
    match parseTok? key, parseTok? pkt with
    | some key, some pkt => showOutcome showMsg (openClient prims key pkt)
    | _, _ => "bad-op"
  -- the model of the receive path as found (defect D3); only for validating that model by hand
  | ["c04.openorig", key, pkt, _expect] =>
    match parseTok? key, parseTok? pkt with
    | some key, some pkt => showOutcome showMsg (openClientOrig prims key pkt)
    | _, _ => "bad-op"
  -- the same packet through transport.ReadMsg (after the framing layer)
  | ["c04.route", key, pkt, _expect] =>
    match parseTok? key, parseTok? pkt with
    | some key, some pkt => showRouted (route prims key pkt)
    | _, _ => "bad-op"
  -- DeserializeUnencrypted on an arbitrary packet
  | ["c04.udeser", d, _expect] =>
    match parseTok? d with
    | some d => C03.showUnenc (Unenc.deserialize d)
    | none => "bad-op"
  | _ => "bad-op"

end Driver.C04
