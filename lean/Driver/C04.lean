import Driver.Util
namespace Driver.C04
open Mtv Driver

/-- operations of property C04; not built yet -/
def handle : List String → String
  | _ => "bad-op"

end Driver.C04
