import Driver.Util
import Mtv.Envelope.Exec
import Driver.C03
namespace Driver.C04
open Mtv Mtv.Envelope Mtv.Envelope.Exec Driver

/-- `c04.session`: (key, packet, expectation)* over one transport. In the model `ReadMsg` is a function of
the session's key at the time of the call and of the packet (`route`); a transport has no state of its own
besides the connection, so a session answers what each packet answers on its own under that step's key. -/
def sessionSteps : List String → Option (List String)
  | [] => some []
  | key :: pkt :: _expect :: rest =>
    match parseTok? key, parseTok? pkt, sessionSteps rest with
    | some key, some pkt, some r => some (showRouted (route prims key pkt) :: r)
    | _, _, _ => none
  | _ => none

/-- what the application sees of `clientRead` (`c04.client`): the body of a message handed on, or a refusal -/
def showClient : Routed → String
  | .enc m => "msg body=" ++ showB m.body
  | .unenc _ body => "msg body=" ++ showB body
  | _ => "refused"

/-- `c04.client enc`: (key, packet, expectation)* to one client in encrypted mode; like `ReadMsg`, `readMsg` is a
function of the session's key and mode at the time of the call and of the packet -/
def clientSteps (enc : Bool) : List String → Option (List String)
  | [] => some []
  | key :: pkt :: _expect :: rest =>
    match parseTok? key, parseTok? pkt, clientSteps enc rest with
    | some key, some pkt, some r => some (showClient (clientRead enc prims key pkt) :: r)
    | _, _, _ => none
  | _ => none

/-- operations of property C04 (see harness/cmd/vh/c04.go). The last token of each operation is the
generator's expectation for the Go-side oracle; the model does not look at it. -/
def handle : List String → String
  -- DeserializeEncrypted on an arbitrary packet
  | ["c04.open", key, pkt, _expect] =>
    match parseTok? key, parseTok? pkt with
    | some key, some pkt => showOutcome showMsg (openClient prims key pkt)
    | _, _ => "bad-op"
  -- the model of the receive path as found (defect D3); only for validating that model by hand
  | ["c04.openorig", key, pkt, _expect] =>
    match parseTok? key, parseTok? pkt with
    | some key, some pkt => showOutcome showMsg (openClientOrig prims key pkt)
    | _, _ => "bad-op"
  -- the same packet through transport.ReadMsg (after the framing layer)
  | ["c04.route", key, pkt, _expect] =>
    match parseTok? key, parseTok? pkt with
    | some key, some pkt => showRouted (route prims key pkt)
    | _, _ => "bad-op"
  -- several packets through ONE transport while the session's key changes
  | "c04.session" :: steps =>
    match sessionSteps steps with
    | some (r :: rs) => " ; ".intercalate (r :: rs)
    | _ => "bad-op"
  -- several packets to ONE real client working under its auth key (MTProto.readMsg)
  | "c04.client" :: "enc" :: steps =>
    match clientSteps true steps with
    | some (r :: rs) => " ; ".intercalate (r :: rs)
    | _ => "bad-op"
  -- DeserializeUnencrypted on an arbitrary packet
  | ["c04.udeser", d, _expect] =>
    match parseTok? d with
    | some d => C03.showUnenc (Unenc.deserialize d)
    | none => "bad-op"
  | _ => "bad-op"

end Driver.C04
