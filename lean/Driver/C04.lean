import Driver.Util
import Mtv.Envelope.Exec
import Driver.C03
import Mtv.Envelope.Head
namespace Driver.C04
open Mtv Mtv.Envelope Mtv.Envelope.Exec Driver

/-- `c04.session`: (key, packet, expectation)* over one transport. In the model `ReadMsg` is a function of
the session's key at the time of the call and of the packet (`route`); a transport has no state of its own
besides the connection, so a session answers what each packet answers on its own under that step's key. -/
def sessionSteps : List String → Option (List String)
  | [] => some []
  | key :: pkt :: _expect :: rest =>
    match parseTok? key, parseTok? pkt, sessionSteps rest with
    | some key, some pkt, some r => some (showRouted (route prims key pkt) :: r)
    | _, _, _ => none
  | _ => none

/-- what the application sees of `clientRead` (`c04.client`): the body of a message handed on, or a refusal -/
def showClient : Routed → String
  | .enc m => "msg body=" ++ showB m.body
  | .unenc _ body => "msg body=" ++ showB body
  | _ => "refused"

/-- `c04.client enc`: (key, packet, expectation)* to one client in encrypted mode; like `ReadMsg`, `readMsg` is a
function of the session's key and mode at the time of the call and of the packet -/
def clientSteps (enc : Bool) : List String → Option (List String)
  | [] => some []
  | key :: pkt :: _expect :: rest =>
    match parseTok? key, parseTok? pkt, clientSteps enc rest with
    | some key, some pkt, some r => some (showClient (clientRead enc prims key pkt) :: r)
    | _, _, _ => none
  | _ => none

/-! ### packets described, not spelled out (`c04.big`, `c04.cut`; harness/cmd/vh/c04big.go) -/

/-- `g:<n>:<seed>` / `r:<total>:<seed>:<decl>:<span>` -/
inductive BigDesc where
  | garbage (n seed : Nat)
  | resealed (total seed : Nat) (decl : Int) (span : Nat)

def parseInt? (s : String) : Option Int :=
  match s.toList with
  | '-' :: r => (String.ofList r).toNat?.map fun n => -(n : Int)
  | _ => s.toNat?.map fun n => (n : Int)

def parseDesc? (s : String) : Option BigDesc :=
  match s.splitOn ":" with
  | ["g", n, sd] =>
    match n.toNat?, sd.toNat? with
    | some n, some sd => if 8 ≤ n ∧ n ≤ 2 ^ 28 then some (.garbage n sd) else none
    | _, _ => none
  | ["r", t, sd, decl, span] =>
    match t.toNat?, sd.toNat?, parseInt? decl, span.toNat? with
    | some t, some sd, some decl, some span =>
      if 32 ≤ t ∧ t % 16 = 0 ∧ t ≤ 2 ^ 28 ∧ span ≤ t ∧ -(2 ^ 31 : Int) ≤ decl ∧ decl < 2 ^ 31 then some (.resealed t sd decl span) else none
    | _, _, _, _ => none
  | _ => none

/-- the plaintext of an `r` description: LCG bytes, server parity forced on the msg_id, the length field set -/
def bigPlain (total seed : Nat) (decl : Int) : Bytes :=
  let p := lcgBytes total (UInt64.ofNat seed)
  let b16 := (p.getD 16 0)
  p.take 16 ++ [(b16 &&& 0xFC) ||| 1] ++ (p.drop 17).take 11 ++ leBytes (ofSigned 32 decl) 4 ++ p.drop 32

/-- the packet of a description under `key` (the `r` form is sealed by the SPECIFICATION's server, like in Go) -/
def bigPacket (key : Bytes) : BigDesc → Bytes
  | .garbage n seed => authKeyId prims key ++ lcgBytes (n - 8) (UInt64.ofNat seed)
  | .resealed total seed decl span =>
    let plain := bigPlain total seed decl
    let mk := Spec.substr (prims.H (plain.take span)) 4 16
    let kv := Spec.keyIv prims 8 key mk
    authKeyId prims key ++ mk ++ prims.igeE kv.1 kv.2 plain

/-- above this size garbage is answered from its first 56 bytes where they decide; at and
below it BOTH ways are computed and must agree -/
def headOnlyAbove : Nat := 2 ^ 20

/-- `DeserializeEncrypted` on a described packet -/
def bigOpen (key : Bytes) (d : BigDesc) : Outcome Msg :=
  match d with
  | .garbage n seed =>
    let head := authKeyId prims key ++ lcgBytes 48 (UInt64.ofNat seed)
    match openClientHead prims key head n with
    | some r =>
      if n ≤ headOnlyAbove ∧ openClient prims key (bigPacket key d) ≠ r then .err "HEAD-RULE-DISAGREES-WITH-MODEL" else r
    | none => openClient prims key (bigPacket key d)
  | _ => openClient prims key (bigPacket key d)

/-- `ReadMsg` on a described packet: `route` with the deserialiser's answer taken from `bigOpen` (a described packet
is longer than 4 bytes and starts with a key id, which is non-zero for the keys the generator uses; should it be
zero the whole packet goes through `route`) -/
def bigRoute (key : Bytes) (d : BigDesc) : Routed :=
  if Unenc.isEncrypted (authKeyId prims key) then
    match bigOpen key d with
    | .panic s => .panic s
    | .err e => .err e
    | .ok m => if m.mid % 4 ≠ 1 ∧ m.mid % 4 ≠ 3 then .err "parity2" else .enc m
  else route prims key (bigPacket key d)

/-- `c04.hold` (harness/cmd/vh/c04hold.go): (via, key, packet, expectation)* — a sequence whose messages the harness all
keeps and compares with the copies it took when they were handed out. In the model a message is a value: what one call
returned cannot be touched by a later call, so every step answers what the single-packet operation answers
(o = `DeserializeEncrypted`, u = `DeserializeUnencrypted`, r / s = `ReadMsg` on the first / second transport, O / R = a
described packet through `DeserializeEncrypted` / `ReadMsg`), and the line never ends in a changed-message report. -/
def holdSteps : List String → Option (List String)
  | [] => some []
  | via :: key :: pkt :: _expect :: rest =>
    match parseTok? key, holdSteps rest with
    | some key, some r =>
      if via = "O" ∨ via = "R" then
        match parseDesc? pkt with
        | some d => some ((if via = "O" then showOutcome showMsg (bigOpen key d) else showRouted (bigRoute key d)) :: r)
        | none => none
      else
        match parseTok? pkt with
        | some pkt =>
          if via = "o" then some (showOutcome showMsg (openClient prims key pkt) :: r)
          else if via = "u" then some (C03.showUnenc (Unenc.deserialize pkt) :: r)
          else if via = "r" ∨ via = "s" then some (showRouted (route prims key pkt) :: r)
          else none
        | none => none
    | _, _ => none
  | _ => none

/-- operations of property C04 (see harness/cmd/vh/c04.go). The last token of each operation is the
generator's expectation for the Go-side oracle; the model does not look at it. -/
def handle : List String → String
  -- DeserializeEncrypted on an arbitrary packet
  | ["c04.open", key, pkt, _expect] =>
    match parseTok? key, parseTok? pkt with
    | some key, some pkt => showOutcome showMsg (openClient prims key pkt)
    | _, _ => "bad-op"
  -- the model of the receive path as found (defect D3); only for validating that model by hand
  | ["c04.openorig", key, pkt, _expect] =>
    match parseTok? key, parseTok? pkt with
    | some key, some pkt => showOutcome showMsg (openClientOrig prims key pkt)
    | _, _ => "bad-op"
  -- the same packet through transport.ReadMsg (after the framing layer)
  | ["c04.route", key, pkt, _expect] =>
    match parseTok? key, parseTok? pkt with
    | some key, some pkt => showRouted (route prims key pkt)
    | _, _ => "bad-op"
  -- several packets through ONE transport while the session's key changes
  | "c04.session" :: steps =>
    match sessionSteps steps with
    | some (r :: rs) => " ; ".intercalate (r :: rs)
    | _ => "bad-op"
  -- several packets to ONE real client working under its auth key (MTProto.readMsg)
  | "c04.client" :: "enc" :: steps =>
    match clientSteps true steps with
    | some (r :: rs) => " ; ".intercalate (r :: rs)
    | _ => "bad-op"
  -- DeserializeUnencrypted on an arbitrary packet
  | ["c04.udeser", d, _expect] =>
    match parseTok? d with
    | some d => C03.showUnenc (Unenc.deserialize d)
    | none => "bad-op"
  -- packets of any size, described (c04big.go)
  | ["c04.big", via, key, desc, _expect] =>
    match parseTok? key, parseDesc? desc with
    | some key, some d =>
      if via = "open" then showOutcome showMsg (bigOpen key d)
      else if via = "route" then showRouted (bigRoute key d)
      else "bad-op"
    | _, _ => "bad-op"
  -- a sequence of packets whose messages are all held by the harness (c04hold.go)
  | "c04.hold" :: md :: steps =>
    if md = "p1,gcoff" ∨ md = "pn,gcoff" ∨ md = "p1,gcforce" ∨ md = "pn,gcon" ∨ md = "p1,gcon" ∨ md = "pn,gcforce" then
      match holdSteps steps with
      | some (r :: rs) => " ; ".intercalate (r :: rs)
      | _ => "bad-op"
    else "bad-op"
  -- the harness compares everything it holds (forced collections first); nothing to compute in the model
  | ["c04.heldcheck", _] => "held:intact"
  -- a frame cut short by the end of the connection: the framing layer delivers nothing, `ReadMsg` returns its
  -- connection error (one class; the deserialisers are not reached)
  | ["c04.cut", key, declared, sent, seed] =>
    match parseTok? key, declared.toNat?, sent.toNat?, seed.toNat? with
    | some _, some d, some s, some _ => if 8 ≤ d ∧ d ≤ 2 ^ 28 ∧ s < d then "err:transport" else "bad-op"
    | _, _, _, _ => "bad-op"
  | _ => "bad-op"

end Driver.C04
