import Driver.Loop
import Driver.C10
def main : IO Unit := Driver.mainLoop Driver.C10.handle
