/- Line-protocol helpers shared by the per-property drivers. Core-only. -/
import Mtv.Basic
namespace Driver
open Mtv

/-- FNV-1a, 32 bit — only used to print long byte strings compactly on both sides. -/
def fnv32 (bs : Bytes) : Nat :=
  bs.foldl (fun h b => ((h ^^^ b.toNat) * 16777619) % 4294967296) 2166136261

/-- print a byte string: hex when short, `L<len>:<fnv32>` when long -/
def showBytes (bs : Bytes) : String :=
  if bs.length ≤ 48 then toHexD bs else s!"L{bs.length}:{fnv32 bs}"

/-- parse a byte-string token: hex, `-` (empty), `z<n>` (n zero bytes), `p<n>` (bytes i % 251) -/
def parseBytes? (s : String) : Option Bytes :=
  match s.toList with
  | 'z' :: r => (String.ofList r).toNat?.map fun n => List.replicate n 0
  | 'p' :: r => (String.ofList r).toNat?.map fun n => (List.range n).map fun i => UInt8.ofNat (i % 251)
  | _ => fromHex? s

def parseBytesList? (s : String) : Option (List Bytes) :=
  (splitComma s).mapM parseBytes?

def showList (xs : List String) : String :=
  if xs.isEmpty then "-" else ",".intercalate xs

end Driver
