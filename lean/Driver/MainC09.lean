import Driver.Loop
import Driver.C09
def main : IO Unit := Driver.mainLoop Driver.C09.handle
