import Driver.TLVal
import Mtv.TL.Spec
import Mtv.TL.Decode
import Mtv.TL.Typing
import Mtv.Gen.Registry
import Mtv.Gen.SchemaApi
import Mtv.Gen.SchemaMt
namespace Driver.C02
open Mtv Mtv.TL Mtv.Schema Driver Driver.TLVal

def schema : List Def := Mtv.Gen.schemaApi ++ Mtv.Gen.schemaMt

/-- hex without the digest abbreviation (stage 2 needs the bytes themselves) -/
def fullHex (bs : Bytes) : String := toHexD bs

def fuelFor (bs : Bytes) : Nat := 64 * bs.length + 4096

/-- Rewrites a value so that two values can be compared exactly where the library gives nil-ness a
meaning and insensitively elsewhere: every slice / byte string in a position that is mandatory on the
wire (mandatory fields, vector items) becomes non-nil. Conditional fields, `decoded = false` (the value
the bytes were built from): members of a present flag group become non-nil, members of an absent group
stay as they are; `forced`: index of a field of the top-level object whose flag bit is set on the wire
whatever the values say (`c02.encz`). `decoded = true` (what the decoder returned): the nil-ness of a
conditional field is left as the decoder made it. -/
partial def wire (R : Registry) (forced : Option Nat) (decoded : Bool) : Val → Val
  | .bytes _ bs => .bytes false bs
  | .vec _ items => .vec false (items.map (wire R none decoded))
  | .obj id fs =>
    match R.find id with
    | none => .obj id fs
    | some d =>
      if d.kind != .struct then .obj id fs else
      let w0 := flagWord d.fields fs
      let w := match (forced.bind fun k => d.fields[k]?).bind (·.flag) with
        | some fl => w0 ||| (2 ^ fl.bit % 2 ^ 32)
        | none => w0
      .obj id (List.zipWith (fun f v => match f.flag with
        | none => wire R none decoded v
        | some fl =>
          let isNilSlice := match v with
            | .bytes true _ => true
            | .vec true _ => true
            | _ => false
          if decoded then (if isNilSlice then v else wire R none decoded v)
          else if bitSet w fl.bit then wire R none decoded v else v) d.fields fs)
  | v => v

def decLine (b v : String) (forced : Option Nat) : String :=
  -- bytes built from the schema decode to the corresponding value (model of the decoder)
  match fromHex? b, parse? v with
  | some bs, some val =>
    match decodeUnknown Mtv.Gen.registry (fun _ => none) (fuelFor bs) [] bs with
    | .ok got =>
      if showVal (wire Mtv.Gen.registry none true got) == showVal (wire Mtv.Gen.registry forced false val) then "ok"
      else if showVal (erase got) == showVal (erase val) then "diff-nil" else "diff"
    | .err _ => "err"
    | .panic _ => "panic"
  | _, _ => "bad-op"

def handle : List String → String
  | ["c02.enc", _id, v] =>
    match parse? v with
    | none => "bad-op"
    | some val =>
      match specVal schema val with
      | .ok bs => s!"enc={fullHex bs}"
      | .err "notInSchema" => "enc=notInSchema"
      | .err _ => "enc=err"
      | .panic _ => "enc=panic"
  | ["c02.encz", _id, v, k] =>
    -- the schema bytes of the value with the flag bit of value parameter `k` set although the value of
    -- that parameter is the zero of its type: "present with the zero value"
    match parse? v, k.toNat? with
    | some (.obj id fs), some k =>
      match findDef schema id with
      | none => "enc=notInSchema"
      | some d =>
        let ps := valueParams d.params
        match (ps[k]?).bind (·.cond) with
        | none => "bad-op"
        | some n =>
          let flags := specFlags ps fs ||| (2 ^ n % 2 ^ 32)
          match specParams schema flags (flagsPos d.params 0) ps fs with
          | .ok body => s!"enc={fullHex (leBytes d.id 4 ++ body)}"
          | .err _ => "enc=err"
          | .panic _ => "enc=panic"
    | _, _ => "bad-op"
  | ["c02.dec", b, v] => decLine b v none
  | ["c02.dec", b, v, k] =>
    match k.toNat? with
    | some k => decLine b v (some k)
    | none => "bad-op"
  | ["c02.str", b] =>
    match parseBytes? b with
    | some bs =>
      match putMessage bs with
      | .ok e =>
        match popMessage (e ++ [1, 2, 3, 4]) with
        | .ok (m, r) => s!"enc={showBytes e} back={m == bs && r == [1, 2, 3, 4]}"
        | _ => s!"enc={showBytes e} back=err"
      | .err _ => "refused"
      | .panic _ => "panic"
    | none => "bad-op"
  | _ => "bad-op"

end Driver.C02
