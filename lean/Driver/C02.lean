import Driver.TLVal
import Mtv.TL.Spec
import Mtv.TL.Decode
import Mtv.TL.Typing
import Mtv.Gen.Registry
import Mtv.Gen.SchemaApi
import Mtv.Gen.SchemaMt
namespace Driver.C02
open Mtv Mtv.TL Mtv.Schema Driver Driver.TLVal

def schema : List Def := Mtv.Gen.schemaApi ++ Mtv.Gen.schemaMt

/-- hex without the digest abbreviation (stage 2 needs the bytes themselves) -/
def fullHex (bs : Bytes) : String := toHexD bs

def fuelFor (bs : Bytes) : Nat := 64 * bs.length + 4096

def handle : List String → String
  | ["c02.enc", _id, v] =>
    match parse? v with
    | none => "bad-op"
    | some val =>
      match specVal schema val with
      | .ok bs => s!"enc={fullHex bs}"
      | .err "notInSchema" => "enc=notInSchema"
      | .err _ => "enc=err"
      | .panic _ => "enc=panic"
  | ["c02.dec", b, v] =>
    -- bytes built from the schema decode to the corresponding value (model of the decoder)
    match fromHex? b, parse? v with
    | some bs, some val =>
      match decodeUnknown Mtv.Gen.registry (fun _ => none) (fuelFor bs) [] bs with
      | .ok got => if showVal (erase got) == showVal (erase val) then "ok" else "diff"
      | .err _ => "err"
      | .panic _ => "panic"
    | _, _ => "bad-op"
  | ["c02.str", b] =>
    match parseBytes? b with
    | some bs =>
      match putMessage bs with
      | .ok e =>
        match popMessage (e ++ [1, 2, 3, 4]) with
        | .ok (m, r) => s!"enc={showBytes e} back={m == bs && r == [1, 2, 3, 4]}"
        | _ => s!"enc={showBytes e} back=err"
      | .err _ => "refused"
      | .panic _ => "panic"
    | none => "bad-op"
  | _ => "bad-op"

end Driver.C02
