import Driver.Util
namespace Driver.C02
open Mtv Driver

/-- operations of property C02; not built yet -/
def handle : List String → String
  | _ => "bad-op"

end Driver.C02
