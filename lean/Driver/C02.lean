import Driver.TLVal
import Mtv.TL.Spec
import Mtv.TL.Decode
import Mtv.TL.Typing
import Mtv.Gen.Registry
import Mtv.Gen.SchemaApi
import Mtv.Gen.SchemaMt
namespace Driver.C02
open Mtv Mtv.TL Mtv.Schema Driver Driver.TLVal

def schema : List Def := Mtv.Gen.schemaApi ++ Mtv.Gen.schemaMt

/-- hex without the digest abbreviation (stage 2 needs the bytes themselves) -/
def fullHex (bs : Bytes) : String := toHexD bs

def fuelFor (bs : Bytes) : Nat := 64 * bs.length + 4096

/-- Rewrites a value so that two values can be compared exactly where the library gives nil-ness a
meaning and insensitively elsewhere: every slice / byte string in a position that is mandatory on the
wire (mandatory fields, vector items) becomes non-nil. Conditional fields, `decoded = false` (the value
the bytes were built from): members of a present flag group become non-nil, members of an absent group
stay as they are; `forced`: index of a field of the top-level object whose flag bit is set on the wire
whatever the values say (`c02.encz`). `decoded = true` (what the decoder returned): the nil-ness of a
conditional field is left as the decoder made it. -/
partial def wire (R : Registry) (forced : Option Nat) (decoded : Bool) : Val → Val
  | .bytes _ bs => .bytes false bs
  | .vec _ items => .vec false (items.map (wire R none decoded))
  | .obj id fs =>
    match R.find id with
    | none => .obj id fs
    | some d =>
      if d.kind != .struct then .obj id fs else
      let w0 := flagWord d.fields fs
      let w := match (forced.bind fun k => d.fields[k]?).bind (·.flag) with
        | some fl => w0 ||| (2 ^ fl.bit % 2 ^ 32)
        | none => w0
      .obj id (List.zipWith (fun f v => match f.flag with
        | none => wire R none decoded v
        | some fl =>
          let isNilSlice := match v with
            | .bytes true _ => true
            | .vec true _ => true
            | _ => false
          if decoded then (if isNilSlice then v else wire R none decoded v)
          else if bitSet w fl.bit then wire R none decoded v else v) d.fields fs)
  | v => v

def decLine (b v : String) (forced : Option Nat) : String :=
  -- bytes built from the schema decode to the corresponding value (model of the decoder)
  match fromHex? b, parse? v with
  | some bs, some val =>
    match decodeUnknown Mtv.Gen.registry (fun _ => none) (fuelFor bs) [] bs with
    | .ok got =>
      if showVal (wire Mtv.Gen.registry none true got) == showVal (wire Mtv.Gen.registry forced false val) then "ok"
      else if showVal (erase got) == showVal (erase val) then "diff-nil" else "diff"
    | .err _ => "err"
    | .panic _ => "panic"
  | _, _ => "bad-op"

/-- structural equality of values (nil-ness of slices included) -/
partial def valEq : Val → Val → Bool
  | .word a, .word b => a == b
  | .long a, .long b => a == b
  | .dbl a, .dbl b => a == b
  | .bool a, .bool b => a == b
  | .str a, .str b => a == b
  | .bytes n a, .bytes m b => n == m && a == b
  | .big w a, .big u b => w == u && a == b
  | .vec n a, .vec m b => n == m && a.length == b.length && (List.zipWith valEq a b).all id
  | .obj i a, .obj j b => i == j && a.length == b.length && (List.zipWith valEq a b).all id
  | .null, .null => true
  | _, _ => false

/-- `k:n[,k:n]` or `-`: value parameter `k` of the top-level object holds the `n` bytes `i % 251`;
`k.j:n`: element `j` of the vector that value parameter `k` holds does -/
def parseBig? (s : String) : Option (List (Nat × Option Nat × Nat)) :=
  if s == "-" then some [] else
  (s.splitOn ",").mapM fun kn =>
    match kn.splitOn ":" with
    | [k, n] =>
      match n.toNat? with
      | none => none
      | some n =>
        if n > 2 ^ 25 then none else
        match k.splitOn "." with
        | [k] => k.toNat?.map fun k => (k, none, n)
        | [k, j] => match k.toNat?, j.toNat? with
          | some k, some j => some (k, some j, n)
          | _, _ => none
        | _ => none
    | _ => none

def pattern (n : Nat) : Bytes := (List.range n).map fun i => UInt8.ofNat (i % 251)

/-- a string / byte string value replaced by the pattern of `n` bytes -/
def bigOf (n : Nat) : Val → Option Val
  | .str _ => some (.str (pattern n))
  | .bytes _ _ => some (.bytes false (pattern n))
  | _ => none

def putBig : Val → List (Nat × Option Nat × Nat) → Option Val
  | v, [] => some v
  | .obj id fs, (k, none, n) :: rest =>
    match (fs[k]?).bind (bigOf n) with
    | some x => putBig (.obj id (fs.set k x)) rest
    | none => none
  | .obj id fs, (k, some j, n) :: rest =>
    match fs[k]? with
    | some (.vec isNil items) =>
      match (items[j]?).bind (bigOf n) with
      | some x => putBig (.obj id (fs.set k (.vec isNil (items.set j x)))) rest
      | none => none
    | _ => none
  | _, _ => none

def gzReqId : Nat := 0x5e0b700a00000001

/-- `c02.gz`: the schema-defined bytes of the value inside a gzip_packed (alone / as the result of an
rpc_result), through the decoder model. compress/gzip is not modelled: the model's `gunzip` parameter answers
the schema-defined bytes of the value for the packed_data of the wrapping (an empty string here), i.e. what is
assumed of the harness' packing is that it unpacks to what was packed. -/
def gzLine (wrap v big : String) : String :=
  match parse? v, parseBig? big with
  | some v0, some bigs =>
    match putBig v0 bigs with
    | none => "bad-op"
    | some val =>
      match specVal schema val with
      | .err "notInSchema" => "enc=notInSchema"
      | .err _ => "enc=err"
      | .panic _ => "enc=panic"
      | .ok bs =>
        let packed : Bytes := leBytes crcGzip 4 ++ [0, 0, 0, 0]
        let outer : Bytes := if wrap == "rpc" then leBytes 0xf35c6d01 4 ++ (leBytes gzReqId 8 ++ packed) else packed
        let dec := match decodeUnknown Mtv.Gen.registry (fun _ => some bs) (fuelFor bs) [] outer with
          | .ok got =>
            let inner? : Option Val := match wrap, got with
              | "rpc", .obj 0xf35c6d01 [.long r, .obj g [x]] => if r == gzReqId && g == crcGzip then some x else none
              | "gz", .obj g [x] => if g == crcGzip then some x else none
              | _, _ => none
            match inner? with
            | none => "diff"
            | some x =>
              if valEq (wire Mtv.Gen.registry none true x) (wire Mtv.Gen.registry none false val) then "ok"
              else if showVal (erase x) == showVal (erase val) then "diff-nil" else "diff"
          | .err _ => "err"
          | .panic _ => "panic"
        s!"enc={showBytes bs} dec={dec}"
  | _, _ => "bad-op"

/-- `c02.enc`: the bytes the schema lines define for the value -/
def encLine (v : String) : String :=
  match parse? v with
  | none => "bad-op"
  | some val =>
    match specVal schema val with
    | .ok bs => s!"enc={fullHex bs}"
    | .err "notInSchema" => "enc=notInSchema"
    | .err _ => "enc=err"
    | .panic _ => "enc=panic"

/-- `c02.big`: the schema-defined bytes (length and digest) of the value with the long byte strings in place -/
def bigLine (v big : String) : String :=
  match parse? v, parseBig? big with
  | some v0, some bigs =>
    match putBig v0 bigs with
    | none => "bad-op"
    | some val =>
      match specVal schema val with
      | .ok bs => s!"enc={showBytes bs}"
      | .err "notInSchema" => "enc=notInSchema"
      | .err _ => "enc=err"
      | .panic _ => "enc=panic"
  | _, _ => "bad-op"

/-- `c02.str`: one byte string, written and read back -/
def strLine (b : String) : String :=
  match parseBytes? b with
  | some bs =>
    match putMessage bs with
    | .ok e =>
      match popMessage (e ++ [1, 2, 3, 4]) with
      | .ok (m, r) => s!"enc={showBytes e} back={m == bs && r == [1, 2, 3, 4]}"
      | _ => s!"enc={showBytes e} back=err"
    | .err _ => "refused"
    | .panic _ => "panic"
  | none => "bad-op"

def handle : List String → String
  | ["c02.gz", wrap, _id, v, big] => if wrap == "gz" || wrap == "rpc" then gzLine wrap v big else "bad-op"
  | ["c02.enc", _id, v] => encLine v
  -- the same tree with one Go object at several positions (`alias`) or every position its own (`distinct`):
  -- values of the schema side are trees, the bytes are those of the tree either way
  | ["c02.enc", _id, v, mode] => if mode == "alias" || mode == "distinct" then encLine v else "bad-op"
  -- whichever writer the bytes go to (`marshal`: tl.Marshal, `writer`: an Encoder over a plain io.Writer)
  | ["c02.big", _id, v, big, how] => if how == "marshal" || how == "writer" then bigLine v big else "bad-op"
  | ["c02.encz", _id, v, k] =>
    -- the schema bytes of the value with the flag bit of value parameter `k` set although the value of
    -- that parameter is the zero of its type: "present with the zero value"
    match parse? v, k.toNat? with
    | some (.obj id fs), some k =>
      match findDef schema id with
      | none => "enc=notInSchema"
      | some d =>
        let ps := valueParams d.params
        match (ps[k]?).bind (·.cond) with
        | none => "bad-op"
        | some n =>
          let flags := specFlags ps fs ||| (2 ^ n % 2 ^ 32)
          match specParams schema flags (flagsPos d.params 0) ps fs with
          | .ok body => s!"enc={fullHex (leBytes d.id 4 ++ body)}"
          | .err _ => "enc=err"
          | .panic _ => "enc=panic"
    | _, _ => "bad-op"
  | ["c02.dec", b, v] => decLine b v none
  | ["c02.dec", b, v, k] =>
    match k.toNat? with
    | some k => decLine b v (some k)
    | none => "bad-op"
  | ["c02.str", b] => strLine b
  -- a Go string / []byte / element of a vector of strings, into a bytes.Buffer or a plain writer: one byte string
  | ["c02.str", b, how] =>
    if ["msg", "str", "vec", "msgw", "strw", "vecw"].contains how then strLine b else "bad-op"
  | _ => "bad-op"

end Driver.C02
