/-
  Counterexample search for Mtv/Props/Arith.lean (not a proof, not part of the build): evaluates the regenerated
  definitions of Mtv/Gen/Arith.lean and the hand-written models on a boundary table and prints the inputs on which
  they differ. Run by lib/vlib.py (`lake env lean Search/Arith.lean`) when the theorems no longer check, so that
  the replay can name a concrete input of the changed arithmetic.
-/
import Mtv.Gen.Arith
import Mtv.Client.MsgId
import Mtv.Envelope.Model
import Mtv.Ige.Wrap
import Mtv.Framing.Model
open Mtv.Gen.Arith

def lens : List Nat :=
  (List.range 70) ++ [100, 111, 112, 113, 127, 128, 252, 253, 254, 255, 256, 257, 504, 508, 512, 1020, 1024, 4095, 4096, 4097,
    65535, 65536, 65537, 262140, 262144, 262148, 1048576, 16777212, 16777216, 16777220, 4294967292, 4294967296, 2 ^ 40 + 4, 2 ^ 61]
def clocks : List Nat :=
  [0, 1, 3, 4, 5, 999999999, 1000000000, 1000000001, 1700000000123456789, 1700000000999999999, 1700000001000000000,
   1700000001000000003, 2 ^ 31 * 1000000000 - 1, 2 ^ 30 * 1000000000 + 7]

def report (name : String) (bad : List String) : IO Unit :=
  if bad.isEmpty then IO.println s!"arith-search {name}: no differing input in the table"
  else IO.println s!"arith-search {name}: DIFFERS at {bad.take 4}"

#eval report "generateMessageId" (clocks.filterMap fun ns =>
  let g := (generateMessageId (BitVec.ofNat 64 ns)).toNat
  if g = Mtv.Client.genId ns then none else some s!"unixnano={ns}: code {g}, model {Mtv.Client.genId ns}")
#eval report "encryptPaddedLen" (lens.filterMap fun n =>
  let g := (encryptPaddedLen (BitVec.ofNat 64 n)).toNat
  if g = n + Mtv.Envelope.padLen n then none else some s!"len(msg)={n}: code {g}, model {n + Mtv.Envelope.padLen n}")
#eval report "tempNeedToAdd" (lens.filterMap fun n =>
  let g := (tempNeedToAdd 20#64 (BitVec.ofNat 64 n)).toNat
  if g = Mtv.Ige.tempPadLen (20 + n) then none else some s!"len(hash)=20 len(msg)={n}: code {g}, model {Mtv.Ige.tempPadLen (20 + n)}")
#eval report "abridged" (lens.filterMap fun n =>
  let x := BitVec.ofNat 64 n
  let g := [UInt8.ofNat (abridgedB1 x).toNat, UInt8.ofNat (abridgedB2 x).toNat, UInt8.ofNat (abridgedB3 x).toNat]
  if g = Mtv.leBytes (n / 4) 3 ∧ (abridgedWords x).toNat = n / 4 then none
  else some s!"len(msg)={n}: code words {(abridgedWords x).toNat} bytes {g}, model words {n / 4} bytes {Mtv.leBytes (n / 4) 3}")
#eval report "encryptedParityMod" (([0, 1, 2, 3, 4, 5, 6, 7, 2 ^ 63, 2 ^ 63 + 1, 2 ^ 63 + 3, 2 ^ 64 - 1, 2 ^ 64 - 3, 6917529027641081857] : List Nat).filterMap fun n =>
  let g := (encryptedParityMod (BitVec.ofNat 64 n)).toNat
  if g = n % 4 then none else some s!"msg_id={n}: code {g}, model {n % 4}")
#eval report "sendPacketMsgId" ((clocks.flatMap fun ns => [0, 4, Mtv.Client.genId ns - 4, Mtv.Client.genId ns, Mtv.Client.genId ns + 4, Mtv.Client.genId ns + 400].map fun l => (ns, l)).filterMap fun (ns, last) =>
  let g := (sendPacketMsgId (generateMessageId (BitVec.ofNat 64 ns)) (BitVec.ofNat 64 last)).toNat
  if g = Mtv.Client.nextId last ns then none else some s!"unixnano={ns} lastMsgID={last}: code {g}, model {Mtv.Client.nextId last ns}")
#eval report "seqNo" (([0, 2, 4, 6, 1000, 2 ^ 31 - 2, 2 ^ 31, 2 ^ 32 - 2] : List Nat).filterMap fun n =>
  let c := (seqNoContent (BitVec.ofNat 32 n)).toNat
  let v := (seqNoService (BitVec.ofNat 32 n)).toNat
  if c = n + 1 ∧ v = n then none else some s!"seqNo={n}: code content {c} service {v}, model {n + 1} {n}")
