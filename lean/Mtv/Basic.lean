/-
  Mtv.Basic — byte strings, hex, little/big-endian conversions, outcome type.
  Core-only (no Mathlib): everything here is linked into the driver executable.
-/
namespace Mtv

abbrev Bytes := List UInt8

/-- Result of a modelled Go call: a value, an error of some class, or a panic at a named site. -/
inductive Outcome (α : Type) where
  | ok (a : α)
  | err (kind : String)
  | panic (site : String)
  deriving Repr, DecidableEq

namespace Outcome
def bind {α β} (o : Outcome α) (f : α → Outcome β) : Outcome β :=
  match o with
  | ok a => f a
  | err k => err k
  | panic s => panic s
instance : Monad Outcome where
  pure := ok
  bind := bind
def isOk {α} : Outcome α → Bool
  | ok _ => true
  | _ => false
def isPanic {α} : Outcome α → Bool
  | panic _ => true
  | _ => false
def isErr {α} : Outcome α → Bool
  | err _ => true
  | _ => false
end Outcome

/-! ### hex -/

def hexDigit (n : Nat) : Char :=
  if n < 10 then Char.ofNat (48 + n) else Char.ofNat (87 + n)

def hexOfByte (b : UInt8) : List Char := [hexDigit (b.toNat / 16), hexDigit (b.toNat % 16)]

def toHex (bs : Bytes) : String := String.ofList (bs.flatMap hexOfByte)

def hexVal? (c : Char) : Option Nat :=
  if '0' ≤ c ∧ c ≤ '9' then some (c.toNat - 48)
  else if 'a' ≤ c ∧ c ≤ 'f' then some (c.toNat - 87)
  else if 'A' ≤ c ∧ c ≤ 'F' then some (c.toNat - 55)
  else none

def fromHexChars? : List Char → Option Bytes
  | [] => some []
  | [_] => none
  | a :: b :: rest =>
    match hexVal? a, hexVal? b, fromHexChars? rest with
    | some x, some y, some r => some (UInt8.ofNat (x * 16 + y) :: r)
    | _, _, _ => none

/-- `-` denotes the empty byte string on the line protocol. -/
def fromHex? (s : String) : Option Bytes :=
  if s = "-" then some [] else fromHexChars? s.toList

def toHexD (bs : Bytes) : String := if bs.isEmpty then "-" else toHex bs

/-! ### little / big endian -/

/-- `k` little-endian bytes of `n` (reduced mod `256^k`). -/
def leBytes (n : Nat) : Nat → Bytes
  | 0 => []
  | k + 1 => UInt8.ofNat (n % 256) :: leBytes (n / 256) k

def fromLE : Bytes → Nat
  | [] => 0
  | b :: bs => b.toNat + 256 * fromLE bs

/-- `k` big-endian bytes of `n` (reduced mod `256^k`). -/
def beBytes (n k : Nat) : Bytes := (leBytes n k).reverse

def fromBE (bs : Bytes) : Nat := fromLE bs.reverse

@[simp] theorem leBytes_length (n k : Nat) : (leBytes n k).length = k := by
  induction k generalizing n with
  | zero => rfl
  | succ k ih => simp [leBytes, ih]

@[simp] theorem beBytes_length (n k : Nat) : (beBytes n k).length = k := by
  simp [beBytes]

theorem fromLE_leBytes (k : Nat) : ∀ n, n < 256 ^ k → fromLE (leBytes n k) = n := by
  induction k with
  | zero => intro n h; simp at h; simp [leBytes, fromLE, h]
  | succ k ih =>
    intro n h
    have h2 : n / 256 < 256 ^ k := by
      rw [Nat.div_lt_iff_lt_mul (by decide)]; rw [Nat.pow_succ] at h; exact h
    simp only [leBytes, fromLE, ih _ h2]
    have : (UInt8.ofNat (n % 256)).toNat = n % 256 := by
      simp [UInt8.toNat_ofNat']
    rw [this]; omega

theorem fromLE_lt (bs : Bytes) : fromLE bs < 256 ^ bs.length := by
  induction bs with
  | nil => simp [fromLE]
  | cons b bs ih =>
    simp only [fromLE, List.length_cons, Nat.pow_succ]
    have := b.toNat_lt
    omega

theorem leBytes_fromLE (bs : Bytes) : leBytes (fromLE bs) bs.length = bs := by
  induction bs with
  | nil => rfl
  | cons b bs ih =>
    simp only [fromLE, List.length_cons, leBytes]
    have hb := b.toNat_lt
    have h1 : (b.toNat + 256 * fromLE bs) % 256 = b.toNat := by omega
    have h2 : (b.toNat + 256 * fromLE bs) / 256 = fromLE bs := by omega
    rw [h1, h2, ih]
    simp

theorem fromBE_beBytes (k n : Nat) (h : n < 256 ^ k) : fromBE (beBytes n k) = n := by
  simp [fromBE, beBytes, fromLE_leBytes k n h]

/-- zero bytes -/
def zeros (n : Nat) : Bytes := List.replicate n 0

@[simp] theorem zeros_length (n : Nat) : (zeros n).length = n := by simp [zeros]

/-! ### line-protocol helpers -/

def splitWs (s : String) : List String :=
  (s.splitOn " ").filter (· ≠ "")

def joinSp (xs : List String) : String := " ".intercalate xs

def natOfString? (s : String) : Option Nat := s.toNat?

def intOfString? (s : String) : Option Int := s.toInt?

/-- comma separated list, `-` for empty list -/
def splitComma (s : String) : List String :=
  if s = "-" then [] else s.splitOn ","

/-- two's complement reading of an `n`-bit value -/
def toSigned (bits : Nat) (v : Nat) : Int :=
  if v < 2 ^ (bits - 1) then (v : Int) else (v : Int) - (2 ^ bits : Nat)

def ofSigned (bits : Nat) (v : Int) : Nat :=
  (v % (2 ^ bits : Nat)).toNat

end Mtv
