/-
  What internal/cmd/tlgen/gen emits for a schema, at the level the property speaks about: for every
  definition one declaration carrying its constructor id, its fields in the schema's order with their
  Go types and `tl` tags, and the position of the flags word; for every function additionally the
  client method's argument list and result type. This is the *validator* side of the generator check:
  the harness reads the same description back (go/ast) from the files the real generator wrote, in
  terms of the schema's own names (constructor ids link Go declarations to definitions).

  Mirrors gen/tl_gen_structs.go (`generateStructTypeAndMethods`, `generateStructParameter`),
  gen/utils.go (`typeIdFromSchemaType`), gen/tl_gen_methods.go (`generateArgumentsForMethod`,
  `generateMethodFunction`) as far as they are pure; text layout, doc comments and the third-party
  naming function are not modelled. `none` = the generator panics (type not declared, optional field
  without a `flags:#` word).

  Core-only.
-/
import Mtv.Tlgen.Classify
namespace Mtv.Tlgen

/-- a Go type, named in the schema's terms -/
inductive GoType where
  | prim (name : String)        -- int32 int64 float64 string bytes bool
  | enumT (tlType : Str)        -- the `uint32` type generated for an enum type
  | ifaceT (tlType : Str)       -- the interface generated for a type with several constructors
  | structPtr (ctor : Str)      -- pointer to the struct of a single-constructor type
  deriving Repr, DecidableEq

/-- `typeIdFromSchemaType` -/
def goTypeOf (objs : List Obj) (t : Str) : Option GoType :=
  if t = "Bool".toList ∨ t = "true".toList then some (.prim "bool")
  else if t = "long".toList then some (.prim "int64")
  else if t = "double".toList then some (.prim "float64")
  else if t = "int".toList then some (.prim "int32")
  else if t = "string".toList then some (.prim "string")
  else if t = "bytes".toList then some (.prim "bytes")
  else if t = kwBitflags then none
  else match objs.filter (·.iface = t) with
    | [] => none
    | o :: os =>
      match kindOf (o :: os) with
      | .enum => some (.enumT t)
      | .iface => some (.ifaceT t)
      | .single => some (.structPtr o.name)

structure GoField where
  name : Str           -- the schema's parameter name
  type : GoType
  vec : Bool
  tag : Str            -- contents of the `tl:"…"` tag, empty = no tag
  deriving Repr, DecidableEq

/-- `generateStructParameter` -/
def fieldOf (objs : List Obj) (p : Param) : Option GoField :=
  match goTypeOf objs p.type with
  | none => none
  | some t =>
    let tag := if p.isOptional then "flag:".toList ++ (Nat.repr p.bit).toList else []
    let tag := if p.type = "true".toList then tag ++ ",encoded_in_bitflags".toList else tag
    some { name := p.name, type := t, vec := p.isVector, tag }

/-- the fields of the struct: every parameter except the flags word, in order -/
def fieldsOf (objs : List Obj) : List Param → Option (List GoField)
  | [] => some []
  | p :: ps =>
    if p.type = kwBitflags then fieldsOf objs ps else
    match fieldOf objs p, fieldsOf objs ps with
    | some f, some fs => some (f :: fs)
    | _, _ => none

/-- index of the last `flags:#` parameter -/
def flagsWordIndex (ps : List Param) : Option Nat :=
  let rec go (i : Nat) (found : Option Nat) : List Param → Option Nat
    | [] => found
    | p :: ps => go (i + 1) (if p.name = kwFlagsWord ∧ p.type = kwBitflags then some i else found) ps
  go 0 none ps

/-- `FlagIndex()`: `some none` = no such method (no optional field); `none` = the generator panics -/
def flagIndexOf (ps : List Param) : Option (Option Nat) :=
  if ps.any (·.isOptional) then
    match flagsWordIndex ps with
    | some i => some (some i)
    | none => none
  else some none

inductive DeclKind where
  | enumConst (tlType : Str)
  | single
  | ifaceStruct (tlType : Str)
  | params
  deriving Repr, DecidableEq

structure Decl where
  crc : Nat
  kind : DeclKind
  objSuffix : Bool
  flagIndex : Option Nat
  fields : List GoField
  deriving Repr, DecidableEq

structure FnDecl where
  crc : Nat
  result : GoType
  resultVec : Bool
  /-- `none`: one argument `params *…Params`; `some l`: positional arguments -/
  args : Option (List GoField)
  deriving Repr, DecidableEq

def maximumPositionalArguments : Nat := 5

def declOfObj (goify : Str → Str) (objs : List Obj) (o : Obj) : Option Decl :=
  let k := kindOf (objs.filter (·.iface = o.iface))
  match k with
  | .enum => some { crc := o.crc, kind := .enumConst o.iface,
                    objSuffix := goify o.name = goify o.iface, flagIndex := none, fields := [] }
  | _ =>
    match fieldsOf objs o.params, flagIndexOf o.params with
    | some fs, some fi =>
      some { crc := o.crc,
             kind := if k = .single then .single else .ifaceStruct o.iface,
             objSuffix := k ≠ .single ∧ goify o.name = goify o.iface,
             flagIndex := fi, fields := fs }
    | _, _ => none

def declsOfMethod (objs : List Obj) (m : Method) : Option (Decl × FnDecl) :=
  match fieldsOf objs m.params, flagIndexOf m.params, goTypeOf objs m.respType with
  | some fs, some fi, some rt =>
    some ({ crc := m.crc, kind := .params, objSuffix := false, flagIndex := fi, fields := fs },
          { crc := m.crc, result := rt, resultVec := m.respIsList,
            args := if m.params.length > maximumPositionalArguments then none else some fs })
  | _, _, _ => none

def allSome {α} : List (Option α) → Option (List α)
  | [] => some []
  | none :: _ => none
  | some a :: r => (allSome r).map (a :: ·)

/-- everything the generated package declares for the schema -/
def emit (goify : Str → Str) (s : Schema) : Option (List Decl × List (Decl × FnDecl)) :=
  match allSome (s.objects.map (declOfObj goify s.objects)), allSome (s.methods.map (declsOfMethod s.objects)) with
  | some ds, some ms => some (ds, ms)
  | _, _ => none

end Mtv.Tlgen
