/-
  Model of internal/cmd/tlgen/tlparser/{parser.go, excluded.go, schema.go}: `ParseSchema`,
  `parseDefinition`, `parseParam`, with the repairs proposed in /verif/pending_fixes applied:
    * C14-2-parser-plain-comments: a `//` comment is the rest of its line;
      `// @type|@enum|@constructor|@method|@param …` lines are annotations, every other comment is
      ignored (before: "unknown comment type" error, and the comment word was read across line ends);
    * C14-3-parser-unread-runes: `Unread` after the look-ahead word counts runes, not bytes (before: a
      line containing non-ASCII runes could move the cursor back further than it had advanced — the
      parser did not terminate on `"true#;€€€ "`);
    * C14-4-parser-empty-source: the empty source is an empty schema (before: index-out-of-range panic
      in `current()`);
    * C14-1-cursor-isnext-restore is in Cursor.lean (`isNext`).

  Errors are classes, not messages. Every `io.EOF` coming out of a cursor read inside a definition
  ends the parse *successfully* with what was collected so far (`errors.Is(err, io.EOF)` → `break`):
  the model mirrors that. `parseParamType` and `parseResult` are the second half of `parseParam` and
  the result part of `parseDefinition`, split off for the proofs (no change of behaviour).

  Core-only.
-/
import Mtv.Tlgen.Cursor
namespace Mtv.Tlgen

/-- tlparser.Parameter -/
structure Param where
  name : Str
  type : Str
  comment : Str := []
  isVector : Bool := false
  isOptional : Bool := false
  bit : Nat := 0
  deriving Repr, DecidableEq

/-- tlparser.Object -/
structure Obj where
  name : Str
  comment : Str := []
  crc : Nat
  params : List Param
  iface : Str
  deriving Repr, DecidableEq

/-- tlparser.Method (with its MethodResponse inlined) -/
structure Method where
  name : Str
  crc : Nat
  comment : Str := []
  params : List Param
  respType : Str
  respIsList : Bool
  deriving Repr, DecidableEq

/-- tlparser.Schema. `typeComments` is a Go map: here an association list in which a later write to
the same key replaces the earlier one in place (`mapSet`); readers use `mapGet`. -/
structure Schema where
  objects : List Obj
  methods : List Method
  typeComments : List (Str × Str)
  deriving Repr, DecidableEq

/-- the unexported `definition` of parser.go -/
structure Def where
  name : Str
  crc : Nat
  params : List Param
  eqType : Str
  isEqVector : Bool
  deriving Repr, DecidableEq

/-- error classes of `ParseSchema` (all other failures are `io.EOF`s, which end the parse) -/
inductive PErr where
  | commentEOF   -- "read comment: EOF": a comment that is not terminated by a newline
  | param        -- anything from parseParam that is not EOF: bad bit index, missing '?'
  | crc          -- strconv.ParseUint(crcString, 16, 32) failed
  | vectorType   -- "type can't be a vector"
  | loop         -- not an error of the Go code: the Go code does not terminate on this input
  deriving Repr, DecidableEq

def mapGet (m : List (Str × Str)) (k : Str) : Str :=
  match m with
  | [] => []
  | (k', v) :: r => if k' = k then v else mapGet r k

def mapSet (m : List (Str × Str)) (k v : Str) : List (Str × Str) :=
  match m with
  | [] => [(k, v)]
  | (k', v') :: r => if k' = k then (k, v) :: r else (k', v') :: mapSet r k v

/-! ### the literals of parser.go -/

def kwFlags : Str := "flags.".toList
def kwVector : Str := "Vector".toList
def kwEq : Str := "=".toList
def kwQuestion : Str := "?".toList
def kwFunctions : Str := "---functions---".toList
def kwTypes : Str := "---types---".toList
def kwSlashes : Str := "//".toList
def kwFlagsWord : Str := "flags".toList
def kwHash : Str := "#".toList
def kwBitflags : Str := "bitflags".toList
def kwAtType : Str := "@type".toList
def kwAtEnum : Str := "@enum".toList
def kwAtConstructor : Str := "@constructor".toList
def kwAtMethod : Str := "@method".toList
def kwAtParam : Str := "@param".toList

/-! ### excluded.go -/

def excludedDefinitions : List Str :=
  ["true", "boolFalse", "boolTrue", "vector", "invokeAfterMsg", "invokeAfterMsgs", "initConnection",
   "invokeWithLayer", "invokeWithoutUpdates", "invokeWithMessagesRange", "invokeWithTakeout"].map String.toList

def excludedTypes : List Str := ["int", "long", "double", "string", "bytes"].map String.toList

/-! ### strconv -/

def digitVal? (c : Char) : Option Nat := if isDigit c then some (c.toNat - 48) else none

def hexDigitVal? (c : Char) : Option Nat :=
  if '0' ≤ c ∧ c ≤ '9' then some (c.toNat - 48)
  else if 'a' ≤ c ∧ c ≤ 'f' then some (c.toNat - 87)
  else if 'A' ≤ c ∧ c ≤ 'F' then some (c.toNat - 55)
  else none

/-- value of a digit string in `base` (most significant first), `none` if a rune is not a digit -/
def digitsVal (base : Nat) (dv : Char → Option Nat) (acc : Nat) : Str → Option Nat
  | [] => some acc
  | c :: cs => match dv c with
    | some d => digitsVal base dv (acc * base + d) cs
    | none => none

/-- `strconv.Atoi` on a string of ASCII digits (what `ReadDigits` can return in the model):
empty ⇒ error, above `MaxInt64` ⇒ range error. -/
def atoi? (s : Str) : Option Nat :=
  if s = [] then none else
  match digitsVal 10 digitVal? 0 s with
  | some n => if n < 2 ^ 63 then some n else none
  | none => none

/-- `strconv.ParseUint(s, 16, 32)`: non-empty, hex digits only (either case, no prefix, no sign, no
underscore), value below 2^32. -/
def parseHex32? (s : Str) : Option Nat :=
  if s = [] then none else
  match digitsVal 16 hexDigitVal? 0 s with
  | some n => if n < 2 ^ 32 then some n else none
  | none => none

/-! ### strings.TrimSpace and the comment splitter of the repaired parser -/

def trimLeft (s : Str) : Str := s.dropWhile isSpace
def trimSpace (s : Str) : Str := (trimLeft (trimLeft s).reverse).reverse

/-- `splitFirstWord`: first word (up to the first U+0020) of the trimmed string, and the trimmed rest -/
def splitFirstWord (s : Str) : Str × Str :=
  let t := trimSpace s
  let w := t.takeWhile (· ≠ ' ')
  let r := t.dropWhile (· ≠ ' ')
  match r with
  | [] => (t, [])
  | _ :: r' => (w, trimSpace r')

/-! ### parseParam -/

inductive Res (α : Type) where
  | ok (a : α) (c : Cursor)
  | eof            -- an error wrapping io.EOF
  | err (e : PErr)
  deriving Repr

/-- the second half of `parseParam` ("читаем тип параметра"): `Vector<T>` or a type up to the next blank -/
def parseParamType (name : Str) (isOpt : Bool) (bit : Nat) (c : Cursor) : Res Param :=
  let (isVec, c) := c.isNext kwVector
  if isVec then
    let c := c.skip 1
    match c.readAt '>' with
    | none => .eof
    | some (ty, c) => .ok { name, type := ty, isVector := true, isOptional := isOpt, bit } (c.skip 1)
  else
    match c.readAt ' ' with
    | none => .eof
    | some (ty, c) => .ok { name, type := ty, isVector := false, isOptional := isOpt, bit } c

def parseParam (c : Cursor) : Res Param :=
  let c := c.skipSpaces
  match c.readAt ':' with
  | none => .eof
  | some (name, c) =>
    let c := c.skip 1
    -- flags.N?
    let (isFlag, c) := c.isNext kwFlags
    if isFlag then
      match c.readDigits with
      | none => .eof
      | some (digits, c) =>
        match atoi? digits with
        | none => .err .param
        | some bit =>
          let (q, c) := c.isNext kwQuestion
          if q then parseParamType name true bit c else .err .param
    else parseParamType name false 0 c

/-- the `for !cur.IsNext("=")` loop of parseDefinition. Every successful `parseParam` moves the
cursor forward by at least one rune, so `fuel = runes left + 1` is never exhausted. -/
def parseParams : Nat → Cursor → List Param → Res (List Param)
  | 0, _, _ => .err .loop
  | fuel + 1, c, acc =>
    let (eq, c) := c.isNext kwEq
    if eq then .ok acc.reverse c else
    match parseParam c with
    | .eof => .eof
    | .err e => .err e
    | .ok p c =>
      let c := c.skipSpaces
      let p := if p.name = kwFlagsWord ∧ p.type = kwHash then { p with type := kwBitflags } else p
      parseParams fuel c (p :: acc)

/-- the type behind `=`: `Vector<T>;` or `T;` (cursor left behind the `;`); `none` = io.EOF -/
def parseResult (c : Cursor) : Option (Str × Bool × Cursor) :=
  let (isVec, c) := c.isNext kwVector
  if isVec then
    match (c.skip 1).readAt '>' with
    | none => none
    | some (t, c) => some (t, true, c.skip 2)
  else
    match c.readAt ';' with
    | none => none
    | some (t, c) => some (t, false, c.skip 1)

inductive DefRes where
  | ok (d : Def) (c : Cursor)
  | excluded (c : Cursor)
  | eof
  | err (e : PErr)
  deriving Repr

def parseDefinition (c : Cursor) : DefRes :=
  let c := c.skipSpaces
  match c.readAt ' ' with
  | none => .eof
  | some (typSpace, c) =>
    if excludedTypes.contains typSpace then
      match c.readAt ';' with
      | none => .eof
      | some (_, c) => .excluded (c.skip 1)
    else
    let c := c.unread typSpace.length
    match c.readAt '#' with
    | none => .eof
    | some (name, c) =>
      if excludedDefinitions.contains name then
        match c.readAt ';' with
        | none => .eof
        | some (_, c) => .excluded (c.skip 1)
      else
      let c := c.skip 1
      match c.readAt ' ' with
      | none => .eof
      | some (crcString, c) =>
        let c := c.skipSpaces
        match parseParams (c.rest.length + 2) c [] with
        | .eof => .eof
        | .err e => .err e
        | .ok params c =>
          match parseResult c.skipSpaces with
          | none => .eof
          | some (eqType, isVec, c) =>
            match parseHex32? crcString with
            | none => .err .crc
            | some crc => .ok { name, crc, params, eqType, isEqVector := isVec } c

/-! ### ParseSchema -/

/-- the loop variables of `ParseSchema` -/
structure PState where
  objects : List Obj := []          -- reversed
  methods : List Method := []       -- reversed
  typeComments : List (Str × Str) := []
  paramComments : List (Str × Str) := []
  isFunctions : Bool := false
  nextTypeComment : Str := []
  constructorComment : Str := []
  deriving Repr

def PState.result (s : PState) : Schema :=
  { objects := s.objects.reverse, methods := s.methods.reverse, typeComments := s.typeComments }

/-- the comment branch: `line` is what `ReadAt('\n')` returned after `//` -/
def PState.comment (s : PState) (line : Str) : PState :=
  let (ctype, text) := splitFirstWord line
  if ctype = kwAtType then { s with nextTypeComment := text }
  else if ctype = kwAtEnum ∨ ctype = kwAtConstructor ∨ ctype = kwAtMethod then
    { s with constructorComment := text }
  else if ctype = kwAtParam then
    let (pname, pcomment) := splitFirstWord text
    { s with paramComments := mapSet s.paramComments pname pcomment }
  else s

/-- what `ParseSchema` does with a parsed definition; `none` is the "type can't be a vector" error.
Note that in the functions section the Go code `continue`s before the three resets at the end of
the loop body: a method's `@method`/`@param` comments stay pending and are attached to the following
methods too (mirrored here; it concerns documentation comments only). -/
def PState.define (s : PState) (d : Def) : Option PState :=
  let params := d.params.map fun p => { p with comment := mapGet s.paramComments p.name }
  if s.isFunctions then
    some { s with methods := { name := d.name, comment := s.constructorComment, crc := d.crc, params,
                               respType := d.eqType, respIsList := d.isEqVector } :: s.methods }
  else if d.isEqVector then none
  else
    let s := { s with objects := { name := d.name, comment := s.constructorComment, crc := d.crc, params,
                                   iface := d.eqType } :: s.objects }
    let s := if s.nextTypeComment ≠ [] then
        { s with typeComments := mapSet s.typeComments d.eqType s.nextTypeComment, nextTypeComment := [] }
      else s
    some { s with constructorComment := [], paramComments := [] }

/-- one iteration of the `for` loop: `inl` = the loop ends with this result, `inr` = next iteration -/
def parseStep (c : Cursor) (s : PState) : Except PErr Schema ⊕ (Cursor × PState) :=
  let c := c.skipSpaces
  let (f, c) := c.isNext kwFunctions
  if f then .inr (c, { s with isFunctions := true }) else
  let (t, c) := c.isNext kwTypes
  if t then .inr (c, { s with isFunctions := false }) else
  let (cm, c) := c.isNext kwSlashes
  if cm then
    match c.readAt '\n' with
    | none => .inl (.error .commentEOF)
    | some (line, c) => .inr (c.skip 1, s.comment line)
  else
  match parseDefinition c with
  | .eof => .inl (.ok s.result)
  | .err e => .inl (.error e)
  | .excluded c => .inr (c, s)
  | .ok d c =>
    match s.define d with
    | none => .inl (.error .vectorType)
    | some s => .inr (c, s)

/-- The loop. Whether an iteration is repeated depends only on the cursor position and on
`isFunctions`, so a run of the Go code that makes more than `2·len` iterations repeats a loop-head
state and never ends: `fuel = 2·len + 2` separates the terminating runs from the others exactly. -/
def parseLoop : Nat → Cursor → PState → Except PErr Schema
  | 0, _, _ => .error .loop
  | fuel + 1, c, s =>
    match parseStep c s with
    | .inl r => r
    | .inr (c, s) => parseLoop fuel c s

def parseSchema (src : Str) : Except PErr Schema :=
  match Cursor.ofList src with
  | none => .ok { objects := [], methods := [], typeComments := [] }
  | some c => parseLoop (2 * src.length + 2) c {}

end Mtv.Tlgen
