/-
  Model of the pure part of internal/cmd/tlgen/gen/schema.go: `createInternalSchema`
  (grouping the constructors by result type and classifying each type as enum / single-constructor
  struct / interface with several structs), `interfaceIsEnum`, and the constructor naming rule of
  `generateInterfaces` / `getAllConstructors` / `generateSpecificEnum` (the `Obj` suffix).

  The Go code keeps the groups in maps (iteration order random, every consumer sorts before it
  emits); the model keeps them in order of first appearance and the dumps sort.

  Core-only.
-/
import Mtv.Tlgen.Parser
namespace Mtv.Tlgen

/-- `reversedObjects[obj.Interface] = append(reversedObjects[obj.Interface], obj)` -/
def groupAdd (m : List (Str × List Obj)) (o : Obj) : List (Str × List Obj) :=
  match m with
  | [] => [(o.iface, [o])]
  | (k, os) :: r => if k = o.iface then (k, os ++ [o]) :: r else (k, os) :: groupAdd r o

/-- the map `reversedObjects` of createInternalSchema -/
def groupByIface (objs : List Obj) : List (Str × List Obj) := objs.foldl groupAdd []

/-- `interfaceIsEnum`: no constructor has a parameter -/
def interfaceIsEnum (objs : List Obj) : Bool := objs.all fun o => o.params.isEmpty

inductive Kind where
  | enum      -- `type T uint32` with one constant per constructor (enums_gen.go)
  | single    -- one struct, no interface (types_gen.go); fields of this type are `*Struct`
  | iface     -- `type T interface{…}` and one struct per constructor (interfaces_gen.go)
  deriving Repr, DecidableEq

/-- the order of the tests in createInternalSchema: enum first, then "exactly one constructor" -/
def kindOf (objs : List Obj) : Kind :=
  if interfaceIsEnum objs then .enum else if objs.length = 1 then .single else .iface

structure Classified where
  enums : List (Str × List Str)    -- type ↦ constructor names, schema order
  singles : List (Str × List Str)  -- type ↦ its one constructor
  types : List (Str × List Str)    -- type ↦ constructor names, schema order
  deriving Repr, DecidableEq

def Classified.add (c : Classified) (g : Str × List Obj) : Classified :=
  let names := g.2.map (·.name)
  match kindOf g.2 with
  | .enum => { c with enums := c.enums ++ [(g.1, names)] }
  | .single => { c with singles := c.singles ++ [(g.1, names)] }
  | .iface => { c with types := c.types ++ [(g.1, names)] }

def classify (objs : List Obj) : Classified :=
  (groupByIface objs).foldl Classified.add { enums := [], singles := [], types := [] }

/-- kind of the type named `t` in a schema (`none`: no constructor has this result type) -/
def kindOfType (objs : List Obj) (t : Str) : Option Kind :=
  match objs.filter (·.iface = t) with
  | [] => none
  | os => some (kindOf os)

/-- The Go identifier of the declaration generated for constructor `ctor` of type `t`, for a naming
function `goify` (gen/utils.go `goify(name, true)`, built on a third-party case splitter, is a
parameter of the model): a struct that would be named like its own interface, or an enum constant
that would be named like its own enum type, gets the suffix `Obj`; the one struct of a
single-constructor type never does (no Go type is declared for the TL type then). -/
def ctorGoName (goify : Str → Str) (k : Kind) (t ctor : Str) : Str :=
  match k with
  | .single => goify ctor
  | _ => if goify ctor = goify t then goify (ctor ++ "Obj".toList) else goify ctor

end Mtv.Tlgen
