/-
  Model of internal/cmd/tlgen/tlparser/cursor.go.

  Go keeps `source []rune` and an index `pos`, with `0 ≤ pos ≤ len(source)-1` whenever the source is
  not empty (`next` refuses to leave the last rune, `Skip` clamps to `len-1`, `Unread` clamps to 0).
  The model stores the same information as a zipper: the runes before `pos` (nearest first), the
  rune at `pos`, the runes after it. `pos = rev.length`, `source = rev.reverse ++ cur :: rest`
  (`Cursor.pos`, `Cursor.source`; the lemmas `skip_pos`/`unread_pos`/`next_pos` in
  `Mtv/Lemmas/C14Cursor.lean` state the index arithmetic of cursor.go for this representation).
  A cursor over an empty source does not exist in the model: in Go the first `current()` on it panics
  (index out of range), which `Parser.parseSchema` reports before any cursor is built.

  Core-only.
-/
namespace Mtv.Tlgen

abbrev Str := List Char

structure Cursor where
  /-- runes before the position, nearest first -/
  rev : Str
  /-- `source[pos]` — Go's `current()` -/
  cur : Char
  /-- runes after the position -/
  rest : Str
  deriving Repr, DecidableEq

namespace Cursor

def pos (c : Cursor) : Nat := c.rev.length
def source (c : Cursor) : Str := c.rev.reverse ++ c.cur :: c.rest
/-- the runes from the position on -/
def remaining (c : Cursor) : Str := c.cur :: c.rest

/-- `NewCursor(source)`; `none` for the empty source (any use of it panics in Go). -/
def ofList : Str → Option Cursor
  | [] => none
  | x :: xs => some ⟨[], x, xs⟩

/-- a cursor with `rev` behind it and `rem` in front; only meaningful for `rem ≠ []`
(used to state lemmas) -/
def atRem (rev : Str) : Str → Cursor
  | [] => ⟨rev, ' ', []⟩
  | x :: xs => ⟨rev, x, xs⟩

/-- `next()`: `none` is `io.EOF` (position unchanged) — taken when `pos >= len-1`. -/
def next (c : Cursor) : Option Cursor :=
  match c.rest with
  | [] => none
  | r :: rs => some ⟨c.cur :: c.rev, r, rs⟩

/-- `_ = p.next()` -/
def nextOrStay (c : Cursor) : Cursor := (c.next).getD c

/-- `Unread(count)`: `pos -= count`, clamped at 0. -/
def unread : Nat → Cursor → Cursor
  | 0, c => c
  | n + 1, c =>
    match c.rev with
    | [] => c
    | p :: ps => unread n ⟨ps, p, c.cur :: c.rest⟩

/-- `Skip(count)`: `pos += count`, clamped at `len-1`. -/
def skip : Nat → Cursor → Cursor
  | 0, c => c
  | n + 1, c =>
    match c.rest with
    | [] => c
    | r :: rs => skip n ⟨c.cur :: c.rev, r, rs⟩

end Cursor

/-- Go's `unicode.IsSpace`: the Latin-1 spaces and the code points with the White_Space property. -/
def isSpace (c : Char) : Bool :=
  let n := c.toNat
  n == 0x20 || (0x09 ≤ n && n ≤ 0x0d) || n == 0x85 || n == 0xa0 || n == 0x1680 ||
  (0x2000 ≤ n && n ≤ 0x200a) || n == 0x2028 || n == 0x2029 || n == 0x202f || n == 0x205f || n == 0x3000

/-- The digits `ReadDigits` stops on. Go uses `unicode.IsDigit` (category Nd); the model knows the
ASCII digits only. A non-ASCII decimal digit makes both sides fail inside `parseParam`
(`strconv.Atoi` rejects it in Go; the model fails on `Atoi("")` or on the missing `?`), and every
failure inside `parseParam` is one error class, so the observable result is the same. -/
def isDigit (c : Char) : Bool := '0' ≤ c && c ≤ '9'

namespace Cursor

/-- `SkipSpaces()` -/
def skipSpacesGo (rev : Str) (cur : Char) : Str → Cursor
  | [] => ⟨rev, cur, []⟩
  | r :: rs => if isSpace cur then skipSpacesGo (cur :: rev) r rs else ⟨rev, cur, r :: rs⟩

def skipSpaces (c : Cursor) : Cursor := skipSpacesGo c.rev c.cur c.rest

/-- `ReadAt(at)`: the runes up to (not including) the next `at`, cursor left on it; `none` is the
`io.EOF` error (the last rune was reached without finding `at`). `acc` is reversed. -/
def readAtGo (stop : Char) (acc rev : Str) (cur : Char) : Str → Option (Str × Cursor)
  | [] => if cur = stop then some (acc.reverse, ⟨rev, cur, []⟩) else none
  | r :: rs =>
    if cur = stop then some (acc.reverse, ⟨rev, cur, r :: rs⟩)
    else readAtGo stop (cur :: acc) (cur :: rev) r rs

def readAt (stop : Char) (c : Cursor) : Option (Str × Cursor) := readAtGo stop [] c.rev c.cur c.rest

/-- `ReadDigits()`: `none` is the `io.EOF` error (digits up to the very last rune). -/
def readDigitsGo (acc rev : Str) (cur : Char) : Str → Option (Str × Cursor)
  | [] => if isDigit cur then none else some (acc.reverse, ⟨rev, cur, []⟩)
  | r :: rs =>
    if isDigit cur then readDigitsGo (cur :: acc) (cur :: rev) r rs
    else some (acc.reverse, ⟨rev, cur, r :: rs⟩)

def readDigits (c : Cursor) : Option (Str × Cursor) := readDigitsGo [] c.rev c.cur c.rest

/-- `IsNext(s)` (repaired, /verif/pending_fixes/C14-*-cursor-isnext-restore.patch): on the first
mismatch the cursor goes back to where it started (`c0`). The unrepaired code called `Unread(i)` with
`i` the index of the mismatch — also when some of the `i` calls of `next()` had not moved the cursor
(end of source), so it could end up *before* its start: on a text ending in `//\n-` the loop of
`ParseSchema` then re-read the comment for ever. `next()` not moving at the last rune still means
that `IsNext("//")` holds on a text that ends in a single `/`. -/
def isNextGo : Str → Cursor → Cursor → Bool × Cursor
  | [], _, c => (true, c)
  | e :: es, c0, c => if c.cur = e then isNextGo es c0 c.nextOrStay else (false, c0)

def isNext (s : Str) (c : Cursor) : Bool × Cursor := isNextGo s c c

end Cursor
end Mtv.Tlgen
