/-
  Printing schemas back to TL text: the documented subset of the language the tool reads —
  `---types---` / `---functions---` sections, `name#id param:type … = Result;` definitions with
  `flags.N?` conditional fields, `Vector<…>` fields and results, the `flags:#` word, namespaces
  (dots inside names), `//` comments, of which `// @type|@constructor|@enum|@method|@param …` lines are
  the annotations — and the well-formedness conditions under which the text reads back exactly.

  Core-only.
-/
import Mtv.Tlgen.Parser
namespace Mtv.Tlgen

/-! ### numbers -/

def digitChar (d : Nat) : Char := if d < 10 then Char.ofNat (48 + d) else Char.ofNat (87 + d)

/-- digits of `n` in base `b`, least significant first (`fuel > n` is always enough) -/
def toDigitsRev (b : Nat) : Nat → Nat → Str
  | 0, _ => []
  | fuel + 1, n => digitChar (n % b) :: (if n / b = 0 then [] else toDigitsRev b fuel (n / b))

/-- `n` in base `b ≤ 16`, lower case, no leading zeros, `"0"` for 0 -/
def natToDigits (b n : Nat) : Str := (toDigitsRev b (n + 1) n).reverse

/-! ### definitions -/

def kwVectorLt : Str := "Vector<".toList
def kwGtSemi : Str := ">;".toList


/-- the type as written: the parser's `bitflags` is the TL `#` -/
def tyText (t : Str) : Str := if t = kwBitflags then kwHash else t

def renderParam (p : Param) : Str :=
  p.name ++ ':' ::
    ((if p.isOptional then kwFlags ++ natToDigits 10 p.bit ++ ['?'] else []) ++
     (if p.isVector then kwVectorLt ++ tyText p.type ++ ['>'] else tyText p.type))

/-- every parameter followed by one blank -/
def renderParams : List Param → Str
  | [] => []
  | p :: ps => renderParam p ++ ' ' :: renderParams ps

def renderResult (t : Str) (vec : Bool) : Str :=
  if vec then kwVectorLt ++ t ++ kwGtSemi else t ++ [';']

/-- `name#id p1:t1 p2:t2 = Result;` (no line end) -/
def renderDef (d : Def) : Str :=
  d.name ++ '#' :: natToDigits 16 d.crc ++ ' ' :: renderParams d.params ++ '=' :: ' ' ::
    renderResult d.eqType d.isEqVector

/-! ### documents: a schema text as a list of lines -/

inductive Item where
  | types                    -- `---types---`
  | functions                -- `---functions---`
  | blank                    -- empty line
  | comment (text : Str)     -- `//text`: a plain comment or an annotation
  | defn (d : Def)           -- a definition
  deriving Repr, DecidableEq

def Item.render : Item → Str
  | .types => kwTypes ++ ['\n']
  | .functions => kwFunctions ++ ['\n']
  | .blank => ['\n']
  | .comment t => '/' :: '/' :: t ++ ['\n']
  | .defn d => renderDef d ++ ['\n']

def renderItems : List Item → Str
  | [] => []
  | i :: is => i.render ++ renderItems is

/-- What the lines of a document mean, line by line: the loop state of `ParseSchema` after them
(`none`: a definition with a `Vector<…>` result in the types section — the parser's
"type can't be a vector"). -/
def denoteItems : List Item → PState → Option PState
  | [], s => some s
  | .types :: is, s => denoteItems is { s with isFunctions := false }
  | .functions :: is, s => denoteItems is { s with isFunctions := true }
  | .blank :: is, s => denoteItems is s
  | .comment t :: is, s => denoteItems is (s.comment t)
  | .defn d :: is, s =>
    match s.define d with
    | none => none
    | some s' => denoteItems is s'

/-! ### well-formedness: what a name / a type may consist of -/

/-- runes of a definition or parameter name -/
def nameChar (c : Char) : Bool :=
  !isSpace c && c != '#' && c != ':' && c != '=' && c != '/' && c != '-'

def NameOk (s : Str) : Prop := s ≠ [] ∧ ∀ c ∈ s, nameChar c = true

/-- runes of a type as written (`#`, `!X`, `%T`, `a.B` are fine) -/
def typeChar (c : Char) : Bool := !isSpace c && c != '>' && c != ';'

def TypeOk (s : Str) : Prop := s ≠ [] ∧ ∀ c ∈ s, typeChar c = true

structure WFParam (p : Param) : Prop where
  name_ok : NameOk p.name
  type_ok : TypeOk (tyText p.type)
  /-- a type that is not conditional must not look like a condition -/
  no_flags_prefix : p.isOptional = false → p.isVector = false → ¬ kwFlags <+: tyText p.type
  /-- a type that is not a vector must not look like one -/
  no_vector_prefix : p.isVector = false → ¬ kwVector <+: tyText p.type
  /-- the bit index fits Go's `int` -/
  bit_lt : p.bit < 2 ^ 63
  bit_zero : p.isOptional = false → p.bit = 0
  /-- `bitflags` is what the parser calls the `#` type of the `flags` word, and only that -/
  flags_word : p.type = kwBitflags → p.name = kwFlagsWord
  not_hash : ¬ (p.name = kwFlagsWord ∧ p.type = kwHash)
  /-- comments are attached by `ParseSchema`, not by `parseDefinition` -/
  no_comment : p.comment = []

structure WFDef (d : Def) : Prop where
  name_ok : NameOk d.name
  not_excluded : d.name ∉ excludedDefinitions
  crc_lt : d.crc < 2 ^ 32
  params_ok : ∀ p ∈ d.params, WFParam p
  result_ok : TypeOk d.eqType
  no_vector_prefix : d.isEqVector = false → ¬ kwVector <+: d.eqType

def WFItem : Item → Prop
  | .comment t => '\n' ∉ t
  | .defn d => WFDef d
  | _ => True

def WFItems (is : List Item) : Prop := ∀ i ∈ is, WFItem i

/-- forgetting the documentation comments -/
def Param.strip (p : Param) : Param := { p with comment := [] }
def Obj.strip (o : Obj) : Obj := { o with comment := [], params := o.params.map Param.strip }
def Method.strip (m : Method) : Method := { m with comment := [], params := m.params.map Param.strip }

/-! ### schemas as documents: every definition with its annotations in front -/

/-- no white space at either end (`strings.TrimSpace` leaves such a text alone) -/
def Trimmed (c : Str) : Prop :=
  (∀ a, c.head? = some a → isSpace a = false) ∧ (∀ b, c.getLast? = some b → isSpace b = false)

/-- a non-empty run of runes none of which is white space -/
def Word (w : Str) : Prop := w ≠ [] ∧ ∀ c ∈ w, isSpace c = false

/-- `// @kind text` (no trailing blank when the text is empty) -/
def annotText (kind text : Str) : Str := ' ' :: kind ++ (if text = [] then [] else ' ' :: text)

def annot (kind text : Str) : Item := .comment (annotText kind text)

/-- `name comment` of a `@param` line -/
def paramText (name comment : Str) : Str := name ++ (if comment = [] then [] else ' ' :: comment)

def Obj.toDef (o : Obj) : Def :=
  { name := o.name, crc := o.crc, params := o.params.map Param.strip, eqType := o.iface, isEqVector := false }

def Method.toDef (m : Method) : Def :=
  { name := m.name, crc := m.crc, params := m.params.map Param.strip, eqType := m.respType, isEqVector := m.respIsList }

/-- one `// @param name comment` line per parameter -/
def paramAnnots (ps : List Param) : List Item :=
  ps.map fun p => annot kwAtParam (paramText p.name p.comment)

/-- a constructor: `// @type …` when its type has a comment, `// @constructor …`, the `@param` lines, the definition -/
def objItems (tc : List (Str × Str)) (o : Obj) : List Item :=
  (if mapGet tc o.iface = [] then [] else [annot kwAtType (mapGet tc o.iface)]) ++
    annot kwAtConstructor o.comment :: (paramAnnots o.params ++ [.defn o.toDef])

def methodItems (m : Method) : List Item :=
  annot kwAtMethod m.comment :: (paramAnnots m.params ++ [.defn m.toDef])

def Schema.toItems (a : Schema) : List Item :=
  a.objects.flatMap (objItems a.typeComments) ++ .functions :: a.methods.flatMap methodItems

/-- **the printer**: a schema as TL text, types section first, every definition annotated -/
def render (a : Schema) : Str := renderItems a.toItems

/-- a documentation comment as the parser can hand it back: trimmed, on one line -/
def CommentOk (c : Str) : Prop := Trimmed c ∧ '\n' ∉ c

structure WFAst (a : Schema) : Prop where
  objs : ∀ o ∈ a.objects, WFDef o.toDef ∧ CommentOk o.comment ∧
    (o.params.map (·.name)).Nodup ∧ ∀ p ∈ o.params, CommentOk p.comment
  meths : ∀ m ∈ a.methods, WFDef m.toDef ∧ CommentOk m.comment ∧
    (m.params.map (·.name)).Nodup ∧ ∀ p ∈ m.params, CommentOk p.comment
  typeComments_ok : ∀ t, CommentOk (mapGet a.typeComments t)
  /-- a type comment needs a constructor of that type to stand in front of -/
  typeComments_used : ∀ t, mapGet a.typeComments t ≠ [] → ∃ o ∈ a.objects, o.iface = t

/-! ### what a document declares (the specification side: no parser state involved) -/

def Def.toObj (d : Def) : Obj := { name := d.name, crc := d.crc, params := d.params, iface := d.eqType }
def Def.toMethod (d : Def) : Method :=
  { name := d.name, crc := d.crc, params := d.params, respType := d.eqType, respIsList := d.isEqVector }

/-- the constructors declared by the lines (those in a types section), in order; `fn`: the section
the first line is in -/
def declaredObjects : Bool → List Item → List Obj
  | _, [] => []
  | _, .types :: is => declaredObjects false is
  | _, .functions :: is => declaredObjects true is
  | fn, .blank :: is => declaredObjects fn is
  | fn, .comment _ :: is => declaredObjects fn is
  | fn, .defn d :: is => if fn then declaredObjects fn is else d.toObj :: declaredObjects fn is

/-- the functions declared by the lines (the definitions in a functions section), in order -/
def declaredMethods : Bool → List Item → List Method
  | _, [] => []
  | _, .types :: is => declaredMethods false is
  | _, .functions :: is => declaredMethods true is
  | fn, .blank :: is => declaredMethods fn is
  | fn, .comment _ :: is => declaredMethods fn is
  | fn, .defn d :: is => if fn then d.toMethod :: declaredMethods fn is else declaredMethods fn is

/-- no constructor is declared with a `Vector<…>` result (the parser refuses that) -/
def NoVectorTypes : Bool → List Item → Prop
  | _, [] => True
  | _, .types :: is => NoVectorTypes false is
  | _, .functions :: is => NoVectorTypes true is
  | fn, .blank :: is => NoVectorTypes fn is
  | fn, .comment _ :: is => NoVectorTypes fn is
  | fn, .defn d :: is => (fn = false → d.isEqVector = false) ∧ NoVectorTypes fn is

end Mtv.Tlgen
