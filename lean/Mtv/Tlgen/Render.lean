/-
  Printing schemas back to TL text: the documented subset of the language the tool reads —
  `---types---` / `---functions---` sections, `name#id param:type … = Result;` definitions with
  `flags.N?` conditional fields, `Vector<…>` fields and results, the `flags:#` word, namespaces
  (dots inside names), `//` comments, of which `// @type|@constructor|@enum|@method|@param …` lines are
  the annotations — and the well-formedness conditions under which the text reads back exactly.

  Core-only.
-/
import Mtv.Tlgen.Parser
namespace Mtv.Tlgen

/-! ### numbers -/

def digitChar (d : Nat) : Char := if d < 10 then Char.ofNat (48 + d) else Char.ofNat (87 + d)

/-- digits of `n` in base `b`, least significant first (`fuel > n` is always enough) -/
def toDigitsRev (b : Nat) : Nat → Nat → Str
  | 0, _ => []
  | fuel + 1, n => digitChar (n % b) :: (if n / b = 0 then [] else toDigitsRev b fuel (n / b))

/-- `n` in base `b ≤ 16`, lower case, no leading zeros, `"0"` for 0 -/
def natToDigits (b n : Nat) : Str := (toDigitsRev b (n + 1) n).reverse

/-! ### definitions -/

/-- the type as written: the parser's `bitflags` is the TL `#` -/
def tyText (t : Str) : Str := if t = "bitflags".toList then "#".toList else t

def renderParam (p : Param) : Str :=
  p.name ++ ':' ::
    ((if p.isOptional then "flags.".toList ++ natToDigits 10 p.bit ++ ['?'] else []) ++
     (if p.isVector then "Vector<".toList ++ tyText p.type ++ ['>'] else tyText p.type))

/-- every parameter followed by one blank -/
def renderParams : List Param → Str
  | [] => []
  | p :: ps => renderParam p ++ ' ' :: renderParams ps

def renderResult (t : Str) (vec : Bool) : Str :=
  if vec then "Vector<".toList ++ t ++ ">;".toList else t ++ [';']

/-- `name#id p1:t1 p2:t2 = Result;` (no line end) -/
def renderDef (d : Def) : Str :=
  d.name ++ '#' :: natToDigits 16 d.crc ++ ' ' :: renderParams d.params ++ '=' :: ' ' ::
    renderResult d.eqType d.isEqVector

/-! ### documents: a schema text as a list of lines -/

inductive Item where
  | types                    -- `---types---`
  | functions                -- `---functions---`
  | blank                    -- empty line
  | comment (text : Str)     -- `//text`: a plain comment or an annotation
  | defn (d : Def)           -- a definition
  deriving Repr, DecidableEq

def Item.render : Item → Str
  | .types => "---types---\n".toList
  | .functions => "---functions---\n".toList
  | .blank => ['\n']
  | .comment t => '/' :: '/' :: t ++ ['\n']
  | .defn d => renderDef d ++ ['\n']

def renderItems : List Item → Str
  | [] => []
  | i :: is => i.render ++ renderItems is

/-- What the lines of a document mean, line by line: the loop state of `ParseSchema` after them
(`none`: a definition with a `Vector<…>` result in the types section — the parser's
"type can't be a vector"). -/
def denoteItems : List Item → PState → Option PState
  | [], s => some s
  | .types :: is, s => denoteItems is { s with isFunctions := false }
  | .functions :: is, s => denoteItems is { s with isFunctions := true }
  | .blank :: is, s => denoteItems is s
  | .comment t :: is, s => denoteItems is (s.comment t)
  | .defn d :: is, s =>
    match s.define d with
    | none => none
    | some s' => denoteItems is s'

/-! ### well-formedness: what a name / a type may consist of -/

/-- runes of a definition or parameter name -/
def nameChar (c : Char) : Bool :=
  !isSpace c && c != '#' && c != ':' && c != '=' && c != '/' && c != '-'

def NameOk (s : Str) : Prop := s ≠ [] ∧ ∀ c ∈ s, nameChar c = true

/-- runes of a type as written (`#`, `!X`, `%T`, `a.B` are fine) -/
def typeChar (c : Char) : Bool := !isSpace c && c != '>' && c != ';'

def TypeOk (s : Str) : Prop := s ≠ [] ∧ ∀ c ∈ s, typeChar c = true

structure WFParam (p : Param) : Prop where
  name_ok : NameOk p.name
  type_ok : TypeOk (tyText p.type)
  /-- a type that is not conditional must not look like a condition -/
  no_flags_prefix : p.isOptional = false → p.isVector = false → ¬ "flags.".toList <+: tyText p.type
  /-- a type that is not a vector must not look like one -/
  no_vector_prefix : p.isVector = false → ¬ "Vector".toList <+: tyText p.type
  /-- the bit index fits Go's `int` -/
  bit_lt : p.bit < 2 ^ 63
  bit_zero : p.isOptional = false → p.bit = 0
  /-- `bitflags` is what the parser calls the `#` type of the `flags` word, and only that -/
  flags_word : p.type = "bitflags".toList → p.name = "flags".toList
  not_hash : ¬ (p.name = "flags".toList ∧ p.type = "#".toList)
  /-- comments are attached by `ParseSchema`, not by `parseDefinition` -/
  no_comment : p.comment = []

structure WFDef (d : Def) : Prop where
  name_ok : NameOk d.name
  not_excluded : d.name ∉ excludedDefinitions
  crc_lt : d.crc < 2 ^ 32
  params_ok : ∀ p ∈ d.params, WFParam p
  result_ok : TypeOk d.eqType
  no_vector_prefix : d.isEqVector = false → ¬ "Vector".toList <+: d.eqType

def WFItem : Item → Prop
  | .comment t => '\n' ∉ t
  | .defn d => WFDef d
  | _ => True

def WFItems (is : List Item) : Prop := ∀ i ∈ is, WFItem i

end Mtv.Tlgen
