/-
  Facts about the generated client methods and the hand-written request wrappers (extracted from the
  Go source by go/parser on every run), and the decidable predicates relating them to the registry
  and the schema (C13). Go-side names are `String` literals compared only for equality (cheap in the
  kernel); schema-side text is `BStr`.
-/
import Mtv.Schema.Matches
import Mtv.Schema.Names
namespace Mtv.Schema
open Mtv.TL

/-- a Go type as written in the generated source, resolved to package-qualified names -/
inductive GoTy where
  | prim (n : String)          -- int32 int64 float64 string bool
  | bytes                      -- []byte
  | slice (e : GoTy)
  | ptr (full : String)        -- *T, full = "telegram.T" / "tl.Int128"
  | named (full : String)      -- an interface or enum type of package telegram
  | obj                        -- tl.Object
  | other (text : String)
  deriving Repr, DecidableEq, Inhabited

/-- one statement of a client method's body, as `harness/cmd/c13facts/skeleton.go` classifies it. The
kinds follow the value through the body: `assert` asserts on the variable the request call defined,
`ret` returns the variable that assertion defined (anything else is `other`).

    call          x, err := <receiver>.MakeRequest…(…)      -- the only request call so far
    ifErr         if err != nil { return <zero>, errors.Wrap(err, …) }     -- the call's err; nothing else
    assert        resp, ok := x.(T)                         -- x of the call
    ifNotOkErr    if !ok { return <zero>, errors.Errorf("…%T", x) }   -- ok of the assertion, x of the call; nothing else
    ifNotOkPanic  if !ok { panic(…) }                       -- ok of the assertion (the body tlgen emitted before D32)
    ret           return resp, nil                          -- resp of the assertion
    retAssert     return x.(T), nil                         -- x of the call
    other kind    any other statement (early return, cache look-up, loop, assignment, second call …) -/
inductive BodyStmt where
  | call | ifErr | assert | ifNotOkErr | ifNotOkPanic | ret | retAssert
  | other (kind : String)
  deriving Repr, DecidableEq, Inhabited

def BodyStmt.show : BodyStmt → String
  | .call => "call" | .ifErr => "iferr" | .assert => "assert" | .ifNotOkErr => "ifnotok-error" | .ifNotOkPanic => "ifnotok-panic"
  | .ret => "ret" | .retAssert => "ret-assert" | .other k => "other:" ++ k

/-- **the model of "sends the request and returns its answer"** for a generated method: the body is
exactly — send the request; on a transport/RPC error return it wrapped; assert the answer to the result
type; an answer of another type is returned as an ERROR (until the repair of D32 it was a panic in the caller's
goroutine: any server could end the process with a well-formed answer of the wrong type); return the asserted answer. This is the one body `tlgen` emits (all 343
methods of the unchanged tree). No statement in front of the request (a cached copy answering instead
of the server), none between the answer and the `return` (the answer replaced or post-processed), no
second request, no branch. -/
def generatedSkeletons : List (List BodyStmt) :=
  [[.call, .ifErr, .assert, .ifNotOkErr, .ret]]

/-- the same for the hand-written wrappers of `methods_special.go` (`InitConnection`, `InvokeWithLayer`,
`InvokeWithTakeout`): send; on error return it wrapped; return the answer asserted to `tl.Object`. -/
def handWrittenSkeletons : List (List BodyStmt) :=
  [[.call, .ifErr, .retAssert]]

structure MethodFact where
  name : String                       -- Go method name
  reqFull : String                    -- request struct type, "telegram.AuthSendCodeParams"
  reqId : Nat                         -- the literal its `CRC()` method returns
  passThrough : Bool                  -- single `params *T` argument handed to the request call
  args : List (String × GoTy)         -- (argument name, type)
  assign : List (String × String)     -- composite literal: (field name, argument name)
  call : String                       -- MakeRequest | MakeRequestWithHintToDecoder
  hint : Option GoTy                  -- T in reflect.TypeOf(T{})
  asserted : GoTy                     -- type asserted on the response
  retType : GoTy                      -- declared first result type
  skeleton : List BodyStmt            -- the statements of the body, in order
  deriving Repr

structure WrapperFact where
  name : String                       -- Go type name, "telegram.InvokeWithLayerParams"
  schemaName : BStr                   -- name with "Params" dropped and the first letter lower-cased
  id : Nat
  flagIndex : Option Nat
  fields : List (String × GoTy × Option Flag)
  fieldNames : List BStr              -- the field names once more, as byte strings (for the kernel)
  deriving Repr

/-- is `g` the Go source type of a field of codec type `ty`? Pointers are resolved through the
registry by constructor id (no scan by name). -/
def goTyIs (R : Registry) : GoTy → Ty → Bool
  | .prim n, ty =>
    (n == "int32" && ty == .int32) || (n == "int64" && ty == .int64) || (n == "float64" && ty == .f64) ||
    (n == "string" && ty == .str) || (n == "bool" && ty == .bool)
  | .bytes, ty => ty == .bytes
  | .slice e, .vec t => goTyIs R e t
  | .ptr full, .i128 => full == "tl.Int128"
  | .ptr full, .i256 => full == "tl.Int256"
  | .ptr full, .ptr id =>
    (match R.find id with
     | some d => d.name == full
     | none => false)
  | .named full, .iface nm => full == nm
  | .named full, .enum nm => full == nm
  | .obj, .iface nm => nm == "tl.Object"
  | _, _ => false

/-- the result type of a function as a schema type (tl2lean gives the raw text; the three shapes are
`Bool`, `Vector<t>` and a boxed type) -/
inductive ResultShape where
  | bool
  | vector (elem : STy)
  | boxed (t : BStr)

def shapeOf (d : Def) : ResultShape :=
  match d.resultTy with
  | .vec true e => .vector e
  | .ref t => .boxed t
  | .prim n => if n == bBool then .bool else .boxed n
  | _ => .boxed d.result

/-- the Go type in which a value of schema type `s` is returned / held: some codec type that
`tyMatch` accepts for `s` and whose Go source type is `g` -/
def holds (T : Tables) (R : Registry) (s : STy) (g : GoTy) : Bool :=
  match s, g with
  | .ref t, .ptr full =>
    (match lookupB T.types t with
     | [id] => goTyIs R (.ptr full) (.ptr id)
     | _ => false)
  | .ref t, .named full => tyMatch T (.ref t) (.iface full) || tyMatch T (.ref t) (.enum full)
  | .prim n, g =>
    (n == bInt && g == .prim "int32") || (n == bLong && g == .prim "int64") || (n == bDouble && g == .prim "float64") ||
    (n == bString && g == .prim "string") || (n == bBytes && g == .bytes) || (n == bBool && g == .prim "bool")
  | _, _ => false

def resultMatches (T : Tables) (R : Registry) (shape : ResultShape) (m : MethodFact) : Bool :=
  match shape with
  | .bool => m.call == "MakeRequest" && m.hint.isNone && m.asserted == .prim "bool"
  | .vector e =>
    m.call == "MakeRequestWithHintToDecoder" && m.hint == some m.asserted &&
    (match m.asserted with
     | .slice g => holds T R e g
     | _ => false)
  | .boxed t => m.call == "MakeRequest" && m.hint.isNone && holds T R (.ref t) m.asserted

/-- the body of a generated method is the generator's: request, error check, assertion, return -/
def skeletonOk (m : MethodFact) : Bool := generatedSkeletons.contains m.skeleton

/-- one generated method against registry and schema: it sends a request of its function's
constructor, its arguments go to the fields in the schema's parameter positions (argument i ↦ field i,
same Go type), and the answer is returned as the result kind the schema declares. -/
def methodShapeOk (T : Tables) (R : Registry) (S : List Def) (m : MethodFact) : Bool :=
  match R.find m.reqId with
  | none => false
  | some c =>
    c.name == m.reqFull &&
    match S.find? (fun d => d.id == m.reqId) with
    | none => false
    | some d =>
      d.isFunc && c.kind == .struct &&
      (if m.passThrough then
        m.assign.isEmpty &&
        (match m.args with
         | [(_, .ptr full)] => full == m.reqFull
         | _ => false)
       else
        m.args.length == c.fields.length && m.assign.length == c.fields.length &&
        (List.zip m.args c.fields).all (fun (a, f) => goTyIs R a.2 f.ty && m.assign.contains (f.name, a.1))) &&
      m.asserted == m.retType &&
      resultMatches T R (shapeOf d) m

/-- shape and body: the facts `methodShapeOk` compares (which call, which literal, which assertion) are
read off the statements `skeletonOk` pins down, and there is no other statement -/
def methodOk (T : Tables) (R : Registry) (S : List Def) (m : MethodFact) : Bool :=
  skeletonOk m && methodShapeOk T R S m

/-- the codec type of a wrapper field as written in the Go source -/
def tyOfGoTy (T : Tables) : GoTy → Option Ty
  | .prim n =>
    if n == "int32" then some .int32 else if n == "int64" then some .int64 else if n == "float64" then some .f64
    else if n == "string" then some .str else if n == "bool" then some .bool else none
  | .bytes => some .bytes
  | .slice e => (tyOfGoTy T e).map Ty.vec
  | .named full => some (.iface full)
  | .obj => some (.iface "tl.Object")
  | _ => none

/-- a hand-written wrapper (`InvokeWithLayerParams` ↔ `invokeWithLayer`) against its schema line:
same id, same layout, fields named after the parameters -/
def wrapperOk (T : Tables) (R : Registry) (S : List Def) (w : WrapperFact) : Bool :=
  match S.find? (fun d => d.name == w.schemaName) with
  | none => false
  | some d =>
    d.isFunc && d.id == w.id && w.flagIndex == expectedFlagIndex d.params 0 &&
    namesMatch d.name (fieldParamNames d) w.fieldNames && w.fieldNames.length == w.fields.length &&
    (let ps := fieldParams d
     ps.length == w.fields.length &&
     (List.zip ps w.fields).all fun (p, (_, g, fl)) =>
       (match g with
        | .ptr _ => holds T R p.ty g
        | _ => match tyOfGoTy T g with
          | some ty => tyMatch T p.ty ty
          | none => false) &&
       (match p.cond, fl with
        | none, none => true
        | some n, some f => n == f.bit && f.inBits == (p.ty == .prim bTrue)
        | _, _ => false))

/-- the client method of a hand-written wrapper: it sends its wrapper's constructor (the struct handed
through, or a literal that sets exactly the wrapper's fields), returns the answer as `tl.Object`, and
its body is send / error check / return the asserted answer -/
def wrapperMethodOk (W : List WrapperFact) (m : MethodFact) : Bool :=
  handWrittenSkeletons.contains m.skeleton &&
  m.call == "MakeRequest" && m.hint.isNone && m.asserted == .obj && m.retType == .obj &&
  W.any fun w =>
    w.name == m.reqFull && w.id == m.reqId &&
    (if m.passThrough then
      m.assign.isEmpty &&
      (match m.args with
       | [(_, .ptr full)] => full == m.reqFull
       | _ => false)
     else
      m.args.length == w.fields.length && m.assign.map (·.1) == w.fields.map (·.1))

end Mtv.Schema
