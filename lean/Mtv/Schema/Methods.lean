/-
  Facts about the generated client methods and the hand-written request wrappers (extracted from the
  Go source by go/parser on every run), and the decidable predicates relating them to the registry
  and the schema (C13).
-/
import Mtv.Schema.Matches
namespace Mtv.Schema
open Mtv.TL

structure MethodFact where
  name : String                       -- Go method name
  reqType : String                    -- request struct type, e.g. "AuthSendCodeParams"
  passThrough : Bool                  -- single `params *T` argument handed to the request call
  args : List (String × String)       -- (argument name, Go type text)
  assign : List (String × String)     -- composite literal: (field name, argument name)
  call : String                       -- MakeRequest | MakeRequestWithHintToDecoder
  hint : String                       -- T in reflect.TypeOf(T{}) or ""
  asserted : String                   -- type asserted on the response
  retType : String                    -- declared first result type
  deriving Repr

structure WrapperFact where
  name : String
  id : Nat
  flagIndex : Option Nat
  fields : List (String × String × String)   -- name, Go type text, tl tag
  deriving Repr

/-- Go source text of a field / result type, as the generator writes it in package telegram -/
def goTypeText (R : Registry) : Ty → String
  | .int32 => "int32"
  | .uint32 => "uint32"
  | .int64 => "int64"
  | .f64 => "float64"
  | .bool => "bool"
  | .str => "string"
  | .bytes => "[]byte"
  | .i128 => "*tl.Int128"
  | .i256 => "*tl.Int256"
  | .enum nm => (nm.dropPrefix "telegram.").toString
  | .vec e => "[]" ++ goTypeText R e
  | .ptr id =>
    match R.find id with
    | some d => "*" ++ (d.name.dropPrefix "telegram.").toString
    | none => "?"
  | .iface nm => if nm == "tl.Object" then "tl.Object" else (nm.dropPrefix "telegram.").toString
  | .bad w => w

/-- the Go type (as source text) in which a value of the schema result type `r` is returned:
`Bool` ↦ bool, `Vector<t>` ↦ a slice (needs a decoder hint), a boxed type ↦ the pointer / enum /
interface that `tyMatch` accepts for it -/
def resultOk (R : Registry) (S : List Def) (r : String) (goText : String) : Bool :=
  -- search the field types of the registry for a type with this source text that matches `r`
  if r == "Bool" then goText == "bool" else
  let cands : List Ty := (R.flatMap fun d => d.fields.map (·.ty))
  -- direct candidates: pointer to the single constructor, or an interface / enum named like the text
  let direct : List Ty :=
    (ctorsOfType S r).map Ty.ptr ++ [Ty.iface ("telegram." ++ goText), Ty.enum ("telegram." ++ goText)]
  (direct ++ cands).any fun t => goTypeText R t == goText && tyMatch R S (.ref r) t

def parseVectorResult (r : String) : Option String :=
  if r.startsWith "Vector<" && r.endsWith ">" then some ((r.drop 7).dropEnd 1).toString else none

/-- element type of a `Vector<t>` result as a schema type -/
def elemSTy (t : String) : STy :=
  if t == "int" || t == "long" || t == "double" || t == "string" || t == "bytes" || t == "Bool" then .prim t else .ref t

def vectorResultOk (R : Registry) (S : List Def) (elem : String) (goText : String) : Bool :=
  match goText.toList with
  | '[' :: ']' :: rest =>
    let et := String.ofList rest
    let cands : List Ty := [.int32, .int64, .f64, .str, .bytes, .bool] ++
      (ctorsOfType S elem).map Ty.ptr ++ [Ty.iface ("telegram." ++ et), Ty.enum ("telegram." ++ et)]
    cands.any fun t => goTypeText R t == et && tyMatch R S (elemSTy elem) t
  | _ => false

/-- one generated method against registry and schema: it sends a request of its function's
constructor, its arguments go to the fields in the schema's parameter positions (argument i ↦ field i,
same Go type), and the answer is returned as the result kind the schema declares. -/
def methodOk (R : Registry) (S : List Def) (m : MethodFact) : Bool :=
  match R.find? (fun d => d.name == "telegram." ++ m.reqType) with
  | none => false
  | some c =>
    match S.find? (fun d => d.id == c.id) with
    | none => false
    | some d =>
      d.isFunc &&
      (if m.passThrough then
        m.args.length == 1 && m.args.all (fun a => a.2 == "*" ++ m.reqType) && m.assign.isEmpty
       else
        m.args.length == c.fields.length &&
        (List.zip m.args c.fields).all (fun (a, f) =>
          a.2 == goTypeText R f.ty && m.assign.contains (f.name, a.1)) &&
        m.assign.length == c.fields.length) &&
      m.asserted == m.retType &&
      (match parseVectorResult d.result with
       | some elem => m.call == "MakeRequestWithHintToDecoder" && m.hint == m.asserted &&
                      vectorResultOk R S elem m.asserted
       | none => m.call == "MakeRequest" && m.hint == "" && resultOk R S d.result m.asserted)

/-- Go type text of a wrapper field ↦ the codec type, through the registry's names -/
def tyOfGoText (R : Registry) (t : String) : Option Ty :=
  if t == "int32" then some .int32 else if t == "int64" then some .int64 else if t == "string" then some .str
  else if t == "bool" then some .bool else if t == "[]byte" then some .bytes else if t == "float64" then some .f64
  else if t == "tl.Object" then some (.iface "tl.Object")
  else if t == "[]int64" then some (.vec .int64) else if t == "[]int32" then some (.vec .int32)
  else if t.startsWith "*" then
    (R.find? (fun d => d.name == "telegram." ++ (t.drop 1).toString)).map (fun d => Ty.ptr d.id)
  else some (.iface ("telegram." ++ t))

def parseTag (tag : String) : Option Flag :=
  if tag == "" then none else
  match tag.splitOn "," with
  | f :: opts =>
    if f.startsWith "flag:" then
      ((f.drop 5).toString.toNat?).map fun n => ⟨n, opts.contains "encoded_in_bitflags"⟩
    else none
  | [] => none

/-- a hand-written wrapper (`InvokeWithLayerParams` ↔ `invokeWithLayer`) against its schema line:
same id, same layout -/
def wrapperOk (R : Registry) (S : List Def) (w : WrapperFact) : Bool :=
  let fname := decapName ((w.name.dropSuffix "Params").toString)
  match S.find? (fun d => d.name == fname) with
  | none => false
  | some d =>
    d.isFunc && d.id == w.id && w.flagIndex == expectedFlagIndex d.params 0 &&
    (let ps := fieldParams d
     ps.length == w.fields.length &&
     (List.zip ps w.fields).all fun (p, (_, t, tag)) =>
       match tyOfGoText R t with
       | some ty => fieldMatch R S p ⟨"", ty, parseTag tag⟩
       | none => false)
where
  decapName (s : String) : String :=
    match s.toList with
    | [] => s
    | c :: cs => String.ofList (c.toLower :: cs)

end Mtv.Schema
