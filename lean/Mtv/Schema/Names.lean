/-
  Field NAMES: the correspondence between the parameter names of a schema definition (snake_case) and
  the field names of the registered Go struct (CamelCase), position by position (C13).

  `Matches` compares order, type, flag bit and flags-word position — two parameters of the same type
  declared in the wrong order pass it (the codec maps fields to parameters by position, so such a
  struct decodes the wrong value into each of them). The names are what tells them apart.

  The rule: parameter and field have the same name after dropping `_` and folding ASCII letters to
  lower case (`first_msg_id` ↔ `FirstMsgID`, `url` ↔ `URL`). Every deviation found on the unchanged
  tree is listed in `nameExceptions`, bound to its definition, parameter and field — the rule itself is
  not loosened.

  Kernel evaluation: text is `BStr` (see `Types`); the Go names come from the regenerated registry
  file as (length, value) pairs (`Mtv.Gen.fieldNamesN`).
-/
import Mtv.Schema.Types
namespace Mtv.Schema

/-- drop `_`, fold `A`–`Z` to lower case -/
def normName (s : BStr) : BStr :=
  (List.range s.len).foldl (fun acc i =>
    let b := s.byteAt i
    if b == 0x5f then acc
    else if 0x41 ≤ b && b ≤ 0x5a then ⟨acc.len + 1, acc.val * 256 + (b + 32)⟩
    else ⟨acc.len + 1, acc.val * 256 + b⟩) BStr.empty

/-- (definition, parameter, Go field): the hand-written service types whose field is not named after
its parameter. All of `internal/mtproto/objects/types.go`; the generated API layer has none. -/
def nameExceptions : List (BStr × BStr × BStr) :=
  [(⟨5, 0x7265735051⟩, ⟨30, 0x7365727665725f7075626c69635f6b65795f66696e6765727072696e7473⟩, ⟨12, 0x46696e6765727072696e7473⟩),  -- resPQ: server_public_key_fingerprints ↔ Fingerprints
   (⟨20, 0x636c69656e745f44485f696e6e65725f64617461⟩, ⟨8, 0x72657472795f6964⟩, ⟨5, 0x5265747279⟩),  -- client_DH_inner_data: retry_id ↔ Retry
   (⟨10, 0x7270635f726573756c74⟩, ⟨6, 0x726573756c74⟩, ⟨3, 0x4f626a⟩),  -- rpc_result: result ↔ Obj
   (⟨18, 0x7270635f616e737765725f64726f70706564⟩, ⟨6, 0x7365715f6e6f⟩, ⟨5, 0x5365774e6f⟩),  -- rpc_answer_dropped: seq_no ↔ SewNo (sic)
   (⟨20, 0x6261645f6d73675f6e6f74696669636174696f6e⟩, ⟨10, 0x6572726f725f636f6465⟩, ⟨4, 0x436f6465⟩),  -- bad_msg_notification: error_code ↔ Code
   (⟨15, 0x6261645f7365727665725f73616c74⟩, ⟨15, 0x6e65775f7365727665725f73616c74⟩, ⟨7, 0x4e657753616c74⟩)]  -- bad_server_salt: new_server_salt ↔ NewSalt

/-- is the Go field `g` named after parameter `p` of definition `d`? -/
def nameMatch (d p g : BStr) : Bool :=
  normName p == normName g || nameExceptions.any fun e => e.1 == d && e.2.1 == p && e.2.2 == g

/-- parameter names against field names, position by position; same length -/
def namesMatch (d : BStr) : List BStr → List BStr → Bool
  | [], [] => true
  | p :: ps, g :: gs => nameMatch d p g && namesMatch d ps gs
  | _, _ => false

/-- the registry's name table: constructor id ↦ Go field names -/
abbrev NameTable := List (Nat × List (Nat × Nat))

def lookupNames : NameTable → Nat → Option (List BStr)
  | [], _ => none
  | (k, v) :: t, q => if k == q then some (v.map fun x => ⟨x.1, x.2⟩) else lookupNames t q

/-- the parameters that become struct fields (`Matches.fieldParams`) -/
def fieldParamNames (d : Def) : List BStr := (valueParams d.params).map (·.name)

/-- one definition: a registered type with its id whose fields carry the names of the parameters, in
the schema's order -/
def defNamesOk (N : NameTable) (d : Def) : Bool :=
  match lookupNames N d.id with
  | none => false
  | some gs => namesMatch d.name (fieldParamNames d) gs

/-- the (parameter, field) pairs of a definition that break the rule — for the driver's report -/
def badNamePairs (N : NameTable) (d : Def) : List (BStr × BStr) :=
  match lookupNames N d.id with
  | none => []
  | some gs => (List.zip (fieldParamNames d) gs).filter fun pg => !nameMatch d.name pg.1 pg.2

end Mtv.Schema
