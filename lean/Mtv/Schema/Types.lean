/-
  TL schema definitions as data (the reading of a .tl file), their printer, and the canonical
  form whose CRC-32 is the constructor id.
-/
import Mtv.Basic
namespace Mtv.Schema

inductive STy where
  | flagsWord                       -- `#`
  | prim (n : String)               -- int long double string bytes Bool true int128 int256
  | vec (boxed : Bool) (e : STy)    -- Vector<e> (boxed) / vector<e> (bare)
  | ref (n : String)                -- a boxed type (`InputPeer`) or a bare constructor name
  | bare (n : String)               -- `%T`
  | bang (n : String)               -- `!X`
  | typeParam (k : String)          -- `{X:Type}` (k = "Type")
  deriving Repr, DecidableEq, Inhabited

structure Param where
  name : String
  cond : Option Nat                 -- `flags.N?`
  ty : STy
  deriving Repr, DecidableEq

structure Def where
  name : String
  id : Nat
  idText : String                   -- the id as written (hex, possibly fewer than 8 digits)
  params : List Param
  result : String
  isFunc : Bool
  raw : String                      -- the source line, whitespace-normalised, without the `;`
  deriving Repr

def renderTy : STy → String
  | .flagsWord => "#"
  | .prim n => n
  | .vec true e => "Vector<" ++ renderTy e ++ ">"
  | .vec false e => "vector<" ++ renderTy e ++ ">"
  | .ref n => n
  | .bare n => "%" ++ n
  | .bang n => "!" ++ n
  | .typeParam k => k

def renderParam (p : Param) : String :=
  match p.ty with
  | .typeParam k => "{" ++ p.name ++ ":" ++ k ++ "}"
  | t =>
    match p.cond with
    | none => p.name ++ ":" ++ renderTy t
    | some n => p.name ++ ":flags." ++ toString n ++ "?" ++ renderTy t

def render (d : Def) : String :=
  d.name ++ "#" ++ d.idText ++ String.join (d.params.map fun p => " " ++ renderParam p) ++ " = " ++ d.result

end Mtv.Schema
