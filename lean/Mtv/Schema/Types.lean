/-
  TL schema definitions as data (the reading of a .tl file), their printer, and the canonical form
  whose CRC-32 is the constructor id.

  Everything here is meant for KERNEL evaluation over tables of ~1200 definitions, and the kernel is
  slow on `String` (any decomposition or concatenation of a string costs seconds). Text is therefore
  carried as `BStr`: its length and its bytes read as one big-endian natural number — equality,
  concatenation and byte extraction are a handful of GMP-accelerated `Nat` operations.
-/
import Mtv.Basic
namespace Mtv.Schema

/-- a byte string as (length, big-endian value) -/
structure BStr where
  len : Nat
  val : Nat
  deriving DecidableEq, Repr, Inhabited

namespace BStr
def empty : BStr := ⟨0, 0⟩
def append (a b : BStr) : BStr := ⟨a.len + b.len, a.val * 256 ^ b.len + b.val⟩
instance : Append BStr := ⟨append⟩
def ofByte (b : Nat) : BStr := ⟨1, b % 256⟩
def byteAt (s : BStr) (i : Nat) : Nat := (s.val / 256 ^ (s.len - 1 - i)) % 256
/-- bytes, first to last -/
def bytes (s : BStr) : List Nat := (List.range s.len).map s.byteAt
/-- run-time only: the text -/
def toString (s : BStr) : String := String.ofList (s.bytes.map Char.ofNat)
/-- elaboration/run-time only: from ASCII text (the generated files carry literals instead) -/
def ofString (s : String) : BStr := s.toList.foldl (fun a c => a ++ ofByte c.toNat) empty
def beq (a b : BStr) : Bool := a.len == b.len && a.val == b.val
instance : BEq BStr := ⟨beq⟩
/-- well-formedness of a literal: the value fits the length -/
def wf (s : BStr) : Bool := decide (s.val < 256 ^ s.len)
end BStr

def joinB : List BStr → BStr
  | [] => BStr.empty
  | x :: xs => x ++ joinB xs

/-- decimal digits of a small number (flag bits are below 32; ids are written in hex elsewhere) -/
def decB (n : Nat) : BStr :=
  if n < 10 then BStr.ofByte (48 + n)
  else if n < 100 then BStr.ofByte (48 + n / 10) ++ BStr.ofByte (48 + n % 10)
  else BStr.ofByte (48 + n / 100) ++ BStr.ofByte (48 + n / 10 % 10) ++ BStr.ofByte (48 + n % 10)

-- frequently used literals
def bSpace : BStr := ⟨1, 0x20⟩
def bHash : BStr := ⟨1, 0x23⟩
def bColon : BStr := ⟨1, 0x3a⟩
def bEq : BStr := ⟨3, 0x203d20⟩          -- " = "
def bBang : BStr := ⟨1, 0x21⟩
def bPercent : BStr := ⟨1, 0x25⟩
def bQuestion : BStr := ⟨1, 0x3f⟩
def bFlagsDot : BStr := ⟨6, 0x666c6167732e⟩   -- "flags."
def bVectorLt : BStr := ⟨7, 0x566563746f723c⟩ -- "Vector<"
def bvectorLt : BStr := ⟨7, 0x766563746f723c⟩ -- "vector<"
def bVectorSp : BStr := ⟨7, 0x566563746f7220⟩ -- "Vector "
def bvectorSp : BStr := ⟨7, 0x766563746f7220⟩ -- "vector "
def bGt : BStr := ⟨1, 0x3e⟩
def bLBrace : BStr := ⟨1, 0x7b⟩
def bRBrace : BStr := ⟨1, 0x7d⟩
def bString : BStr := ⟨6, 0x737472696e67⟩     -- "string"
def bBytes : BStr := ⟨5, 0x6279746573⟩        -- "bytes"
def bTrue : BStr := ⟨4, 0x74727565⟩           -- "true"
def bInt : BStr := ⟨3, 0x696e74⟩
def bLong : BStr := ⟨4, 0x6c6f6e67⟩
def bDouble : BStr := ⟨6, 0x646f75626c65⟩
def bBool : BStr := ⟨4, 0x426f6f6c⟩           -- "Bool"
def bInt128 : BStr := ⟨6, 0x696e74313238⟩
def bInt256 : BStr := ⟨6, 0x696e74323536⟩
def bObject : BStr := ⟨6, 0x4f626a656374⟩     -- "Object"

inductive STy where
  | flagsWord                       -- `#`
  | prim (n : BStr)                 -- int long double string bytes Bool true int128 int256
  | vec (boxed : Bool) (e : STy)    -- Vector<e> (boxed) / vector<e> (bare)
  | ref (n : BStr)                  -- a boxed type (`InputPeer`) or a bare constructor name
  | bare (n : BStr)                 -- `%T`
  | bang (n : BStr)                 -- `!X`
  | typeParam (k : BStr)            -- `{X:Type}` (k = "Type")
  deriving Repr, DecidableEq, Inhabited

structure Param where
  name : BStr
  cond : Option Nat                 -- `flags.N?`
  ty : STy
  deriving Repr, DecidableEq

structure Def where
  name : BStr
  id : Nat
  idText : BStr                     -- the id as written (hex, possibly fewer than 8 digits)
  params : List Param
  result : BStr
  resultTy : STy                    -- the result type parsed (`Bool`, `Vector<t>`, a boxed type)
  isFunc : Bool
  raw : BStr                        -- the source line, whitespace-normalised, without the `;`
  deriving Repr

/-- the parameters that carry a value (everything but `flags:#` and `{X:Type}`) -/
def valueParams (ps : List Param) : List Param :=
  ps.filter fun p => match p.ty with
    | .flagsWord => false
    | .typeParam _ => false
    | _ => true

/-- how many value parameters precede `flags:#` (none when the definition has no flags word) -/
def flagsPos : List Param → Nat → Option Nat
  | [], _ => none
  | p :: ps, n =>
    match p.ty with
    | .flagsWord => some n
    | .typeParam _ => flagsPos ps n
    | _ => flagsPos ps (n + 1)

def renderTy : STy → BStr
  | .flagsWord => bHash
  | .prim n => n
  | .vec true e => bVectorLt ++ renderTy e ++ bGt
  | .vec false e => bvectorLt ++ renderTy e ++ bGt
  | .ref n => n
  | .bare n => bPercent ++ n
  | .bang n => bBang ++ n
  | .typeParam k => k

def renderParam (p : Param) : BStr :=
  match p.ty with
  | .typeParam k => bLBrace ++ p.name ++ bColon ++ k ++ bRBrace
  | t =>
    match p.cond with
    | none => p.name ++ bColon ++ renderTy t
    | some n => p.name ++ bColon ++ bFlagsDot ++ decB n ++ bQuestion ++ renderTy t

def render (d : Def) : BStr :=
  d.name ++ bHash ++ d.idText ++ joinB (d.params.map fun p => bSpace ++ renderParam p) ++ bEq ++ d.result

end Mtv.Schema
