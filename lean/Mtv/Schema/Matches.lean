/-
  `Matches`: the relation between a TL schema (list of definitions) and a constructor registry —
  same ids, fields equal to the parameters in order, type, conditional-flag bit, `true`-typed
  parameters as bitflag bools, the flags word at the position of `flags:#`. Decidable, evaluated by the
  kernel on the regenerated tables (C13); hypothesis of the wire-format theorem (C02).
-/
import Mtv.Schema.Types
import Mtv.TL.Types
namespace Mtv.Schema
open Mtv.TL

/-- constructor ids of a boxed type, in schema order -/
def ctorsOfType (S : List Def) (t : String) : List Nat :=
  (S.filter fun d => !d.isFunc && d.result == t).map (·.id)

def setEq (a b : List Nat) : Bool := a.all (fun x => b.contains x) && b.all (fun x => a.contains x)

/-- does the Go type `g` carry exactly the values of the schema type `s`? A boxed type maps to a
pointer (one constructor), an enum (all constructors registered under that enum type) or an
interface implemented by exactly the type's constructors. Vectors must be boxed (the codec always
writes the vector id). -/
def tyMatch (R : Registry) (S : List Def) : STy → Ty → Bool
  | .prim "int", .int32 => true
  | .prim "long", .int64 => true
  | .prim "double", .f64 => true
  | .prim "string", .str => true
  | .prim "bytes", .bytes => true
  | .prim "Bool", .bool => true
  | .prim "true", .bool => true
  | .prim "int128", .i128 => true
  | .prim "int256", .i256 => true
  | .vec true e, .vec g => tyMatch R S e g
  | .bang _, .iface "tl.Object" => true
  | .ref "Object", .iface "tl.Object" => true
  | .ref t, .ptr id => ctorsOfType S t == [id]
  | .ref t, .enum nm =>
    let cs := ctorsOfType S t
    !cs.isEmpty &&
    setEq cs ((R.filter fun d => d.kind == .enum && d.name == nm).map (·.id))
  | .ref t, .iface nm =>
    nm != "tl.Object" && setEq (ctorsOfType S t) ((R.filter fun d => d.ifaces.contains nm).map (·.id))
  | _, _ => false

/-- the parameters that become struct fields -/
def fieldParams (d : Def) : List Param :=
  d.params.filter fun p => match p.ty with
    | .flagsWord => false
    | .typeParam _ => false
    | _ => true

/-- index (among the field parameters) in front of which the flags word is written -/
def expectedFlagIndex : List Param → Nat → Option Nat
  | [], _ => none
  | p :: ps, n =>
    match p.ty with
    | .flagsWord => some n
    | .typeParam _ => expectedFlagIndex ps n
    | _ => expectedFlagIndex ps (n + 1)

def fieldMatch (R : Registry) (S : List Def) (p : Param) (f : FieldDesc) : Bool :=
  tyMatch R S p.ty f.ty &&
  (match p.cond, f.flag with
   | none, none => true
   | some n, some fl => n == fl.bit && fl.inBits == (p.ty == .prim "true")
   | _, _ => false)

def fieldsMatch (R : Registry) (S : List Def) : List Param → List FieldDesc → Bool
  | [], [] => true
  | p :: ps, f :: fs => fieldMatch R S p f && fieldsMatch R S ps fs
  | _, _ => false

/-- is the boxed type an enumeration (every constructor without parameters)? -/
def isEnumType (S : List Def) (t : String) : Bool :=
  (S.filter fun d => !d.isFunc && d.result == t).all fun d => d.params.isEmpty

/-- one definition against the registry -/
def defMatch (R : Registry) (S : List Def) (d : Def) : Bool :=
  match R.find d.id with
  | none => false
  | some c =>
    match c.kind with
    | .enum => !d.isFunc && d.params.isEmpty && isEnumType S d.result
    | .struct => c.flagIndex == expectedFlagIndex d.params 0 && fieldsMatch R S (fieldParams d) c.fields
    | _ => false

def firstMismatch (R : Registry) (S : List Def) (defs : List Def) : Option String :=
  (defs.find? fun d => !defMatch R S d).map (·.name)

end Mtv.Schema
