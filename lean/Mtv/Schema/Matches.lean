/-
  `Matches`: the relation between a TL schema (list of definitions) and a constructor registry —
  same ids, fields equal to the parameters in order, type, conditional-flag bit, `true`-typed
  parameters as bitflag bools, the flags word at the position of `flags:#`. Decidable, evaluated by the
  kernel on the regenerated tables (C13).

  Written for kernel evaluation: the joins "constructors of a boxed type", "implementers of a Go
  interface", "members of a Go enum type" go through small tables (a few hundred entries) that are
  computed once (`mkTypeTable`, `mkIfaceTable`, `mkEnumTable`) instead of scanning the big tables per field.
-/
import Mtv.Schema.Types
import Mtv.TL.Types
namespace Mtv.Schema
open Mtv.TL

abbrev Table := List (BStr × List Nat)        -- schema side: boxed type ↦ constructor ids
abbrev STable := List (String × List Nat)     -- registry side: Go interface / enum type ↦ constructor ids

def lookupB : Table → BStr → List Nat
  | [], _ => []
  | (k, v) :: t, q => if k == q then v else lookupB t q

def insertB : Table → BStr → Nat → Table
  | [], k, v => [(k, [v])]
  | (k', vs) :: t, k, v => if k' == k then (k', vs ++ [v]) :: t else (k', vs) :: insertB t k v

def lookupS : STable → String → List Nat
  | [], _ => []
  | (k, v) :: t, q => if k == q then v else lookupS t q

def insertS : STable → String → Nat → STable
  | [], k, v => [(k, [v])]
  | (k', vs) :: t, k, v => if k' == k then (k', vs ++ [v]) :: t else (k', vs) :: insertS t k v

/-- boxed type ↦ ids of its constructors, in schema order -/
def mkTypeTable (S : List Def) : Table :=
  S.foldl (fun t d => if d.isFunc then t else insertB t d.result d.id) []

/-- boxed types that have a constructor with parameters (i.e. are not enumerations) -/
def mkNonEnum (S : List Def) : List BStr :=
  S.foldl (fun t d => if d.isFunc || d.params.isEmpty || t.contains d.result then t else t ++ [d.result]) []

/-- Go interface type ↦ ids of the registered constructors implementing it -/
def mkIfaceTable (R : Registry) : STable :=
  R.foldl (fun t c => c.ifaces.foldl (fun t nm => insertS t nm c.id) t) []

/-- Go enum type ↦ ids registered under it -/
def mkEnumTable (R : Registry) : STable :=
  R.foldl (fun t c => if c.kind == .enum then insertS t c.name c.id else t) []

def setEq (a b : List Nat) : Bool := a.all (fun x => b.contains x) && b.all (fun x => a.contains x)

structure Tables where
  types : Table
  nonEnum : List BStr
  ifaces : STable
  enums : STable

def mkTables (R : Registry) (S : List Def) : Tables :=
  ⟨mkTypeTable S, mkNonEnum S, mkIfaceTable R, mkEnumTable R⟩

/-- does the Go type `g` carry exactly the values of the schema type `s`? A boxed type maps to a
pointer (its single constructor), an enum (exactly its constructors are registered under that enum
type) or an interface implemented by exactly the type's constructors. Vectors must be boxed (the
codec always writes the vector id). -/
def tyMatch (T : Tables) : STy → Ty → Bool
  | .prim n, g =>
    (n == bInt && g == .int32) || (n == bLong && g == .int64) || (n == bDouble && g == .f64) ||
    (n == bString && g == .str) || (n == bBytes && g == .bytes) || (n == bBool && g == .bool) ||
    (n == bTrue && g == .bool) || (n == bInt128 && g == .i128) || (n == bInt256 && g == .i256)
  | .vec true e, .vec g => tyMatch T e g
  | .bang _, .iface nm => nm == "tl.Object"
  | .ref t, .ptr id => lookupB T.types t == [id]
  | .ref t, .enum nm =>
    let cs := lookupB T.types t
    !cs.isEmpty && !T.nonEnum.contains t && setEq cs (lookupS T.enums nm)
  | .ref t, .iface nm =>
    if t == bObject then nm == "tl.Object"
    else nm != "tl.Object" && setEq (lookupB T.types t) (lookupS T.ifaces nm)
  | _, _ => false

/-- the parameters that become struct fields -/
def fieldParams (d : Def) : List Param := valueParams d.params

/-- index (among the field parameters) in front of which the flags word is written -/
def expectedFlagIndex (ps : List Param) (n : Nat) : Option Nat := flagsPos ps n

def fieldMatch (T : Tables) (p : Param) (f : FieldDesc) : Bool :=
  tyMatch T p.ty f.ty &&
  (match p.cond, f.flag with
   | none, none => true
   | some n, some fl => n == fl.bit && fl.inBits == (p.ty == .prim bTrue)
   | _, _ => false)

def fieldsMatch (T : Tables) : List Param → List FieldDesc → Bool
  | [], [] => true
  | p :: ps, f :: fs => fieldMatch T p f && fieldsMatch T ps fs
  | _, _ => false

/-- one definition against the registry: a registered type with the same id, and the same layout -/
def defMatch (T : Tables) (R : Registry) (d : Def) : Bool :=
  match R.find d.id with
  | none => false
  | some c =>
    match c.kind with
    | .enum => !d.isFunc && d.params.isEmpty && !T.nonEnum.contains d.result
    | .struct => c.flagIndex == expectedFlagIndex d.params 0 && fieldsMatch T (fieldParams d) c.fields
    | _ => false

end Mtv.Schema
