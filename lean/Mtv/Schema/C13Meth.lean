/-
  C13: definitions for the obligations about generated client methods and hand-written wrappers.
-/
import Mtv.Schema.C13Defs
import Mtv.Schema.Methods
import Mtv.Gen.Methods
namespace Mtv.C13
open Mtv.Schema Mtv.TL Mtv.Gen

def isGenerated (m : MethodFact) : Bool := !(wrappers.any fun w => w.name == m.reqFull)

/-- every client method of a chunk: a generated one against registry and schema (`methodOk`: shape and
body), a hand-written wrapper method against its wrapper (`wrapperMethodOk`) -/
def methodChunkOk (ch : List MethodFact) : Bool :=
  (ch.filter isGenerated).all (methodOk TA registry schemaApi) &&
  (ch.filter fun m => !isGenerated m).all (wrapperMethodOk wrappers)

end Mtv.C13
