/-
  C13: definitions for the obligations about generated client methods and hand-written wrappers.
-/
import Mtv.Schema.C13Defs
import Mtv.Schema.Methods
import Mtv.Gen.Methods
namespace Mtv.C13
open Mtv.Schema Mtv.TL Mtv.Gen

def isGenerated (m : MethodFact) : Bool := !(wrappers.any fun w => w.name == m.reqFull)

def methodChunkOk (ch : List MethodFact) : Bool :=
  (ch.filter isGenerated).all (methodOk TA registry schemaApi)

end Mtv.C13
