/-
  Facts about the enumerations of the generated API layer that reflection cannot see (C13): the Go NAME
  of every constant of an enum type, and the text `String()` gives for an id. Extracted with go/parser by
  harness/cmd/c13facts into `Mtv.Gen.enumConsts` / `Mtv.Gen.enumStrings`. Text is `BStr` (kernel evaluation).
-/
import Mtv.Schema.Types
namespace Mtv.Schema

/-- `const <name> <ty> = <value>` of package telegram, `ty` declared `type <ty> uint32`. A value that is
not a literal is recorded as 2^32 (no constructor id). -/
structure EnumConst where
  name : BStr
  ty : BStr
  value : Nat
  deriving Repr, DecidableEq

/-- `case <ty>(<id>): return "<text>"` of `func (e <ty>) String() string` -/
structure EnumString where
  ty : BStr
  id : Nat
  text : BStr
  deriving Repr, DecidableEq

end Mtv.Schema
