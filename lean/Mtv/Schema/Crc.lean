/-
  The canonical form of a TL definition and its CRC-32 (kernel-friendly: `Nat` arithmetic only,
  accumulators forced at every step).
-/
import Mtv.Schema.Types
namespace Mtv.Schema

def crcStep (c : Nat) : Nat := if c % 2 = 1 then (c / 2) ^^^ 0xEDB88320 else c / 2

def crcByte (c b : Nat) : Nat :=
  crcStep (crcStep (crcStep (crcStep (crcStep (crcStep (crcStep (crcStep (c ^^^ b))))))))

/-- fold over the bytes `i, i+1, …` of `s` (`n` bytes left); the `match` forces the accumulator -/
def crcLoop (s : BStr) : Nat → Nat → Nat → Nat
  | 0, _, c => c
  | n + 1, i, c =>
    match crcByte c (s.byteAt i) with
    | 0 => crcLoop s n (i + 1) 0
    | c' + 1 => crcLoop s n (i + 1) (c' + 1)

/-- CRC-32 (IEEE) of a byte string -/
def crc32B (s : BStr) : Nat := (crcLoop s s.len 0 0xFFFFFFFF) ^^^ 0xFFFFFFFF

def decapB (s : BStr) : BStr :=
  if s.len = 0 then s else
  let b := s.byteAt 0
  if 65 ≤ b ∧ b ≤ 90 then ⟨s.len, s.val + 32 * 256 ^ (s.len - 1)⟩ else s

/-- a type inside the canonical line: angle brackets become a space, `%T` its bare name -/
def canonTy : STy → BStr
  | .flagsWord => bHash
  | .prim n => n
  | .vec true e => bVectorSp ++ canonTy e
  | .vec false e => bvectorSp ++ canonTy e
  | .ref n => n
  | .bare n => decapB n
  | .bang n => bBang ++ n
  | .typeParam k => k

/-- a parameter of the canonical line: `flags.N?true` parameters are dropped, a top-level `bytes`
is written `string`, `{X:Type}` loses its braces -/
def canonParam (p : Param) : BStr :=
  match p.ty with
  | .typeParam k => bSpace ++ p.name ++ bColon ++ k
  | t =>
    if t == .prim bTrue && p.cond.isSome then BStr.empty else
    let ts := if t == .prim bBytes then bString else canonTy t
    match p.cond with
    | none => bSpace ++ p.name ++ bColon ++ ts
    | some n => bSpace ++ p.name ++ bColon ++ bFlagsDot ++ decB n ++ bQuestion ++ ts

/-- `<` ↦ space, `>` dropped (result types such as `Vector<long>`) -/
def canonResultLoop (s : BStr) : Nat → Nat → BStr → BStr
  | 0, _, acc => acc
  | n + 1, i, acc =>
    let b := s.byteAt i
    let acc' := if b = 0x3c then acc ++ bSpace else if b = 0x3e then acc else acc ++ BStr.ofByte b
    match acc'.val with
    | 0 => canonResultLoop s n (i + 1) ⟨acc'.len, 0⟩
    | v + 1 => canonResultLoop s n (i + 1) ⟨acc'.len, v + 1⟩

def canonResult (r : BStr) : BStr := canonResultLoop r r.len 0 BStr.empty

/-- the line whose CRC-32 is the constructor id -/
def canon (d : Def) : BStr :=
  d.name ++ joinB (d.params.map canonParam) ++ bEq ++ canonResult d.result

def hexDigitVal (b : Nat) : Option Nat :=
  if 48 ≤ b ∧ b ≤ 57 then some (b - 48) else if 97 ≤ b ∧ b ≤ 102 then some (b - 87)
  else if 65 ≤ b ∧ b ≤ 70 then some (b - 55) else none

def hexLoop (s : BStr) : Nat → Nat → Nat → Option Nat
  | 0, _, acc => some acc
  | n + 1, i, acc =>
    match hexDigitVal (s.byteAt i) with
    | none => none
    | some d => hexLoop s n (i + 1) (acc * 16 + d)

def hexNatB? (s : BStr) : Option Nat := hexLoop s s.len 0 0

/-- the translator's reading prints back to the source line; the id text is the id; the id is the
CRC-32 of the canonical line; every literal is well-formed -/
def defOk (d : Def) : Bool :=
  d.raw.wf && d.name.wf && d.result.wf && d.idText.wf &&
  render d == d.raw && renderTy d.resultTy == d.result &&
  hexNatB? d.idText == some d.id && crc32B (canon d) == d.id

-- "123456789"
example : crc32B ⟨9, 0x313233343536373839⟩ = 0xCBF43926 := by decide +kernel

end Mtv.Schema
