/-
  The canonical form of a TL definition and its CRC-32 (kernel-friendly: `Nat` arithmetic only).
-/
import Mtv.Schema.Types
namespace Mtv.Schema

def crcStep (c : Nat) : Nat := if c % 2 = 1 then (c / 2) ^^^ 0xEDB88320 else c / 2

def crcByte (c b : Nat) : Nat :=
  crcStep (crcStep (crcStep (crcStep (crcStep (crcStep (crcStep (crcStep (c ^^^ b))))))))

/-- CRC-32 (IEEE) of a list of byte values -/
def crc32Nat (bs : List Nat) : Nat := (bs.foldl crcByte 0xFFFFFFFF) ^^^ 0xFFFFFFFF

def asciiBytes (s : String) : List Nat := s.toList.map Char.toNat

def decap (s : String) : String :=
  match s.toList with
  | [] => s
  | c :: cs => String.ofList (c.toLower :: cs)

/-- a type inside the canonical line: angle brackets become a space, `%T` its bare name -/
def canonTy : STy → String
  | .flagsWord => "#"
  | .prim n => n
  | .vec true e => "Vector " ++ canonTy e
  | .vec false e => "vector " ++ canonTy e
  | .ref n => n
  | .bare n => decap n
  | .bang n => "!" ++ n
  | .typeParam k => k

/-- a parameter of the canonical line: `flags.N?true` parameters are dropped, a top-level `bytes`
is written `string`, `{X:Type}` loses its braces -/
def canonParam (p : Param) : String :=
  match p.ty with
  | .typeParam k => " " ++ p.name ++ ":" ++ k
  | .prim "true" =>
    match p.cond with
    | some _ => ""
    | none => " " ++ p.name ++ ":true"
  | t =>
    let ts := if t == .prim "bytes" then "string" else canonTy t
    match p.cond with
    | none => " " ++ p.name ++ ":" ++ ts
    | some n => " " ++ p.name ++ ":flags." ++ toString n ++ "?" ++ ts

def canonResult (r : String) : String :=
  String.ofList (r.toList.filterMap fun c => if c == '<' then some ' ' else if c == '>' then none else some c)

/-- the line whose CRC-32 is the constructor id -/
def canon (d : Def) : String :=
  d.name ++ String.join (d.params.map canonParam) ++ " = " ++ canonResult d.result

def hexNat? (s : String) : Option Nat :=
  s.toList.foldlM (fun acc c => (hexVal? c).map (acc * 16 + ·)) 0

/-- the translator's reading prints back to the source line; the id text is the id; the id is the
CRC-32 of the canonical line -/
def defOk (d : Def) : Bool :=
  render d == d.raw && hexNat? d.idText == some d.id && crc32Nat (asciiBytes (canon d)) == d.id

example : crc32Nat (asciiBytes "123456789") = 0xCBF43926 := by decide +kernel

end Mtv.Schema
