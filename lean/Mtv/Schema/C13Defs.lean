/-
  C13: the definitions the regenerated per-chunk obligations (Mtv/Gen/C13/*.lean) and the property
  theorems (Mtv/Props/C13.lean) are stated with.
-/
import Mtv.Schema.Crc
import Mtv.Schema.Matches
import Mtv.Schema.Names
import Mtv.Gen.SchemaApi
import Mtv.Gen.SchemaMt
import Mtv.Gen.Registry
import Mtv.Gen.RegistryFields
namespace Mtv.C13
open Mtv.Schema Mtv.TL Mtv.Gen

/-- the documented hand-written request wrappers (`excludedDefinitions` of the generator):
invokeAfterMsg, invokeAfterMsgs, initConnection, invokeWithLayer, invokeWithoutUpdates,
invokeWithMessagesRange, invokeWithTakeout -/
def wrapperNames : List BStr :=
  [⟨14, 0x696e766f6b6541667465724d7367⟩, ⟨15, 0x696e766f6b6541667465724d736773⟩,
   ⟨14, 0x696e6974436f6e6e656374696f6e⟩, ⟨15, 0x696e766f6b65576974684c61796572⟩,
   ⟨20, 0x696e766f6b65576974686f757455706461746573⟩,
   ⟨23, 0x696e766f6b65576974684d6573736167657352616e6765⟩, ⟨17, 0x696e766f6b655769746854616b656f7574⟩]

/-- service definitions of mtproto.tl this client neither sends nor interprets field by field:
custom codecs (msg_container, gzip_packed: covered by C01/C15), and definitions that are not
wire-used by the client (the bare-vector future_salts, msg_copy, destroy_session_ok,
destroy_session_none, rpc_drop_answer, get_future_salts, ping_delay_disconnect, destroy_session,
http_wait) -/
def serviceNotWireUsed : List BStr :=
  [⟨13, 0x6d73675f636f6e7461696e6572⟩, ⟨11, 0x677a69705f7061636b6564⟩, ⟨12, 0x6675747572655f73616c7473⟩,
   ⟨8, 0x6d73675f636f7079⟩, ⟨18, 0x64657374726f795f73657373696f6e5f6f6b⟩,
   ⟨20, 0x64657374726f795f73657373696f6e5f6e6f6e65⟩, ⟨15, 0x7270635f64726f705f616e73776572⟩,
   ⟨16, 0x6765745f6675747572655f73616c7473⟩, ⟨21, 0x70696e675f64656c61795f646973636f6e6e656374⟩,
   ⟨15, 0x64657374726f795f73657373696f6e⟩, ⟨9, 0x687474705f77616974⟩]

/-- the small join tables, as the translators emitted them (proved equal to the computed ones) -/
def TA : Tables := ⟨typeTableApi, nonEnumApi, ifaceTableLit, enumTableLit⟩
def TM : Tables := ⟨typeTableMt, nonEnumMt, ifaceTableLit, enumTableLit⟩

def isApiDef (d : Def) : Bool := !wrapperNames.contains d.name
def isServiceDef (d : Def) : Bool := !serviceNotWireUsed.contains d.name

def apiDefs : List Def := schemaApi.filter isApiDef
def serviceDefs : List Def := schemaMt.filter isServiceDef

/-- translator validation + constructor ids of a chunk of definitions (schema only) -/
def crcChunkOk (ch : List Def) : Bool := ch.all defOk

/-- one constructor definition is recorded in the literal join tables -/
def typeRowOk (T : Tables) (d : Def) : Bool :=
  d.isFunc || ((lookupB T.types d.result).contains d.id && (d.params.isEmpty || T.nonEnum.contains d.result))

/-- a chunk of API definitions: registered with the same id and the same layout; recorded in the tables -/
def apiMatchOk (ch : List Def) : Bool :=
  (ch.filter isApiDef).all (defMatch TA registry) && ch.all (typeRowOk TA)

def mtMatchOk (ch : List Def) : Bool :=
  (ch.filter isServiceDef).all (defMatch TM registry) && ch.all (typeRowOk TM)

/-- a chunk of API definitions: the fields of the registered type carry the names of the parameters
(normalised; listed exceptions), position by position -/
def apiNamesOk (ch : List Def) : Bool := (ch.filter isApiDef).all (defNamesOk fieldNames)

def mtNamesOk (ch : List Def) : Bool := (ch.filter isServiceDef).all (defNamesOk fieldNames)

/-- the name table of a registry chunk has one row per registered constructor, under its id, with one
name per field (the texts themselves are compared with the registry's `String`s by the compiled
driver on every run; the kernel is slow on `String`) -/
def regNamesRowsOk : List CtorDesc → NameTable → Bool
  | [], [] => true
  | c :: cs, n :: ns => c.id == n.1 && c.fields.length == n.2.length && regNamesRowsOk cs ns
  | _, _ => false

def regNamesChunksOk : List (List CtorDesc) → List NameTable → Bool
  | [], [] => true
  | c :: cs, n :: ns => regNamesRowsOk c n && regNamesChunksOk cs ns
  | _, _ => false

/-! ### every field of the Go struct is a field of the codec's layout

`registryN` (what `defMatch` compares with the schema, and what the codec model of C01/C02/C15 encodes)
lists the fields the ENCODER writes: the extractor leaves out a field tagged `tl:"-"`. The decoder does not
know that tag — it treats any tagged field as optional under flag bit 0 — so such a field is not inert. The
obligation below closes the gap from the other side: `allFieldsN` carries every field reflection finds in
the struct (exported or not) with its struct tag exactly as written, and must be the layout's field list,
name by name, each tag being literally the text of the layout's flag (`tl:"flag:N"`,
`tl:"flag:N,encoded_in_bitflags"`, or no tag at all). A field the schema does not define therefore fails
whatever its tag says: if the extractor drops it from the layout the lists differ in length; if it keeps
it, `defMatch` has one field too many. No exception is needed on the unchanged tree (1 227 registered
types, 3 157 struct fields: none ignored, unexported or tagged otherwise); types with a custom codec
(`MessageContainer`, `GzipPacked`: no reflected layout, kinds `container`/`gzip`) and enums are skipped. -/

/-- every struct field of a registered type: (name, whole struct tag as written), both as (length, value) -/
abbrev FieldTable := List (Nat × List ((Nat × Nat) × (Nat × Nat)))

def bTagFlag : BStr := ⟨9, 0x746c3a22666c61673a⟩                                     -- `tl:"flag:`
def bTagInBits : BStr := ⟨20, 0x2c656e636f6465645f696e5f626974666c616773⟩             -- `,encoded_in_bitflags`
def bDQuote : BStr := ⟨1, 0x22⟩

/-- the struct tag a field with this flag is written with -/
def expectedTag : Option Flag → BStr
  | none => BStr.empty
  | some f => bTagFlag ++ decB f.bit ++ (if f.inBits then bTagInBits else BStr.empty) ++ bDQuote

/-- is the reflected field (name, tag) the layout's field of that position (name from the name table)? -/
def fieldIsLayout (f : FieldDesc) (n : Nat × Nat) (a : (Nat × Nat) × (Nat × Nat)) : Bool :=
  a.1 == n && expectedTag f.flag == ⟨a.2.1, a.2.2⟩

def fieldsAreLayout : List FieldDesc → List (Nat × Nat) → List ((Nat × Nat) × (Nat × Nat)) → Bool
  | [], [], [] => true
  | f :: fs, n :: ns, a :: as => fieldIsLayout f n a && fieldsAreLayout fs ns as
  | _, _, _ => false

def ctorFieldsOk (c : CtorDesc) (names : List (Nat × Nat)) (all : List ((Nat × Nat) × (Nat × Nat))) : Bool :=
  c.kind != .struct || fieldsAreLayout c.fields names all

/-- one chunk: row by row the same constructor id in the three tables, and `ctorFieldsOk` -/
def regFieldsRowsOk : List CtorDesc → NameTable → FieldTable → Bool
  | [], [], [] => true
  | c :: cs, n :: ns, a :: as =>
    c.id == n.1 && c.id == a.1 && ctorFieldsOk c n.2 a.2 && regFieldsRowsOk cs ns as
  | _, _, _ => false

def regFieldsChunksOk : List (List CtorDesc) → List NameTable → List FieldTable → Bool
  | [], [], [] => true
  | c :: cs, n :: ns, a :: as => regFieldsRowsOk c n a && regFieldsChunksOk cs ns as
  | _, _, _ => false

/-- for the driver's report: the reflected fields of a constructor that are not in its layout (by name),
and those that are but carry another tag than their flag's -/
def extraFieldsOf (names : List (Nat × Nat)) (all : List ((Nat × Nat) × (Nat × Nat))) : List BStr :=
  (all.filter fun a => !names.contains a.1).map fun a => ⟨a.1.1, a.1.2⟩

def badTagFieldsOf (c : CtorDesc) (names : List (Nat × Nat)) (all : List ((Nat × Nat) × (Nat × Nat))) : List BStr :=
  (all.filter fun a =>
    match (List.zip c.fields names).find? (fun fn => fn.2 == a.1) with
    | some fn => expectedTag fn.1.flag != ⟨a.2.1, a.2.2⟩
    | none => false).map fun a => ⟨a.1.1, a.1.2⟩

/-- one registered constructor is recorded in the literal interface / enum tables -/
def regRowOk (c : CtorDesc) : Bool :=
  c.ifaces.all (fun nm => (lookupS ifaceTableLit nm).contains c.id) &&
  (c.kind != .enum || (lookupS enumTableLit c.name).contains c.id)

def regChunkOk (ch : List CtorDesc) : Bool := ch.all regRowOk

def sumLens {α : Type} (t : List (α × List Nat)) : Nat := t.foldl (fun n e => n + e.2.length) 0

/-- the literal tables hold nothing but what the rows put there: entry counts equal the number of
constructor definitions / (constructor, interface) pairs / registered enums. Together with the row
checks and the uniqueness of ids this makes every table entry exactly the set it stands for. -/
def tableCountsOk : Bool :=
  sumLens typeTableApi == (schemaApi.filter fun d => !d.isFunc).length &&
  sumLens typeTableMt == (schemaMt.filter fun d => !d.isFunc).length &&
  sumLens ifaceTableLit == registry.foldl (fun n c => n + c.ifaces.length) 0 &&
  sumLens enumTableLit == (registry.filter fun c => c.kind == .enum).length

/-- ids the decoder knows without a registered type -/
def pseudoIds : List Nat := [crcVector, crcTrue, crcFalse, crcNull]

/-- sorted ascending and without duplicates -/
def strictlySorted : List Nat → Bool
  | a :: b :: t => decide (a < b) && strictlySorted (b :: t)
  | _ => true

/-- linear difference of two ascending lists -/
def diffSortedF : Nat → List Nat → List Nat → List Nat
  | 0, xs, _ => xs
  | _ + 1, [], _ => []
  | _ + 1, a :: as, [] => a :: as
  | f + 1, a :: as, b :: bs =>
    if a < b then a :: diffSortedF f as (b :: bs)
    else if a = b then diffSortedF f as bs
    else diffSortedF f (a :: as) bs

def diffSorted (xs ys : List Nat) : List Nat := diffSortedF (xs.length + ys.length + 1) xs ys

/-- registered ids that no (uncommented) schema line defines -/
def extraIds : List Nat :=
  diffSorted (diffSorted (registry.map (·.id)) (schemaApi.map (·.id))) (schemaMt.map (·.id))

end Mtv.C13
