/-
  C13 — the Go NAME of every enum constant ↔ the schema constructor it is named after.

  An enumeration of the schema (a boxed type all of whose constructors are empty) is generated as a Go
  type `type T uint32` with one constant per constructor, named after the constructor
  (`topPeerCategoryForwardChats` ↦ `TopPeerCategoryForwardChats`, `auth.codeTypeSms` ↦ `AuthCodeTypeSms`) and
  carrying its id, plus a method `String()` that gives the constructor's name for an id. The registry
  (reflection) knows which ids are registered under which enum TYPE — `defMatch` and `tyMatch` compare that
  with the schema — but not which identifier the program text binds to which id: two constants of one type
  carrying each other's ids leave the registry unchanged, while every use of either BY NAME sends / recognises
  the other constructor. The facts compared here come from the source text (harness/cmd/c13facts, go/parser:
  `Mtv.Gen.enumConsts`, `Mtv.Gen.enumStrings`).

  The naming rule is the one of `Names`: equal after dropping `_` (and, for a schema name, the namespace dot)
  and folding ASCII letters to lower case.
-/
import Mtv.Schema.C13Defs
import Mtv.Gen.EnumConsts
namespace Mtv.C13
open Mtv.Schema Mtv.TL Mtv.Gen

/-- a schema name as a Go identifier is compared: drop `.` and `_`, fold `A`–`Z` to lower case -/
def normCtor (s : BStr) : BStr :=
  (List.range s.len).foldl (fun acc i =>
    let b := s.byteAt i
    if b == 0x5f || b == 0x2e then acc
    else if 0x41 ≤ b && b ≤ 0x5a then ⟨acc.len + 1, acc.val * 256 + (b + 32)⟩
    else ⟨acc.len + 1, acc.val * 256 + b⟩) BStr.empty

/-- a member of an enumeration: a definition whose registered Go representation is a value of an enum type
(`defMatch` ties that to: a constructor without parameters of a type that has no constructor with parameters) -/
def isEnumMember (R : Registry) (d : Def) : Bool :=
  match R.find d.id with
  | some c => c.kind == .enum
  | none => false

/-- the constants named after definition `d` -/
def constsNamedAfter (cs : List EnumConst) (d : Def) : List EnumConst :=
  let n := normCtor d.name
  cs.filter fun c => normName c.name == n

/-- **one enum member**: exactly one constant is named after it; that constant carries the member's id and is
of the Go type named after the member's result type -/
def enumMemberOk (R : Registry) (cs : List EnumConst) (d : Def) : Bool :=
  !isEnumMember R d ||
  (match constsNamedAfter cs d with
   | [c] => c.value == d.id && normName c.ty == normCtor d.result
   | _ => false)

/-- a chunk of API definitions -/
def apiEnumOk (ch : List Def) : Bool := ch.all (enumMemberOk registry enumConsts)

/-- the parameterless constructor a constant is named after (the cheap tests first: kernel evaluation) -/
def memberNamed (S : List Def) (c : EnumConst) : Option Def :=
  let n := normName c.name
  S.find? fun d => !d.isFunc && d.params.isEmpty && normCtor d.name == n

/-- **one constant**: the schema has an enum member with its name, and that member has its id (no constant of an
enum type beside the schema's, none with an id of its own) -/
def enumConstOk (R : Registry) (S : List Def) (c : EnumConst) : Bool :=
  match memberNamed S c with
  | some d => d.id == c.value && isEnumMember R d
  | none => false

/-- **one case of a String() method**: the schema's definition with that id is a member of an enumeration whose
Go type is the method's receiver, and the text returned is the definition's name as the schema writes it -/
def enumStringOk (R : Registry) (S : List Def) (s : EnumString) : Bool :=
  match S.find? (fun d => d.id == s.id) with
  | some d => isEnumMember R d && d.name == s.text && normName s.ty == normCtor d.result
  | none => false

/-- every member has its case: as many String() cases as constants, ids pairwise different -/
def enumStringsCover (cs : List EnumConst) (ss : List EnumString) : Bool :=
  cs.length == ss.length && cs.all fun c => ss.any fun s => s.id == c.value && s.ty == c.ty

/-- the whole-table side: every constant … -/
def enumConstsTableOk : Bool := enumConsts.all (enumConstOk registry schemaApi)

/-- … and every String() case (two obligations: the kernel evaluates them in parallel) -/
def enumStringsTableOk : Bool :=
  enumStrings.all (enumStringOk registry schemaApi) && enumStringsCover enumConsts enumStrings

def enumTablesOk : Bool := enumConstsTableOk && enumStringsTableOk

/-- for the driver's report: members without / with a wrong constant, constants without a member -/
def badEnumMembers : List Def := schemaApi.filter fun d => !enumMemberOk registry enumConsts d
def badEnumConsts : List EnumConst := enumConsts.filter fun c => !enumConstOk registry schemaApi c
def badEnumStrings : List EnumString := enumStrings.filter fun s => !enumStringOk registry schemaApi s

end Mtv.C13
