/-
  Mtv.Ige.Spec — AES-IGE straight from its definition, over an abstract block cipher.

  The block cipher is a PARAMETER here (`E D : Bytes → Bytes`, the key already applied); nothing in
  this file knows AES. Blocks are byte lists; a message is a list of blocks.

      c_i = E (p_i xor c_{i-1}) xor p_{i-1}          p_i = D (c_i xor p_{i-1}) xor c_{i-1}

  with `c_0 ‖ p_0 = iv` split as /repo's `NewCipher` splits it: the FIRST 16 bytes of the 32-byte IV
  are the "previous ciphertext" block, the LAST 16 bytes the "previous plaintext" block.
  Core-only (linked into the driver).
-/
import Mtv.Basic
namespace Mtv.Ige
open Mtv

/-- bytewise xor of two blocks (Go: `xor(dst, src)` with `len dst = len src = 16`) -/
def xorB (a b : Bytes) : Bytes := List.zipWith (· ^^^ ·) a b

/-- What the theorems assume of the block cipher under one key: both directions keep 16-byte
blocks 16 bytes long and are mutually inverse on them. -/
structure IsBlockCipher (E D : Bytes → Bytes) : Prop where
  lenE : ∀ b : Bytes, b.length = 16 → (E b).length = 16
  lenD : ∀ b : Bytes, b.length = 16 → (D b).length = 16
  DE : ∀ b : Bytes, b.length = 16 → D (E b) = b
  ED : ∀ b : Bytes, b.length = 16 → E (D b) = b

/-- IGE encryption of a list of plaintext blocks; `cPrev`/`pPrev` are `c_{i-1}`/`p_{i-1}`. -/
def igeEnc (E : Bytes → Bytes) (cPrev pPrev : Bytes) : List Bytes → List Bytes
  | [] => []
  | p :: ps =>
    let c := xorB (E (xorB p cPrev)) pPrev
    c :: igeEnc E c p ps

/-- IGE decryption of a list of ciphertext blocks. -/
def igeDec (D : Bytes → Bytes) (cPrev pPrev : Bytes) : List Bytes → List Bytes
  | [] => []
  | c :: cs =>
    let p := xorB (D (xorB c pPrev)) cPrev
    p :: igeDec D c p cs

/-- first half of the IV: the block xored into the first plaintext block (`c_0`) -/
def ivC (iv : Bytes) : Bytes := iv.take 16
/-- second half of the IV: the block xored onto the first cipher output (`p_0`) -/
def ivP (iv : Bytes) : Bytes := iv.drop 16

/-- the first `n` 16-byte blocks of a byte string -/
def chunks16 : Nat → Bytes → List Bytes
  | 0, _ => []
  | n + 1, bs => bs.take 16 :: chunks16 n (bs.drop 16)

/-- a byte string of length `16·k` as its `k` blocks -/
def blocksOf (data : Bytes) : List Bytes := chunks16 (data.length / 16) data

/-- IGE on byte strings whose length is a multiple of 16 (the specification the Go cipher is held to) -/
def igeEncBytes (E : Bytes → Bytes) (iv data : Bytes) : Bytes :=
  (igeEnc E (ivC iv) (ivP iv) (blocksOf data)).flatten

def igeDecBytes (D : Bytes → Bytes) (iv data : Bytes) : Bytes :=
  (igeDec D (ivC iv) (ivP iv) (blocksOf data)).flatten

end Mtv.Ige
