/-
  Mtv.Ige.Regs — the register/pointer model of /repo's `internal/aes_ige/ige_cipher.go`:
  `Cipher{block, v [3]AesBlock, t, x, y []byte}`, `NewCipher`, `doAES256IGEencrypt`,
  `doAES256IGEdecrypt`, `isCorrectData`, exactly as written.

  Memory is: the three 16-byte registers `v[0] v[1] v[2]`, the caller's input array (as 16-byte
  blocks) and the caller's output array. `t`, `x`, `y` are *slices*, i.e. pointers into that memory:
  either at a register or at a block of the caller's input. Every `xor(dst, src)` and
  `block.Encrypt(dst, src)` WRITES THROUGH the pointer `dst` — so a statement that scribbled on the
  caller's input, or a chaining register that is overwritten while still needed, is visible in the
  model: the input array of the final memory would differ, or the outputs from the third block on.

  The Go loop (encrypt; decrypt is the same with x/y exchanged and Decrypt for Encrypt):

      for i := 0; i < len(in); i += 16 {
          xor(c.x, in[i:i+16])            -- write through x
          c.block.Encrypt(c.t, c.x)       -- write through t
          xor(c.t, c.y)                   -- write through t
          c.x, c.y = c.t, in[i:i+16]      -- re-point: x aliases t, y aliases the caller's input
          copy(out[i:], c.t)
      }

  Boundaries of the model: the IV has 32 bytes and `out` has the length of `in` (every caller in
  /repo allocates it so; the harness does the same), `in` and `out` do not overlap (no caller aliases
  them). The block cipher under the key is a parameter. Core-only.
-/
import Mtv.Ige.Spec
namespace Mtv.Ige
open Mtv

inductive Reg | v0 | v1 | v2
  deriving DecidableEq, Repr

/-- a 16-byte slice: one of the cipher's own registers or the `i`-th block of the caller's input -/
inductive Ptr
  | reg (r : Reg)
  | inBlk (i : Nat)
  deriving DecidableEq, Repr

structure Mem where
  v0 : Bytes
  v1 : Bytes
  v2 : Bytes
  /-- the caller's input array, as blocks -/
  inp : List Bytes
  /-- the caller's output array, as blocks -/
  out : List Bytes

def Mem.read (m : Mem) : Ptr → Bytes
  | .reg .v0 => m.v0
  | .reg .v1 => m.v1
  | .reg .v2 => m.v2
  | .inBlk i => m.inp.getD i []

def Mem.write (m : Mem) (p : Ptr) (val : Bytes) : Mem :=
  match p with
  | .reg .v0 => { m with v0 := val }
  | .reg .v1 => { m with v1 := val }
  | .reg .v2 => { m with v2 := val }
  | .inBlk i => { m with inp := m.inp.set i val }

/-- `copy(out[16*i:], blk)` for a 16-byte `blk` and an `out` at least `16*(i+1)` long -/
def Mem.setOut (m : Mem) (i : Nat) (blk : Bytes) : Mem := { m with out := m.out.set i blk }

structure Cipher where
  mem : Mem
  t : Ptr
  x : Ptr
  y : Ptr

/-- `NewCipher(key, iv)` followed by binding the caller's arrays: `t = v[0][:]`, `x = v[1][:]`,
`y = v[2][:]`, `copy(x, iv[:16])`, `copy(y, iv[16:])`. -/
def newCipher (iv : Bytes) (inp out : List Bytes) : Cipher :=
  { mem := { v0 := zeros 16, v1 := iv.take 16, v2 := iv.drop 16, inp := inp, out := out }
    t := .reg .v0, x := .reg .v1, y := .reg .v2 }

/-- one iteration of the loop of `doAES256IGEencrypt`, statement by statement -/
def encStep (E : Bytes → Bytes) (c : Cipher) (i : Nat) : Cipher :=
  let m1 := c.mem.write c.x (xorB (c.mem.read c.x) (c.mem.read (.inBlk i)))   -- xor(c.x, in[i:i+16])
  let m2 := m1.write c.t (E (m1.read c.x))                                      -- c.block.Encrypt(c.t, c.x)
  let m3 := m2.write c.t (xorB (m2.read c.t) (m2.read c.y))                     -- xor(c.t, c.y)
  let c' : Cipher := { mem := m3, t := c.t, x := c.t, y := .inBlk i }          -- c.x, c.y = c.t, in[i:i+16]
  { c' with mem := c'.mem.setOut i (c'.mem.read c'.t) }                         -- copy(out[i:], c.t)

/-- one iteration of the loop of `doAES256IGEdecrypt`, statement by statement -/
def decStep (D : Bytes → Bytes) (c : Cipher) (i : Nat) : Cipher :=
  let m1 := c.mem.write c.y (xorB (c.mem.read c.y) (c.mem.read (.inBlk i)))   -- xor(c.y, in[i:i+16])
  let m2 := m1.write c.t (D (m1.read c.y))                                      -- c.block.Decrypt(c.t, c.y)
  let m3 := m2.write c.t (xorB (m2.read c.t) (m2.read c.x))                     -- xor(c.t, c.x)
  let c' : Cipher := { mem := m3, t := c.t, y := c.t, x := .inBlk i }          -- c.y, c.x = c.t, in[i:i+16]
  { c' with mem := c'.mem.setOut i (c'.mem.read c'.t) }                         -- copy(out[i:], c.t)

/-- `k` iterations starting with block index `i` -/
def encLoop (E : Bytes → Bytes) : Nat → Nat → Cipher → Cipher
  | 0, _, c => c
  | k + 1, i, c => encLoop E k (i + 1) (encStep E c i)

def decLoop (D : Bytes → Bytes) : Nat → Nat → Cipher → Cipher
  | 0, _, c => c
  | k + 1, i, c => decLoop D k (i + 1) (decStep D c i)

inductive IgeErr
  | tooSmall       -- ErrDataTooSmall
  | notDivisible   -- ErrDataNotDivisible
  deriving DecidableEq, Repr

/-- `isCorrectData`: `len < 16` is "too small", otherwise `len % 16 != 0` is "not divisible" -/
def isCorrectData (data : Bytes) : Option IgeErr :=
  if data.length < 16 then some .tooSmall
  else if data.length % 16 ≠ 0 then some .notDivisible
  else none

/-- what the caller can observe after the call: the error, its input buffer, its output buffer -/
structure IgeResult where
  err : Option IgeErr
  data : Bytes
  out : Bytes
  deriving DecidableEq, Repr

/-- the register model run on blocks -/
def runEnc (E : Bytes → Bytes) (iv : Bytes) (inp out : List Bytes) : Cipher :=
  encLoop E inp.length 0 (newCipher iv inp out)

def runDec (D : Bytes → Bytes) (iv : Bytes) (inp out : List Bytes) : Cipher :=
  decLoop D inp.length 0 (newCipher iv inp out)

/-- package-level `doAES256IGEencrypt(data, out, key, iv)` with `E = AES_key`; `out0` is the content
of the caller's output buffer before the call (`len out0 = len data`). -/
def doEncrypt (E : Bytes → Bytes) (iv data out0 : Bytes) : IgeResult :=
  match isCorrectData data with
  | some e => ⟨some e, data, out0⟩
  | none =>
    let c := runEnc E iv (blocksOf data) (blocksOf out0)
    ⟨none, c.mem.inp.flatten, c.mem.out.flatten⟩

/-- package-level `doAES256IGEdecrypt(data, out, key, iv)` with `D = AES_key⁻¹` -/
def doDecrypt (D : Bytes → Bytes) (iv data out0 : Bytes) : IgeResult :=
  match isCorrectData data with
  | some e => ⟨some e, data, out0⟩
  | none =>
    let c := runDec D iv (blocksOf data) (blocksOf out0)
    ⟨none, c.mem.inp.flatten, c.mem.out.flatten⟩

end Mtv.Ige
