/-
  Mtv.Ige.Wrap — the padding wrappers of /repo's `internal/aes_ige/aes.go` around the IGE cipher:

  * `MessageKey`, `generateAESIGE` (the MTProto 1.0 key schedule, needed to run `Encrypt`/`Decrypt`),
    `Encrypt` (zero padding `(16 - len%16) & 15`), `Decrypt`;
  * `generateTempKeys` over `Nat` nonces, `big.Int.Bytes()` modelled as the minimal big-endian
    representation, with the repaired fixed-width conversion (`pending_fixes/C05-tempkeys-fixed-width`);
  * `EncryptMessageWithTempKeys` (padding bytes are an input: the stream `dry.RandomBytes` would
    deliver) and `DecryptMessageWithTempKeys` with its cut-point search, as repaired by
    `pending_fixes/C05-tempwrap-pad-0-15` and `pending_fixes/C05-tempwrap-cut-0-15`.

  The block cipher (`E D : key → block → block`) and SHA-1 (`H`) are parameters. Where the Go code
  panics the model returns `Outcome.panic`, where it returns an error `Outcome.err`.
  The code as it was before the repairs is in `Mtv.Ige.Orig`. Core-only.
-/
import Mtv.Ige.Regs
namespace Mtv.Ige
open Mtv

/-- Go `b[lo:hi]` for `lo ≤ hi ≤ len b` -/
def slice (b : Bytes) (lo hi : Nat) : Bytes := (b.drop lo).take (hi - lo)

/-- Go `copy(dst[off:], src)` for `off ≤ len dst`: overwrite as many bytes as fit -/
def copyAt (dst : Bytes) (off : Nat) (src : Bytes) : Bytes :=
  let n := min src.length (dst.length - off)
  dst.take off ++ src.take n ++ dst.drop (off + n)

def errName : IgeErr → String
  | .tooSmall => "toosmall"
  | .notDivisible => "notdivisible"

/-! ### message level: `Encrypt` / `Decrypt` -/

/-- `MessageKey(msg) = SHA1(msg)[4:20]` -/
def messageKey (H : Bytes → Bytes) (msg : Bytes) : Bytes := slice (H msg) 4 20

/-- `generateAESIGE(msg_key, auth_key, decode)`; panics when the auth key is shorter than
`96 + x + 32` bytes. -/
def generateAESIGE (H : Bytes → Bytes) (msgKey authKey : Bytes) (decode : Bool) : Outcome (Bytes × Bytes) :=
  let x := if decode then 8 else 0
  if authKey.length < 96 + x + 32 then .panic "generateAESIGE" else
  let a := H (msgKey ++ slice authKey x (x + 32))
  let b := H (slice authKey (32 + x) (32 + x + 16) ++ msgKey ++ slice authKey (48 + x) (48 + x + 16))
  let c := H (slice authKey (64 + x) (64 + x + 32) ++ msgKey)
  let d := H (msgKey ++ slice authKey (96 + x) (96 + x + 32))
  .ok (slice a 0 8 ++ slice b 8 20 ++ slice c 4 16,
       slice a 8 20 ++ slice b 0 8 ++ slice c 16 20 ++ slice d 0 8)

/-- the key schedule as `Encrypt` / `Decrypt` reach it: behind `checkAuthKey`, which answers a key the schedule
cannot work with by an error (the panic of `generateAESIGE` is not reachable from there) -/
def keysG (H : Bytes → Bytes) (msgKey authKey : Bytes) (decode : Bool) : Outcome (Bytes × Bytes) :=
  if authKey.length < 96 + (if decode then 8 else 0) + 32 then .err "shortKey"
  else generateAESIGE H msgKey authKey decode

/-- the zero padding of `Encrypt`: `make([]byte, len(msg)+((16-(len(msg)%16))&15))` + `copy` -/
def padZero (msg : Bytes) : Bytes := msg ++ zeros ((16 - msg.length % 16) &&& 15)

/-- `Encrypt(msg, key)` -/
def encryptMsg (H : Bytes → Bytes) (E : Bytes → Bytes → Bytes) (msg key : Bytes) : Outcome Bytes :=
  match keysG H (messageKey H msg) key false with
  | .panic s => .panic s
  | .err e => .err e
  | .ok (aesKey, aesIV) =>
    let data := padZero msg
    let r := doEncrypt (E aesKey) aesIV data (zeros data.length)
    match r.err with
    | some e => .err (errName e)
    | none => .ok r.out

/-- `Decrypt(msg, key, checkData)` -/
def decryptMsg (H : Bytes → Bytes) (D : Bytes → Bytes → Bytes) (msg key msgKey : Bytes) : Outcome Bytes :=
  match keysG H msgKey key true with
  | .panic s => .panic s
  | .err e => .err e
  | .ok (aesKey, aesIV) =>
    let r := doDecrypt (D aesKey) aesIV msg (zeros msg.length)
    match r.err with
    | some e => .err (errName e)
    | none => .ok r.out

/-! ### `math/big` byte conversions -/

/-- minimal little-endian digits of `n` (fuel `f ≥ n` is always enough) -/
def leMinF : Nat → Nat → Bytes
  | 0, _ => []
  | f + 1, n => if n = 0 then [] else UInt8.ofNat (n % 256) :: leMinF f (n / 256)

/-- `big.Int.Bytes()`: big-endian, no leading zero byte, empty for 0 -/
def bigBytes (n : Nat) : Bytes := (leMinF n n).reverse

/-- the repaired conversion (`fixedBytes` in aes.go): left-pad `x.Bytes()` with zeros to `w` bytes;
a longer value is returned as it is (the `copy` that consumes it keeps what fits, as before). -/
def fixedBytes (x w : Nat) : Bytes :=
  let b := bigBytes x
  if w ≤ b.length then b else zeros (w - b.length) ++ b

/-! ### key exchange level: temp keys and the SHA-1 + padding wrapper -/

/-- `t1`: `make([]byte, 48)`, `copy(t1[0:], nonceSecond)`, `copy(t1[32:], nonceServer)` -/
def tempT1 (nb sb : Bytes) : Bytes := copyAt (copyAt (zeros 48) 0 nb) 32 sb
/-- `t2`: `make([]byte, 48)`, `copy(t2[0:], nonceServer)`, `copy(t2[16:], nonceSecond)` -/
def tempT2 (nb sb : Bytes) : Bytes := copyAt (copyAt (zeros 48) 0 sb) 16 nb
/-- `t3`: `make([]byte, 64)`, `copy(t3[0:], nonceSecond)`, `copy(t3[32:], nonceSecond)` -/
def tempT3 (nb : Bytes) : Bytes := copyAt (copyAt (zeros 64) 0 nb) 32 nb

/-- `generateTempKeys(nonceSecond, nonceServer)` with the buffers and `copy`s of the Go code,
given the byte strings the two nonces are converted to -/
def tempKeysOfBytes (H : Bytes → Bytes) (nb sb : Bytes) : Bytes × Bytes :=
  let hash1 := H (tempT1 nb sb)                            -- SHA1 of nonceSecond + nonceServer
  let hash2 := H (tempT2 nb sb)                            -- SHA1 of nonceServer + nonceSecond
  let key := copyAt (copyAt (zeros 32) 0 hash1) 20 (slice hash2 0 12)
  let hash3 := H (tempT3 nb)                               -- SHA1 of nonceSecond + nonceSecond
  let iv := copyAt (copyAt (copyAt (zeros 32) 0 (slice hash2 12 20)) 8 hash3) 28 (slice nb 0 4)
  (key, iv)

/-- repaired `generateTempKeys`: 32-byte / 16-byte fixed-width big-endian nonces -/
def generateTempKeys (H : Bytes → Bytes) (nonceSecond nonceServer : Nat) : Bytes × Bytes :=
  tempKeysOfBytes H (fixedBytes nonceSecond 32) (fixedBytes nonceServer 16)

/-- `encryptMessageWithTempKeys`: IGE under the temp keys; `check(err)` panics on a refused length -/
def encryptTempNoPad (H : Bytes → Bytes) (E : Bytes → Bytes → Bytes) (data : Bytes) (n s : Nat) : Outcome Bytes :=
  let (key, iv) := generateTempKeys H n s
  let r := doEncrypt (E key) iv data (zeros data.length)
  match r.err with
  | some _ => .panic "check"                               -- check(err)
  | none => .ok r.out

/-- number of padding bytes `EncryptMessageWithTempKeys` appends after the repair: 0..15 -/
def tempPadLen (total : Nat) : Nat := (16 - total % 16) % 16

/-- `EncryptMessageWithTempKeys(msg, nonceSecond, nonceServer)`; `rnd` is the stream of bytes
`dry.RandomBytes` delivers (at least 15 of them) -/
def encryptTemp (H : Bytes → Bytes) (E : Bytes → Bytes → Bytes) (msg : Bytes) (n s : Nat) (rnd : Bytes) : Outcome Bytes :=
  let hash := H msg
  let need := tempPadLen (hash.length + msg.length)
  encryptTempNoPad H E (hash ++ msg ++ rnd.take need) n s

/-- the cut-point search of `DecryptMessageWithTempKeys`: candidates `m[:len-pad]` for
`pad = pad₀, pad₀+1, …` (`tries` of them), the first whose SHA-1 equals `hash` wins. A candidate
index below 0 is Go's slice-bounds panic, no candidate left is the explicit
`panic("couldn't trim message…")`. -/
def cutSearch (H : Bytes → Bytes) (hash m : Bytes) : Nat → Nat → Outcome Bytes
  | 0, _ => .panic "DecryptMessageWithTempKeys"
  | tries + 1, pad =>
    if m.length < pad then .panic "DecryptMessageWithTempKeys"
    else if hash = H (m.take (m.length - pad)) then .ok (m.take (m.length - pad))
    else cutSearch H hash m tries (pad + 1)

/-- the part of `DecryptMessageWithTempKeys` after the temp keys are known -/
def decryptTempWith (H : Bytes → Bytes) (Dk : Bytes → Bytes) (iv msg : Bytes) (tries pad0 : Nat) : Outcome Bytes :=
  let r := doDecrypt Dk iv msg (zeros msg.length)
  match r.err with
  | some _ => .panic "check"                               -- check(err)
  | none =>
    if r.out.length < 20 then .panic "DecryptMessageWithTempKeys"   -- decodedWithHash[:20]
    else cutSearch H (r.out.take 20) (r.out.drop 20) tries pad0

/-- repaired `DecryptMessageWithTempKeys(msg, nonceSecond, nonceServer)`: 16 candidates, 0..15
bytes of padding -/
def decryptTemp (H : Bytes → Bytes) (D : Bytes → Bytes → Bytes) (msg : Bytes) (n s : Nat) : Outcome Bytes :=
  let (key, iv) := generateTempKeys H n s
  decryptTempWith H (D key) iv msg 16 0

/-! ### the MTProto definitions the wrappers are held to -/

/-- core.telegram.org/mtproto/auth_key, on the 32-byte `new_nonce` and the 16-byte `server_nonce`:
`tmp_aes_key = SHA1(new_nonce+server_nonce) + substr(SHA1(server_nonce+new_nonce), 0, 12)`,
`tmp_aes_iv = substr(SHA1(server_nonce+new_nonce), 12, 8) + SHA1(new_nonce+new_nonce) + substr(new_nonce, 0, 4)` -/
def tempKeySpec (H : Bytes → Bytes) (newNonce serverNonce : Bytes) : Bytes × Bytes :=
  (H (newNonce ++ serverNonce) ++ (H (serverNonce ++ newNonce)).take 12,
   ((H (serverNonce ++ newNonce)).drop 12).take 8 ++ H (newNonce ++ newNonce) ++ newNonce.take 4)

/-- what a conformant peer sends: `encrypted_answer = AES256_ige_encrypt(SHA1(answer) + answer +
(0-15 random bytes), tmp_aes_key, tmp_aes_iv)` — written with the *specification* cipher and key
derivation only -/
def conformantMsg (H : Bytes → Bytes) (E : Bytes → Bytes → Bytes) (newNonce serverNonce answer pad : Bytes) : Bytes :=
  let (key, iv) := tempKeySpec H newNonce serverNonce
  igeEncBytes (E key) iv (H answer ++ answer ++ pad)

/-- The cryptographic assumption under which the cut-point search is correct: none of the *longer*
candidates (the answer followed by a non-empty prefix of its padding), which the search tries before
the right one, has the SHA-1 of the answer. -/
def NoLongerCollision (H : Bytes → Bytes) (answer pad : Bytes) : Prop :=
  ∀ k, 0 < k → k ≤ pad.length → H (answer ++ pad.take k) ≠ H answer

end Mtv.Ige
