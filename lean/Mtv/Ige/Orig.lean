/-
  Mtv.Ige.Orig — the three places of `internal/aes_ige/aes.go` as they were BEFORE the C05 repairs
  (tree b46e0dc), kept so that the defects D4 are stated and proved on the model and not only
  described:

  * `generateTempKeysOrig`: `nonce.Bytes()` (minimal length) copied at fixed offsets, and
    `nonceSecond.Bytes()[0:4]`;
  * `encryptTempOrig`: `needToAdd = 16 - (20+len)%16`, i.e. 16 bytes when already aligned;
  * `decryptTempOrig`: cut points `len-1 … len-15` only.

  They share every helper with the repaired model (`Mtv.Ige.Wrap`) and differ from it only in the
  conversion function and in two pairs of numbers. They are tied to the code by the witnesses in
  `corpus/c05.ops`, which fail on the unrepaired tree in exactly the way these definitions say.
  Core-only.
-/
import Mtv.Ige.Wrap
namespace Mtv.Ige
open Mtv

/-- `generateTempKeys` before the repair; `nonceSecond.Bytes()[0:4]` panics below 2^24 -/
def generateTempKeysOrig (H : Bytes → Bytes) (nonceSecond nonceServer : Nat) : Outcome (Bytes × Bytes) :=
  if (bigBytes nonceSecond).length < 4 then .panic "generateTempKeys"
  else .ok (tempKeysOfBytes H (bigBytes nonceSecond) (bigBytes nonceServer))

/-- padding length before the repair: 1..16 -/
def tempPadLenOrig (total : Nat) : Nat := 16 - total % 16

def encryptTempOrig (H : Bytes → Bytes) (Ek : Bytes → Bytes) (iv msg rnd : Bytes) : Outcome Bytes :=
  let hash := H msg
  let data := hash ++ msg ++ rnd.take (tempPadLenOrig (hash.length + msg.length))
  let r := doEncrypt Ek iv data (zeros data.length)
  match r.err with
  | some _ => .panic "check"
  | none => .ok r.out

/-- `DecryptMessageWithTempKeys` before the repair: 15 candidates, 1..15 bytes of padding -/
def decryptTempOrig (H : Bytes → Bytes) (Dk : Bytes → Bytes) (iv msg : Bytes) : Outcome Bytes :=
  decryptTempWith H Dk iv msg 15 1

end Mtv.Ige
