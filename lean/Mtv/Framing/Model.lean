/-
  Transport framing: model of internal/mode (abridged.go, intermediate.go, mode.go) and of the
  frame-level part of internal/transport/transport.go (`ReadMsg`), over a connection whose `Read(p)`
  is an exact-count read (go-dry CancelableReader + io.ReadFull, conn_tcp.go).
-/
import Mtv.Basic
import Mtv.Envelope.Unenc
namespace Mtv.Framing

inductive RErr where
  | eof        -- io.EOF: nothing left
  | uerr       -- io.ErrUnexpectedEOF: stream ended inside the item
  | notSupported   -- mode.ErrModeNotSupported
  | ambiguous      -- mode.ErrAmbiguousModeAnnounce
  deriving Repr, DecidableEq

inductive Mode where
  | abridged | intermediate
  deriving Repr, DecidableEq

/-! ### the connection: exact-count reads -/

/-- `io.ReadFull` over a TCP stream that hands out the bytes in arbitrary segments: each
underlying `Read` returns at most the head segment. `acc` is what has been read so far. -/
def readFullSegs : Nat → Bytes → List Bytes → Except RErr (Bytes × List Bytes)
  | n, acc, [] => if n = 0 then .ok (acc, []) else if acc = [] then .error .eof else .error .uerr
  | n, acc, seg :: rest =>
    if n = 0 then .ok (acc, seg :: rest)
    else if seg.length ≤ n then readFullSegs (n - seg.length) (acc ++ seg) rest
    else .ok (acc ++ seg.take n, seg.drop n :: rest)

/-- The same read on the concatenated stream. -/
def readN (n : Nat) (s : Bytes) : Except RErr (Bytes × Bytes) :=
  if n = 0 then .ok ([], s)
  else if s = [] then .error .eof
  else if s.length < n then .error .uerr
  else .ok (s.take n, s.drop n)

/-! ### write side -/

def announce : Mode → Bytes
  | .abridged => [0xef]
  | .intermediate => [0xee, 0xee, 0xee, 0xee]

/-- `abridged.WriteMsg`; `none` = `ErrNotMultiple`. The three length bytes are
`byte(w), byte(w>>8), byte(w>>16)`, i.e. `w` reduced mod 2^24. -/
def abridgedFrame (m : Bytes) : Option Bytes :=
  if m.length % 4 ≠ 0 then none
  else
    let w := m.length / 4
    if w < 127 then some (UInt8.ofNat w :: m)
    else some (0x7f :: (leBytes w 3 ++ m))

/-- `intermediate.WriteMsg`: `uint32(len)` little-endian. -/
def intermediateFrame (m : Bytes) : Bytes := leBytes m.length 4 ++ m

def frame : Mode → Bytes → Option Bytes
  | .abridged, m => abridgedFrame m
  | .intermediate, m => some (intermediateFrame m)

/-- what a message must satisfy for the format to carry it -/
def Fits : Mode → Bytes → Prop
  | .abridged, m => m.length % 4 = 0 ∧ m.length / 4 < 2 ^ 24
  | .intermediate, m => m.length < 2 ^ 32

instance (md : Mode) (m : Bytes) : Decidable (Fits md m) := by
  cases md <;> unfold Fits <;> exact inferInstance

/-! ### read side -/

def abridgedRead (s : Bytes) : Except RErr (Bytes × Bytes) :=
  match readN 1 s with
  | .error e => .error e
  | .ok (h, s1) =>
    if h = [0x7f] then
      match readN 3 s1 with
      | .error e => .error e
      | .ok (l, s2) => readN (fromLE l * 4) s2
    else readN (fromLE h * 4) s1

def intermediateRead (s : Bytes) : Except RErr (Bytes × Bytes) :=
  match readN 4 s with
  | .error e => .error e
  | .ok (l, s1) => readN (fromLE l) s1

def readFrame : Mode → Bytes → Except RErr (Bytes × Bytes)
  | .abridged => abridgedRead
  | .intermediate => intermediateRead

/-- `mode.Detect` -/
def detect (s : Bytes) : Except RErr (Mode × Bytes) :=
  match readN 1 s with
  | .error e => .error e
  | .ok (h, s1) =>
    if h = [0xef] then .ok (.abridged, s1)
    else if h = [0xee] then
      match readN 3 s1 with
      | .error e => .error e
      | .ok (r, s2) => if r = [0xee, 0xee, 0xee] then .ok (.intermediate, s2) else .error .ambiguous
    else .error .notSupported

/-- read frames until the first error (fuel = an upper bound on the number of frames) -/
def readAll (md : Mode) : Nat → Bytes → List Bytes × RErr
  | 0, _ => ([], .uerr)
  | fuel + 1, s =>
    match readFrame md s with
    | .error e => ([], e)
    | .ok (m, s') => let (ms, e) := readAll md fuel s'; (m :: ms, e)

/-! ### transport.ReadMsg at frame level -/

inductive Item where
  | msg (msgId : Nat) (body : Bytes)
  | code (c : Int)            -- transport error code frame
  | bad (why : String)        -- frame refused by the envelope parser
  | enc (frame : Bytes)       -- encrypted frame (handled by the envelope model, C03/C04)
  deriving Repr, DecidableEq

/-- what `transport.ReadMsg` does with one frame: a four-byte frame is a signed error code. -/
def classify (data : Bytes) : Item :=
  if data.length = 4 then .code (toSigned 32 (fromLE data))
  else if Unenc.isEncrypted data then .enc data
  else match Unenc.deserialize data with
    | .ok (mid, body) => .msg mid body
    | .error .parity => .bad "parity"
    | .error .length => .bad "length"

def transportReadAll (md : Mode) (fuel : Nat) (s : Bytes) : List Item × RErr :=
  let (fs, e) := readAll md fuel s
  (fs.map classify, e)

end Mtv.Framing
