/-
  Mtv.Links.Resolve — model of `telegram/deeplinks`: `Resolve`, `resolveHttpLink`, `fixURLHost`,
  `matchPath`, the two path templates with their converters, on an already parsed URL
  (`resolveParsed`: Scheme, Host, Path as `url.Parse` left them) and on the link string
  (`resolveString` = `UrlLite.parse` then `resolveParsed`). Core-only.

  The model mirrors what the Go code does, on the code **as repaired for defect D16**
  (`fixURLHost` handles a path without '/'); `fixURLHostOld` / `resolveParsedOld` keep the unrepaired
  function so that the former panic stays a checked statement (`d16_unrepaired_panics`).
  Go's run-time checks are kept where the code indexes or slices: `sliceTo` / `sliceFrom` in
  `fixURLHost`, the lock-step walk of `matchItems` for `pathItems[i]`.

  Not modelled: `u.Query()` (evaluated and thrown away by both converters), the text of error
  messages (only a class), `resolveTgLink` beyond "always the error `not implemented`".
-/
import Mtv.Links.UrlLite
namespace Mtv.Links
open Mtv

/-- the two results `Resolve` can produce today -/
inductive Deeplink where
  /-- `&ResolveParameters{Domain: d}` (all other fields zero) -/
  | resolve (domain : Bytes)
  /-- `&JoinParameters{Invite: t}` -/
  | join (invite : Bytes)
  deriving Repr, DecidableEq

/-- `ReservedHosts()` — regenerated from the working tree on every run -/
def reservedHosts : List Bytes := Mtv.Gen.Links.reservedHosts

/-- `stringListContains` -/
def stringListContains (l : List Bytes) (s : Bytes) : Bool := l.contains s

/-! ### fixURLHost -/

/-- `fixURLHost` as repaired: (Host, Path) after the call. A scheme-less link arrives from `url.Parse`
with everything in Path; the part before the first '/' becomes the host; without any '/' the whole
path is the host and the path is empty. -/
def fixURLHost (host path : Bytes) : Outcome (Bytes × Bytes) :=
  if host ≠ [] then .ok (host, path)
  else if hasPrefix path [47] || path = [] then .ok (host, path)
  else
    let i := indexByte path 47
    if i = -1 then .ok (path, [])
    else
      match sliceTo "telegram/deeplinks.fixURLHost" path i, sliceFrom "telegram/deeplinks.fixURLHost" path i with
      | .ok h, .ok p => .ok (h, p)
      | .panic s, _ => .panic s
      | _, .panic s => .panic s
      | .err e, _ => .err e
      | _, .err e => .err e

/-- `fixURLHost` before the repair: `u.Path[:i]` with `i = -1` -/
def fixURLHostOld (host path : Bytes) : Outcome (Bytes × Bytes) :=
  if host ≠ [] then .ok (host, path)
  else if hasPrefix path [47] || path = [] then .ok (host, path)
  else
    let i := indexByte path 47
    match sliceTo "telegram/deeplinks.fixURLHost" path i, sliceFrom "telegram/deeplinks.fixURLHost" path i with
    | .ok h, .ok p => .ok (h, p)
    | .panic s, _ => .panic s
    | _, .panic s => .panic s
    | .err e, _ => .err e
    | _, .err e => .err e

/-! ### matchPath -/

/-- a Go `map[string]string` built by successive assignments -/
abbrev Vars := List (Bytes × Bytes)

def Vars.set (m : Vars) (k v : Bytes) : Vars := (k, v) :: m.filter (fun kv => kv.1 ≠ k)
def Vars.get? (m : Vars) (k : Bytes) : Option Bytes := m.lookup k

/-- `stringsTrimSuffixPrefix("{", s, "}")` -/
def trimBraces (s : Bytes) : Bytes := trimSuffix (trimPrefix s [123]) [125]

/-- the loop of `matchPath` over the template items, reading `pathItems[i]` in lock step; running out
of path items is the index-out-of-range panic of `pathItems[i]` -/
def matchItems : List Bytes → List Bytes → Vars → Outcome (Option Vars)
  | [], _, res => .ok (some res)
  | _ :: _, [], _ => .panic "telegram/deeplinks.matchPath"
  | t :: ts, p :: ps, res =>
    if !hasPrefix t [123] || !hasSuffix t [125] then
      (if t ≠ p then .ok none else matchItems ts ps res)
    else matchItems ts ps (res.set (trimBraces t) p)

/-- `matchPath(tpl, path)`: `ok none` = `(nil, false)`, `ok (some vars)` = `(vars, true)` -/
def matchPath (tpl path : Bytes) : Outcome (Option Vars) :=
  if !(tpl.any (fun c => c = 123 || c = 125)) then
    (if tpl = path then .ok (some []) else .ok none)
  else if !hasPrefix tpl [47] || !hasPrefix path [47] then .ok none
  else
    let tplItems := splitByte 47 tpl
    let pathItems := splitByte 47 path
    if tplItems.length ≠ pathItems.length then .ok none
    else matchItems tplItems pathItems []

/-! ### the template table of resolveHttpLink -/

structure Template where
  tpl : Bytes
  conv : Vars → Outcome Deeplink

/-- `"/joinchat/{token}"` and its converter -/
def tplJoin : Template where
  tpl := lit "/joinchat/{token}"
  conv := fun vars =>
    match vars.get? (lit "token") with
    | none => .err "token"
    | some token => if token = [] then .err "token" else .ok (.join token)

/-- `"/{username}"` and its converter -/
def tplUser : Template where
  tpl := lit "/{username}"
  conv := fun vars =>
    match vars.get? (lit "username") with
    | none => .err "username"
    | some username => if username = [] then .err "username" else .ok (.resolve (toLower username))

/-- `for tpl, f := range map[...]{...}`: the first template (in the order the map happens to be
iterated) that matches decides; no match is the "does not look valid" error -/
def tryTemplates : List Template → Bytes → Outcome Deeplink
  | [], _ => .err "path"
  | t :: ts, path =>
    match matchPath t.tpl path with
    | .ok (some vars) => t.conv vars
    | .ok none => tryTemplates ts path
    | .err e => .err e
    | .panic s => .panic s

/-- `resolveHttpLink` with the map iterated in the given order -/
def resolveHttpWith (fix : Bytes → Bytes → Outcome (Bytes × Bytes)) (order : List Template)
    (host path : Bytes) : Outcome Deeplink :=
  match fix host path with
  | .ok (host', path') =>
    if !stringListContains reservedHosts (hostname host') then .err "host"
    else tryTemplates order path'
  | .err e => .err e
  | .panic s => .panic s

def resolveHttp (host path : Bytes) : Outcome Deeplink :=
  resolveHttpWith fixURLHost [tplJoin, tplUser] host path

/-- `Resolve` after a successful `url.Parse` -/
def resolveParsedWith (fix : Bytes → Bytes → Outcome (Bytes × Bytes)) (order : List Template)
    (scheme host path : Bytes) : Outcome Deeplink :=
  if scheme = [] ∨ scheme = lit "http" ∨ scheme = lit "https" then resolveHttpWith fix order host path
  else if scheme = lit "tg" then .err "tg"
  else .err "scheme"

/-- `Resolve` after a successful `url.Parse` (repaired code, one iteration order — which one is
immaterial: `template_order_irrelevant`) -/
def resolveParsed (scheme host path : Bytes) : Outcome Deeplink :=
  resolveParsedWith fixURLHost [tplJoin, tplUser] scheme host path

/-- the code before the D16 repair -/
def resolveParsedOld (scheme host path : Bytes) : Outcome Deeplink :=
  resolveParsedWith fixURLHostOld [tplJoin, tplUser] scheme host path

/-- `Resolve(link)` -/
def resolveString (link : Bytes) : Outcome Deeplink :=
  match parse link with
  | .error _ => .err "parse"
  | .ok u => resolveParsed u.scheme u.host u.path

/-! ### vocabulary of the property statements -/

/-- the schemes `Resolve` hands to `resolveHttpLink`: none, http, https (as `url.Parse` lower-cased them) -/
def OkScheme (scheme : Bytes) : Prop := scheme = [] ∨ scheme = lit "http" ∨ scheme = lit "https"

instance (s : Bytes) : Decidable (OkScheme s) := by unfold OkScheme; infer_instance

/-- How `url.Parse` presents the two link shapes of the property to the resolver, as (Host, Path), and
which host text `h` (possibly with a `:port`) and path `p` the link carries:
* with an authority (`http(s)://h/p`, also `//h/p`): Host = `h`, Path = `p`;
* scheme-less (`h/p` or a bare `h`): Host is empty and Path = `h ++ p`, where `h` contains no '/'. -/
inductive Presents : (host path h p : Bytes) → Prop where
  | withAuthority (h p : Bytes) : h ≠ [] → Presents h p h p
  | schemeless (h p : Bytes) : h ≠ [] → (47 : UInt8) ∉ h → (p = [] ∨ ∃ r, p = 47 :: r) →
      Presents [] (h ++ p) h p

end Mtv.Links
