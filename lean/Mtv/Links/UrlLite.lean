/-
  Mtv.Links.UrlLite — a Lean reading of Go's `net/url.Parse` (go1.23), as far as `deeplinks.Resolve`
  can observe it: the fields Scheme, Host, Path (plus Opaque, RawQuery, Fragment for the comparison)
  or the class of the error. It follows the Go source function by function (`Parse`, `parse`,
  `getScheme`, `parseAuthority`, `parseHost`, `unescape`, `shouldEscape`, `validOptionalPort`,
  `validUserinfo`, `stringContainsCTLByte`) and `(*URL).Hostname` / `splitHostPort`.

  This is standard-library behaviour: it is *modelled*, and compared with the real functions on
  every run (`c20.parse`, `c20.hostname`), not verified. Not represented: User, RawPath, RawFragment,
  ForceQuery, OmitHost (none of them is read by the resolver).
-/
import Mtv.Links.GoStr
namespace Mtv.Links
open Mtv

/-- what the resolver reads of a `*url.URL`, plus the fields used only for the comparison -/
structure Url where
  scheme : Bytes := []
  host : Bytes := []
  path : Bytes := []
  opaq : Bytes := []
  rawQuery : Bytes := []
  fragment : Bytes := []
  deriving Repr, DecidableEq

/-- error classes of `url.Parse` -/
inductive PErr where
  | ctl | noscheme | colon | port | bracket | escape | hostchar | userinfo
  deriving Repr, DecidableEq

inductive EscMode where
  | host | zone | path | userPassword | fragment
  deriving Repr, DecidableEq

/-- `stringContainsCTLByte` -/
def containsCTL (s : Bytes) : Bool := s.any (fun b => b.toNat < 0x20 || b.toNat = 0x7f)

/-- `validOptionalPort`: empty, or `:` followed by digits only -/
def validOptionalPort : Bytes → Bool
  | [] => true
  | c :: r => c = 58 && r.all isDigit

/-- `shouldEscape(c, encodeHost)` (identical for `encodeZone`) -/
def shouldEscapeHost (c : UInt8) : Bool :=
  !(isAlnum c || (lit "!$&'()*+,;=:[]<>\"").contains c || (lit "-_.~").contains c)

/-- first pass of `unescape`: every `%` is followed by two hex digits; the host / zone restrictions -/
def unescapeCheck (mode : EscMode) : Bytes → Except PErr Unit
  | [] => .ok ()
  | c :: rest =>
    if c = 37 then
      match rest with
      | a :: b :: rest' =>
        if isHex a && isHex b then
          if mode = .host ∧ unhex a < 8 ∧ ¬ (a = 50 ∧ b = 53) then .error .escape
          else if mode = .zone ∧ ¬ (a = 50 ∧ b = 53) ∧ unhex a * 16 + unhex b ≠ 0x20
                  ∧ shouldEscapeHost (UInt8.ofNat (unhex a * 16 + unhex b)) then .error .escape
          else unescapeCheck mode rest'
        else .error .escape
      | _ => .error .escape
    else if (mode = .host ∨ mode = .zone) ∧ c.toNat < 0x80 ∧ shouldEscapeHost c then .error .hostchar
    else unescapeCheck mode rest

/-- second pass of `unescape` (no mode here turns `+` into a space) -/
def unescapeBytes : Bytes → Bytes
  | [] => []
  | c :: rest =>
    if c = 37 then
      match rest with
      | a :: b :: rest' => UInt8.ofNat (unhex a * 16 + unhex b) :: unescapeBytes rest'
      | _ => c :: rest
    else c :: unescapeBytes rest

def unescape (mode : EscMode) (s : Bytes) : Except PErr Bytes :=
  match unescapeCheck mode s with
  | .ok () => .ok (unescapeBytes s)
  | .error e => .error e

/-- `getScheme` -/
def getSchemeAux (raw : Bytes) : Nat → Bytes → Except PErr (Bytes × Bytes)
  | _, [] => .ok ([], raw)
  | i, c :: cs =>
    if isAlpha c then getSchemeAux raw (i + 1) cs
    else if isDigit c || c = 43 || c = 45 || c = 46 then
      (if i = 0 then .ok ([], raw) else getSchemeAux raw (i + 1) cs)
    else if c = 58 then
      (if i = 0 then .error .noscheme else .ok (raw.take i, cs))
    else .ok ([], raw)

def getScheme (raw : Bytes) : Except PErr (Bytes × Bytes) := getSchemeAux raw 0 raw

/-- `validUserinfo` (any non-ASCII byte is refused: it ranges over runes) -/
def validUserinfo (s : Bytes) : Bool :=
  s.all (fun c => isAlnum c || (lit "-._:~!$&'()*+,;=%@").contains c)

/-- `parseHost` -/
def parseHost (host : Bytes) : Except PErr Bytes :=
  if hasPrefix host [91] then
    match lastIndexByteNat 93 host with
    | none => .error .bracket
    | some i =>
      if !validOptionalPort (host.drop (i + 1)) then .error .port
      else
        match indexSub (lit "%25") (host.take i) with
        | some zone => do
          let h1 ← unescape .host (host.take zone)
          let h2 ← unescape .zone ((host.take i).drop zone)
          let h3 ← unescape .host (host.drop i)
          pure (h1 ++ h2 ++ h3)
        | none => unescape .host host
  else
    match lastIndexByteNat 58 host with
    | some i => if !validOptionalPort (host.drop i) then .error .port else unescape .host host
    | none => unescape .host host

/-- `parseAuthority`: the host, after the user information has been validated -/
def parseAuthority (authority : Bytes) : Except PErr Bytes :=
  match lastIndexByteNat 64 authority with
  | none => parseHost authority
  | some i => do
    let host ← parseHost (authority.drop (i + 1))
    let userinfo := authority.take i
    if !validUserinfo userinfo then .error .userinfo
    else
      let (u, p, _) := cut 58 userinfo
      let _ ← unescape .userPassword u
      let _ ← unescape .userPassword p
      pure host

/-- `authority, rest = rest[2:], ""; if i := Index(authority, "/"); i >= 0 { … }` -/
def splitAuthority (authority0 : Bytes) : Bytes × Bytes :=
  match indexByteNat 47 authority0 with
  | some i => (authority0.take i, authority0.drop i)
  | none => (authority0, [])

/-- `parse` after `getScheme` and the lower-casing of the scheme -/
def parseRest (scheme rest0 : Bytes) : Except PErr Url :=
  -- `rest, RawQuery = Cut(rest, "?")`; the ForceQuery branch leaves the same visible fields
  let rest := (cut 63 rest0).1
  let rawQuery := (cut 63 rest0).2.1
  if !hasPrefix rest [47] ∧ scheme ≠ [] then
    .ok { scheme := scheme, opaq := rest, rawQuery := rawQuery }
  else if !hasPrefix rest [47] ∧ (cut 47 rest).1.contains 58 then .error .colon
  else if (scheme ≠ [] ∨ !hasPrefix rest [47, 47, 47]) ∧ hasPrefix rest [47, 47] then
    match parseAuthority (splitAuthority (rest.drop 2)).1 with
    | .error e => .error e
    | .ok host =>
      match unescape .path (splitAuthority (rest.drop 2)).2 with
      | .error e => .error e
      | .ok path => .ok { scheme := scheme, host := host, path := path, rawQuery := rawQuery }
  else
    match unescape .path rest with
    | .error e => .error e
    | .ok path => .ok { scheme := scheme, path := path, rawQuery := rawQuery }

/-- `parse(rawURL, viaRequest = false)` -/
def parseNoFrag (raw : Bytes) : Except PErr Url :=
  if containsCTL raw then .error .ctl
  else if raw = [42] then .ok { path := [42] }
  else
    match getScheme raw with
    | .error e => .error e
    | .ok (scheme0, rest0) => parseRest (scheme0.map asciiLowerByte) rest0

/-- `url.Parse` -/
def parse (raw : Bytes) : Except PErr Url :=
  let (u, frag, _) := cut 35 raw
  match parseNoFrag u with
  | .error e => .error e
  | .ok url =>
    if frag = [] then .ok url
    else
      match unescape .fragment frag with
      | .error e => .error e
      | .ok f => .ok { url with fragment := f }

/-- `(*URL).Hostname()` = `splitHostPort(u.Host)` without the port: a valid `:port` suffix is cut, then
one pair of square brackets is removed. -/
def hostname (host : Bytes) : Bytes :=
  let h :=
    match lastIndexByteNat 58 host with
    | some colon => if validOptionalPort (host.drop colon) then host.take colon else host
    | none => host
  if hasPrefix h [91] && hasSuffix h [93] then (h.drop 1).take (h.length - 2) else h

/-! ### the structured link grammar `[scheme "://"] host [":" port] ("/" seg)* ["?" q] ["#" f]` -/

/-- a link of the structured grammar, by its parts -/
structure SLink where
  /-- the scheme text written before `://`, if any -/
  scheme : Option Bytes := none
  host : Bytes
  /-- the digits after `:`, if any -/
  port : Option Bytes := none
  /-- empty, or `/seg/seg…` as written (percent-escapes not yet decoded) -/
  path : Bytes := []
  /-- the text after `?`, if any -/
  query : Option Bytes := none
  /-- the text after `#`, if any -/
  frag : Option Bytes := none

def optPart (sep : UInt8) : Option Bytes → Bytes
  | none => []
  | some x => sep :: x

/-- the link as a string -/
def SLink.render (l : SLink) : Bytes :=
  (match l.scheme with | some s => s ++ lit "://" | none => []) ++
    (l.host ++ (optPart 58 l.port ++ (l.path ++ (optPart 63 l.query ++ optPart 35 l.frag))))

def isCtl (c : UInt8) : Bool := c.toNat < 0x20 || c.toNat = 0x7f
/-- host characters of the grammar: letters, digits, `.`, `-` -/
def hostByte (c : UInt8) : Bool := isAlnum c || c = 46 || c = 45
/-- anything may be written in a path except `?`, `#` and control characters (`/` separates segments) -/
def pathByte (c : UInt8) : Bool := !(c = 63 || c = 35 || isCtl c)
/-- anything may be written in a query except `#` and control characters -/
def queryByte (c : UInt8) : Bool := !(c = 35 || isCtl c)

/-- well-formedness of a structured link -/
structure SLink.WF (l : SLink) : Prop where
  scheme_ok : ∀ s, l.scheme = some s → s ≠ [] ∧ s.all isAlpha = true
  host_ok : l.host.all hostByte = true
  port_ok : ∀ p, l.port = some p → p.all isDigit = true
  path_root : l.path = [] ∨ ∃ r, l.path = 47 :: r
  path_ok : l.path.all pathByte = true
  query_ok : ∀ q, l.query = some q → q.all queryByte = true
  /-- the fragment is any text whose percent-escapes are well-formed -/
  frag_ok : ∀ f, l.frag = some f → ∃ f', unescape .fragment f = .ok f'
  /-- the reading of DESIGN §7: `host:port/…` without a scheme is not a link shape; and a scheme-less
  link has a host (otherwise it is a bare path) -/
  schemeless_ok : l.scheme = none → l.port = none ∧ l.host ≠ []

/-- `SLink.WF` as a computable test (sound: `wf_of_wfB`) -/
def SLink.wfB (l : SLink) : Bool :=
  (match l.scheme with
   | none => l.port.isNone && !l.host.isEmpty
   | some s => !s.isEmpty && s.all isAlpha) &&
  l.host.all hostByte &&
  (match l.port with | none => true | some p => p.all isDigit) &&
  (match l.path with | [] => true | c :: _ => c = 47) &&
  l.path.all pathByte &&
  (match l.query with | none => true | some q => q.all queryByte) &&
  (match l.frag with
   | none => true
   | some f => match unescape .fragment f with | .ok _ => true | .error _ => false)

/-- the link is written with no scheme or with `http` / `https` in any letter case -/
def SLink.HttpLike (l : SLink) : Prop :=
  l.scheme = none ∨ ∃ s, l.scheme = some s ∧
    (s.map asciiLowerByte = lit "http" ∨ s.map asciiLowerByte = lit "https")

end Mtv.Links
