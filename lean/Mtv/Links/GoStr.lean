/-
  Mtv.Links.GoStr — the handful of Go `strings` / `unicode/utf8` functions the deeplinks resolver and
  `net/url.Parse` use, over byte strings (a Go `string` is a byte string). Core-only.

  Slicing is modelled with its run-time check (`sliceTo` / `sliceFrom` return `Outcome.panic` when the
  index is out of range), because that check is exactly where defect D16 lived.
-/
import Mtv.Basic
import Mtv.Gen.Links
namespace Mtv.Links
open Mtv

/-- an ASCII string literal as bytes (reduces by `decide` / `rfl`) -/
def lit (s : String) : Bytes := s.toList.map (fun c => UInt8.ofNat c.toNat)

/-! ### searching, cutting, splitting -/

/-- index of the first occurrence of `c` -/
def indexByteNat (c : UInt8) : Bytes → Option Nat
  | [] => none
  | x :: xs => if x = c then some 0 else (indexByteNat c xs).map (· + 1)

/-- `strings.IndexByte` / `strings.IndexRune` for an ASCII rune: `-1` when absent -/
def indexByte (s : Bytes) (c : UInt8) : Int :=
  match indexByteNat c s with
  | some i => (i : Int)
  | none => -1

/-- index of the last occurrence of `c` -/
def lastIndexByteNat (c : UInt8) : Bytes → Option Nat
  | [] => none
  | x :: xs =>
    match lastIndexByteNat c xs with
    | some i => some (i + 1)
    | none => if x = c then some 0 else none

/-- Go `s[:i]`, with the bounds check of the Go runtime -/
def sliceTo (site : String) (s : Bytes) (i : Int) : Outcome Bytes :=
  if 0 ≤ i ∧ i ≤ (s.length : Int) then .ok (s.take i.toNat) else .panic site

/-- Go `s[i:]`, with the bounds check of the Go runtime -/
def sliceFrom (site : String) (s : Bytes) (i : Int) : Outcome Bytes :=
  if 0 ≤ i ∧ i ≤ (s.length : Int) then .ok (s.drop i.toNat) else .panic site

def hasPrefix (s p : Bytes) : Bool := p.isPrefixOf s
def hasSuffix (s p : Bytes) : Bool := p.isSuffixOf s

def trimPrefix (s p : Bytes) : Bytes := if hasPrefix s p then s.drop p.length else s
def trimSuffix (s p : Bytes) : Bytes := if hasSuffix s p then s.take (s.length - p.length) else s

/-- `strings.Cut(s, sep)` for a one-byte separator: before, after, found -/
def cut (c : UInt8) (s : Bytes) : Bytes × Bytes × Bool :=
  match indexByteNat c s with
  | some i => (s.take i, s.drop (i + 1), true)
  | none => (s, [], false)

/-- `strings.Split(s, sep)` for a one-byte separator (never the empty list) -/
def splitByte (c : UInt8) : Bytes → List Bytes
  | [] => [[]]
  | x :: xs =>
    if x = c then [] :: splitByte c xs
    else
      match splitByte c xs with
      | [] => [[x]]
      | h :: t => (x :: h) :: t

/-- index of the first occurrence of the substring `p` (`strings.Index`) -/
def indexSub (p : Bytes) : Bytes → Option Nat
  | [] => if p = [] then some 0 else none
  | x :: xs => if p.isPrefixOf (x :: xs) then some 0 else (indexSub p xs).map (· + 1)

/-! ### character classes -/

def isUpperA (c : UInt8) : Bool := 65 ≤ c.toNat && c.toNat ≤ 90
def isLowerA (c : UInt8) : Bool := 97 ≤ c.toNat && c.toNat ≤ 122
def isAlpha (c : UInt8) : Bool := isUpperA c || isLowerA c
def isDigit (c : UInt8) : Bool := 48 ≤ c.toNat && c.toNat ≤ 57
def isAlnum (c : UInt8) : Bool := isAlpha c || isDigit c
def isHex (c : UInt8) : Bool :=
  isDigit c || (97 ≤ c.toNat && c.toNat ≤ 102) || (65 ≤ c.toNat && c.toNat ≤ 70)
def unhex (c : UInt8) : Nat :=
  if isDigit c then c.toNat - 48
  else if 97 ≤ c.toNat && c.toNat ≤ 102 then c.toNat - 87
  else if 65 ≤ c.toNat && c.toNat ≤ 70 then c.toNat - 55
  else 0

def asciiLowerByte (c : UInt8) : UInt8 := if isUpperA c then c + 32 else c

/-! ### UTF-8 (Go `unicode/utf8`) and `strings.ToLower` -/

def runeError : Nat := 0xFFFD

def isCont (b : UInt8) : Bool := 0x80 ≤ b.toNat && b.toNat ≤ 0xBF

/-- `utf8.DecodeRuneInString`: the rune and its width; an invalid or truncated sequence decodes to
`(RuneError, 1)`. -/
def decodeRune : Bytes → Nat × Nat
  | [] => (runeError, 0)
  | b0 :: rest =>
    let x := b0.toNat
    if x < 0x80 then (x, 1)
    else if 0xC2 ≤ x ∧ x ≤ 0xDF then
      match rest with
      | b1 :: _ => if isCont b1 then ((x % 32) * 64 + b1.toNat % 64, 2) else (runeError, 1)
      | _ => (runeError, 1)
    else if 0xE0 ≤ x ∧ x ≤ 0xEF then
      match rest with
      | b1 :: b2 :: _ =>
        let lo := if x = 0xE0 then 0xA0 else 0x80
        let hi := if x = 0xED then 0x9F else 0xBF
        if lo ≤ b1.toNat ∧ b1.toNat ≤ hi ∧ isCont b2 then
          ((x % 16) * 4096 + (b1.toNat % 64) * 64 + b2.toNat % 64, 3)
        else (runeError, 1)
      | _ => (runeError, 1)
    else if 0xF0 ≤ x ∧ x ≤ 0xF4 then
      match rest with
      | b1 :: b2 :: b3 :: _ =>
        let lo := if x = 0xF0 then 0x90 else 0x80
        let hi := if x = 0xF4 then 0x8F else 0xBF
        if lo ≤ b1.toNat ∧ b1.toNat ≤ hi ∧ isCont b2 ∧ isCont b3 then
          ((x % 8) * 262144 + (b1.toNat % 64) * 4096 + (b2.toNat % 64) * 64 + b3.toNat % 64, 4)
        else (runeError, 1)
      | _ => (runeError, 1)
    else (runeError, 1)

def decodeRunesAux : Nat → Bytes → List Nat
  | 0, _ => []
  | n + 1, s =>
    match s with
    | [] => []
    | _ :: _ => let (r, w) := decodeRune s; r :: decodeRunesAux n (s.drop w)

/-- the runes of `for _, r := range s` -/
def decodeRunes (s : Bytes) : List Nat := decodeRunesAux s.length s

/-- `utf8.AppendRune` -/
def encodeRune (r : Nat) : Bytes :=
  if r < 0x80 then [UInt8.ofNat r]
  else if r < 0x800 then [UInt8.ofNat (0xC0 + r / 64), UInt8.ofNat (0x80 + r % 64)]
  else if (0xD800 ≤ r ∧ r ≤ 0xDFFF) ∨ 0x10FFFF < r then [0xEF, 0xBF, 0xBD]
  else if r < 0x10000 then
    [UInt8.ofNat (0xE0 + r / 4096), UInt8.ofNat (0x80 + (r / 64) % 64), UInt8.ofNat (0x80 + r % 64)]
  else
    [UInt8.ofNat (0xF0 + r / 262144), UInt8.ofNat (0x80 + (r / 4096) % 64),
     UInt8.ofNat (0x80 + (r / 64) % 64), UInt8.ofNat (0x80 + r % 64)]

/-- image of `r` under the first run `(lo, hi, step, delta)` that covers it -/
def lookupRun (r : Nat) : List (Nat × Nat × Nat × Int) → Option Nat
  | [] => none
  | (lo, hi, step, delta) :: rest =>
    if lo ≤ r ∧ r ≤ hi ∧ (r - lo) % step = 0 then some ((r : Int) + delta).toNat else lookupRun r rest

/-- `unicode.ToLower`; the non-ASCII part of the table is regenerated from the Go toolchain on every
run (`Mtv.Gen.Links.lowerRuns`). -/
def lowerRune (r : Nat) : Nat :=
  if r < 0x80 then (if 65 ≤ r ∧ r ≤ 90 then r + 32 else r)
  else (lookupRun r Mtv.Gen.Links.lowerRuns).getD r

def isAscii (s : Bytes) : Bool := s.all (fun c => c.toNat < 0x80)

/-- `strings.ToLower`: byte-wise on ASCII strings, else `strings.Map(unicode.ToLower, s)` (every
invalid byte becomes U+FFFD). -/
def toLower (s : Bytes) : Bytes :=
  if isAscii s then s.map asciiLowerByte
  else (decodeRunes s).flatMap (fun r => encodeRune (lowerRune r))

end Mtv.Links
