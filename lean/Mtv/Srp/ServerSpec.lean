/-
  Mtv.Srp.ServerSpec — the SERVER side of Telegram's SRP variant, written from the protocol
  definition (https://core.telegram.org/api/srp), not from the client code. It is the judge of C18:
  a server that holds only the verifier `v` (never the password or `x`).

  From the definition ("| is concatenation, + is arithmetical; numbers are big-endian, padded to
  2048 bits"):
      H(data) := sha256(data)        SH(data, salt) := H(salt | data | salt)
      PH1(password, salt1, salt2) := SH(SH(password, salt1), salt2)
      PH2(password, salt1, salt2) := SH(pbkdf2(sha512, PH1(password, salt1, salt2), salt1, 100000), salt2)
      x := PH2(password, salt1, salt2)     v := pow(g, x) mod p           (sent once, at registration)
      k := H(p | g)
      server:  random b;  g_b = srp_B := (k*v + pow(g, b)) mod p
      client → server:  A = g_a,  M1
      u := H(g_a | g_b)
      server:  s_b := pow(g_a * pow(v, u), b) mod p;   k_b := H(s_b)
      M1 := H(H(p) xor H(g) | H(salt1) | H(salt2) | g_a | g_b | k_b);  accept iff equal.
  `p` is the byte string `algo.p` the server itself sent (256 bytes for Telegram's 2048-bit groups —
  the padded form then equals the field; for the toy groups used in the tie the field is taken as
  sent). `A` must be the 256-byte padded form.
  Core-only.
-/
import Mtv.Srp.Num
namespace Mtv.Srp

section
variable (H : Bytes → Bytes) (KDF : Bytes → Bytes → Bytes)

def specSH (data salt : Bytes) : Bytes := H (salt ++ data ++ salt)
def specPH1 (password salt1 salt2 : Bytes) : Bytes := specSH H (specSH H password salt1) salt2
def specPH2 (password salt1 salt2 : Bytes) : Bytes :=
  specSH H (KDF (specPH1 H password salt1 salt2) salt1) salt2

/-- what the server stores for an account with a password -/
structure Server where
  salt1 : Bytes
  salt2 : Bytes
  g : Nat
  pBytes : Bytes
  v : Nat
  deriving Repr, DecidableEq

/-- registration: the verifier of a password, `v = g^x mod p`, `x = PH2(password, salt1, salt2)` -/
def register (password salt1 salt2 : Bytes) (g : Nat) (pBytes : Bytes) : Server :=
  { salt1, salt2, g, pBytes,
    v := powMod g (fromBE (specPH2 H KDF password salt1 salt2)) (fromBE pBytes) }

def Server.p (sv : Server) : Nat := fromBE sv.pBytes

/-- `k := H(p | g)` -/
def Server.k (sv : Server) : Nat := fromBE (H (sv.pBytes ++ pad256 (toBE sv.g)))

/-- the number `B = (k·v + g^b) mod p` for the server's secret `b` -/
def Server.B (sv : Server) (b : Nat) : Nat := (sv.k H * sv.v + powMod sv.g b sv.p) % sv.p

/-- `srp_B` as sent: B in 256 big-endian bytes -/
def Server.srpB (sv : Server) (b : Nat) : Bytes := pad256 (toBE (sv.B H b))

/-- byte-wise xor of two equally long strings (the shorter length otherwise) -/
def specXor (a b : Bytes) : Bytes := List.zipWith (· ^^^ ·) a b

/-- the server's session secret `s_b = (A·v^u)^b mod p`, `u = H(g_a | g_b)` -/
def Server.secret (sv : Server) (b : Nat) (aBytes : Bytes) : Nat :=
  let A := fromBE aBytes
  let u := fromBE (H (pad256 (toBE A) ++ pad256 (toBE (sv.B H b))))
  powMod (A * powMod sv.v u sv.p) b sv.p

/-- what the server hashes to obtain its own `M1` for a received `A` -/
def Server.m1Pre (sv : Server) (b : Nat) (aBytes : Bytes) : Bytes :=
  let ga := pad256 (toBE (fromBE aBytes))
  let gb := pad256 (toBE (sv.B H b))
  let kb := H (pad256 (toBE (sv.secret H b aBytes)))
  specXor (H sv.pBytes) (H (pad256 (toBE sv.g))) ++ H sv.salt1 ++ H sv.salt2 ++ ga ++ gb ++ kb

/-- the server's own `M1` -/
def Server.m1 (sv : Server) (b : Nat) (aBytes : Bytes) : Bytes := H (sv.m1Pre H b aBytes)

/-- the server accepts `inputCheckPasswordSRP{A, M1}` iff `A` is a 256-byte string and `M1` is the
value it computes itself -/
def Server.accepts (sv : Server) (b : Nat) (aBytes m1 : Bytes) : Bool :=
  decide (aBytes.length = 256) && decide (m1 = sv.m1 H b aBytes)

end
end Mtv.Srp
