/-
  Mtv.Srp.Client — model of the client side of Telegram's 2FA SRP check as xelaj/mtproto computes it:
  telegram/internal/srp/2fa.go (`getInputCheckPassword`, `validateCurrentAlgo`, `passwordHash1/2`,
  `saltingHashing`, `pad256`) and telegram/srp.go (`GetInputCheckPassword`).
  Core-only. It mirrors what the Go code DOES, statement by statement.

  Parameters of the model (DESIGN §4): `H` = SHA-256 (`calcSHA256` of the concatenation of its
  arguments), `KDF pw salt` = `pbkdf2.Key(pw, salt, 100000, 64, sha512.New)`. The driver instantiates
  them with Mtv.Crypto; the theorems hold for every `H`, `KDF` (the only assumption used about `H` is
  that `H(p)` and `H(g)` have the same length, without which `dry.BytesXor` panics).

  Boundaries. `g` is the int32 field `G` read as a natural number: a negative `G` is outside the
  model (Telegram's groups have g ∈ {2,…,7}; the harness generates g ≥ 0 only). The password is the
  UTF-8 byte string of the Go `string` (Go compares and converts it bytewise).
-/
import Mtv.Srp.Num
namespace Mtv.Srp

/-- the fields of `srp.ModPow` (copied by srp.go from the `…SHA256ModPow` algorithm object) -/
structure Algo where
  salt1 : Bytes
  salt2 : Bytes
  g : Nat
  pBytes : Bytes
  deriving Repr, DecidableEq

/-- `*SrpAnswer`: `nil` (empty password) or (GA, M1) -/
inductive Answer where
  | none
  | srp (ga m1 : Bytes)
  deriving Repr, DecidableEq

section
variable (H : Bytes → Bytes) (KDF : Bytes → Bytes → Bytes)

/-- `saltingHashing(data, salt) = calcSHA256(salt, data, salt)` -/
def saltingHashing (data salt : Bytes) : Bytes := H (salt ++ data ++ salt)

/-- `passwordHash1` -/
def passwordHash1 (password salt1 salt2 : Bytes) : Bytes :=
  saltingHashing H (saltingHashing H password salt1) salt2

/-- `passwordHash2`: `saltingHashing(pbkdf2sha512(passwordHash1(password, salt1, salt2), salt1, 100000), salt2)` -/
def passwordHash2 (password salt1 salt2 : Bytes) : Bytes :=
  saltingHashing H (KDF (passwordHash1 H password salt1 salt2) salt1) salt2

/-- `validateCurrentAlgo`: `true` iff the Go function returns nil. `dhHandshakeCheckConfigIsError`
is a stub returning false (g and p are NOT checked by the code), so only B is examined:
`0 < B`, `B < p`, `248 ≤ len(srpB) ≤ 256`. -/
def validate (srpB : Bytes) (algo : Algo) : Bool :=
  !(decide (fromBE srpB ≤ 0) || decide (fromBE algo.pBytes ≤ fromBE srpB) ||
    decide (srpB.length < 248) || decide (srpB.length > 256))

/-- `t := B; if t.Sub(t, kv) < 0 { t.Add(t, p) }` — `B` is not reduced, one conditional add. The
value is an `Int` in the code; here the two branches are written so that the result is the `Nat`
the code holds whenever that value is non-negative (`B + p ≥ kv`; otherwise the `Nat` subtraction
truncates — see `Mtv.Srp.t_nonneg` for why this does not happen after `validate`). -/
def tValue (B kv p : Nat) : Nat := if B < kv then B + p - kv else B - kv

/-- the same three statements literally, over `Int` as `math/big` computes them:
`t := B; t.Sub(t, kv); if t.Cmp(0) == -1 { t.Add(t, p) }` -/
def tCode (B kv p : Int) : Int :=
  let t := B - kv
  if t < 0 then t + p else t

/-- the intermediate numbers of `getInputCheckPassword` after validation -/
structure Core where
  ga : Bytes
  gb : Bytes
  u : Nat
  x : Nat
  v : Nat
  k : Nat
  kv : Nat
  t : Nat
  s : Nat
  sa : Bytes
  ka : Bytes
  deriving Repr

/-- the body of `getInputCheckPassword` between validation and `M1`, with `x` given -/
def coreWithX (x : Nat) (srpB : Bytes) (algo : Algo) (random : Bytes) : Core :=
  let p := fromBE algo.pBytes
  let g := algo.g
  let gBytes := pad256 (toBE g)
  let a := fromBE random
  let ga := pad256 (toBE (powMod g a p))
  let gb := pad256 srpB
  let u := fromBE (H (ga ++ gb))
  let v := powMod g x p
  let k := fromBE (H (algo.pBytes ++ gBytes))
  let kv := (k * v) % p
  let t := tValue (fromBE srpB) kv p
  let s := powMod t (u * x + a) p
  let sa := pad256 (toBE s)
  let ka := H sa
  { ga, gb, u, x, v, k, kv, t, s, sa, ka }

/-- the argument list of the last `calcSHA256` call, concatenated -/
def m1Pre (xr : Bytes) (algo : Algo) (c : Core) : Bytes :=
  xr ++ H algo.salt1 ++ H algo.salt2 ++ c.ga ++ c.gb ++ c.ka

/-- `M1 := H(H(p) xor H(g) | H(salt1) | H(salt2) | g_a | g_b | k_a)` as the code computes it -/
def m1Of (algo : Algo) (c : Core) : Outcome Bytes :=
  match xorBytes (H algo.pBytes) (H (pad256 (toBE algo.g))) with
  | .ok xr => .ok (H (m1Pre H xr algo c))
  | .err e => .err e
  | .panic s => .panic s

/-- `getInputCheckPassword` with the password hash `x` supplied (the driver uses this form to avoid
recomputing PBKDF2 for every case of the same password and salts). -/
def answerWithX (password : Bytes) (x : Nat) (srpB : Bytes) (algo : Algo) (random : Bytes) :
    Outcome Answer :=
  if password = [] then .ok .none
  else if !validate srpB algo then .err "invalidB"
  else
    let c := coreWithX H x srpB algo random
    match m1Of H algo c with
    | .ok m1 => .ok (.srp c.ga m1)
    | .err e => .err e
    | .panic s => .panic s

/-- `x := bytesToBig(passwordHash2([]byte(password), salt1, salt2))` -/
def xOf (password : Bytes) (algo : Algo) : Nat :=
  fromBE (passwordHash2 H KDF password algo.salt1 algo.salt2)

/-- `getInputCheckPassword(password, srpB, mp, random)` of 2fa.go -/
def answer (password : Bytes) (srpB : Bytes) (algo : Algo) (random : Bytes) : Outcome Answer :=
  answerWithX H password (xOf H KDF password algo) srpB algo random

/-! ### telegram.GetInputCheckPassword (srp.go) -/

/-- `AccountPassword.CurrentAlgo`: the SRP algorithm object or anything else (`PasswordKdfAlgoUnknown`, nil) -/
inductive CurrentAlgo where
  | modPow (a : Algo)
  | other
  deriving Repr, DecidableEq

/-- `InputCheckPasswordSRP`: `*InputCheckPasswordEmpty` or `*InputCheckPasswordSRPObj{SRPID, A, M1}` -/
inductive InputCheck where
  | empty
  | obj (srpId : Int) (a m1 : Bytes)
  deriving Repr, DecidableEq

/-- the tail of `telegram.GetInputCheckPassword`: error wrapped, `nil` ↦ `InputCheckPasswordEmpty`,
otherwise `InputCheckPasswordSRPObj{SRPID: accountPassword.SRPID, A: res.GA, M1: res.M1}` -/
def wrapAnswer (srpId : Int) : Outcome Answer → Outcome InputCheck
  | .ok .none => .ok .empty
  | .ok (.srp ga m1) => .ok (.obj srpId ga m1)
  | .err _ => .err "processing"
  | .panic s => .panic s

/-- `telegram.GetInputCheckPassword` with the 256 random bytes it draws made explicit. The type
assertion comes first: another algorithm is an error even for the empty password. -/
def getInputCheckPassword (password : Bytes) (cur : CurrentAlgo) (srpB : Bytes) (srpId : Int)
    (random : Bytes) : Outcome InputCheck :=
  match cur with
  | .other => .err "algo"
  | .modPow algo => wrapAnswer srpId (answer H KDF password srpB algo random)

end
end Mtv.Srp
