/-
  Mtv.Srp.Num — the `math/big` subset used by telegram/internal/srp/2fa.go, over `Nat`, and `pad256`.
  Core-only (linked into drv-c18).

    big.Int.SetBytes b      ↦ `fromBE b`           (Mtv.Basic; any length, leading zeros ignored)
    big.Int.Bytes()         ↦ `toBE n`             (minimal big-endian: no leading zero byte, `[]` for 0)
    big.Int.Exp(x, y, m)    ↦ `powMod x y m`       (m > 0; proved equal to `x ^ y % m` in Lemmas/C18Num)
    pad256                  ↦ `pad256`             (left-pad to 256 bytes; keeps the LAST 256 bytes of
                                                    a longer input — the truncating branch)
-/
import Mtv.Basic
namespace Mtv.Srp

/-- Square-and-multiply with an accumulator. `fuel` only makes the recursion structural; `powMod`
starts it with `fuel = e`, which is never exhausted because the exponent halves at every step. -/
def powModAux : Nat → Nat → Nat → Nat → Nat → Nat
  | 0, _, _, m, acc => acc % m
  | fuel + 1, b, e, m, acc =>
    if e = 0 then acc % m
    else powModAux fuel (b * b % m) (e / 2) m (if e % 2 = 1 then acc * b % m else acc)

/-- `b ^ e mod m` by square-and-multiply (`big.Int.Exp` with a positive modulus). -/
def powMod (b e m : Nat) : Nat := powModAux e b e m 1

/-- minimal little-endian digits of `n` in base 256 (`[]` for 0); `fuel` makes the recursion
structural (started with `fuel = n`, never exhausted) -/
def toLEminAux : Nat → Nat → Bytes
  | 0, _ => []
  | fuel + 1, n => if n = 0 then [] else UInt8.ofNat (n % 256) :: toLEminAux fuel (n / 256)

def toLEmin (n : Nat) : Bytes := toLEminAux n n

/-- `big.Int.Bytes()`: the minimal big-endian representation (no leading zero byte; empty for 0). -/
def toBE (n : Nat) : Bytes := (toLEmin n).reverse

/-- `pad256` of 2fa.go: the last 256 bytes of an input of 256 bytes or more, otherwise the input
left-padded with zero bytes to 256 bytes. -/
def pad256 (b : Bytes) : Bytes :=
  if b.length ≥ 256 then b.drop (b.length - 256) else zeros (256 - b.length) ++ b

/-- `dry.BytesXor a b`: `len a` bytes `a[i] ^ b[i]`; index out of range (a panic) when `b` is shorter. -/
def xorBytes (a b : Bytes) : Outcome Bytes :=
  if b.length < a.length then .panic "dry.BytesXor" else .ok (List.zipWith (· ^^^ ·) a b)

end Mtv.Srp
