/-
  TL codec model, part 1: types, values, registry.
  Mirrors what internal/encoding/tl sees through reflection: a registry of constructors
  (`objectByCrc`, `enumCrcs`), each a struct with fields, `tl:"flag:N[,encoded_in_bitflags]"` tags and
  an optional `FlagIndex()`. The registry itself is regenerated from the working tree on every run
  (Mtv/Gen/Registry*.lean); everything here is generic in the registry.
-/
import Mtv.Basic
namespace Mtv.TL

/-- Go field / slice-element types the codec supports (kinds as `reflect` reports them). -/
inductive Ty where
  | int32 | uint32 | int64 | f64 | bool | str | bytes
  | i128 | i256                 -- *tl.Int128 / *tl.Int256 (custom marshalers)
  | enum (name : String)        -- a named uint32 type registered through RegisterEnums
  | vec (e : Ty)                -- []T
  | ptr (id : Nat)              -- *T, T a registered struct with constructor id `id`
  | iface (name : String)       -- an interface type; "tl.Object" accepts every object
  | bad (why : String)          -- a Go type the codec cannot handle (e.g. *objects.Message)
  deriving Repr, DecidableEq, Inhabited

structure Flag where
  bit : Nat
  inBits : Bool                 -- `encoded_in_bitflags`
  deriving Repr, DecidableEq

structure FieldDesc where
  name : String
  ty : Ty
  flag : Option Flag
  deriving Repr, DecidableEq

inductive Kind where
  | struct
  | enum
  | container                   -- objects.MessageContainer (custom (un)marshaler)
  | gzip                        -- objects.GzipPacked (custom unmarshaler; marshalling panics)
  deriving Repr, DecidableEq

structure CtorDesc where
  id : Nat
  name : String
  kind : Kind
  flagIndex : Option Nat        -- `FlagIndex()` when the type implements FlagIndexGetter
  ifaces : List String          -- interface types (by name) the pointer type implements
  fields : List FieldDesc
  deriving Repr, DecidableEq

abbrev Registry := List CtorDesc

/-- Shape conditions on a struct descriptor under which `encodeStruct` and `decodeObject` agree on the
layout (the model of both is written for descriptors of this shape; `Mtv.Gen.registry` is checked to
consist of such descriptors on every run, see `WF`):
the type has a `FlagIndex()` exactly when it has tagged fields; the flags word sits at a field index,
all fields before it are mandatory; flag bits are below 32; `encoded_in_bitflags` only on bools. -/
def wfDesc (d : CtorDesc) : Bool :=
  (match d.flagIndex with
   | none => d.fields.all (fun f => f.flag.isNone)
   | some k => k < d.fields.length && (d.fields.take k).all (fun f => f.flag.isNone)
               && d.fields.any (fun f => f.flag.isSome))
  && d.fields.all (fun f => match f.flag with
      | none => true
      | some fl => fl.bit < 32 && (!fl.inBits || f.ty == .bool))

def Registry.find (r : Registry) (id : Nat) : Option CtorDesc := List.find? (fun d => d.id == id) r

/-- Go values as the codec sees them. Numbers are bit patterns (`word` 32 bits: int32, uint32 and
enums; `long` 64 bits: int64; `dbl` 64 bits: float64). `bytes`/`vec` remember nil-ness because `IsZero`
(presence of an optional field) depends on it. -/
inductive Val where
  | word (n : Nat)
  | long (n : Nat)
  | dbl (n : Nat)                        -- float64 by its IEEE-754 bit pattern
  | bool (b : Bool)
  | str (bs : Bytes)
  | bytes (isNil : Bool) (bs : Bytes)
  | big (width : Nat) (n : Nat)          -- width in bytes: 16 or 32
  | vec (isNil : Bool) (items : List Val)
  | obj (id : Nat) (fields : List Val)   -- pointer to a registered struct (also inside an interface)
  | null                                 -- nil pointer / nil interface
  deriving Repr, Inhabited

def crcVector : Nat := 0x1cb5c415
def crcFalse : Nat := 0xbc799737
def crcTrue : Nat := 0x997275b5
def crcNull : Nat := 0x56730bcc
def crcContainer : Nat := 0x73f1f8dc
def crcGzip : Nat := 0x3072cfa1

/-- position of the flags word relative to the next field: `some 0` = right in front of it -/
def nextK : Option Nat → Option Nat
  | some (n + 1) => some n
  | _ => none

@[simp] theorem nextK_none : nextK none = none := rfl
@[simp] theorem nextK_zero : nextK (some 0) = none := rfl
@[simp] theorem nextK_succ (n : Nat) : nextK (some (n + 1)) = some n := rfl

/-- `reflect.Value.IsZero` on a field value. -/
def Val.isZero : Val → Bool
  | .word n => n == 0
  | .long n => n == 0
  | .dbl n => n == 0 || n == 2 ^ 63      -- `v.Float() == 0`: +0.0 and -0.0
  | .bool b => !b
  | .str bs => bs.isEmpty
  | .bytes isNil _ => isNil
  | .big _ _ => false                  -- a non-nil *Int128
  | .vec isNil _ => isNil
  | .obj _ _ => false
  | .null => true

end Mtv.TL
