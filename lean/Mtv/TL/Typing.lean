/-
  TL codec model, part 4: well-typed values, nil-insensitive equality, fuel demand.
  Used by the statements of C01/C02; nothing here is executed by the Go code.
-/
import Mtv.TL.Encode
import Mtv.TL.Decode
namespace Mtv.TL

mutual
/-- forget nil-ness of slices and byte strings: Go's decoder returns empty non-nil slices where the
encoder was given nil ones; the two are the same TL value -/
def erase : Val → Val
  | .bytes _ bs => .bytes false bs
  | .vec _ items => .vec false (eraseL items)
  | .obj id fs => .obj id (eraseL fs)
  | .word n => .word n
  | .long n => .long n
  | .dbl n => .dbl n
  | .bool b => .bool b
  | .str bs => .str bs
  | .big w n => .big w n
  | .null => .null
def eraseL : List Val → List Val
  | [] => []
  | v :: vs => erase v :: eraseL vs
end

mutual
/-- fuel the decoder needs for a value (nesting of objects, vectors and field / item lists) -/
def need : Val → Nat
  | .vec _ items => needL items + 3
  | .obj _ fs => needL fs + 3
  | _ => 1
def needL : List Val → Nat
  | [] => 0
  | v :: vs => max (need v) (needL vs) + 1
end

/-- registry-level well-formedness: every descriptor has the shape `wfDesc`, and no registered id
collides with the ids the decoder treats specially (vector, Bool, null) -/
def WFR (R : Registry) : Prop :=
  ∀ d ∈ R, wfDesc d = true ∧ d.id ≠ crcVector ∧ d.id ≠ crcTrue ∧ d.id ≠ crcFalse ∧ d.id ≠ crcNull ∧ d.id < 2 ^ 32

instance (R : Registry) : Decidable (WFR R) := by unfold WFR; exact inferInstance

def bitSet (w b : Nat) : Bool := (w / 2 ^ b) % 2 = 1

mutual
/-- `WT R ty v`: `v` is a Go value of static type `ty` that Go can marshal, in canonical form:
integers fit their width; vectors have fewer than 2^32 items of the element type; a pointer holds an
object of its own constructor; an interface holds an object implementing it; mandatory pointers and
interfaces are non-nil. For an object with flags word `W` (computed from its own fields): a field
of a present group is a well-typed non-nil value, a field of an absent group is the zero value, an
`encoded_in_bitflags` bool equals the presence of its group. -/
def WT (R : Registry) : Ty → Val → Prop
  | ty, .word n => (ty = .int32 ∨ ty = .uint32 ∨ ∃ nm, ty = .enum nm) ∧ n < 2 ^ 32
  | ty, .long n => ty = .int64 ∧ n < 2 ^ 64
  | ty, .dbl n => ty = .f64 ∧ n < 2 ^ 64
  | ty, .bool _ => ty = .bool
  | ty, .str _ => ty = .str
  | ty, .bytes _ _ => ty = .bytes
  | ty, .big w n => ((ty = .i128 ∧ w = 16) ∨ (ty = .i256 ∧ w = 32)) ∧ n < 256 ^ w
  | ty, .vec _ items => ∃ e, ty = .vec e ∧ WTL R e items ∧ items.length < 2 ^ 32
  | ty, .obj id fs =>
    match R.find id with
    | none => False
    | some d =>
      d.kind = .struct ∧ d.id = id ∧
      (ty = .ptr id ∨ ∃ nm, ty = .iface nm ∧ implementsIface nm d = true) ∧
      WTF R (flagWord d.fields fs) d.fields fs
  | _, .null => False
def WTL (R : Registry) : Ty → List Val → Prop
  | _, [] => True
  | e, v :: vs => WT R e v ∧ WTL R e vs
def WTF (R : Registry) (W : Nat) : List FieldDesc → List Val → Prop
  | [], [] => True
  | f :: fs, v :: vs =>
    (match f.flag with
     | none => WT R f.ty v
     | some fl =>
       if fl.inBits then f.ty = .bool ∧ v = .bool (bitSet W fl.bit)
       else if bitSet W fl.bit then WT R f.ty v
       else erase v = erase (zeroOf f.ty)) ∧ WTF R W fs vs
  | _, _ => False
end

end Mtv.TL
