/-
  TL codec model, part 3: the decoder (internal/encoding/tl/decoder.go, cursor_r.go,
  common_types.go, objects.MessageContainer/GzipPacked.UnmarshalTL), with explicit error and panic
  outcomes. The Go decoder keeps a sticky error (`d.err`): after the first failed read every further
  `Pop*` is a no-op and the entry points report the error, so the model short-circuits on the first
  error. `gunzip` is a parameter (compress/gzip is not modelled). A packed object inside a packed object is decoded by
  a decoder of its own that knows how deep it is (`Decoder.DecodeNestedObject`); beyond `maxNestedDecoders`
  levels the data is refused.
-/
import Mtv.TL.Types
namespace Mtv.TL

/-- `Decoder.read`: `bytes.Reader.Read` reports EOF at the end of the data even for an empty
buffer; a short read is an error. -/
def readN (n : Nat) (bs : Bytes) : Outcome (Bytes × Bytes) :=
  if bs.isEmpty then .err "eof"
  else if bs.length < n then .err "short"
  else .ok (bs.take n, bs.drop n)

def popUint (bs : Bytes) : Outcome (Nat × Bytes) :=
  match readN 4 bs with
  | .ok (w, r) => .ok (fromLE w, r)
  | .err e => .err e
  | .panic s => .panic s

def popLong (bs : Bytes) : Outcome (Nat × Bytes) :=
  match readN 8 bs with
  | .ok (w, r) => .ok (fromLE w, r)
  | .err e => .err e
  | .panic s => .panic s

def popBool (bs : Bytes) : Outcome (Bool × Bytes) :=
  match popUint bs with
  | .ok (c, r) => if c = crcTrue then .ok (true, r) else if c = crcFalse then .ok (false, r) else .err "notBool"
  | .err e => .err e
  | .panic s => .panic s

/-- `PopRawBytes(size)` with the size guard (negative or larger than what is left ⇒ error) -/
def popRaw (size : Int) (bs : Bytes) : Outcome (Bytes × Bytes) :=
  if size < 0 then .err "rawSize"
  else if bs.length < size.toNat then .err "rawSize"
  else if size = 0 then .ok ([], bs)   -- nothing to read: the reader is not asked (it would answer EOF at the end)
  else readN size.toNat bs

/-- `PopMessage` -/
def popMessage (bs : Bytes) : Outcome (Bytes × Bytes) :=
  match readN 1 bs with
  | .err e => .err e
  | .panic s => .panic s
  | .ok (h, r) =>
    let hdr : Outcome (Nat × Nat × Bytes) :=
      if h = [0xfe] then
        match readN 3 r with
        | .ok (l, r2) => .ok (fromLE l, 4, r2)
        | .err e => .err e
        | .panic s => .panic s
      else .ok (fromLE h, 1, r)
    match hdr with
    | .err e => .err e
    | .panic s => .panic s
    | .ok (size, lenSize, r2) =>
      if r2.length < size then .err "msgSize"
      else
        match readN size r2 with
        | .err e => .err e
        | .panic s => .panic s
        | .ok (buf, r3) =>
          if (lenSize + size) % 4 = 0 then .ok (buf, r3)
          else
            match readN (4 - (lenSize + size) % 4) r3 with
            | .err e => .err e
            | .panic s => .panic s
            | .ok (pad, r4) => if pad.all (· == 0) then .ok (buf, r4) else .err "voidBytes"

/-- Go zero value of a field type (what an absent optional field is left as) -/
def zeroOf : Ty → Val
  | .int32 | .uint32 | .enum _ => .word 0
  | .int64 => .long 0
  | .f64 => .dbl 0
  | .bool => .bool false
  | .str => .str []
  | .bytes => .bytes true []
  | .vec _ => .vec true []
  | .i128 | .i256 | .ptr _ | .iface _ | .bad _ => .null

/-- decoder state threaded through: remaining input and remaining vector hints (`expectedTypes`) -/
abbrev DRes (α : Type) := Outcome (α × Bytes × List Ty)

/-- `MessageContainer.UnmarshalTL` members -/
def decMembers : Nat → Bytes → Outcome (List Val × Bytes)
  | 0, bs => .ok ([], bs)
  | n + 1, bs =>
    match popLong bs with
    | .err e => .err e
    | .panic s => .panic s
    | .ok (mid, r1) =>
      match popUint r1 with
      | .err e => .err e
      | .panic s => .panic s
      | .ok (seq, r2) =>
        match popUint r2 with
        | .err e => .err e
        | .panic s => .panic s
        | .ok (size, r3) =>
          match popRaw (toSigned 32 size) r3 with
          | .err e => .err e
          | .panic s => .panic s
          | .ok (body, r4) =>
            match decMembers n r4 with
            | .ok (ms, r5) => .ok (.obj 0 [.long mid, .word seq, .bytes false body] :: ms, r5)
            | .err e => .err e
            | .panic s => .panic s

/-- does an object of constructor `d` convert to the interface type `nm`? -/
def implementsIface (nm : String) (d : CtorDesc) : Bool := nm == "tl.Object" || d.ifaces.contains nm

/-- can the decoded object be stored in a field of interface type `nm`
(`reflect.TypeOf(val).ConvertibleTo(value.Type())`)? Bool/null pseudo-objects and wrapped vectors
are `tl.Object`s only. -/
def convertible (R : Registry) (nm : String) : Val → Bool
  | .obj id _ =>
    if id = crcTrue || id = crcFalse || id = crcNull then nm == "tl.Object"
    else match R.find id with
      | some d => implementsIface nm d
      | none => false
  | .vec _ _ => nm == "tl.Object"
  | _ => false

/-- `maxNestedDecoders` (decoder.go): how many packed objects may enclose a packed object that is still
decoded. The root decoder has depth 0; the decoder of the object inside a packed object has the depth of
the enclosing decoder + 1; a decoder of depth `maxNestedDecoders` refuses to open a packed object. -/
def maxNestedDecoders : Nat := 4

mutual
/-- `decodeValue` at a field / element of Go type `ty`. In all six functions the first `Nat` is the depth
of the decoder (`Decoder.depth`: how many packed objects enclose the data being read), the second the fuel. -/
def decVal (R : Registry) (gunzip : Bytes → Option Bytes) : Nat → Nat → Ty → Bytes → List Ty → DRes Val
  | _, 0, _, _, _ => .err "fuel"
  | dp, fuel + 1, ty, bs, hs =>
    match ty with
    | .int32 | .uint32 | .enum _ =>
      match popUint bs with
      | .ok (n, r) => .ok (.word n, r, hs)
      | .err e => .err e
      | .panic s => .panic s
    | .int64 =>
      match popLong bs with
      | .ok (n, r) => .ok (.long n, r, hs)
      | .err e => .err e
      | .panic s => .panic s
    | .f64 =>
      match popLong bs with
      | .ok (n, r) => .ok (.dbl n, r, hs)
      | .err e => .err e
      | .panic s => .panic s
    | .bool =>
      match popBool bs with
      | .ok (b, r) => .ok (.bool b, r, hs)
      | .err e => .err e
      | .panic s => .panic s
    | .str =>
      match popMessage bs with
      | .ok (m, r) => .ok (.str m, r, hs)
      | .err e => .err e
      | .panic s => .panic s
    | .bytes =>
      match popMessage bs with
      | .ok (m, r) => .ok (.bytes false m, r, hs)
      | .err e => .err e
      | .panic s => .panic s
    | .i128 =>
      match popRaw 16 bs with
      | .ok (m, r) => .ok (.big 16 (fromBE m), r, hs)
      | .err e => .err e
      | .panic s => .panic s
    | .i256 =>
      match popRaw 32 bs with
      | .ok (m, r) => .ok (.big 32 (fromBE m), r, hs)
      | .err e => .err e
      | .panic s => .panic s
    | .vec e =>
      match popUint bs with
      | .err er => .err er
      | .panic s => .panic s
      | .ok (crc, r) =>
        if crc ≠ crcVector then .err "notVector"
        else decVecBody R gunzip dp fuel e r hs
    | .ptr id =>
      match R.find id with
      | none => .err "unsupported"
      | some d =>
        match d.kind with
        | .struct =>
          match popUint bs with
          | .err er => .err er
          | .panic s => .panic s
          | .ok (crc, r) =>
            if crc ≠ d.id then .err "invalidCrc"
            else decStruct R gunzip dp fuel d r hs
        | _ => .err "unsupported"
    | .iface nm =>
      match decRegistered R gunzip dp fuel bs hs with
      | .err er => .err er
      | .panic s => .panic s
      | .ok (v, r, hs') =>
        if convertible R nm v then .ok (v, r, hs') else .err "wrongInterface"
    | .bad _ => .err "unsupported"

/-- `popVector` after the constructor id: count, guard against the remaining input, elements -/
def decVecBody (R : Registry) (gunzip : Bytes → Option Bytes) : Nat → Nat → Ty → Bytes → List Ty → DRes Val
  | _, 0, _, _, _ => .err "fuel"
  | dp, fuel + 1, e, bs, hs =>
    match popUint bs with
    | .err er => .err er
    | .panic s => .panic s
    | .ok (n, r) =>
      if r.length < n then .err "vectorSize"
      else
        match decItems R gunzip dp fuel e n r hs with
        | .ok (items, r', hs') => .ok (.vec false items, r', hs')
        | .err er => .err er
        | .panic s => .panic s

def decItems (R : Registry) (gunzip : Bytes → Option Bytes) : Nat → Nat → Ty → Nat → Bytes → List Ty → DRes (List Val)
  | _, _, _, 0, bs, hs => .ok ([], bs, hs)
  | _, 0, _, _ + 1, _, _ => .err "fuel"
  | dp, fuel + 1, e, n + 1, bs, hs =>
    match decVal R gunzip dp fuel e bs hs with
    | .err er => .err er
    | .panic s => .panic s
    | .ok (v, r, hs') =>
      match decItems R gunzip dp fuel e n r hs' with
      | .ok (vs, r', hs'') => .ok (v :: vs, r', hs'')
      | .err er => .err er
      | .panic s => .panic s

/-- `decodeObject` after the constructor id (descriptors of the shape `wfDesc`) -/
def decStruct (R : Registry) (gunzip : Bytes → Option Bytes) : Nat → Nat → CtorDesc → Bytes → List Ty → DRes Val
  | _, 0, _, _, _ => .err "fuel"
  | dp, fuel + 1, d, bs, hs =>
    if !wfDesc d then .err "descriptorShape"
    else
      match decFields R gunzip dp fuel d.flagIndex 0 d.fields bs hs with
      | .ok (fs, r, hs') => .ok (.obj d.id fs, r, hs')
      | .err er => .err er
      | .panic s => .panic s

/-- the field loop of `decodeObject`: `k = some 0` ⇒ the flags word is read in front of this field;
a tagged field whose bit is clear keeps its zero value, an `encoded_in_bitflags` one becomes `true`,
every other field is decoded by its type -/
def decFields (R : Registry) (gunzip : Bytes → Option Bytes) :
    Nat → Nat → Option Nat → Nat → List FieldDesc → Bytes → List Ty → DRes (List Val)
  | _, _, _, _, [], bs, hs => .ok ([], bs, hs)
  | _, 0, _, _, _ :: _, _, _ => .err "fuel"
  | dp, fuel + 1, k, bitset, f :: fs, bs, hs =>
    let k' : Option Nat := nextK k
    let hdr : Outcome (Nat × Bytes) := if k = some 0 then popUint bs else .ok (bitset, bs)
    match hdr with
    | .err er => .err er
    | .panic s => .panic s
    | .ok (w, r0) =>
      let skip : Bool := match f.flag with
        | some fl => (w / 2 ^ fl.bit) % 2 = 0
        | none => false
      let isBit : Bool := match f.flag with
        | some fl => fl.inBits
        | none => false
      if skip then
        match decFields R gunzip dp fuel k' w fs r0 hs with
        | .ok (vs, r, hs') => .ok (zeroOf f.ty :: vs, r, hs')
        | .err er => .err er
        | .panic s => .panic s
      else if isBit then
        match decFields R gunzip dp fuel k' w fs r0 hs with
        | .ok (vs, r, hs') => .ok (.bool true :: vs, r, hs')
        | .err er => .err er
        | .panic s => .panic s
      else
        match decVal R gunzip dp fuel f.ty r0 hs with
        | .err er => .err er
        | .panic s => .panic s
        | .ok (v, r, hs') =>
          match decFields R gunzip dp fuel k' w fs r hs' with
          | .ok (vs, r', hs'') => .ok (v :: vs, r', hs'')
          | .err er => .err er
          | .panic s => .panic s

/-- `decodeRegisteredObject`: the type is chosen from the constructor id -/
def decRegistered (R : Registry) (gunzip : Bytes → Option Bytes) : Nat → Nat → Bytes → List Ty → DRes Val
  | _, 0, _, _ => .err "fuel"
  | dp, fuel + 1, bs, hs =>
    match popUint bs with
    | .err er => .err er
    | .panic s => .panic s
    | .ok (crc, r) =>
      if crc = crcVector then
        match hs with
        | [] => .err "mustParseSlicesExplicitly"
        | .vec e :: hs' => decVecBody R gunzip dp fuel e r hs'
        | _ :: _ => .panic "reflect: Elem of a hint that is not a slice"
      else if crc = crcFalse || crc = crcTrue || crc = crcNull then .ok (.obj crc [], r, hs)
      else
        match R.find crc with
        | none => .err "notRegistered"
        | some d =>
          match d.kind with
          | .enum => .ok (.obj crc [], r, hs)
          | .struct => decStruct R gunzip dp fuel d r hs
          | .container =>
            match popUint r with
            | .err er => .err er
            | .panic s => .panic s
            | .ok (cnt, r1) =>
              let count := toSigned 32 cnt
              match decMembers count.toNat r1 with
              | .ok (ms, r2) => .ok (.obj crc [.vec false ms], r2, hs)
              | .err er => .err er
              | .panic s => .panic s
          | .gzip =>
            match popMessage r with
            | .err er => .err er
            | .panic s => .panic s
            | .ok (packed, r1) =>
              match gunzip packed with
              | none => .err "gzip"
              | some plain =>
                -- `Decoder.DecodeNestedObject` (called after the payload was unpacked): a decoder that already
                -- works for `maxNestedDecoders` enclosing packed objects refuses; otherwise the packed object is
                -- decoded by a decoder of its own, one level deeper, that is given the hints not used so far
                if maxNestedDecoders ≤ dp then .err "nestedTooDeep"
                else
                  match decRegistered R gunzip (dp + 1) fuel plain hs with
                  | .ok (inner, _, _) => .ok (.obj crc [inner], r1, hs)
                  | .err er => .err er
                  | .panic s => .panic s
end

/-- `tl.DecodeUnknownObject(data, hints...)` -/
def decodeUnknown (R : Registry) (gunzip : Bytes → Option Bytes) (fuel : Nat) (hints : List Ty) (bs : Bytes) : Outcome Val :=
  match decRegistered R gunzip 0 fuel bs hints with
  | .ok (v, _, _) => .ok v
  | .err e => .err e
  | .panic s => .panic s

/-- `tl.Decode(data, &T{})` for the registered struct `id` -/
def decodeNamed (R : Registry) (gunzip : Bytes → Option Bytes) (fuel : Nat) (id : Nat) (bs : Bytes) : Outcome Val :=
  match decVal R gunzip 0 fuel (.ptr id) bs [] with
  | .ok (v, _, _) => .ok v
  | .err e => .err e
  | .panic s => .panic s

/-- the largest number of fields of a registered constructor -/
def maxFields (R : Registry) : Nat := R.foldr (fun d a => max d.fields.length a) 0

/-- Fuel that is never exhausted on an input of `L` bytes when no packed object unpacks to more than `G`
bytes: `(F + 4)·(L + 4·G) + 6`, `F` = the largest number of fields of a registered constructor, 4 =
`maxNestedDecoders` (theorem `decode_never_loops`, Props/C15). The fuel of the model bounds the DEPTH of the
call chain — a sibling gets the fuel its predecessor got: reading a constructor id or a count takes 4 bytes
and at most `F + 3` calls lie between two such reads; at most four packed levels are opened, each at most
`G` bytes long. -/
def fuelBound (R : Registry) (G L : Nat) : Nat := (maxFields R + 4) * (L + maxNestedDecoders * G) + 6

end Mtv.TL
