/-
  C02: the schema-defined serialisation. `specVal S v` is written from the TL definition of the
  constructor of `v` in the schema `S` (a list of parsed definitions): little-endian constructor id,
  the parameters in declaration order, a flags word at the position of `flags:#` with bit N set iff
  the group of parameters conditional on bit N is present, conditional parameters iff their bit (and
  `true`-typed ones never: they are the bit), strings with 1- or 4-byte length header padded to four
  bytes, `Vector` = id 0x1cb5c415, count, items; 128/256-bit integers fixed-width big-endian; Bool as
  one of two ids. It does not look at the Go registry at all.
-/
import Mtv.TL.Encode
import Mtv.Schema.Types
namespace Mtv.TL
open Mtv.Schema

/-- bit N of the flags word: some parameter conditional on N has a non-zero value -/
def specFlags : List Param → List Val → Nat
  | p :: ps, v :: vs =>
    let rest := specFlags ps vs
    match p.cond with
    | some n => if !v.isZero then rest ||| (2 ^ n % 2 ^ 32) else rest
    | none => rest
  | _, _ => 0

def findDef (S : List Def) (id : Nat) : Option Def := S.find? fun d => d.id == id

mutual
def specVal (S : List Def) : Val → Outcome Bytes
  | .word n => .ok (leBytes n 4)
  | .long n => .ok (leBytes n 8)
  | .dbl n => .ok (leBytes n 8)
  | .bool b => .ok (leBytes (if b then crcTrue else crcFalse) 4)
  | .str bs => putMessage bs
  | .bytes _ bs => putMessage bs
  | .big w n => if n < 256 ^ w then .ok (beBytes n w) else .panic "integer does not fit"
  | .vec _ items =>
    match specList S items with
    | .ok body => .ok (leBytes crcVector 4 ++ (leBytes items.length 4 ++ body))
    | .err e => .err e
    | .panic s => .panic s
  | .null => .err "nil"
  | .obj id fs =>
    match findDef S id with
    | none => .err "notInSchema"
    | some d =>
      match specParams S (specFlags (valueParams d.params) fs) (flagsPos d.params 0) (valueParams d.params) fs with
      | .ok body => .ok (leBytes d.id 4 ++ body)
      | .err e => .err e
      | .panic s => .panic s

def specList (S : List Def) : List Val → Outcome Bytes
  | [] => .ok []
  | v :: vs =>
    match specVal S v with
    | .ok a =>
      match specList S vs with
      | .ok b => .ok (a ++ b)
      | .err e => .err e
      | .panic s => .panic s
    | .err e => .err e
    | .panic s => .panic s

/-- value parameters in declaration order, one value each; `k = some 0`: `flags:#` stands in front
of this parameter -/
def specParams (S : List Def) (flags : Nat) : Option Nat → List Param → List Val → Outcome Bytes
  | _, [], [] => .ok []
  | k, p :: ps, v :: vs =>
    let pre : Bytes := if k = some 0 then leBytes flags 4 else []
    let present : Bool := match p.cond with
      | none => true
      | some n => (flags / 2 ^ n) % 2 = 1
    if present && !(p.ty == .prim bTrue && p.cond.isSome) then
      match specVal S v with
      | .ok b =>
        match specParams S flags (nextK k) ps vs with
        | .ok c => .ok (pre ++ (b ++ c))
        | .err e => .err e
        | .panic s => .panic s
      | .err e => .err e
      | .panic s => .panic s
    else
      match specParams S flags (nextK k) ps vs with
      | .ok c => .ok (pre ++ c)
      | .err e => .err e
      | .panic s => .panic s
  | _, _, _ => .err "illTyped"
end

end Mtv.TL
