/-
  TL codec model, part 2: the encoder (internal/encoding/tl/encoder.go, cursor_w.go,
  common_types.go, objects.MessageContainer.MarshalTL). The Go encoder is driven by the dynamic
  value alone, so `encVal` takes no type argument: a `Val` is self-describing and an object's layout
  comes from the registry entry of its constructor id.
-/
import Mtv.TL.Types
namespace Mtv.TL

/-- number of zero bytes that bring `n` up to a multiple of 4 -/
def pad4 (n : Nat) : Nat := (4 - n % 4) % 4

/-- `Encoder.PutMessage`: one-byte length below 254, else `0xfe` + 24-bit length; zero padding to a
multiple of four; 2^24 bytes or more is refused. -/
def putMessage (bs : Bytes) : Outcome Bytes :=
  if bs.length < 254 then
    .ok (UInt8.ofNat bs.length :: (bs ++ zeros (pad4 (1 + bs.length))))
  else if 2 ^ 24 ≤ bs.length then .err "tooLarge"
  else .ok (0xfe :: (leBytes bs.length 3 ++ (bs ++ zeros (pad4 bs.length))))

/-- the flags word `encodeStruct` computes in its first pass: bit `N` is set iff some field tagged
`flag:N` is non-zero (`1 << N` on a uint32: bits ≥ 32 vanish) -/
def flagWord : List FieldDesc → List Val → Nat
  | f :: fs, v :: vs =>
    let rest := flagWord fs vs
    match f.flag with
    | some fl => if !v.isZero then rest ||| (2 ^ fl.bit % 2 ^ 32) else rest
    | none => rest
  | _, _ => 0

mutual
/-- `encodeValue` -/
def encVal (R : Registry) : Val → Outcome Bytes
  | .word n => .ok (leBytes n 4)
  | .long n => .ok (leBytes n 8)
  | .dbl n => .ok (leBytes n 8)
  | .bool b => .ok (leBytes (if b then crcTrue else crcFalse) 4)
  | .str bs => putMessage bs
  | .bytes _ bs => putMessage bs
  | .big w n => if n < 256 ^ w then .ok (beBytes n w) else .panic "dry.BigIntBytes"
  | .vec _ items =>
    match encList R items with
    | .ok body => .ok (leBytes crcVector 4 ++ (leBytes items.length 4 ++ body))
    | .err e => .err e
    | .panic s => .panic s
  | .null => .err "nil"
  | .obj id fs =>
    match R.find id with
    | none => .err "notObject"
    | some d =>
      match d.kind with
      | .struct =>
        if !wfDesc d then .err "descriptorShape"
        else
          match encFields R (flagWord d.fields fs) d.flagIndex d.fields fs with
          | .ok body => .ok (leBytes d.id 4 ++ body)
          | .err e => .err e
          | .panic s => .panic s
      | .enum => .ok (leBytes d.id 4)
      | .container =>
        -- MessageContainer.MarshalTL: id, count, then per member msg_id, seq_no, length, raw body
        match fs with
        | [.vec _ ms] =>
          match encMembers ms with
          | some body => .ok (leBytes d.id 4 ++ (leBytes ms.length 4 ++ body))
          | none => .err "illTyped"
        | _ => .err "illTyped"
      | .gzip => .panic "GzipPacked.MarshalTL"

/-- `encodeVector` body -/
def encList (R : Registry) : List Val → Outcome Bytes
  | [] => .ok []
  | v :: vs =>
    match encVal R v with
    | .ok a =>
      match encList R vs with
      | .ok b => .ok (a ++ b)
      | .err e => .err e
      | .panic s => .panic s
    | .err e => .err e
    | .panic s => .panic s

/-- `encodeStruct` after the constructor id, for a descriptor of the shape `wfDesc`: the fields in
order; the flags word in front of the field whose index is `FlagIndex()` (`k = some 0`); a tagged
field is written iff the bit of its group is set and it is not `encoded_in_bitflags`. -/
def encFields (R : Registry) (flag : Nat) : Option Nat → List FieldDesc → List Val → Outcome Bytes
  | _, [], [] => .ok []
  | k, f :: fs, v :: vs =>
    let pre : Bytes := if k = some 0 then leBytes flag 4 else []
    let k' : Option Nat := nextK k
    let written : Bool := match f.flag with
      | none => true
      | some fl => (flag / 2 ^ fl.bit) % 2 = 1 && !fl.inBits
    if written then
      match encVal R v with
      | .ok b =>
        match encFields R flag k' fs vs with
        | .ok c => .ok (pre ++ (b ++ c))
        | .err e => .err e
        | .panic s => .panic s
      | .err e => .err e
      | .panic s => .panic s
    else
      match encFields R flag k' fs vs with
      | .ok c => .ok (pre ++ c)
      | .err e => .err e
      | .panic s => .panic s
  | _, _, _ => .err "illTyped"

/-- members of a message container: each `obj 0 [long msgId, word seqNo, bytes _ body]` -/
def encMembers : List Val → Option Bytes
  | [] => some []
  | .obj _ [.long mid, .word seq, .bytes _ body] :: ms =>
    match encMembers ms with
    | some r => some (leBytes mid 8 ++ (leBytes seq 4 ++ (leBytes body.length 4 ++ (body ++ r))))
    | none => none
  | _ :: _ => none
end

/-- `tl.Marshal` -/
def marshal (R : Registry) (v : Val) : Outcome Bytes := encVal R v

end Mtv.TL
