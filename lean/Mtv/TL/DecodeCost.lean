/-
  TL codec model, part 3b: a COST SEMANTICS for the decoder of `Mtv/TL/Decode.lean` (which stays untouched).
  For each of the six mutually recursive decoder functions there is a function with the same arguments and
  the same recursion that returns the allocation units the Go decoder performs on that call
  (internal/encoding/tl/decoder.go + cursor_r.go after d6af418 "a vector's slice grows as its elements are
  decoded" and 5211125 "nesting limit"; objects.MessageContainer/GzipPacked.UnmarshalTL). The instrumented
  decoder `dec*C` is the pair (result of the decoder, cost of that call): where the decoder continues with what
  a first call left (`r`, `hs'`), the cost function takes that continuation from the decoder itself, so the two
  components can never drift apart and erasure (`(dec*C …).1 = dec* …`) holds by construction.

  Units (one unit = one machine-word-sized slot or one copied byte; what a unit weighs in bytes is the
  constant of the tie, harness/cmd/vh/c15cost.go):
    * `PopMessage` / `PopRawBytes`: n units for the n bytes copied out (`make([]byte, n)`), charged when the
      size guard has passed — before the read, as in Go;
    * `reflect.New` of a struct: 1 + number of fields (`structUnits`; twice for a constructor with a flags
      word: `decodeObject` makes a second one to ask for `FlagIndex`), charged where Go allocates it: by the
      caller, BEFORE the constructor id is read (pointer field / vector element) or after it
      (`decodeRegisteredObject`);
    * a vector: 1 unit for the slice made (`reflect.MakeSlice(…, 0, 0)` + the wrapper), then 2 units per element
      attempted (`reflect.New` of the element before it is decoded, the slot `reflect.Append` grows the slice
      by — amortised, the slice doubles); NOT `count` slots up front (that was the defect repaired by d6af418);
    * an enum object: 1 unit; an unregistered id: the rest of the input is copied for the error value
      (`DumpWithoutRead`): as many units as bytes are left;
    * a container member: 4 units (`new(messages.Encrypted)` + slot) + the body copied;
    * a packed object: the packed string copied (`PopMessage`), ONE gunzip call (`gzCalls`: an inflater of fixed
      size), the text it produces (`gzOut` — the part the property exempts, accounted separately), and, when the
      depth limit lets the text be decoded, one more copy of the text (`NewDecoder` reads it all) and the cost
      of decoding it one level deeper;
    * `decodeUnknownC` / `decodeNamedC`: the copy of the input made by `NewDecoder` (`len` units).
  Error values (wrapped once per enclosing call) are not counted in units: every enclosing call that wraps has
  charged at least one unit on the way in; the tie's constant pays for them.
-/
import Mtv.TL.Decode
namespace Mtv.TL

/-- what one call costs: allocation units of the decoder proper, number of gunzip calls, bytes gunzip produced -/
structure Cost where
  alloc : Nat := 0
  gzCalls : Nat := 0
  gzOut : Nat := 0
deriving Repr, DecidableEq

instance : Add Cost := ⟨fun x y => ⟨x.alloc + y.alloc, x.gzCalls + y.gzCalls, x.gzOut + y.gzOut⟩⟩
instance : Inhabited Cost := ⟨{}⟩

/-- `n` allocation units -/
def Cost.units (n : Nat) : Cost := ⟨n, 0, 0⟩
def Cost.zero : Cost := ⟨0, 0, 0⟩

@[simp] theorem Cost.add_alloc (x y : Cost) : (x + y).alloc = x.alloc + y.alloc := rfl
@[simp] theorem Cost.add_gzCalls (x y : Cost) : (x + y).gzCalls = x.gzCalls + y.gzCalls := rfl
@[simp] theorem Cost.add_gzOut (x y : Cost) : (x + y).gzOut = x.gzOut + y.gzOut := rfl
@[simp] theorem Cost.units_alloc (n : Nat) : (Cost.units n).alloc = n := rfl
@[simp] theorem Cost.units_gzCalls (n : Nat) : (Cost.units n).gzCalls = 0 := rfl
@[simp] theorem Cost.units_gzOut (n : Nat) : (Cost.units n).gzOut = 0 := rfl
@[simp] theorem Cost.zero_alloc : Cost.zero.alloc = 0 := rfl
@[simp] theorem Cost.zero_gzCalls : Cost.zero.gzCalls = 0 := rfl
@[simp] theorem Cost.zero_gzOut : Cost.zero.gzOut = 0 := rfl

/-- `PopMessage`: the buffer `make([]byte, realSize)` — made once the size guard has passed -/
def costMessage (bs : Bytes) : Nat :=
  match readN 1 bs with
  | .ok (h, r) =>
    if h = [0xfe] then
      match readN 3 r with
      | .ok (l, r2) => if r2.length < fromLE l then 0 else fromLE l
      | _ => 0
    else if r.length < fromLE h then 0 else fromLE h
  | _ => 0

/-- `reflect.New` of the struct of constructor `d` (and the second one `decodeObject` makes for `FlagIndex`) -/
def structUnits (d : CtorDesc) : Nat :=
  if d.flagIndex.isSome then 2 * (1 + d.fields.length) else 1 + d.fields.length

/-- `MessageContainer.UnmarshalTL`: per member attempted 4 units, and the body once its size guard passed -/
def costMembers : Nat → Bytes → Nat
  | 0, _ => 0
  | n + 1, bs =>
    4 + match popLong bs with
      | .ok (_, r1) =>
        match popUint r1 with
        | .ok (_, r2) =>
          match popUint r2 with
          | .ok (size, r3) =>
            match popRaw (toSigned 32 size) r3 with
            | .ok (body, r4) => body.length + costMembers n r4
            | _ => 0
          | _ => 0
        | _ => 0
      | _ => 0

mutual
def costVal (R : Registry) (gunzip : Bytes → Option Bytes) : Nat → Nat → Ty → Bytes → List Ty → Cost
  | _, 0, _, _, _ => .zero
  | dp, fuel + 1, ty, bs, hs =>
    match ty with
    | .str | .bytes => .units (costMessage bs)
    | .vec e =>
      match popUint bs with
      | .ok (crc, r) => if crc ≠ crcVector then .zero else costVecBody R gunzip dp fuel e r hs
      | _ => .zero
    | .ptr id =>
      match R.find id with
      | none => .zero
      | some d =>
        match d.kind with
        | .struct =>
          -- the caller has made the struct before the constructor id is read
          .units (structUnits d) +
            match popUint bs with
            | .ok (crc, r) => if crc ≠ d.id then .zero else costStruct R gunzip dp fuel d r hs
            | _ => .zero
        | _ => .zero
    | .iface _ => costRegistered R gunzip dp fuel bs hs
    | _ => .zero

def costVecBody (R : Registry) (gunzip : Bytes → Option Bytes) : Nat → Nat → Ty → Bytes → List Ty → Cost
  | _, 0, _, _, _ => .zero
  | dp, fuel + 1, e, bs, hs =>
    match popUint bs with
    | .ok (n, r) => if r.length < n then .zero else .units 1 + costItems R gunzip dp fuel e n r hs
    | _ => .zero

def costItems (R : Registry) (gunzip : Bytes → Option Bytes) : Nat → Nat → Ty → Nat → Bytes → List Ty → Cost
  | _, _, _, 0, _, _ => .zero
  | _, 0, _, _ + 1, _, _ => .zero
  | dp, fuel + 1, e, n + 1, bs, hs =>
    .units 2 + costVal R gunzip dp fuel e bs hs +
      match decVal R gunzip dp fuel e bs hs with
      | .ok (_, r, hs') => costItems R gunzip dp fuel e n r hs'
      | _ => .zero

def costStruct (R : Registry) (gunzip : Bytes → Option Bytes) : Nat → Nat → CtorDesc → Bytes → List Ty → Cost
  | _, 0, _, _, _ => .zero
  | dp, fuel + 1, d, bs, hs =>
    if !wfDesc d then .zero else costFields R gunzip dp fuel d.flagIndex 0 d.fields bs hs

def costFields (R : Registry) (gunzip : Bytes → Option Bytes) :
    Nat → Nat → Option Nat → Nat → List FieldDesc → Bytes → List Ty → Cost
  | _, _, _, _, [], _, _ => .zero
  | _, 0, _, _, _ :: _, _, _ => .zero
  | dp, fuel + 1, k, bitset, f :: fs, bs, hs =>
    let k' : Option Nat := nextK k
    let hdr : Outcome (Nat × Bytes) := if k = some 0 then popUint bs else .ok (bitset, bs)
    match hdr with
    | .ok (w, r0) =>
      let skip : Bool := match f.flag with
        | some fl => (w / 2 ^ fl.bit) % 2 = 0
        | none => false
      let isBit : Bool := match f.flag with
        | some fl => fl.inBits
        | none => false
      if skip then costFields R gunzip dp fuel k' w fs r0 hs
      else if isBit then costFields R gunzip dp fuel k' w fs r0 hs
      else
        costVal R gunzip dp fuel f.ty r0 hs +
          match decVal R gunzip dp fuel f.ty r0 hs with
          | .ok (_, r, hs') => costFields R gunzip dp fuel k' w fs r hs'
          | _ => .zero
    | _ => .zero

def costRegistered (R : Registry) (gunzip : Bytes → Option Bytes) : Nat → Nat → Bytes → List Ty → Cost
  | _, 0, _, _ => .zero
  | dp, fuel + 1, bs, hs =>
    match popUint bs with
    | .ok (crc, r) =>
      if crc = crcVector then
        match hs with
        | .vec e :: hs' => costVecBody R gunzip dp fuel e r hs'
        | _ => .zero
      else if crc = crcFalse || crc = crcTrue || crc = crcNull then .zero
      else
        match R.find crc with
        | none => .units r.length          -- `DumpWithoutRead` for the error value
        | some d =>
          match d.kind with
          | .enum => .units 1
          | .struct => .units (structUnits d) + costStruct R gunzip dp fuel d r hs
          | .container =>
            .units (structUnits d) +
              match popUint r with
              | .ok (cnt, r1) => .units (costMembers (toSigned 32 cnt).toNat r1)
              | _ => .zero
          | .gzip =>
            .units (structUnits d) + .units (costMessage r) +
              match popMessage r with
              | .ok (packed, _) =>
                match gunzip packed with
                | none => ⟨0, 1, 0⟩
                | some plain =>
                  (⟨0, 1, plain.length⟩ : Cost) +
                    if maxNestedDecoders ≤ dp then .zero
                    else .units plain.length + costRegistered R gunzip (dp + 1) fuel plain hs
              | _ => .zero
    | _ => .zero
end

/-! ## the instrumented decoder: result and cost of the same call -/

def decValC (R : Registry) (gz : Bytes → Option Bytes) (dp fuel : Nat) (ty : Ty) (bs : Bytes) (hs : List Ty) :
    DRes Val × Cost := (decVal R gz dp fuel ty bs hs, costVal R gz dp fuel ty bs hs)
def decVecBodyC (R : Registry) (gz : Bytes → Option Bytes) (dp fuel : Nat) (e : Ty) (bs : Bytes) (hs : List Ty) :
    DRes Val × Cost := (decVecBody R gz dp fuel e bs hs, costVecBody R gz dp fuel e bs hs)
def decItemsC (R : Registry) (gz : Bytes → Option Bytes) (dp fuel : Nat) (e : Ty) (n : Nat) (bs : Bytes) (hs : List Ty) :
    DRes (List Val) × Cost := (decItems R gz dp fuel e n bs hs, costItems R gz dp fuel e n bs hs)
def decStructC (R : Registry) (gz : Bytes → Option Bytes) (dp fuel : Nat) (d : CtorDesc) (bs : Bytes) (hs : List Ty) :
    DRes Val × Cost := (decStruct R gz dp fuel d bs hs, costStruct R gz dp fuel d bs hs)
def decFieldsC (R : Registry) (gz : Bytes → Option Bytes) (dp fuel : Nat) (k : Option Nat) (w : Nat)
    (fs : List FieldDesc) (bs : Bytes) (hs : List Ty) :
    DRes (List Val) × Cost := (decFields R gz dp fuel k w fs bs hs, costFields R gz dp fuel k w fs bs hs)
def decRegisteredC (R : Registry) (gz : Bytes → Option Bytes) (dp fuel : Nat) (bs : Bytes) (hs : List Ty) :
    DRes Val × Cost := (decRegistered R gz dp fuel bs hs, costRegistered R gz dp fuel bs hs)

/-- `tl.DecodeUnknownObject(data, hints...)` with its cost: `NewDecoder` copies the input -/
def decodeUnknownC (R : Registry) (gz : Bytes → Option Bytes) (fuel : Nat) (hints : List Ty) (bs : Bytes) :
    Outcome Val × Cost :=
  (decodeUnknown R gz fuel hints bs, .units bs.length + costRegistered R gz 0 fuel bs hints)

/-- `tl.Decode(data, &T{})` with its cost: `NewDecoder` copies the input (the struct is the caller's) -/
def decodeNamedC (R : Registry) (gz : Bytes → Option Bytes) (fuel : Nat) (id : Nat) (bs : Bytes) :
    Outcome Val × Cost :=
  (decodeNamed R gz fuel id bs, .units bs.length + costVal R gz 0 fuel (.ptr id) bs [])

end Mtv.TL
