/-
  C12 — identity of session objects: the loader over a HEAP (session 9, after the seeded change C12-m16).

  `Store.lean` treats sessions as values, so "the caller changes the object it holds" cannot even be said there. Here
  session objects live at addresses; the loader's cache is an address; `Load` hands out an address; the holder of a
  handed-out object may overwrite it at any time (`AEv.mutate`). Two `Load`s:

  * `copy = false` — the code as it was: the cache object itself is handed out (`return l.cached, nil` / `return s, nil`);
  * `copy = true`  — the repaired code (`pending_fixes/C12-load-returns-copy.patch`): a new object with the cache
    object's content is handed out, the cache object is never given away.

  The file is abstracted to what it reads as (`Option (Session × mtime)`): that a written session reads back as itself
  is `read_write_session`; `Store` keeps nothing of its argument (it marshals it and drops the cache), so it takes a
  value. Core only.
-/
import Mtv.Session.Store
namespace Mtv.Session

structure AState where
  /-- the session objects; an address is an index -/
  heap : List Session
  /-- what the file reads as, and its modification time -/
  file : Option (Session × Nat)
  /-- `l.cached`: the address of the loader's own object -/
  cached : Option Nat
  lastEdited : Option Nat
  /-- the addresses handed out to callers, in order -/
  handed : List Nat

def AState.init : AState := ⟨[], none, none, none, []⟩

inductive AEv where
  /-- `Store(s)`, the file gets modification time `m` (any: equal, smaller, larger) -/
  | store (s : Session) (m : Nat)
  | load
  /-- the holder of the `i`-th handed-out object makes it `s'` (fields reassigned, bytes rewritten in place, …) -/
  | mutate (i : Nat) (s' : Session)

/-- cache hit of `Load`: `info.ModTime().Equal(l.lastEdited) && l.cached != nil` -/
def AState.hit (st : AState) (m : Nat) : Option Nat :=
  match st.cached with
  | some a => if st.lastEdited = some m then some a else none
  | none => none

/-- one event; for a `load`, what the caller sees in the object it is handed at that moment (`none` = not found) -/
def stepA (copy : Bool) (st : AState) : AEv → AState × Option (Option Session)
  | .store s m => ({ st with file := some (s, m), cached := none }, none)
  | .mutate i s' =>
    match st.handed[i]? with
    | some a => ({ st with heap := st.heap.set a s' }, none)
    | none => (st, none)
  | .load =>
    match st.file with
    | none => (st, some none)
    | some (s, m) =>
      match st.hit m with
      | some a =>
        if copy then
          ({ st with heap := st.heap ++ [(st.heap[a]?).getD s], handed := st.handed ++ [st.heap.length] }, some st.heap[a]?)
        else ({ st with handed := st.handed ++ [a] }, some st.heap[a]?)
      | none =>
        if copy then
          ({ st with heap := st.heap ++ [s, s], cached := some st.heap.length, lastEdited := some m,
                     handed := st.handed ++ [st.heap.length + 1] }, some (some s))
        else
          ({ st with heap := st.heap ++ [s], cached := some st.heap.length, lastEdited := some m,
                     handed := st.handed ++ [st.heap.length] }, some (some s))

/-- the results of the `Load`s of a history -/
def runA (copy : Bool) : AState → List AEv → List (Option Session)
  | _, [] => []
  | st, e :: es =>
    match stepA copy st e with
    | (st', some v) => v :: runA copy st' es
    | (st', none) => runA copy st' es

/-- what the property says the `Load`s return: the session stored last (nothing while nothing is stored); what the
holders of handed-out objects do plays no part -/
def specA : Option Session → List AEv → List (Option Session)
  | _, [] => []
  | _, .store s _ :: es => specA (some s) es
  | acc, .load :: es => acc :: specA acc es
  | acc, .mutate _ _ :: es => specA acc es

/-- the invariant of the copying loader: handed-out addresses exist, and the cache object is nobody else's and holds
what the file reads as (the file changes only through `Store`, which drops the cache) -/
structure AInv (st : AState) : Prop where
  handed_lt : ∀ a ∈ st.handed, a < st.heap.length
  cache : ∀ a, st.cached = some a → a ∉ st.handed ∧ ∃ s m, st.file = some (s, m) ∧ st.heap[a]? = some s

theorem AInv.init : AInv AState.init where
  handed_lt := by intro a h; cases h
  cache := by intro a h; cases h

theorem AState.hit_cached {st : AState} {m a : Nat} (h : st.hit m = some a) : st.cached = some a := by
  unfold AState.hit at h
  split at h
  · split at h
    · cases h; assumption
    · cases h
  · cases h

end Mtv.Session
