/-
  Standard base64 with padding, as `encoding/base64.StdEncoding` (non-strict mode, the default):
  `EncodeToString` and `DecodeString`. Go strings are byte sequences, so text is `Bytes` here.
  Core-only.
-/
import Mtv.Basic
namespace Mtv.Session

/-- alphabet character of a sextet (`n < 64`) -/
def b64Char (n : Nat) : UInt8 :=
  if n < 26 then UInt8.ofNat (65 + n)
  else if n < 52 then UInt8.ofNat (71 + n)
  else if n < 62 then UInt8.ofNat (n - 4)
  else if n = 62 then 43 else 47

/-- `decodeMap`: sextet of an alphabet character; `none` for every other byte (incl. `=`) -/
def b64Val (c : UInt8) : Option Nat :=
  let n := c.toNat
  if 65 ≤ n ∧ n ≤ 90 then some (n - 65)
  else if 97 ≤ n ∧ n ≤ 122 then some (n - 71)
  else if 48 ≤ n ∧ n ≤ 57 then some (n + 4)
  else if n = 43 then some 62
  else if n = 47 then some 63
  else none

def padChar : UInt8 := 61

/-- `StdEncoding.EncodeToString` -/
def b64Encode : Bytes → Bytes
  | [] => []
  | [a] =>
    [b64Char (a.toNat / 4), b64Char (a.toNat % 4 * 16), padChar, padChar]
  | [a, b] =>
    [b64Char (a.toNat / 4), b64Char (a.toNat % 4 * 16 + b.toNat / 16),
     b64Char (b.toNat % 16 * 4), padChar]
  | a :: b :: c :: rest =>
    b64Char (a.toNat / 4) :: b64Char (a.toNat % 4 * 16 + b.toNat / 16) ::
    b64Char (b.toNat % 16 * 4 + c.toNat / 64) :: b64Char (c.toNat % 64) :: b64Encode rest

/-- The quantum loop of `Encoding.decode` on input from which `\r` and `\n` have been removed.
Non-strict: the unused low bits of the last quantum are not checked. `none` = `CorruptInputError`. -/
def b64DecodeQ : Bytes → Option Bytes
  | [] => some []
  | a :: b :: c :: d :: rest =>
    match b64Val a, b64Val b with
    | some va, some vb =>
      if c = padChar then
        if d = padChar ∧ rest = [] then some [UInt8.ofNat (va * 4 + vb / 16)] else none
      else match b64Val c with
        | none => none
        | some vc =>
          if d = padChar then
            if rest = [] then
              some [UInt8.ofNat (va * 4 + vb / 16), UInt8.ofNat (vb % 16 * 16 + vc / 4)]
            else none
          else match b64Val d with
            | none => none
            | some vd =>
              (b64DecodeQ rest).map fun r =>
                UInt8.ofNat (va * 4 + vb / 16) :: UInt8.ofNat (vb % 16 * 16 + vc / 4) ::
                UInt8.ofNat (vc % 4 * 64 + vd) :: r
    | _, _ => none
  | _ => none

/-- Go's decoder skips `\r` and `\n` wherever they stand. -/
def isNewline (c : UInt8) : Bool := c = 10 || c = 13

/-- `StdEncoding.DecodeString`; `none` = an error is returned. -/
def b64Decode (s : Bytes) : Option Bytes := b64DecodeQ (s.filter (fun c => !isNewline c))

/-! ### salt: `encodeInt64ToBase64` / `decodeInt64ToBase64` -/

/-- `binary.LittleEndian.PutUint64(buf, uint64(i))` -/
def saltBytes (v : Int) : Bytes := leBytes (ofSigned 64 v) 8

def encodeSalt (v : Int) : Bytes := b64Encode (saltBytes v)

/-- `decodeInt64ToBase64`: the decoded buffer is handed to `binary.LittleEndian.Uint64`, which
indexes `b[7]` — a buffer shorter than 8 bytes **panics** (index out of range); a longer one is
read in its first 8 bytes. -/
def decodeSalt (s : Bytes) : Outcome Int :=
  match b64Decode s with
  | none => .err "b64salt"
  | some buf =>
    if buf.length < 8 then .panic "internal/session.decodeInt64ToBase64"
    else .ok (toSigned 64 (fromLE (buf.take 8)))

end Mtv.Session
