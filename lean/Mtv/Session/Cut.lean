/-
  internal/session/file.go, the last statement of `Store`: `ioutil.WriteFile(l.path, data, 0600)` when the write does
  not get through (the process dies, the disk fills up, a file-size limit is hit) after `k` bytes, with an EARLIER
  session file already at the path.

  `ioutil.WriteFile` opens with `O_WRONLY|O_CREATE|O_TRUNC`: the old content is gone before the first byte of the new
  content is written, and the bytes are written front to back. What a write cut after `k` bytes leaves is therefore
  the first `k` bytes of the new content — the old content plays no part (`cutWrite`). A store that wrote over the old
  file WITHOUT emptying it first would leave the first `k` new bytes followed by the old bytes from `k` on
  (`cutWriteInPlace`): kept here for the counterexample that says why the order matters.
  Core-only.
-/
import Mtv.Session.Store
namespace Mtv.Session

/-- the file after `WriteFile(path, new)` was cut after `k` bytes while `old` was at the path: truncate, then write
front to back. `k ≥ new.length` is the write that got through. -/
def cutWrite (_old new : Bytes) (k : Nat) : Bytes := new.take k

/-- the same cut for a store that overwrites in place (no truncation before the write): new bytes up to `k`, the old
bytes from `k` on. NOT what the code does. -/
def cutWriteInPlace (old new : Bytes) (k : Nat) : Bytes := new.take k ++ old.drop k

/-- how a `Load` after a cut store compares with the two sessions that were stored -/
inductive CutClass where
  | error | older | newer | third
  deriving Repr, DecidableEq

/-- classify what `Load` makes of `file` against the older and the newer stored session (the newer one first: when
both are the same session it counts as the newer) -/
def classifyCut (older newer : Session) (file : Bytes) : CutClass :=
  match readSession file with
  | .ok s => if s = newer then .newer else if s = older then .older else .third
  | _ => .error

end Mtv.Session
