/-
  `NewMTProto` over ANY implementation of the `session.SessionLoader` interface (mtproto.go):

      s, err := c.SessionStorage.Load()
      switch { case err == nil, errs.IsNotFound(err): default: return nil, errors.Wrap(err, "loading session") }
      m := &MTProto{ …, addr: c.ServerHost, encrypted: s != nil, … }
      if s != nil { m.LoadSession(s) }

  `Store.lean` has this for the file loader (`newClient`), whose `Load` says "nothing stored" with a
  not-found error only. The interface allows more: `(nil, nil)`, and errors of other kinds.
  Core-only.
-/
import Mtv.Session.Store
namespace Mtv.Session

/-- what `Load()` hands to `NewMTProto` -/
inductive Loaded where
  /-- `(s, nil)` -/
  | session (s : Session)
  /-- `(nil, nil)`: a store that returns what it holds, and holds nothing -/
  | nothing
  /-- `(nil, err)` with `errs.IsNotFound(err)` -/
  | notFound
  /-- `(nil, err)`, any other error (class `e`) -/
  | failed (e : String)
  deriving Repr, DecidableEq

def blankClient (host : Bytes) : Client :=
  { encrypted := false, authKey := [], authKeyHash := [], serverSalt := 0, addr := host }

/-- `NewMTProto(Config{SessionStorage: …, ServerHost: host})` on what the storage's `Load` returned -/
def startClient (r : Loaded) (host : Bytes) : Outcome Client :=
  match r with
  | .session s => .ok { encrypted := true, authKey := s.key, authKeyHash := s.hash, serverSalt := s.salt, addr := s.hostname }
  | .nothing => .ok (blankClient host)
  | .notFound => .ok (blankClient host)
  | .failed e => .err e

/-- the file loader's results as `Loaded` (a panic inside `Load` is not a return value) -/
def loadedOf : Outcome Session → Option Loaded
  | .ok s => some (.session s)
  | .err "notfound" => some .notFound
  | .err e => some (.failed e)
  | .panic _ => none

/-- The head of `NewMTProto`: which storage serves a `Config`.

      if c.SessionStorage == nil {
          if c.AuthKeyFile == "" { return nil, errors.New("AuthKeyFile is empty") }
          c.SessionStorage = session.NewFromFile(c.AuthKeyFile)
      }

`Config`: "if SessionStorage is nil, AuthKeyFile is required, otherwise it will be ignored". -/
inductive Chosen (σ : Type) where
  /-- `Config.SessionStorage` as given -/
  | given (s : σ)
  /-- `session.NewFromFile(Config.AuthKeyFile)` -/
  | file (p : Path)
  /-- neither: no client -/
  | none

def chooseStorage {σ : Type} (storage : Option σ) (authKeyFile : Path) : Chosen σ :=
  match storage with
  | some s => .given s
  | .none => if authKeyFile = [] then .none else .file authKeyFile

/-- the token of the harness' session storage mode (`hsStore.Mode`) -/
def loadedOfMode? : String → Option Loaded
  | "notfound" => some .notFound
  | "nil" => some .nothing
  | "fail" => some (.failed "new")
  | _ => none

/-- What the server sees of the FIRST request a started client writes, as far as the client's session decides it
(network.go `sendPacket`, messages.go `(*Encrypted).Serialize` / `(*Unencrypted).Serialize`):

      e.PutRawBytes(utils.AuthKeyHash(client.GetAuthKey()))     -- auth_key_id = SHA1(auth key)[12:20]
      … salt | session id | msg id | seq no | length | body, encrypted under client.GetAuthKey()

An encrypted client labels the message with the id DERIVED FROM THE KEY it encrypts with — the key-hash field it
keeps next to the key (loaded from the session's `hash`, any bytes) plays no part —, puts its salt in front and
talks to its address. A client that is not encrypted writes plain text (auth_key_id = 0): the key exchange.
`sha1` is a parameter. -/
structure FirstMessage where
  plain : Bool
  keyId : Bytes
  salt : Int
  addr : Bytes
  deriving Repr, DecidableEq

def keyIdOf (sha1 : Bytes → Bytes) (key : Bytes) : Bytes := ((sha1 key).drop 12).take 8

def Client.firstMessage (sha1 : Bytes → Bytes) (c : Client) : FirstMessage :=
  if c.encrypted then { plain := false, keyId := keyIdOf sha1 c.authKey, salt := c.serverSalt, addr := c.addr }
  else { plain := true, keyId := zeros 8, salt := 0, addr := c.addr }

end Mtv.Session
