/-
  internal/session/file.go: `tokenStorageFormat.writeSession/readSession`, the file loader
  (`genericFileSessionLoader.Load/Store`) over a filesystem parameter, and the resume fragment of
  `NewMTProto` / `CreateConnection`.

  The model describes the code WITH the two repairs of D9 (pending_fixes/C12-*.patch):
    * `Store` on a path without a directory part checks "." instead of "";
    * `Store` drops the mtime-keyed cache.
  The unrepaired behaviour is kept next to it (`dirOfOld`, `Loader.storeOld`) for the counterexamples.
  Core-only.
-/
import Mtv.Session.Base64
import Mtv.Session.Json
namespace Mtv.Session

structure Session where
  key : Bytes
  hash : Bytes
  salt : Int
  hostname : Bytes
  deriving Repr, DecidableEq

/-- the salt is an `int64` -/
def Session.SaltInRange (s : Session) : Prop := -(2 ^ 63 : Int) ≤ s.salt ∧ s.salt < (2 ^ 63 : Int)

instance (s : Session) : Decidable s.SaltInRange := by
  unfold Session.SaltInRange; exact inferInstance

/-- `tokenStorageFormat.writeSession` -/
def writeFields (s : Session) : Fields :=
  { key := b64Encode s.key, hash := b64Encode s.hash, salt := encodeSalt s.salt, hostname := s.hostname }

/-- `tokenStorageFormat.readSession` -/
def readFields (f : Fields) : Outcome Session :=
  match b64Decode f.key with
  | none => .err "b64key"
  | some k =>
    match b64Decode f.hash with
    | none => .err "b64hash"
    | some h =>
      match decodeSalt f.salt with
      | .err e => .err e
      | .panic p => .panic p
      | .ok v => .ok { key := k, hash := h, salt := v, hostname := f.hostname }

/-- the bytes `Store` writes: `json.Marshal` of the filled-in format -/
def writeSession (s : Session) : Bytes := marshal (writeFields s)

/-- what `Load` makes of file content: `json.Unmarshal` then `readSession` -/
def readSession (data : Bytes) : Outcome Session :=
  match unmarshal data with
  | .error .syntax => .err "syntax"
  | .error .type => .err "type"
  | .ok f => readFields f

/-! ### filesystem -/

abbrev Path := Bytes

inductive Node where
  | dir
  | file (content : Bytes) (mtime : Nat)
  deriving Repr, DecidableEq

/-- what `os.Stat` / `ioutil.ReadFile` see: `none` = ENOENT. Paths are compared as strings: two
spellings of one file are two paths here. -/
structure FS where
  stat : Path → Option Node

/-- `ioutil.WriteFile` of the whole content; the operating system stamps the file with `mtime`
(its clock reading at its own granularity — any value, equal to earlier ones or not). -/
def FS.write (fs : FS) (p : Path) (data : Bytes) (mtime : Nat) : FS :=
  ⟨fun q => if q = p then some (.file data mtime) else fs.stat q⟩

/-- `filepath.Split(path)`'s first result on a slash-separated system: everything up to and
including the last `/`. -/
def splitDir : Path → Path
  | [] => []
  | c :: rest =>
    let d := splitDir rest
    if d ≠ [] then c :: d else if c = 0x2F then [c] else []

def dotPath : Path := [0x2E]

/-- the directory `Store` checks (repaired: `""` is read as `"."`) -/
def dirOf (p : Path) : Path := if splitDir p = [] then dotPath else splitDir p

/-- the unrepaired code checks `filepath.Split`'s result as it is -/
def dirOfOld (p : Path) : Path := splitDir p

structure Loader where
  path : Path
  /-- `lastEdited`; `none` is the zero `time.Time`, which no file's modification time equals -/
  lastEdited : Option Nat := none
  cached : Option Session := none
  deriving Repr, DecidableEq

def Loader.new (p : Path) : Loader := { path := p }

/-- the uncached part of `Load`: read, parse, decode, remember -/
def Loader.loadFile (l : Loader) (data : Bytes) (m : Nat) : Loader × Outcome Session :=
  match readSession data with
  | .ok s => ({ l with cached := some s, lastEdited := some m }, .ok s)
  | o => (l, o)

/-- `(*genericFileSessionLoader).Load` -/
def Loader.load (l : Loader) (fs : FS) : Loader × Outcome Session :=
  match fs.stat l.path with
  | none => (l, .err "notfound")
  | some .dir => (l, .err "read")
  | some (.file data m) =>
    match l.cached with
    | some c => if l.lastEdited = some m then (l, .ok c) else l.loadFile data m
    | none => l.loadFile data m

/-- the directory checks of `Store`, on the directory string `d` -/
def storeChecks (fs : FS) (d : Path) : Option String :=
  match fs.stat d with
  | none => some "nodir"
  | some (.file _ _) => some "notdir"
  | some .dir => none

/-- `(*genericFileSessionLoader).Store` (repaired); `mtime` is the stamp the OS gives the file -/
def Loader.store (l : Loader) (fs : FS) (s : Session) (mtime : Nat) : Loader × FS × Outcome Unit :=
  match storeChecks fs (dirOf l.path) with
  | some e => (l, fs, .err e)
  | none =>
    match fs.stat l.path with
    | some .dir => ({ l with cached := none }, fs, .err "write")
    | _ => ({ l with cached := none }, fs.write l.path (writeSession s) mtime, .ok ())

/-- `Store` as it was: directory string unrepaired, cache left alone -/
def Loader.storeOld (l : Loader) (fs : FS) (s : Session) (mtime : Nat) : Loader × FS × Outcome Unit :=
  match storeChecks fs (dirOfOld l.path) with
  | some e => (l, fs, .err e)
  | none =>
    match fs.stat l.path with
    | some .dir => (l, fs, .err "write")
    | _ => (l, fs.write l.path (writeSession s) mtime, .ok ())

/-! ### histories on one path -/

inductive Op where
  /-- `Store(s)`, the file gets modification time `mtime` -/
  | store (s : Session) (mtime : Nat)
  | load
  deriving Repr, DecidableEq

/-- run a history; the result of every operation is recorded (`Store`'s as `none`/error text is not
needed by the theorems, only `Load`'s results are kept) -/
def runOps (storeFn : Loader → FS → Session → Nat → Loader × FS × Outcome Unit) :
    Loader → FS → List Op → Loader × FS × List (Outcome Session)
  | l, fs, [] => (l, fs, [])
  | l, fs, .store s m :: rest =>
    let (l', fs', _) := storeFn l fs s m
    runOps storeFn l' fs' rest
  | l, fs, .load :: rest =>
    let (l', o) := l.load fs
    let (l'', fs'', outs) := runOps storeFn l' fs rest
    (l'', fs'', o :: outs)

/-! ### resume: `NewMTProto` and the head of `CreateConnection` -/

structure Client where
  encrypted : Bool
  authKey : Bytes
  authKeyHash : Bytes
  serverSalt : Int
  addr : Bytes
  deriving Repr, DecidableEq

/-- `NewMTProto(Config{SessionStorage: loader, ServerHost: host})`: a session that is found is
adopted; "not found" starts blank; every other load error is returned. -/
def newClient (l : Loader) (fs : FS) (host : Bytes) : Outcome Client :=
  match (l.load fs).2 with
  | .ok s => .ok { encrypted := true, authKey := s.key, authKeyHash := s.hash, serverSalt := s.salt, addr := s.hostname }
  | .err "notfound" => .ok { encrypted := false, authKey := [], authKeyHash := [], serverSalt := 0, addr := host }
  | .err e => .err e
  | .panic p => .panic p

/-- `CreateConnection` runs `makeAuthKey` exactly when the client is not yet encrypted -/
def Client.runsKeyExchange (c : Client) : Bool := !c.encrypted

end Mtv.Session
