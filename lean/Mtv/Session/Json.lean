/-
  The part of `encoding/json` that `internal/session/file.go` uses.

  * writer: `json.Marshal` of `tokenStorageFormat` (four string fields, in declaration order) —
    `appendString` with `escapeHTML = true`;
  * reader: `json.Unmarshal(data, *tokenStorageFormat)` = `checkValid` (the byte-at-a-time scanner of
    scanner.go, with its parse-state stack) followed by the decoding of the top-level value into the
    struct. Here both are one left fold over the bytes: the scanner state carries what the decoder
    would store.

  Go strings are byte sequences: all text is `Bytes`. Core-only.
-/
import Mtv.Basic
namespace Mtv.Session

/-! ### UTF-8 as `unicode/utf8.DecodeRune` sees it -/

def isCont (b : UInt8) : Bool := 0x80 ≤ b && b ≤ 0xBF

def is2 (b0 b1 : UInt8) : Bool := 0xC2 ≤ b0 && b0 ≤ 0xDF && isCont b1

def is3 (b0 b1 b2 : UInt8) : Bool :=
  0xE0 ≤ b0 && b0 ≤ 0xEF &&
  (if b0 = 0xE0 then 0xA0 else 0x80) ≤ b1 && b1 ≤ (if b0 = 0xED then 0x9F else 0xBF) && isCont b2

def is4 (b0 b1 b2 b3 : UInt8) : Bool :=
  0xF0 ≤ b0 && b0 ≤ 0xF4 &&
  (if b0 = 0xF0 then 0x90 else 0x80) ≤ b1 && b1 ≤ (if b0 = 0xF4 then 0x8F else 0xBF) &&
  isCont b2 && isCont b3

/-- the string is well-formed UTF-8 (`utf8.Valid`) -/
def validUtf8 : Bytes → Bool
  | [] => true
  | b0 :: r0 =>
    if b0 < 0x80 then validUtf8 r0 else
    match r0 with
    | [] => false
    | b1 :: r1 =>
      if is2 b0 b1 then validUtf8 r1 else
      match r1 with
      | [] => false
      | b2 :: r2 =>
        if is3 b0 b1 b2 then validUtf8 r2 else
        match r2 with
        | [] => false
        | b3 :: r3 => if is4 b0 b1 b2 b3 then validUtf8 r3 else false

/-- `utf8.EncodeRune` for a scalar value -/
def encodeRune (n : Nat) : Bytes :=
  if n < 0x80 then [UInt8.ofNat n]
  else if n < 0x800 then [UInt8.ofNat (0xC0 + n / 64), UInt8.ofNat (0x80 + n % 64)]
  else if n < 0x10000 then
    [UInt8.ofNat (0xE0 + n / 4096), UInt8.ofNat (0x80 + n / 64 % 64), UInt8.ofNat (0x80 + n % 64)]
  else
    [UInt8.ofNat (0xF0 + n / 262144), UInt8.ofNat (0x80 + n / 4096 % 64),
     UInt8.ofNat (0x80 + n / 64 % 64), UInt8.ofNat (0x80 + n % 64)]

/-- U+FFFD -/
def replacement : Bytes := [0xEF, 0xBF, 0xBD]

/-! ### writer -/

/-- lower-case hex digit, as `encoding/json`'s `hex` table -/
def hexByte (n : Nat) : UInt8 := if n < 10 then UInt8.ofNat (48 + n) else UInt8.ofNat (87 + n)

/-- `htmlSafeSet[b]` for `b < 0x80`: printable ASCII (and DEL) except `"`, `&`, `<`, `>`, `\` -/
def htmlSafe (b : UInt8) : Bool :=
  0x20 ≤ b && b < 0x80 && b != 0x22 && b != 0x26 && b != 0x3C && b != 0x3E && b != 0x5C

/-- what `appendString` writes for one byte `< 0x80` -/
def escAscii (b : UInt8) : Bytes :=
  if htmlSafe b then [b]
  else if b = 0x5C ∨ b = 0x22 then [0x5C, b]
  else if b = 0x08 then [0x5C, 0x62]
  else if b = 0x0C then [0x5C, 0x66]
  else if b = 0x0A then [0x5C, 0x6E]
  else if b = 0x0D then [0x5C, 0x72]
  else if b = 0x09 then [0x5C, 0x74]
  else [0x5C, 0x75, 0x30, 0x30, hexByte (b.toNat / 16), hexByte (b.toNat % 16)]

/-- backslash, `ufffd` -/
def escReplacement : Bytes := [0x5C, 0x75, 0x66, 0x66, 0x66, 0x64]

/-- the body `appendString` writes between the quotes -/
def escape : Bytes → Bytes
  | [] => []
  | b0 :: r0 =>
    if b0 < 0x80 then escAscii b0 ++ escape r0 else
    match r0 with
    | [] => escReplacement
    | b1 :: r1 =>
      if is2 b0 b1 then b0 :: b1 :: escape r1 else
      match r1 with
      | [] => escReplacement ++ escape [b1]
      | b2 :: r2 =>
        if is3 b0 b1 b2 then
          -- U+2028 / U+2029 are written as   /
          (if b0 = 0xE2 ∧ b1 = 0x80 ∧ (b2 = 0xA8 ∨ b2 = 0xA9) then
             [0x5C, 0x75, 0x32, 0x30, 0x32, hexByte (b2.toNat % 16)]
           else [b0, b1, b2]) ++ escape r2
        else
        match r2 with
        | [] => escReplacement ++ escape [b1, b2]
        | b3 :: r3 =>
          if is4 b0 b1 b2 b3 then b0 :: b1 :: b2 :: b3 :: escape r3
          else escReplacement ++ escape (b1 :: b2 :: b3 :: r3)

def quote (s : Bytes) : Bytes := 0x22 :: (escape s ++ [0x22])

/-- the four strings of `tokenStorageFormat` -/
structure Fields where
  key : Bytes := []
  hash : Bytes := []
  salt : Bytes := []
  hostname : Bytes := []
  deriving Repr, DecidableEq

def kKey : Bytes := [0x6B, 0x65, 0x79]
def kHash : Bytes := [0x68, 0x61, 0x73, 0x68]
def kSalt : Bytes := [0x73, 0x61, 0x6C, 0x74]
def kHostname : Bytes := [0x68, 0x6F, 0x73, 0x74, 0x6E, 0x61, 0x6D, 0x65]

/-- `"name":` followed by the quoted value -/
def member (name value : Bytes) : Bytes := 0x22 :: (name ++ 0x22 :: 0x3A :: quote value)

/-- `json.Marshal(&tokenStorageFormat{…})` -/
def marshal (f : Fields) : Bytes :=
  0x7B :: (member kKey f.key ++ 0x2C :: (member kHash f.hash ++ 0x2C :: (member kSalt f.salt ++
    0x2C :: (member kHostname f.hostname ++ [0x7D]))))

/-! ### reader: string literals -/

def isHex (c : UInt8) : Bool :=
  (0x30 ≤ c && c ≤ 0x39) || (0x61 ≤ c && c ≤ 0x66) || (0x41 ≤ c && c ≤ 0x46)

def hexv (c : UInt8) : Nat :=
  if 0x30 ≤ c ∧ c ≤ 0x39 then c.toNat - 48
  else if 0x61 ≤ c ∧ c ≤ 0x66 then c.toNat - 87
  else c.toNat - 55

def hex4 (a b c d : UInt8) : Nat := ((hexv a * 16 + hexv b) * 16 + hexv c) * 16 + hexv d

/-- the byte a one-letter escape stands for (`\"`, `\\`, `\/`, `\'` map to themselves) -/
def escLetter (c : UInt8) : UInt8 :=
  if c = 0x62 then 0x08 else if c = 0x66 then 0x0C else if c = 0x6E then 0x0A
  else if c = 0x72 then 0x0D else if c = 0x74 then 0x09 else c

/-- what a pending (unpaired) high surrogate becomes -/
def flushPend (pend : Option Nat) : Bytes := if pend.isSome then replacement else []

/-- `unquoteBytes` on the body of a literal the scanner has accepted: escapes are decoded, a
surrogate pair gives one scalar value, a lone surrogate and every ill-formed byte give U+FFFD.
`pend` is a high surrogate read from the preceding `u` escape and not yet paired. -/
def unquoteGo (pend : Option Nat) : Bytes → Bytes
  | [] => flushPend pend
  | b0 :: r0 =>
    if b0 = 0x5C then
      match r0 with
      | [] => flushPend pend ++ [b0]
      | c :: r1 =>
        if c = 0x75 then
          match r1 with
          | h1 :: h2 :: h3 :: h4 :: rest =>
            let r := hex4 h1 h2 h3 h4
            let low : Bool := 0xDC00 ≤ r && r < 0xE000
            match pend, low with
            | some hi, true =>
              encodeRune ((hi - 0xD800) * 1024 + (r - 0xDC00) + 0x10000) ++ unquoteGo none rest
            | _, _ =>
              flushPend pend ++
              (if 0xD800 ≤ r ∧ r < 0xDC00 then unquoteGo (some r) rest
               else if low then replacement ++ unquoteGo none rest
               else encodeRune r ++ unquoteGo none rest)
          | _ => flushPend pend   -- fewer than four bytes after the `u`: the scanner never lets this through
        else flushPend pend ++ escLetter c :: unquoteGo none r1
    else
    flushPend pend ++
    (if b0 < 0x80 then b0 :: unquoteGo none r0 else
    match r0 with
    | [] => replacement
    | b1 :: r1 =>
      if is2 b0 b1 then b0 :: b1 :: unquoteGo none r1 else
      match r1 with
      | [] => replacement ++ unquoteGo none [b1]
      | b2 :: r2 =>
        if is3 b0 b1 b2 then b0 :: b1 :: b2 :: unquoteGo none r2 else
        match r2 with
        | [] => replacement ++ unquoteGo none [b1, b2]
        | b3 :: r3 =>
          if is4 b0 b1 b2 b3 then b0 :: b1 :: b2 :: b3 :: unquoteGo none r3
          else replacement ++ unquoteGo none (b1 :: b2 :: b3 :: r3))

def unquote (s : Bytes) : Bytes := unquoteGo none s

/-! ### reader: field lookup -/

/-- `foldName`: ASCII letters to upper case; the two non-ASCII runes whose simple-fold orbit
contains an ASCII letter — U+212A KELVIN SIGN (→ `K`) and U+017F LONG S (→ `S`) — to that letter.
Every other multi-byte sequence is left as it is (it cannot equal an ASCII name). -/
def foldName : Bytes → Bytes
  | [] => []
  | c :: rest =>
    match rest with
    | c1 :: c2 :: rest2 =>
      if c = 0xE2 ∧ c1 = 0x84 ∧ c2 = 0xAA then 0x4B :: foldName rest2
      else if c = 0xC5 ∧ c1 = 0xBF then 0x53 :: foldName (c2 :: rest2)
      else (if 0x61 ≤ c ∧ c ≤ 0x7A then c - 0x20 else c) :: foldName (c1 :: c2 :: rest2)
    | [c1] =>
      if c = 0xC5 ∧ c1 = 0xBF then [0x53]
      else (if 0x61 ≤ c ∧ c ≤ 0x7A then c - 0x20 else c) :: foldName [c1]
    | [] => [if 0x61 ≤ c ∧ c ≤ 0x7A then c - 0x20 else c]

inductive FieldId where
  | key | hash | salt | hostname
  deriving Repr, DecidableEq

/-- exact name first, then the case-folded name (both select the same field here) -/
def fieldOf (name : Bytes) : Option FieldId :=
  let n := foldName name
  if n = foldName kKey then some .key
  else if n = foldName kHash then some .hash
  else if n = foldName kSalt then some .salt
  else if n = foldName kHostname then some .hostname
  else none

def Fields.set (f : Fields) (name value : Bytes) : Fields :=
  match fieldOf name with
  | some .key => { f with key := value }
  | some .hash => { f with hash := value }
  | some .salt => { f with salt := value }
  | some .hostname => { f with hostname := value }
  | none => f

/-! ### reader: the scanner -/

inductive Lex where
  | beginValue | beginValueOrEmpty | beginStringOrEmpty | beginString | endValue | endTop
  | inStr | esc | escU (k : Nat)
  | neg | zero | one | dot | dot0 | e | eSign | e0
  | lit (rest : Bytes)
  | error
  deriving Repr, DecidableEq

inductive PS where
  | objKey | objVal | arr
  deriving Repr, DecidableEq

structure St where
  lex : Lex := .beginValue
  stack : List PS := []
  endTop : Bool := false
  /-- body of the string literal being read -/
  raw : Bytes := []
  /-- unquoted key of the current member of the top-level object -/
  key : Bytes := []
  f : Fields := {}
  /-- an `UnmarshalTypeError` has been saved -/
  typeErr : Bool := false
  deriving Repr, DecidableEq

def isSpace (c : UInt8) : Bool := c = 0x20 || c = 0x09 || c = 0x0D || c = 0x0A

def isDigit (c : UInt8) : Bool := 0x30 ≤ c && c ≤ 0x39

def maxNestingDepth : Nat := 10000

def St.fail (s : St) : St := { s with lex := .error }

/-- a value starts with byte `c` where a value of another JSON type than string is not storable:
the decoder saves an `UnmarshalTypeError` when the target is the struct itself (top level, anything
but an object or `null`) or one of its four string fields (anything but a string or `null`). -/
def St.noteValueStart (s : St) (c : UInt8) : St :=
  match s.stack with
  | [] => if c = 0x7B ∨ c = 0x6E then s else { s with typeErr := true }
  | [.objVal] =>
    if c = 0x22 ∨ c = 0x6E then s
    else if (fieldOf s.key).isSome then { s with typeErr := true } else s
  | _ => s

/-- `stateBeginValue` -/
def St.beginValue (s : St) (c : UInt8) : St :=
  let t := s.noteValueStart c
  if c = 0x7B then
    if s.stack.length + 1 ≤ maxNestingDepth then
      { t with lex := .beginStringOrEmpty, stack := .objKey :: s.stack } else s.fail
  else if c = 0x5B then
    if s.stack.length + 1 ≤ maxNestingDepth then
      { t with lex := .beginValueOrEmpty, stack := .arr :: s.stack } else s.fail
  else if c = 0x22 then { t with lex := .inStr, raw := [] }
  else if c = 0x2D then { t with lex := .neg }
  else if c = 0x30 then { t with lex := .zero }
  else if c = 0x74 then { t with lex := .lit [0x72, 0x75, 0x65] }
  else if c = 0x66 then { t with lex := .lit [0x61, 0x6C, 0x73, 0x65] }
  else if c = 0x6E then { t with lex := .lit [0x75, 0x6C, 0x6C] }
  else if 0x31 ≤ c ∧ c ≤ 0x39 then { t with lex := .one }
  else s.fail

/-- `popParseState` -/
def St.pop (s : St) : St :=
  match s.stack with
  | [] => s.fail
  | [_] => { s with stack := [], lex := .endTop, endTop := true }
  | _ :: rest => { s with stack := rest, lex := .endValue }

/-- `stateEndValue` -/
def St.endValue (s : St) (c : UInt8) : St :=
  match s.stack with
  | [] =>
    -- the top-level value was complete before this byte
    if isSpace c then { s with lex := .endTop, endTop := true } else s.fail
  | ps :: rest =>
    if isSpace c then { s with lex := .endValue }
    else match ps with
      | .objKey => if c = 0x3A then { s with stack := .objVal :: rest, lex := .beginValue } else s.fail
      | .objVal =>
        if c = 0x2C then { s with stack := .objKey :: rest, lex := .beginString }
        else if c = 0x7D then s.pop else s.fail
      | .arr =>
        if c = 0x2C then { s with lex := .beginValue }
        else if c = 0x5D then s.pop else s.fail

/-- the closing quote of a literal: at depth one of the top-level object a key is remembered and a
value is stored into the field its key selects -/
def St.closeString (s : St) : St :=
  match s.stack with
  | [.objKey] => { s with lex := .endValue, key := unquote s.raw }
  | [.objVal] => { s with lex := .endValue, f := s.f.set s.key (unquote s.raw) }
  | _ => { s with lex := .endValue }

/-- one byte through the scanner (`scan.step(scan, c)`) -/
def step (s : St) (c : UInt8) : St :=
  match s.lex with
  | .error => s
  | .beginValue => if isSpace c then s else s.beginValue c
  | .beginValueOrEmpty =>
    if isSpace c then s else if c = 0x5D then s.endValue c else s.beginValue c
  | .beginStringOrEmpty =>
    if isSpace c then s
    else if c = 0x7D then
      match s.stack with
      | _ :: rest => ({ s with stack := .objVal :: rest } : St).endValue c
      | [] => s.fail
    else if c = 0x22 then { s with lex := .inStr, raw := [] } else s.fail
  | .beginString =>
    if isSpace c then s else if c = 0x22 then { s with lex := .inStr, raw := [] } else s.fail
  | .endValue => s.endValue c
  | .endTop => if isSpace c then s else s.fail
  | .inStr =>
    if c = 0x22 then s.closeString
    else if c = 0x5C then { s with lex := .esc, raw := s.raw ++ [c] }
    else if c < 0x20 then s.fail
    else { s with raw := s.raw ++ [c] }
  | .esc =>
    if c = 0x62 ∨ c = 0x66 ∨ c = 0x6E ∨ c = 0x72 ∨ c = 0x74 ∨ c = 0x5C ∨ c = 0x2F ∨ c = 0x22 then
      { s with lex := .inStr, raw := s.raw ++ [c] }
    else if c = 0x75 then { s with lex := .escU 0, raw := s.raw ++ [c] }
    else s.fail
  | .escU k =>
    if isHex c then { s with lex := (if k < 3 then .escU (k + 1) else .inStr), raw := s.raw ++ [c] }
    else s.fail
  | .neg =>
    if c = 0x30 then { s with lex := .zero }
    else if 0x31 ≤ c ∧ c ≤ 0x39 then { s with lex := .one } else s.fail
  | .one =>
    if isDigit c then s
    else if c = 0x2E then { s with lex := .dot }
    else if c = 0x65 ∨ c = 0x45 then { s with lex := .e }
    else s.endValue c
  | .zero =>
    if c = 0x2E then { s with lex := .dot }
    else if c = 0x65 ∨ c = 0x45 then { s with lex := .e }
    else s.endValue c
  | .dot => if isDigit c then { s with lex := .dot0 } else s.fail
  | .dot0 =>
    if isDigit c then s
    else if c = 0x65 ∨ c = 0x45 then { s with lex := .e }
    else s.endValue c
  | .e =>
    if c = 0x2B ∨ c = 0x2D then { s with lex := .eSign }
    else if isDigit c then { s with lex := .e0 } else s.fail
  | .eSign => if isDigit c then { s with lex := .e0 } else s.fail
  | .e0 => if isDigit c then s else s.endValue c
  | .lit rest =>
    match rest with
    | [] => s.fail
    | [x] => if c = x then { s with lex := .endValue } else s.fail
    | x :: more => if c = x then { s with lex := .lit more } else s.fail

def scan (s : St) (data : Bytes) : St := data.foldl step s

/-- `scan.eof()`: the input is a complete JSON text -/
def St.complete (s : St) : Bool :=
  if s.lex = .error then false
  else if s.endTop then true
  else let t := step s 0x20; t.lex != .error && t.endTop

inductive ParseErr where
  | syntax    -- *json.SyntaxError
  | type      -- *json.UnmarshalTypeError
  deriving Repr, DecidableEq

/-- `json.Unmarshal(data, new(tokenStorageFormat))` -/
def unmarshal (data : Bytes) : Except ParseErr Fields :=
  let s := scan {} data
  if !s.complete then .error .syntax
  else if s.typeErr then .error .type
  else .ok s.f

end Mtv.Session
