/-
  C19 — where key-agreement secrets come from: the model.

  The program is modelled by its call graph (regenerated from the repository's working tree into
  `Mtv/Gen/CallGraph.lean` on every run): a finite directed graph over `Nat` given by adjacency lists,
  some classified leaves (functions of `crypto/rand`, of `math/rand`, seeders, clock readers), entry
  points, and the *generators* — the functions whose results become nonce, new_nonce, the
  Diffie-Hellman exponent and the SRP ephemeral.

  This file is core-only and everything in it is written for evaluation by the kernel: `Nat`,
  structural recursion, Boolean checkers.
-/
namespace Mtv.Rand

/-- A finite directed graph: the list at position `i` holds the successors of node `i`.
    Nodes without a row have no successors. -/
abbrev Graph := List (List Nat)

/-- out-edges of a node -/
def succ : Graph → Nat → List Nat
  | [], _ => []
  | r :: _, 0 => r
  | _ :: t, n + 1 => succ t n

/-- membership test by `Nat.beq` (evaluated natively by the kernel on literals) -/
def mem (x : Nat) : List Nat → Bool
  | [] => false
  | y :: ys =>
    match Nat.beq x y with
    | true => true
    | false => mem x ys

/-- Reachability: the reflexive-transitive closure of the edge relation given by a successor function
    `sc` (`succ g` for a graph `g`). This is the specification; `reach` below is the function that
    computes it. -/
inductive Reach (sc : Nat → List Nat) (s : Nat) : Nat → Prop
  | refl : Reach sc s s
  | step {y z : Nat} : Reach sc s y → z ∈ sc y → Reach sc s z

/-- add to `vis` those of `ys` it does not contain yet; `nf` collects what was added -/
def insertAll : List Nat → List Nat → List Nat → List Nat × List Nat
  | [], vis, nf => (vis, nf)
  | y :: ys, vis, nf =>
    match mem y vis with
    | true => insertAll ys vis nf
    | false => insertAll ys (y :: vis) (y :: nf)

/-- one breadth-first round: the successors of every frontier node -/
def expand (sc : Nat → List Nat) : List Nat → List Nat → List Nat → List Nat × List Nat
  | [], vis, nf => (vis, nf)
  | x :: xs, vis, nf =>
    match insertAll (sc x) vis nf with
    | (v, n) => expand sc xs v n

/-- breadth-first closure: `fr` is the frontier (visited, successors not yet added), `vis` everything
    visited so far. Stops when the frontier is empty (or the fuel is, which `reach` never lets happen). -/
def bfs (sc : Nat → List Nat) : Nat → List Nat → List Nat → List Nat
  | 0, _, vis => vis
  | _ + 1, [], vis => vis
  | f + 1, x :: fr, vis =>
    match expand sc (x :: fr) vis [] with
    | (v, n) => bfs sc f n v

/-- number of edges -/
def edgeCount : Graph → Nat
  | [] => 0
  | r :: t => r.length + edgeCount t

/-- the set of nodes reachable from `s` (including `s`). Every round but the last adds a node, and
    every node added is the target of an edge, so `edgeCount g + 1` rounds always suffice. -/
def reach (g : Graph) (s : Nat) : List Nat := bfs (succ g) (edgeCount g + 1) [s] [s]

/-! ### the same closure with the visited set kept as a bit mask

`reach` is the function the general theorems are about. For evaluation by the kernel the visited set is
kept in one natural number (bit `x` set ⇔ node `x` visited): `Nat.testBit`, `|||` and `2 ^ _` on literals
are computed natively, so a membership test costs the same whatever the size of the set.
`reachM g s = toMask (reach g s)` is proved in `Lemmas/C19`. -/

/-- the set of the elements of a list, as a bit mask -/
def toMask : List Nat → Nat
  | [] => 0
  | y :: l => toMask l ||| 2 ^ y

def insertAllM : List Nat → Nat → List Nat → Nat × List Nat
  | [], vis, nf => (vis, nf)
  | y :: ys, vis, nf =>
    match Nat.testBit vis y with
    | true => insertAllM ys vis nf
    | false => insertAllM ys (vis ||| 2 ^ y) (y :: nf)

def expandM (sc : Nat → List Nat) : List Nat → Nat → List Nat → Nat × List Nat
  | [], vis, nf => (vis, nf)
  | x :: xs, vis, nf =>
    match insertAllM (sc x) vis nf with
    | (v, n) => expandM sc xs v n

def bfsM (sc : Nat → List Nat) : Nat → List Nat → Nat → Nat
  | 0, _, vis => vis
  | _ + 1, [], vis => vis
  | f + 1, x :: fr, vis =>
    match expandM sc (x :: fr) vis [] with
    | (v, n) => bfsM sc f n v

/-- the set of nodes reachable from `s`, as a bit mask -/
def reachM (g : Graph) (s : Nat) : Nat := bfsM (succ g) (edgeCount g + 1) [s] (toMask [s])

/-! ### adjacency rows in chunks

Finding row `x` of a plain list costs `x` steps. The translator therefore emits the rows in chunks of
`k` rows (node `x` is row `x % k` of chunk `x / k`), which makes a lookup cost about `n / k + k` steps.
A chunked graph is a graph in its own right: its edge relation is `succ2 k c`, and all theorems about
the regenerated graph are stated for that relation. -/

def nthG : List Graph → Nat → Graph
  | [], _ => []
  | c :: _, 0 => c
  | _ :: t, n + 1 => nthG t n

/-- out-edges of node `x` of a graph given in chunks of `k` rows -/
def succ2 (k : Nat) (c : List Graph) (x : Nat) : List Nat := succ (nthG c (x / k)) (x % k)

def edgeCount2 : List Graph → Nat
  | [] => 0
  | g :: t => edgeCount g + edgeCount2 t

def rowCount2 : List Graph → Nat
  | [] => 0
  | g :: t => g.length + rowCount2 t

/-- reachable set of a chunked graph, as a bit mask -/
def reachM2 (k : Nat) (c : List Graph) (s : Nat) : Nat :=
  bfsM (succ2 k c) (edgeCount2 c + 1) [s] (toMask [s])

/-- the same as a list (used by the driver to print paths) -/
def reach2 (k : Nat) (c : List Graph) (s : Nat) : List Nat :=
  bfs (succ2 k c) (edgeCount2 c + 1) [s] [s]

/-- no element of `cs` is in the set `r` -/
def noneIn (r : Nat) : List Nat → Bool
  | [] => true
  | c :: cs =>
    match Nat.testBit r c with
    | true => false
    | false => noneIn r cs

/-- some element of `cs` is in the set `r` -/
def someIn (r : Nat) : List Nat → Bool
  | [] => false
  | c :: cs =>
    match Nat.testBit r c with
    | true => true
    | false => someIn r cs

/-- every element of `cs` is in the set `r` -/
def allIn (r : Nat) : List Nat → Bool
  | [] => true
  | c :: cs =>
    match Nat.testBit r c with
    | true => allIn r cs
    | false => false

/-- no element of `xs` is in `ys` -/
def disjointB : List Nat → List Nat → Bool
  | [], _ => true
  | x :: xs, ys =>
    match mem x ys with
    | true => false
    | false => disjointB xs ys

/-- some element of `xs` is in `ys` -/
def meetsB : List Nat → List Nat → Bool
  | [], _ => false
  | x :: xs, ys =>
    match mem x ys with
    | true => true
    | false => meetsB xs ys

def allB (p : Nat → Bool) : List Nat → Bool
  | [] => true
  | x :: xs =>
    match p x with
    | true => allB p xs
    | false => false

def allLt (n : Nat) (xs : List Nat) : Bool := allB (fun x => Nat.blt x n) xs

def rowsLt (n : Nat) : Graph → Bool
  | [] => true
  | r :: t =>
    match allLt n r with
    | true => rowsLt n t
    | false => false

/-- consecutive elements are joined by edges -/
def validPath (sc : Nat → List Nat) : List Nat → Bool
  | [] => true
  | [_] => true
  | x :: y :: r =>
    match mem y (sc x) with
    | true => validPath sc (y :: r)
    | false => false

def rows2Lt (n : Nat) : List Graph → Bool
  | [] => true
  | g :: t =>
    match rowsLt n g with
    | true => rows2Lt n t
    | false => false

def lastD : List Nat → Nat → Nat
  | [], d => d
  | x :: xs, _ => lastD xs x

/-- the data the translator emits -/
structure Model where
  /-- adjacency rows in chunks of `chunk` rows: node `x` is row `x % chunk` of chunk `x / chunk` -/
  adj : List Graph
  chunk : Nat
  numNodes : Nat
  /-- standard-library functions (never expanded) and virtual suspect leaves -/
  leaves : List Nat
  cryptoRand : List Nat
  mathRand : List Nat
  seeders : List Nat
  clock : List Nat
  /-- `crypto/rand.Int/Prime` called with a reader other than `crypto/rand.Reader` -/
  suspect : List Nat
  /-- functions that replace `crypto/rand.Reader` -/
  readerStores : List Nat
  entries : List Nat
  generators : List Nat
  /-- the generators that lie on a path from an entry point (`witnessPaths` has one path for each) -/
  usedGenerators : List Nat
  /-- virtual nodes: one per secret, out-edges = the calls its value is computed from -/
  secrets : List Nat
  witnessPaths : List (List Nat)
  seedPath : List Nat
  ok : Bool

namespace Model

/-- the edge relation of the emitted graph -/
def sc (M : Model) : Nat → List Nat := succ2 M.chunk M.adj

/-- everything the theorems are about: the generator functions and the per-secret slices -/
def sources (M : Model) : List Nat := M.generators ++ M.secrets

def roots (M : Model) : List Nat := M.entries ++ M.sources ++ M.readerStores

/-- the node set contains the roots and the classified nodes and is closed under the emitted edges;
    leaves have no out-edges; the translator reported success and found every kind of root -/
def closedB (M : Model) : Bool :=
  M.ok && Nat.beq (rowCount2 M.adj) M.numNodes && rows2Lt M.numNodes M.adj
  && allLt M.numNodes M.roots
  && allLt M.numNodes M.leaves && allLt M.numNodes M.cryptoRand && allLt M.numNodes M.mathRand
  && allLt M.numNodes M.seeders && allLt M.numNodes M.clock && allLt M.numNodes M.suspect
  && allB (fun l => (M.sc l).isEmpty) M.leaves
  && allIn (toMask M.leaves) (M.cryptoRand ++ M.mathRand ++ M.seeders ++ M.clock ++ M.suspect)
  && allIn (toMask M.mathRand) M.seeders
  && allIn (toMask M.generators) M.usedGenerators
  && !M.entries.isEmpty && !M.usedGenerators.isEmpty && !M.secrets.isEmpty

/-- a source draws from `crypto/rand` and from nothing reproducible -/
def sourceOK (M : Model) (x : Nat) : Bool :=
  match reachM2 M.chunk M.adj x with
  | r => noneIn r M.mathRand && someIn r M.cryptoRand

/-- a source neither consults the clock nor uses `crypto/rand` with a foreign reader -/
def sourcePure (M : Model) (x : Nat) : Bool :=
  match reachM2 M.chunk M.adj x with
  | r => noneIn r M.clock && noneIn r M.suspect

def allSourcesOK (M : Model) : Bool := allB M.sourceOK M.sources
def allSourcesPure (M : Model) : Bool := allB M.sourcePure M.sources

/-- `p` is a path of the graph from an entry point to `g` -/
def witnessOK1 (M : Model) (g : Nat) (p : List Nat) : Bool :=
  match p with
  | [] => false
  | e :: r => mem e M.entries && Nat.beq (lastD r e) g && validPath M.sc (e :: r)

def witnessesOK (M : Model) : List Nat → List (List Nat) → Bool
  | [], [] => true
  | g :: gs, p :: ps => if M.witnessOK1 g p then witnessesOK M gs ps else false
  | _, _ => false

/-- the emitted seeder path (if any) is a path from an entry point to a seeder -/
def seedPathOK (M : Model) : Bool :=
  match M.seedPath with
  | [] => true
  | e :: r => mem e M.entries && mem (lastD r e) M.seeders && validPath M.sc (e :: r)

end Model

/-! Diagnosis for the driver (not used by the theorems): a path from `x` to the first node of `bad`
    found breadth-first, as a list of nodes. -/

/-- predecessor search: the first `p` in `vis` with `x ∈ succ g p` -/
def findPred (sc : Nat → List Nat) (x : Nat) : List Nat → Option Nat
  | [] => none
  | p :: ps => if mem x (sc p) then some p else findPred sc x ps

/-- the part of `r` after the first occurrence of `x` (in `reach`'s output: what was discovered before `x`) -/
def after (x : Nat) : List Nat → List Nat
  | [] => []
  | y :: ys => if Nat.beq x y then ys else after x ys

/-- walk back from `x` to `s` through the reachable set `r` (newest first): a predecessor of `x`
    discovered before `x` always exists unless `x = s`; the fuel only bounds the recursion -/
def backPath (sc : Nat → List Nat) (s : Nat) (r : List Nat) : Nat → Nat → List Nat → List Nat
  | 0, x, acc => x :: acc
  | f + 1, x, acc =>
    if Nat.beq x s then x :: acc else
    match findPred sc x (after x r) with
    | some p => backPath sc s r f p (x :: acc)
    | none => x :: acc

def firstIn (bad : List Nat) : List Nat → Option Nat
  | [] => none
  | x :: xs => if mem x bad then some x else firstIn bad xs

end Mtv.Rand
