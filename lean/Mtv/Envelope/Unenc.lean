/-
  Unencrypted (key-exchange) message envelope: model of
  `messages.Unencrypted.Serialize` / `messages.DeserializeUnencrypted`
  (internal/mtproto/messages/messages.go) and `transport.isPacketEncrypted`.
-/
import Mtv.Basic
namespace Mtv.Unenc

/-- `Unencrypted.Serialize`: zero key id, msg_id (LE 64), int32 length, body. -/
def serialize (msgId : Nat) (body : Bytes) : Bytes :=
  leBytes 0 8 ++ leBytes msgId 8 ++ leBytes body.length 4 ++ body

inductive DErr where
  | parity   -- "Wrong bits of message_id"
  | length   -- "message not equal defined size"
  deriving Repr, DecidableEq

/-- `DeserializeUnencrypted`, including the sticky-error behaviour of the TL reader on short input
(every failed `Pop*` yields 0, so a short packet fails the parity test on msg_id = 0). -/
def deserialize (data : Bytes) : Except DErr (Nat × Bytes) :=
  if data.length < 16 then .error .parity
  else
    let mid := fromLE ((data.drop 8).take 8)
    if mid % 4 ≠ 1 ∧ mid % 4 ≠ 3 then .error .parity
    else if data.length < 20 then .error .length
    else
      let l := fromLE ((data.drop 16).take 4)
      if data.length - 20 ≠ l then .error .length
      else .ok (mid, data.drop 20)

/-- `isPacketEncrypted` -/
def isEncrypted (data : Bytes) : Bool :=
  if data.length < 8 then false else fromLE (data.take 8) != 0

end Mtv.Unenc
