/-
  C04, the head rule (`Head.lean`): the prefix property of the executable AES-256-IGE decryption. IGE decrypts block
  by block from the front, each plaintext block being a function of the cipher blocks up to it; so the first 32
  decrypted bytes — the inner header: salt, session id, msg_id, seq_no, declared length — are the decryption of the first
  32 cipher bytes alone. This is what `openClientHead` uses when it answers from the first 56 bytes of a packet
  (`Driver.C04.bigOpen` relies on it for described garbage above 2^20 bytes). Core-only.
-/
import Mtv.Envelope.IgeExec
namespace Mtv.Envelope.IgeExec
open Mtv Mtv.Crypto

/-- the accumulator of `decLoop` is only ever prepended to -/
theorem decLoop_acc (D : Bytes → Bytes) (n : Nat) (c p d : Bytes) (acc : List Bytes) :
    decLoop D n c p d acc = decLoop D n c p d [] ++ acc := by
  induction n generalizing c p d acc with
  | zero => simp [decLoop]
  | succ n ih =>
    simp only [decLoop]
    rw [ih, ih (acc := [_])]
    simp

theorem xorB_length (a b : Bytes) : (xorB a b).length = min a.length b.length := by
  simp [xorB]

/-- two blocks of `decLoop` for an arbitrary 16-byte block function: the first 32 output bytes need the first 32 input
bytes only -/
theorem decLoop_head2 (D : Bytes → Bytes) (hD : ∀ b, (D b).length = 16) (m : Nat) (c p data : Bytes)
    (hc : c.length = 16) (h : 32 ≤ data.length) :
    ((decLoop D (m + 2) c p data []).reverse.flatten).take 32 = (decLoop D 2 c p (data.take 32) []).reverse.flatten := by
  have e1 : (data.take 32).take 16 = data.take 16 := by
    rw [List.take_take]; simp
  have e2 : ((data.take 32).drop 16).take 16 = (data.drop 16).take 16 := by
    rw [List.drop_take, List.take_take]; simp
  simp only [decLoop]
  rw [decLoop_acc, e1, e2]
  generalize hp1 : xorB (D (xorB (data.take 16) p)) c = p1
  generalize hp2 : xorB (D (xorB ((data.drop 16).take 16) p1)) (data.take 16) = p2
  have l1 : p1.length = 16 := by
    rw [← hp1, xorB_length, hD]; omega
  have l2 : p2.length = 16 := by
    rw [← hp2, xorB_length, hD, List.length_take]; omega
  simp only [List.reverse_append, List.reverse_cons, List.reverse_nil, List.nil_append, List.cons_append,
    List.flatten_cons, List.flatten_nil, List.append_nil]
  rw [← List.append_assoc, List.take_append_of_le_length (by rw [List.length_append, l1, l2]; omega)]
  rw [List.take_of_length_le (by rw [List.length_append, l1, l2]; omega)]

/-- **Prefix property of the executable IGE decryption, two blocks**: for a 32-byte IV and at least two cipher blocks,
the first 32 decrypted bytes are the decryption of the first 32 cipher bytes — for EVERY length of the rest. -/
theorem igeDec_head32 (key iv data : Bytes) (hiv : iv.length = 32) (h : 32 ≤ data.length) :
    (igeDec key iv data).take 32 = igeDec key iv (data.take 32) := by
  obtain ⟨m, hm⟩ : ∃ m, data.length / 16 = m + 2 := ⟨data.length / 16 - 2, by omega⟩
  have h2 : (data.take 32).length / 16 = 2 := by
    rw [List.length_take]; omega
  unfold igeDec
  rw [hm, h2]
  exact decLoop_head2 _ (aes256DecryptBlock_length _) m _ _ data (by rw [List.length_take]; omega) h

/-- a concrete instance: 48 cipher bytes, the hypotheses hold -/
example : (32 : Nat) ≤ (List.replicate 48 (0 : UInt8)).length ∧ (List.replicate 32 (0 : UInt8)).length = 32 := by
  simp

end Mtv.Envelope.IgeExec
