/-
  AES-256-IGE, executable, written straight from the definition (used only by the C03/C04 drivers;
  the theorems take the cipher as a parameter, see `Types.lean`):

      c_i = E_k(p_i xor c_{i-1}) xor p_{i-1}          p_i = D_k(c_i xor p_{i-1}) xor c_{i-1}

  with the 32-byte IV read as  c_0 = iv[0:16]  ("previous ciphertext") and  p_0 = iv[16:32]
  ("previous plaintext") — the convention of `NewCipher` in internal/aes_ige/ige_cipher.go
  (`copy(c.x, iv[:16]); copy(c.y, iv[16:])`, x being xor-ed into the plaintext block before the block
  cipher and y after it). Core-only.
-/
import Mtv.Crypto.Aes
namespace Mtv.Envelope.IgeExec
open Mtv Mtv.Crypto

def xorB (a b : Bytes) : Bytes := List.zipWith (· ^^^ ·) a b

/-- `n` blocks of encryption; `acc` collects the ciphertext blocks in reverse -/
def encLoop (E : Bytes → Bytes) : Nat → Bytes → Bytes → Bytes → List Bytes → List Bytes
  | 0, _, _, _, acc => acc
  | n + 1, cPrev, pPrev, data, acc =>
    let p := data.take 16
    let c := xorB (E (xorB p cPrev)) pPrev
    encLoop E n c p (data.drop 16) (c :: acc)

/-- `n` blocks of decryption -/
def decLoop (D : Bytes → Bytes) : Nat → Bytes → Bytes → Bytes → List Bytes → List Bytes
  | 0, _, _, _, acc => acc
  | n + 1, cPrev, pPrev, data, acc =>
    let c := data.take 16
    let p := xorB (D (xorB c pPrev)) cPrev
    decLoop D n c p (data.drop 16) (p :: acc)

/-- IGE encryption of `data` (whole blocks only; a trailing partial block is ignored — the model
never calls it on such input, `igeCheck` comes first) -/
def igeEnc (key iv data : Bytes) : Bytes :=
  let k := aes256Expand key
  (encLoop (aes256EncryptBlock k) (data.length / 16) (iv.take 16) (iv.drop 16) data []).reverse.flatten

def igeDec (key iv data : Bytes) : Bytes :=
  let k := aes256Expand key
  (decLoop (aes256DecryptBlock k) (data.length / 16) (iv.take 16) (iv.drop 16) data []).reverse.flatten

end Mtv.Envelope.IgeExec
