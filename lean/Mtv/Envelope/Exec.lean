/-
  Executable instances of the primitives (SHA-1 and AES from `Mtv/Crypto`, IGE from `IgeExec`) and
  line-protocol helpers shared by the C03 and C04 drivers. Used only by the drivers. Core-only.
-/
import Mtv.Crypto.Sha1
import Mtv.Envelope.IgeExec
import Mtv.Envelope.Model
import Mtv.Envelope.Spec
namespace Mtv.Envelope.Exec
open Mtv Mtv.Envelope

def prims : Prims := ⟨Crypto.sha1, IgeExec.igeEnc, IgeExec.igeDec⟩

/-- `n` pseudo-random bytes from a 64-bit LCG (Knuth's MMIX constants), top byte of each state; the
Go harness has the same generator, so long random byte strings travel as `x<n>:<seed>`. -/
def lcgBytes (n : Nat) (seed : UInt64) : Bytes :=
  let rec go : Nat → UInt64 → List UInt8 → List UInt8
    | 0, _, acc => acc.reverse
    | k + 1, s, acc =>
      let s' := s * 6364136223846793005 + 1442695040888963407
      go k s' ((s' >>> 56).toUInt8 :: acc)
  go n seed []

/-- byte-string token: hex, `-` (empty), `z<n>` zero bytes, `p<n>` bytes `i % 251`, `x<n>:<seed>` -/
def parseTok? (s : String) : Option Bytes :=
  match s.toList with
  | 'z' :: r => (String.ofList r).toNat?.map fun n => List.replicate n 0
  | 'p' :: r => (String.ofList r).toNat?.map fun n => (List.range n).map fun i => UInt8.ofNat (i % 251)
  | 'x' :: r =>
    match (String.ofList r).splitOn ":" with
    | [n, sd] =>
      match n.toNat?, sd.toNat? with
      | some n, some sd => some (lcgBytes n (UInt64.ofNat sd))
      | _, _ => none
    | _ => none
  | _ => fromHex? s

/-- FNV-1a 32 (same as `Driver.Util`) -/
def fnv32 (bs : Bytes) : Nat :=
  bs.foldl (fun h b => ((h ^^^ b.toNat) * 16777619) % 4294967296) 2166136261

/-- hex when short, `L<len>:<fnv32>` when long (same rule as the Go harness) -/
def showB (bs : Bytes) : String :=
  if bs.length ≤ 48 then toHexD bs else s!"L{bs.length}:{fnv32 bs}"

def showMsg (m : Msg) : String :=
  s!"ok salt={m.salt} sid={m.sid} mid={m.mid} seq={m.seq} body={showB m.body}"

def showOutcome {α} (f : α → String) : Outcome α → String
  | .ok a => f a
  | .err e => "err:" ++ e
  | .panic s => "panic:" ++ s

def showRouted : Routed → String
  | .code c => s!"code:{c}"
  | .enc m => "enc " ++ showMsg m
  | .unenc mid body => s!"unenc mid={mid} body={showB body}"
  | .err e => "err:" ++ e
  | .panic s => "panic:" ++ s

end Mtv.Envelope.Exec
