/-
  Encrypted envelope (C03, C04) — shared types.

  The cryptographic primitives are *parameters* of the model and of every theorem (DESIGN §4):
  `H` stands for SHA-1, `igeE`/`igeD` for AES-256-IGE encryption/decryption with a 32-byte key and a
  32-byte IV. What is assumed about them is exactly `Prims.Ok`. The executable instances used by
  the drivers live in `Mtv/Envelope/Exec.lean`. Core-only.
-/
import Mtv.Basic
namespace Mtv.Envelope

/-- the primitives the envelope is built from -/
structure Prims where
  /-- SHA-1 -/
  H : Bytes → Bytes
  /-- AES-256-IGE encryption: key, iv, data -/
  igeE : Bytes → Bytes → Bytes → Bytes
  /-- AES-256-IGE decryption: key, iv, data -/
  igeD : Bytes → Bytes → Bytes → Bytes

/-- The hypotheses on the primitives. They are only required where the Go code uses the cipher: a
32-byte key, a 32-byte IV, a non-empty input whose length is a multiple of 16. (C05 proves the four
IGE clauses for the model of the repository's IGE loop, relative to `aesD ∘ aesE = id`.) -/
structure Prims.Ok (P : Prims) : Prop where
  H_len : ∀ m, (P.H m).length = 20
  igeE_len : ∀ k iv x, k.length = 32 → iv.length = 32 → 0 < x.length → x.length % 16 = 0 →
    (P.igeE k iv x).length = x.length
  igeD_len : ∀ k iv x, k.length = 32 → iv.length = 32 → 0 < x.length → x.length % 16 = 0 →
    (P.igeD k iv x).length = x.length
  igeD_igeE : ∀ k iv x, k.length = 32 → iv.length = 32 → 0 < x.length → x.length % 16 = 0 →
    P.igeD k iv (P.igeE k iv x) = x
  igeE_igeD : ∀ k iv x, k.length = 32 → iv.length = 32 → 0 < x.length → x.length % 16 = 0 →
    P.igeE k iv (P.igeD k iv x) = x

/-- The content of an encrypted message: the inner header fields as unsigned numbers (the Go code
holds them as `int64`/`int32`; the wire and this model only see the 64/32 bits) and the body. -/
structure Msg where
  salt : Nat
  sid : Nat
  mid : Nat
  seq : Nat
  body : Bytes
  deriving DecidableEq, Repr

/-- the fields fit their wire widths; the body length fits the `int32` length field -/
def Msg.WF (m : Msg) : Prop :=
  m.salt < 2 ^ 64 ∧ m.sid < 2 ^ 64 ∧ m.mid < 2 ^ 64 ∧ m.seq < 2 ^ 32 ∧ m.body.length < 2 ^ 31

instance (m : Msg) : Decidable m.WF := by unfold Msg.WF; infer_instance

/-- `msg_id mod 4 ∈ {1, 3}`: a message from the server -/
def serverParity (mid : Nat) : Prop := mid % 4 = 1 ∨ mid % 4 = 3

instance (mid : Nat) : Decidable (serverParity mid) := by unfold serverParity; infer_instance

/-- Go's `b[i:j]` (for `i ≤ j ≤ len b`) -/
def slice (b : Bytes) (i j : Nat) : Bytes := (b.take j).drop i

end Mtv.Envelope
