/-
  C04, packets of any size: what the first 56 bytes of a packet and its length alone decide about
  `DeserializeEncrypted` (`openClient`). IGE decrypts block by block from the front, so the inner header (salt,
  session id, msg_id, seq_no, declared length: the first 32 decrypted bytes) depends on the first two cipher blocks
  only; the key id test, the key check, the block alignment test, the declared-length guard and the msg_id parity
  test need nothing else. The driver answers operations on packets of many megabytes with this rule where it
  decides and with the full model otherwise; for every described packet of at most 2^20 bytes it computes BOTH and
  reports a difference (`Driver.C04.bigOpen`), so the rule is tied to the model on every run. "The first two decrypted
  blocks depend on the first two cipher blocks only" of the executable IGE is a theorem now
  (`HeadIge.lean`: `IgeExec.igeDec_head32`, for every length of the rest); the step from there to "the rule equals
  `openClient` wherever it answers" (unfolding the reader pops of `openClientG` / `openInner` over `take` / `drop`) is
  still open. Core-only.
-/
import Mtv.Envelope.Model
namespace Mtv.Envelope

/-- the declared-length guard and the parity test, from the first 32 decrypted bytes and the number of decrypted bytes -/
def headVerdict (head : Bytes) (decLen : Nat) : Option String :=
  let mid := fromLE ((head.drop 16).take 8)
  let mlen : Int := toSigned 32 (fromLE ((head.drop 28).take 4))
  if guardRefuses .fixed decLen mlen then some "tooSmall"
  else if mid % 4 ≠ 1 ∧ mid % 4 ≠ 3 then some "parity" else none

/-- `openClient` from the first 56 bytes `head` of a packet of `n ≥ 56` bytes, where they decide; `none`: the whole
packet is needed (the digest of header and body has to be compared) -/
def openClientHead (P : Prims) (key head : Bytes) (n : Nat) : Option (Outcome Msg) :=
  if n < 56 then none
  else if head.take 8 ≠ authKeyId P key then some (.err "wrongKey")
  else
    match kdfG P 8 ((head.drop 8).take 16) key with
    | .panic s => some (.panic s)
    | .err e => some (.err e)
    | .ok kv =>
      if (n - 24) % 16 ≠ 0 then some (.err "dataNotDivisible")
      else
        match headVerdict (P.igeD kv.1 kv.2 ((head.drop 24).take 32)) (n - 24) with
        | some e => some (.err e)
        | none => none

end Mtv.Envelope
