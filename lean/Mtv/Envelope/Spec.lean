/-
  MTProto 1.0 encrypted envelope as the *server* sees it — the specification side of C03/C04.

  Written from the protocol description (core.telegram.org/mtproto/description_v1), independently
  of the repository's code and of `Model.lean` (it shares only the types):

    auth_key_id = substr(SHA1(auth_key), 12, 8)
    msg_key     = substr(SHA1(plaintext without padding), 4, 16)
    plaintext   = salt(8) session_id(8) msg_id(8) seq_no(4) length(4) body padding(0..15)
    sha1_a = SHA1(msg_key + substr(auth_key, x, 32))
    sha1_b = SHA1(substr(auth_key, 32+x, 16) + msg_key + substr(auth_key, 48+x, 16))
    sha1_c = SHA1(substr(auth_key, 64+x, 32) + msg_key)
    sha1_d = SHA1(msg_key + substr(auth_key, 96+x, 32))
    aes_key = substr(sha1_a, 0, 8) + substr(sha1_b, 8, 12) + substr(sha1_c, 4, 12)
    aes_iv  = substr(sha1_a, 8, 12) + substr(sha1_b, 0, 8) + substr(sha1_c, 16, 4) + substr(sha1_d, 0, 8)
    x = 0 for messages from client to server, x = 8 for messages from server to client
    packet = auth_key_id + msg_key + AES-256-IGE(aes_key, aes_iv, plaintext)

  Core-only.
-/
import Mtv.Envelope.Types
namespace Mtv.Envelope.Spec
open Mtv.Envelope

/-- `substr(b, off, n)` -/
def substr (b : Bytes) (off n : Nat) : Bytes := (b.drop off).take n

def authKeyId (P : Prims) (authKey : Bytes) : Bytes := substr (P.H authKey) 12 8

def msgKeyOf (P : Prims) (unpadded : Bytes) : Bytes := substr (P.H unpadded) 4 16

/-- the key schedule: `(aes_key, aes_iv)` -/
def keyIv (P : Prims) (x : Nat) (authKey mk : Bytes) : Bytes × Bytes :=
  let a := P.H (mk ++ substr authKey x 32)
  let b := P.H (substr authKey (32 + x) 16 ++ mk ++ substr authKey (48 + x) 16)
  let c := P.H (substr authKey (64 + x) 32 ++ mk)
  let d := P.H (mk ++ substr authKey (96 + x) 32)
  (substr a 0 8 ++ substr b 8 12 ++ substr c 4 12,
   substr a 8 12 ++ substr b 0 8 ++ substr c 16 4 ++ substr d 0 8)

/-- the plaintext without padding -/
def plaintext (m : Msg) : Bytes :=
  leBytes m.salt 8 ++ leBytes m.sid 8 ++ leBytes m.mid 8 ++ leBytes m.seq 4
    ++ leBytes m.body.length 4 ++ m.body

/-- sealing in direction `x` with the given padding bytes -/
def sealDir (P : Prims) (x : Nat) (authKey : Bytes) (m : Msg) (pad : Bytes) : Bytes :=
  let pt := plaintext m
  let mk := msgKeyOf P pt
  let kv := keyIv P x authKey mk
  authKeyId P authKey ++ mk ++ P.igeE kv.1 kv.2 (pt ++ pad)

/-- what a conformant server sends to the client: direction x = 8, any padding (the protocol asks
for 0..15 bytes making the total a multiple of 16; the hypotheses of the theorems say so). -/
def serverSeal (P : Prims) (authKey : Bytes) (m : Msg) (pad : Bytes) : Bytes := sealDir P 8 authKey m pad

/-- opening in direction `x`, with every check the description asks of the receiver: key id,
block-aligned ciphertext, declared length non-negative (as `int32`) and inside the plaintext, fewer
than 16 padding bytes, msg_key equal to the digest of the unpadded plaintext. -/
def openDir (P : Prims) (x : Nat) (authKey pkt : Bytes) : Option Msg :=
  if pkt.length < 24 + 32 then none
  else if substr pkt 0 8 ≠ authKeyId P authKey then none
  else
    let mk := substr pkt 8 16
    let ct := pkt.drop 24
    if ct.length % 16 ≠ 0 then none
    else
      let kv := keyIv P x authKey mk
      let pt := P.igeD kv.1 kv.2 ct
      let len := fromLE (substr pt 28 4)
      if 2 ^ 31 ≤ len then none
      else if pt.length < 32 + len then none
      else if 16 ≤ pt.length - (32 + len) then none
      else if msgKeyOf P (pt.take (32 + len)) ≠ mk then none
      else some ⟨fromLE (substr pt 0 8), fromLE (substr pt 8 8), fromLE (substr pt 16 8),
                 fromLE (substr pt 24 4), substr pt 32 len⟩

/-- what a conformant server recovers from a packet of the client: direction x = 0 -/
def serverOpen (P : Prims) (authKey pkt : Bytes) : Option Msg := openDir P 0 authKey pkt

end Mtv.Envelope.Spec
