/-
  Encrypted envelope — model of the client code (C03, C04):

    internal/mtproto/messages/messages.go   serializePacket, Encrypted.Serialize, DeserializeEncrypted
    internal/aes_ige/aes.go                 MessageKey, Encrypt, Decrypt
    internal/aes_ige/ige_cipher.go          generateAESIGE, isCorrectData
    internal/utils/utils.go                 AuthKeyHash
    internal/encoding/tl/cursor_r.go        Decoder.read / PopLong / PopInt / PopRawBytes (sticky error)
    internal/transport/transport.go         ReadMsg's routing, isPacketEncrypted

  The model mirrors what the Go code *does*, statement by statement, with `Outcome.err kind` where
  Go returns an error and `Outcome.panic site` where Go panics. Core-only.
-/
import Mtv.Envelope.Types
import Mtv.Envelope.Unenc
namespace Mtv.Envelope

/-! ### sending: `serializePacket`, `ige.Encrypt`, `Encrypted.Serialize` -/

/-- `serializePacket`: salt (8 LE bytes), session id, msg_id, seq_no — OR-ed with 1 when the message
requires an acknowledgement, written as it is otherwise —, `int32(len(msg))`, the body. -/
def serializePacket (salt sid mid seq : Nat) (ack : Bool) (body : Bytes) : Bytes :=
  leBytes salt 8 ++ leBytes sid 8 ++ leBytes mid 8 ++ leBytes (if ack then seq ||| 1 else seq) 4
    ++ leBytes body.length 4 ++ body

/-- `ige.MessageKey`: `sha1(msg)[4:20]` -/
def msgKey (P : Prims) (plain : Bytes) : Bytes := slice (P.H plain) 4 20

/-- `utils.AuthKeyHash`: `sha1(key)[12:20]` -/
def authKeyId (P : Prims) (key : Bytes) : Bytes := slice (P.H key) 12 20

def siteKdf : String := "internal/aes_ige.generateAESIGE"
def siteOpen : String := "internal/mtproto/messages.DeserializeEncrypted"

/-- `generateAESIGE(msg_key, auth_key, decode)` with `x = 0` (encode) or `8` (decode), including its
deliberate panic when the auth key is shorter than `96 + x + 32` bytes. -/
def kdf (P : Prims) (x : Nat) (mk ak : Bytes) : Outcome (Bytes × Bytes) :=
  if ak.length < 96 + x + 32 then .panic siteKdf
  else
    let a := P.H (mk ++ slice ak x (x + 32))
    let b := P.H (slice ak (32 + x) (32 + x + 16) ++ mk ++ slice ak (48 + x) (48 + x + 16))
    let c := P.H (slice ak (64 + x) (64 + x + 32) ++ mk)
    let d := P.H (mk ++ slice ak (96 + x) (96 + x + 32))
    .ok (slice a 0 8 ++ slice b 8 20 ++ slice c 4 16,
         slice a 8 20 ++ slice b 0 8 ++ slice c 16 20 ++ slice d 0 8)

/-- the key derivation as `ige.Encrypt` / `ige.Decrypt` reach it: behind `checkAuthKey`, which answers a key
the derivation cannot work with by an error — the panic of `generateAESIGE` is not reachable from there -/
def kdfG (P : Prims) (x : Nat) (mk ak : Bytes) : Outcome (Bytes × Bytes) :=
  if ak.length < 96 + x + 32 then .err "shortKey" else kdf P x mk ak

/-- the padding of `ige.Encrypt`: `(16 - len%16) & 15` zero bytes -/
def padLen (n : Nat) : Nat := (16 - n % 16) &&& 15

def pad16 (msg : Bytes) : Bytes := msg ++ zeros (padLen msg.length)

/-- `isCorrectData` -/
def igeCheck (data : Bytes) : Option String :=
  if data.length < 16 then some "dataTooSmall"
  else if data.length % 16 ≠ 0 then some "dataNotDivisible"
  else none

/-- `ige.Encrypt(msg, key)`; `checkAuthKey` refuses a key the derivation cannot work with, so the panic of
`generateAESIGE` is not reachable from here -/
def encrypt (P : Prims) (msg key : Bytes) : Outcome Bytes :=
  match kdfG P 0 (msgKey P msg) key with
  | .panic s => .panic s
  | .err e => .err e
  | .ok kv =>
    let data := pad16 msg
    match igeCheck data with
    | some e => .err e
    | none => .ok (P.igeE kv.1 kv.2 data)

/-- `ige.Decrypt(msg, key, msgKey)` (with `checkAuthKey`, see `encrypt`) -/
def decrypt (P : Prims) (ct key mk : Bytes) : Outcome Bytes :=
  match kdfG P 8 mk key with
  | .panic s => .panic s
  | .err e => .err e
  | .ok kv =>
    match igeCheck ct with
    | some e => .err e
    | none => .ok (P.igeD kv.1 kv.2 ct)

/-- `Encrypted.Serialize(client, requireToAck)`: `auth_key_id ‖ msg_key ‖ IGE(pad16(inner))`. -/
def sealClient (P : Prims) (key : Bytes) (salt sid mid seq : Nat) (ack : Bool) (body : Bytes) :
    Outcome Bytes :=
  let obj := serializePacket salt sid mid seq ack body
  match encrypt P obj key with
  | .panic s => .panic s
  | .err e => .err e
  | .ok ct => .ok (authKeyId P key ++ msgKey P obj ++ ct)

/-! ### the TL reader with its sticky error -/

/-- `tl.Decoder` over an in-memory buffer: the unread rest and "an earlier read has failed". -/
structure Rd where
  rest : Bytes
  bad : Bool

/-- `PopRawBytes(n)` (current source: a negative size or one larger than the rest is an error).
`nil` and the empty slice are both `[]` here; no caller distinguishes them.
Zero bytes are returned without asking the reader (which would answer `io.EOF` at the very end). -/
def Rd.raw (r : Rd) (n : Int) : Bytes × Rd :=
  if r.bad then ([], r)
  else if n < 0 ∨ (r.rest.length : Int) < n then ([], ⟨r.rest, true⟩)
  else (r.rest.take n.toNat, ⟨r.rest.drop n.toNat, false⟩)

/-- `PopLong` (`k = 8`) / `PopUint`, `PopInt` (`k = 4`): the little-endian value, or 0 after a failure
(a short read is un-read, so the position does not move). -/
def Rd.word (r : Rd) (k : Nat) : Nat × Rd :=
  if r.bad then (0, r)
  else if r.rest.length < k then (0, ⟨r.rest, true⟩)
  else (fromLE (r.rest.take k), ⟨r.rest.drop k, false⟩)

/-! ### receiving: `DeserializeEncrypted` -/

/-- which source the model describes: `orig` = the length guard as found
(`len(decrypted) < int(messageLen) - 32`, slice bound `32+messageLen` in `int32` arithmetic),
`fixed` = after `pending_fixes/C04-declared-length-bounds.patch`
(`messageLen < 0 || int(messageLen) > len(decrypted) - 32`, slice bound in `int`). -/
inductive Guard where
  | orig
  | fixed
  deriving DecidableEq, Repr

/-- `int32` wrap-around -/
def wrap32 (v : Int) : Int := toSigned 32 (ofSigned 32 v)

/-- the "message is smaller than it's defining" test -/
def guardRefuses (g : Guard) (decLen : Nat) (mlen : Int) : Bool :=
  match g with
  | .orig => decide ((decLen : Int) < mlen - 32)
  | .fixed => decide (mlen < 0 ∨ (decLen : Int) - 32 < mlen)

/-- the upper bound of the slice expression `decrypted[0 : 32+messageLen]` -/
def sliceHi (g : Guard) (mlen : Int) : Int :=
  match g with
  | .orig => wrap32 (32 + mlen)
  | .fixed => 32 + mlen

/-- the second half of `DeserializeEncrypted`, after decryption: the five header pops, the length
guard, the msg_id parity, the slice `decrypted[0:32+messageLen]` (panics when out of range), the
msg_key comparison, the body pop. -/
def openInner (g : Guard) (P : Prims) (mk dec : Bytes) : Outcome Msg :=
  let q1 := (Rd.mk dec false).word 8
  let q2 := q1.2.word 8
  let q3 := q2.2.word 8
  let q4 := q3.2.word 4
  let q5 := q4.2.word 4
  let mlen : Int := toSigned 32 q5.1
  if guardRefuses g dec.length mlen then .err "tooSmall"
  else if q3.1 % 4 ≠ 1 ∧ q3.1 % 4 ≠ 3 then .err "parity"
  else
    let hi := sliceHi g mlen
    if hi < 0 ∨ (dec.length : Int) < hi then .panic siteOpen
    else if slice (P.H (dec.take hi.toNat)) 4 20 ≠ mk then .err "wrongMsgKey"
    else .ok ⟨q1.1, q2.1, q3.1, q4.1, (q5.2.raw mlen).1⟩

/-- `DeserializeEncrypted(data, authKey)`, in the code's order: key id, msg_key and ciphertext pops,
decrypt (error when the ciphertext is empty or not a multiple of 16), then `openInner`. -/
def openClientG (g : Guard) (P : Prims) (key data : Bytes) : Outcome Msg :=
  let p1 := (Rd.mk data false).raw 8
  if p1.1 ≠ authKeyId P key then .err "wrongKey"
  else
    let p2 := p1.2.raw 16
    let p3 := p2.2.raw ((data.length : Int) - 24)
    match decrypt P p3.1 key p2.1 with
    | .panic s => .panic s
    | .err e => .err e
    | .ok dec => openInner g P p2.1 dec

/-- the receive path of the repaired code -/
def openClient (P : Prims) (key data : Bytes) : Outcome Msg := openClientG .fixed P key data

/-- the receive path as found (defect D3) -/
def openClientOrig (P : Prims) (key data : Bytes) : Outcome Msg := openClientG .orig P key data

/-! ### `transport.ReadMsg` after the framing layer has delivered `data` -/

inductive Routed where
  /-- a 4-byte packet: a transport error code -/
  | code (c : Int)
  | enc (m : Msg)
  | unenc (mid : Nat) (body : Bytes)
  | err (kind : String)
  | panic (site : String)
  deriving DecidableEq, Repr

/-- `ReadMsg`: 4 bytes = error code; otherwise `isPacketEncrypted` (first 8 bytes non-zero) selects the
deserialiser; the msg_id parity is tested once more on the result. -/
def route (P : Prims) (key data : Bytes) : Routed :=
  if data.length = 4 then .code (toSigned 32 (fromLE data))
  else if Unenc.isEncrypted data then
    match openClient P key data with
    | .panic s => .panic s
    | .err e => .err e
    | .ok m => if m.mid % 4 ≠ 1 ∧ m.mid % 4 ≠ 3 then .err "parity2" else .enc m
  else
    match Unenc.deserialize data with
    | .error .parity => .err "unencParity"
    | .error .length => .err "unencLength"
    | .ok (mid, body) => if mid % 4 ≠ 1 ∧ mid % 4 ≠ 3 then .err "parity2" else .unenc mid body

/-! ### `MTProto.readMsg`: what the client takes for a message of its session -/

/-- `MTProto.readMsg` on top of `ReadMsg`. `encMode` = `m.encrypted`: the session works under its auth key (a
stored session was loaded, or the key exchange has verified dh_gen_ok). The transport routes by the first eight
bytes alone — it cannot know the session's state —; `readMsg` knows it and refuses an unencrypted message in that
mode ("unencrypted message in an encrypted session"): nobody needs the key to write one. While the client has no
key (`encMode = false`, the key exchange) plain text is what the server answers with. -/
def clientRead (encMode : Bool) (P : Prims) (key data : Bytes) : Routed :=
  match route P key data with
  | .unenc mid body => if encMode then .err "plainInEncryptedSession" else .unenc mid body
  | r => r

end Mtv.Envelope
