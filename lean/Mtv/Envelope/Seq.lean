/-
  One client process performing a SEQUENCE of envelope operations (C03, session 9).
  `Encrypted.Serialize` / `DeserializeEncrypted` are modelled as functions of their arguments
  (`sealClient`, `openClient` of Model.lean). That the real code IS such a function — that a call leaves
  nothing behind for the next one, in particular a refused call — is what the `c03.mix` correspondence
  operation checks on every run (harness/cmd/vh/c03mix.go); here the loop of calls is written down so that
  the model-level statement "the n-th result depends on the n-th request only" is a theorem
  (Props/C03.lean `seal_sequence_independent`, `open_sequence_independent`). Core-only.
-/
import Mtv.Envelope.Model
namespace Mtv.Envelope
open Mtv

/-- the arguments of one `(*Encrypted).Serialize` call: what the `MessageInformator` answers (auth key,
salt, session id, seq_no), the message's msg_id and body, the `requireToAck` flag -/
structure SealReq where
  key : Bytes
  salt : Nat
  sid : Nat
  mid : Nat
  seq : Nat
  ack : Bool
  body : Bytes

/-- one call on its own -/
def sealOne (P : Prims) (r : SealReq) : Outcome Bytes :=
  sealClient P r.key r.salt r.sid r.mid r.seq r.ack r.body

/-- the loop: the requests are served one after another, in order, `done` = the results so far (latest
first). Nothing but the results is carried from one iteration to the next: the model has no state. -/
def sealLoop (P : Prims) : List SealReq → List (Outcome Bytes) → List (Outcome Bytes)
  | [], done => done.reverse
  | r :: rest, done => sealLoop P rest (sealOne P r :: done)

/-- a process sealing a list of messages (of any clients) one after another -/
def sealSeq (P : Prims) (reqs : List SealReq) : List (Outcome Bytes) := sealLoop P reqs []

/-- the arguments of one `DeserializeEncrypted` call -/
structure OpenReq where
  key : Bytes
  data : Bytes

def openOne (P : Prims) (r : OpenReq) : Outcome Msg := openClient P r.key r.data

def openLoop (P : Prims) : List OpenReq → List (Outcome Msg) → List (Outcome Msg)
  | [], done => done.reverse
  | r :: rest, done => openLoop P rest (openOne P r :: done)

/-- a process opening a list of packets (of any clients) one after another -/
def openSeq (P : Prims) (reqs : List OpenReq) : List (Outcome Msg) := openLoop P reqs []

theorem sealLoop_eq (P : Prims) (reqs : List SealReq) (done : List (Outcome Bytes)) :
    sealLoop P reqs done = done.reverse ++ reqs.map (sealOne P) := by
  induction reqs generalizing done with
  | nil => simp [sealLoop]
  | cons r rest ih => simp [sealLoop, ih]

theorem openLoop_eq (P : Prims) (reqs : List OpenReq) (done : List (Outcome Msg)) :
    openLoop P reqs done = done.reverse ++ reqs.map (openOne P) := by
  induction reqs generalizing done with
  | nil => simp [openLoop]
  | cons r rest ih => simp [openLoop, ih]

end Mtv.Envelope
