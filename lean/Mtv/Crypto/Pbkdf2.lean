/-
  Mtv.Crypto.Pbkdf2 — PBKDF2 with HMAC-SHA-512 (RFC 8018 §5.2), as golang.org/x/crypto/pbkdf2.Key
  with sha512.New. Core-only. Iterations after the first work on SHA-512 states directly (two
  compressions each, no byte conversions).
-/
import Mtv.Crypto.Hmac
namespace Mtv.Crypto

@[inline] def sha512Xor (x y : Sha512State) : Sha512State :=
  ⟨x.a ^^^ y.a, x.b ^^^ y.b, x.c ^^^ y.c, x.d ^^^ y.d, x.e ^^^ y.e, x.f ^^^ y.f, x.g ^^^ y.g, x.h ^^^ y.h⟩

/-- `n` further iterations: `u ← HMAC(P, u)`, `t ← t ⊕ u` -/
def pbkdf2Loop (k : HmacSha512Key) : Nat → Sha512State → Sha512State → Sha512State
  | 0, _, t => t
  | n + 1, u, t =>
    let u' := hmacSha512OfDigest k u
    pbkdf2Loop k n u' (sha512Xor t u')

/-- block `i` (1-based): `U₁ = HMAC(P, S ‖ INT(i))`, `T = U₁ ⊕ … ⊕ U_c` -/
def pbkdf2Block (k : HmacSha512Key) (salt : Bytes) (iterations i : Nat) : Bytes :=
  let u1 := hmacSha512State k (salt ++ beBytes i 4)
  sha512Out (pbkdf2Loop k (iterations - 1) u1 u1)

/-- PBKDF2-HMAC-SHA-512: `dkLen` bytes. (`iterations = 0` behaves like 1, as in the Go package.) -/
def pbkdf2HmacSha512 (password salt : Bytes) (iterations dkLen : Nat) : Bytes :=
  let k := hmacSha512Init password
  ((List.range ((dkLen + 63) / 64)).flatMap fun i => pbkdf2Block k salt iterations (i + 1)).take dkLen

end Mtv.Crypto
