/-
  Mtv.Crypto.Crc32 — CRC-32 (IEEE 802.3, reflected polynomial 0xEDB88320), as Go's
  hash/crc32.ChecksumIEEE. Core-only, table driven.
-/
import Mtv.Basic
namespace Mtv.Crypto

def crc32Step (c : UInt32) : UInt32 :=
  if c &&& 1 != 0 then (c >>> 1) ^^^ 0xEDB88320 else c >>> 1

def crc32Table : Array UInt32 :=
  (Array.range 256).map fun i =>
    crc32Step (crc32Step (crc32Step (crc32Step (crc32Step (crc32Step (crc32Step (crc32Step
      (UInt32.ofNat i))))))))

@[inline] def crc32Update (c : UInt32) (b : UInt8) : UInt32 :=
  crc32Table[((c ^^^ b.toUInt32) &&& 0xff).toNat]! ^^^ (c >>> 8)

/-- CRC-32/IEEE of a byte string, as a number below 2^32. -/
def crc32 (msg : Bytes) : Nat :=
  (~~~(msg.foldl crc32Update 0xFFFFFFFF)).toNat

theorem crc32_lt (msg : Bytes) : crc32 msg < 2 ^ 32 := UInt32.toNat_lt _

end Mtv.Crypto
