/-
  Mtv.Crypto.Sha512 — executable SHA-512 (FIPS 180-4 §6.4). Core-only.
  The compression function works on a 16-word block given as `Array UInt64`, so that HMAC/PBKDF2 can
  feed digests back in without going through bytes.
-/
import Mtv.Crypto.Util
namespace Mtv.Crypto

def sha512K : Array UInt64 := #[
  0x428a2f98d728ae22, 0x7137449123ef65cd, 0xb5c0fbcfec4d3b2f, 0xe9b5dba58189dbbc,
  0x3956c25bf348b538, 0x59f111f1b605d019, 0x923f82a4af194f9b, 0xab1c5ed5da6d8118,
  0xd807aa98a3030242, 0x12835b0145706fbe, 0x243185be4ee4b28c, 0x550c7dc3d5ffb4e2,
  0x72be5d74f27b896f, 0x80deb1fe3b1696b1, 0x9bdc06a725c71235, 0xc19bf174cf692694,
  0xe49b69c19ef14ad2, 0xefbe4786384f25e3, 0x0fc19dc68b8cd5b5, 0x240ca1cc77ac9c65,
  0x2de92c6f592b0275, 0x4a7484aa6ea6e483, 0x5cb0a9dcbd41fbd4, 0x76f988da831153b5,
  0x983e5152ee66dfab, 0xa831c66d2db43210, 0xb00327c898fb213f, 0xbf597fc7beef0ee4,
  0xc6e00bf33da88fc2, 0xd5a79147930aa725, 0x06ca6351e003826f, 0x142929670a0e6e70,
  0x27b70a8546d22ffc, 0x2e1b21385c26c926, 0x4d2c6dfc5ac42aed, 0x53380d139d95b3df,
  0x650a73548baf63de, 0x766a0abb3c77b2a8, 0x81c2c92e47edaee6, 0x92722c851482353b,
  0xa2bfe8a14cf10364, 0xa81a664bbc423001, 0xc24b8b70d0f89791, 0xc76c51a30654be30,
  0xd192e819d6ef5218, 0xd69906245565a910, 0xf40e35855771202a, 0x106aa07032bbd1b8,
  0x19a4c116b8d2d0c8, 0x1e376c085141ab53, 0x2748774cdf8eeb99, 0x34b0bcb5e19b48a8,
  0x391c0cb3c5c95a63, 0x4ed8aa4ae3418acb, 0x5b9cca4f7763e373, 0x682e6ff3d6b2b8a3,
  0x748f82ee5defb2fc, 0x78a5636f43172f60, 0x84c87814a1f0ab72, 0x8cc702081a6439ec,
  0x90befffa23631e28, 0xa4506cebde82bde9, 0xbef9a3f7b2c67915, 0xc67178f2e372532b,
  0xca273eceea26619c, 0xd186b8c721c0c207, 0xeada7dd6cde0eb1e, 0xf57d4f7fee6ed178,
  0x06f067aa72176fba, 0x0a637dc5a2c898a6, 0x113f9804bef90dae, 0x1b710b35131c471b,
  0x28db77f523047d84, 0x32caab7b40c72493, 0x3c9ebe0a15c9bebc, 0x431d67c49c100d4c,
  0x4cc5d4becb3e42b6, 0x597f299cfc657e2a, 0x5fcb6fab3ad6faec, 0x6c44198c4a475817]

structure Sha512State where
  a : UInt64
  b : UInt64
  c : UInt64
  d : UInt64
  e : UInt64
  f : UInt64
  g : UInt64
  h : UInt64

def sha512Init : Sha512State :=
  ⟨0x6a09e667f3bcc908, 0xbb67ae8584caa73b, 0x3c6ef372fe94f82b, 0xa54ff53a5f1d36f1,
   0x510e527fade682d1, 0x9b05688c2b3e6c1f, 0x1f83d9abfb41bd6b, 0x5be0cd19137e2179⟩

@[inline] def sha512s0 (x : UInt64) : UInt64 := rotr64 x 1 ^^^ rotr64 x 8 ^^^ (x >>> 7)
@[inline] def sha512s1 (x : UInt64) : UInt64 := rotr64 x 19 ^^^ rotr64 x 61 ^^^ (x >>> 6)
@[inline] def sha512S0 (x : UInt64) : UInt64 := rotr64 x 28 ^^^ rotr64 x 34 ^^^ rotr64 x 39
@[inline] def sha512S1 (x : UInt64) : UInt64 := rotr64 x 14 ^^^ rotr64 x 18 ^^^ rotr64 x 41

/-- the 16 words of the 128-byte block at byte offset `off` -/
def sha512Load (ba : ByteArray) (off : Nat) : Nat → Array UInt64 → Array UInt64
  | 0, w => w
  | n + 1, w => sha512Load ba off n (w.push (getU64BE ba (off + 8 * w.size)))

/-- schedule words 16..79 -/
def sha512Extend : Nat → Array UInt64 → Array UInt64
  | 0, w => w
  | n + 1, w =>
    let i := w.size
    sha512Extend n (w.push (sha512s1 w[i - 2]! + w[i - 7]! + sha512s0 w[i - 15]! + w[i - 16]!))

def sha512Rounds (w : Array UInt64) :
    Nat → Nat → UInt64 → UInt64 → UInt64 → UInt64 → UInt64 → UInt64 → UInt64 → UInt64 → Sha512State
  | 0, _, a, b, c, d, e, f, g, h => ⟨a, b, c, d, e, f, g, h⟩
  | n + 1, i, a, b, c, d, e, f, g, h =>
    let t1 := h + sha512S1 e + ((e &&& f) ^^^ (~~~e &&& g)) + sha512K[i]! + w[i]!
    let t2 := sha512S0 a + ((a &&& b) ^^^ (a &&& c) ^^^ (b &&& c))
    sha512Rounds w n (i + 1) (t1 + t2) a b c (d + t1) e f g

/-- one compression: state × block given as (at least) 16 words; `w16` should have capacity 80 -/
def sha512CompressW (s : Sha512State) (w16 : Array UInt64) : Sha512State :=
  let w := sha512Extend 64 w16
  let t := sha512Rounds w 80 0 s.a s.b s.c s.d s.e s.f s.g s.h
  ⟨s.a + t.a, s.b + t.b, s.c + t.c, s.d + t.d, s.e + t.e, s.f + t.f, s.g + t.g, s.h + t.h⟩

def sha512Compress (s : Sha512State) (ba : ByteArray) (off : Nat) : Sha512State :=
  sha512CompressW s (sha512Load ba off 16 (Array.mkEmpty 80))

def sha512Blocks (ba : ByteArray) : Nat → Nat → Sha512State → Sha512State
  | 0, _, s => s
  | n + 1, off, s => sha512Blocks ba n (off + 128) (sha512Compress s ba off)

def sha512Out (s : Sha512State) : Bytes :=
  be64 s.a (be64 s.b (be64 s.c (be64 s.d (be64 s.e (be64 s.f (be64 s.g (be64 s.h [])))))))

/-- continue hashing from state `s`, reached after `pre` bytes (a multiple of 128), with `msg` as the
    rest of the stream; returns the final state -/
def sha512From (s : Sha512State) (pre : Nat) (msg : Bytes) : Sha512State :=
  let ba := mdPadFrom 128 16 pre msg
  sha512Blocks ba (ba.size / 128) 0 s

/-- SHA-512 of a byte string (64 bytes). -/
def sha512 (msg : Bytes) : Bytes := sha512Out (sha512From sha512Init 0 msg)

theorem sha512_length (msg : Bytes) : (sha512 msg).length = 64 := rfl

end Mtv.Crypto
