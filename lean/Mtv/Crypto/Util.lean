/-
  Mtv.Crypto.Util — byte-array helpers shared by the executable hash implementations.
  Core-only. Everything is total; array reads use `get!`/`getD` with indices that are in range by
  construction (an out-of-range read would yield 0, it never aborts).
-/
import Mtv.Basic
namespace Mtv.Crypto

@[inline] def rotl32 (x : UInt32) (n : UInt32) : UInt32 := (x <<< n) ||| (x >>> (32 - n))
@[inline] def rotr32 (x : UInt32) (n : UInt32) : UInt32 := (x >>> n) ||| (x <<< (32 - n))
@[inline] def rotr64 (x : UInt64) (n : UInt64) : UInt64 := (x >>> n) ||| (x <<< (64 - n))

/-- append `n` zero bytes -/
def pushZeros (ba : ByteArray) : Nat → ByteArray
  | 0 => ba
  | n + 1 => pushZeros (ba.push 0) n

/-- append the 8 big-endian bytes of `v` -/
def pushBE64 (ba : ByteArray) (v : UInt64) : ByteArray :=
  ((((((((ba.push (v >>> 56).toUInt8).push (v >>> 48).toUInt8).push (v >>> 40).toUInt8).push
    (v >>> 32).toUInt8).push (v >>> 24).toUInt8).push (v >>> 16).toUInt8).push (v >>> 8).toUInt8).push
    v.toUInt8)

/-- Merkle–Damgård padding used by SHA-1/SHA-256 (`blk = 64`, `lenBytes = 8`) and SHA-512
    (`blk = 128`, `lenBytes = 16`): message ‖ 0x80 ‖ 0…0 ‖ bit length (big endian), where the hashed
    stream is `pre` already-compressed bytes (a multiple of `blk`; 0 for a plain hash) followed by
    `msg`. The bit length is written in 64 bits (streams shorter than 2^61 bytes); for SHA-512 the upper
    8 length bytes are part of the zero run. The result's size is a positive multiple of `blk`. -/
def mdPadFrom (blk lenBytes pre : Nat) (msg : Bytes) : ByteArray :=
  let n := msg.length
  let total := ((n + lenBytes) / blk + 1) * blk
  let ba := (ByteArray.mk msg.toArray).push 0x80
  pushBE64 (pushZeros ba (total - n - 9)) (UInt64.ofNat ((pre + n) * 8))

def mdPad (blk lenBytes : Nat) (msg : Bytes) : ByteArray := mdPadFrom blk lenBytes 0 msg

@[inline] def getU32BE (ba : ByteArray) (i : Nat) : UInt32 :=
  ((ba.get! i).toUInt32 <<< 24) ||| ((ba.get! (i + 1)).toUInt32 <<< 16) |||
  ((ba.get! (i + 2)).toUInt32 <<< 8) ||| (ba.get! (i + 3)).toUInt32

@[inline] def getU64BE (ba : ByteArray) (i : Nat) : UInt64 :=
  ((getU32BE ba i).toUInt64 <<< 32) ||| (getU32BE ba (i + 4)).toUInt64

/-- the 4 big-endian bytes of a word, in front of `rest` -/
@[inline] def be32 (w : UInt32) (rest : Bytes) : Bytes :=
  (w >>> 24).toUInt8 :: (w >>> 16).toUInt8 :: (w >>> 8).toUInt8 :: w.toUInt8 :: rest

/-- the 8 big-endian bytes of a word, in front of `rest` -/
@[inline] def be64 (w : UInt64) (rest : Bytes) : Bytes :=
  (w >>> 56).toUInt8 :: (w >>> 48).toUInt8 :: (w >>> 40).toUInt8 :: (w >>> 32).toUInt8 ::
  (w >>> 24).toUInt8 :: (w >>> 16).toUInt8 :: (w >>> 8).toUInt8 :: w.toUInt8 :: rest

@[simp] theorem be32_length (w : UInt32) (r : Bytes) : (be32 w r).length = r.length + 4 := rfl
@[simp] theorem be64_length (w : UInt64) (r : Bytes) : (be64 w r).length = r.length + 8 := rfl

end Mtv.Crypto
