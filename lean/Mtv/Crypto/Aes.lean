/-
  Mtv.Crypto.Aes — executable AES-256 block cipher (FIPS-197), single 16-byte blocks. Core-only.
  Table implementation (four 256-entry `UInt32` tables per direction, derived at start-up from the
  S-box literal below); decryption uses the "equivalent inverse cipher" (FIPS-197 §5.3.5) with a
  transformed key schedule. Bytes are converted at the API boundary only.
-/
import Mtv.Crypto.Util
namespace Mtv.Crypto

/-- the AES S-box (FIPS-197 Figure 7), as words -/
def aesSbox : Array UInt32 := #[
  0x63, 0x7c, 0x77, 0x7b, 0xf2, 0x6b, 0x6f, 0xc5, 0x30, 0x01, 0x67, 0x2b, 0xfe, 0xd7, 0xab, 0x76,
  0xca, 0x82, 0xc9, 0x7d, 0xfa, 0x59, 0x47, 0xf0, 0xad, 0xd4, 0xa2, 0xaf, 0x9c, 0xa4, 0x72, 0xc0,
  0xb7, 0xfd, 0x93, 0x26, 0x36, 0x3f, 0xf7, 0xcc, 0x34, 0xa5, 0xe5, 0xf1, 0x71, 0xd8, 0x31, 0x15,
  0x04, 0xc7, 0x23, 0xc3, 0x18, 0x96, 0x05, 0x9a, 0x07, 0x12, 0x80, 0xe2, 0xeb, 0x27, 0xb2, 0x75,
  0x09, 0x83, 0x2c, 0x1a, 0x1b, 0x6e, 0x5a, 0xa0, 0x52, 0x3b, 0xd6, 0xb3, 0x29, 0xe3, 0x2f, 0x84,
  0x53, 0xd1, 0x00, 0xed, 0x20, 0xfc, 0xb1, 0x5b, 0x6a, 0xcb, 0xbe, 0x39, 0x4a, 0x4c, 0x58, 0xcf,
  0xd0, 0xef, 0xaa, 0xfb, 0x43, 0x4d, 0x33, 0x85, 0x45, 0xf9, 0x02, 0x7f, 0x50, 0x3c, 0x9f, 0xa8,
  0x51, 0xa3, 0x40, 0x8f, 0x92, 0x9d, 0x38, 0xf5, 0xbc, 0xb6, 0xda, 0x21, 0x10, 0xff, 0xf3, 0xd2,
  0xcd, 0x0c, 0x13, 0xec, 0x5f, 0x97, 0x44, 0x17, 0xc4, 0xa7, 0x7e, 0x3d, 0x64, 0x5d, 0x19, 0x73,
  0x60, 0x81, 0x4f, 0xdc, 0x22, 0x2a, 0x90, 0x88, 0x46, 0xee, 0xb8, 0x14, 0xde, 0x5e, 0x0b, 0xdb,
  0xe0, 0x32, 0x3a, 0x0a, 0x49, 0x06, 0x24, 0x5c, 0xc2, 0xd3, 0xac, 0x62, 0x91, 0x95, 0xe4, 0x79,
  0xe7, 0xc8, 0x37, 0x6d, 0x8d, 0xd5, 0x4e, 0xa9, 0x6c, 0x56, 0xf4, 0xea, 0x65, 0x7a, 0xae, 0x08,
  0xba, 0x78, 0x25, 0x2e, 0x1c, 0xa6, 0xb4, 0xc6, 0xe8, 0xdd, 0x74, 0x1f, 0x4b, 0xbd, 0x8b, 0x8a,
  0x70, 0x3e, 0xb5, 0x66, 0x48, 0x03, 0xf6, 0x0e, 0x61, 0x35, 0x57, 0xb9, 0x86, 0xc1, 0x1d, 0x9e,
  0xe1, 0xf8, 0x98, 0x11, 0x69, 0xd9, 0x8e, 0x94, 0x9b, 0x1e, 0x87, 0xe9, 0xce, 0x55, 0x28, 0xdf,
  0x8c, 0xa1, 0x89, 0x0d, 0xbf, 0xe6, 0x42, 0x68, 0x41, 0x99, 0x2d, 0x0f, 0xb0, 0x54, 0xbb, 0x16]

/-- inverse S-box: `aesInvSbox[aesSbox[i]] = i` -/
def aesInvSbox : Array UInt32 :=
  (List.range 256).foldl (fun t i => t.set! (aesSbox[i]!).toNat (UInt32.ofNat i)) (Array.replicate 256 0)

/-- multiplication by x in GF(2^8) (on a byte held in a word) -/
@[inline] def xtime (x : UInt32) : UInt32 :=
  ((x <<< 1) ^^^ (if x &&& 0x80 != 0 then 0x1b else 0)) &&& 0xff

/-- column `[02,01,01,03]·S[x]` -/
def aesTe0 : Array UInt32 := aesSbox.map fun s =>
  let s2 := xtime s
  (s2 <<< 24) ||| (s <<< 16) ||| (s <<< 8) ||| (s2 ^^^ s)
def aesTe1 : Array UInt32 := aesTe0.map (rotr32 · 8)
def aesTe2 : Array UInt32 := aesTe0.map (rotr32 · 16)
def aesTe3 : Array UInt32 := aesTe0.map (rotr32 · 24)

/-- column `[0e,09,0d,0b]·S⁻¹[x]` -/
def aesTd0 : Array UInt32 := aesInvSbox.map fun s =>
  let s2 := xtime s
  let s4 := xtime s2
  let s8 := xtime s4
  ((s8 ^^^ s4 ^^^ s2) <<< 24) ||| ((s8 ^^^ s) <<< 16) ||| ((s8 ^^^ s4 ^^^ s) <<< 8) ||| (s8 ^^^ s2 ^^^ s)
def aesTd1 : Array UInt32 := aesTd0.map (rotr32 · 8)
def aesTd2 : Array UInt32 := aesTd0.map (rotr32 · 16)
def aesTd3 : Array UInt32 := aesTd0.map (rotr32 · 24)

@[inline] def byte3 (x : UInt32) : Nat := (x >>> 24).toNat
@[inline] def byte2 (x : UInt32) : Nat := ((x >>> 16) &&& 0xff).toNat
@[inline] def byte1 (x : UInt32) : Nat := ((x >>> 8) &&& 0xff).toNat
@[inline] def byte0 (x : UInt32) : Nat := (x &&& 0xff).toNat

/-- four table look-ups assembled into a word (bytes taken from `a b c d`, most significant first) -/
@[inline] def subBytes4 (t : Array UInt32) (a b c d : UInt32) : UInt32 :=
  (t[byte3 a]! <<< 24) ||| (t[byte2 b]! <<< 16) ||| (t[byte1 c]! <<< 8) ||| t[byte0 d]!

@[inline] def subWord (w : UInt32) : UInt32 := subBytes4 aesSbox w w w w

def aesRcon : Array UInt32 :=
  #[0, 0x01000000, 0x02000000, 0x04000000, 0x08000000, 0x10000000, 0x20000000, 0x40000000]

/-- key-schedule words 8..59 (FIPS-197 §5.2 with Nk = 8) -/
def aesExpandLoop : Nat → Array UInt32 → Array UInt32
  | 0, w => w
  | n + 1, w =>
    let i := w.size
    let t := w[i - 1]!
    let t :=
      if i % 8 == 0 then subWord (rotl32 t 8) ^^^ aesRcon[i / 8]!
      else if i % 8 == 4 then subWord t
      else t
    aesExpandLoop n (w.push (w[i - 8]! ^^^ t))

/-- InvMixColumns of one column, via `Td[S[·]]` -/
@[inline] def invMixWord (w : UInt32) : UInt32 :=
  aesTd0[(aesSbox[byte3 w]!).toNat]! ^^^ aesTd1[(aesSbox[byte2 w]!).toNat]! ^^^
  aesTd2[(aesSbox[byte1 w]!).toNat]! ^^^ aesTd3[(aesSbox[byte0 w]!).toNat]!

/-- decryption schedule: round keys in reverse order, InvMixColumns applied to rounds 1..13 -/
def aesDecSchedule (enc : Array UInt32) : Array UInt32 :=
  (List.range 60).foldl (fun d i =>
    let r := i / 4
    let w := enc[4 * (14 - r) + i % 4]!
    d.push (if r == 0 || r == 14 then w else invMixWord w)) (Array.mkEmpty 60)

/-- expanded AES-256 key: 60 encryption round-key words and the 60 words of the equivalent inverse
    cipher's schedule -/
structure AesKey where
  enc : Array UInt32
  dec : Array UInt32

/-- key expansion. `key` must be 32 bytes; any other length yields an all-zero schedule. -/
def aes256Expand (key : Bytes) : AesKey :=
  if key.length != 32 then ⟨Array.replicate 60 0, Array.replicate 60 0⟩ else
  let ba := ByteArray.mk key.toArray
  let w0 := (List.range 8).foldl (fun w i => w.push (getU32BE ba (4 * i))) (Array.mkEmpty 60)
  let enc := aesExpandLoop 52 w0
  ⟨enc, aesDecSchedule enc⟩

/-- the four column words of the cipher state -/
structure AesState where
  s0 : UInt32
  s1 : UInt32
  s2 : UInt32
  s3 : UInt32

/-- `n` full rounds of the cipher starting with round `r` (round keys `rk[4r ..]`) -/
def aesEncRounds (rk : Array UInt32) : Nat → Nat → UInt32 → UInt32 → UInt32 → UInt32 → AesState
  | 0, _, s0, s1, s2, s3 => ⟨s0, s1, s2, s3⟩
  | n + 1, r, s0, s1, s2, s3 =>
    aesEncRounds rk n (r + 1)
      (aesTe0[byte3 s0]! ^^^ aesTe1[byte2 s1]! ^^^ aesTe2[byte1 s2]! ^^^ aesTe3[byte0 s3]! ^^^ rk[4 * r]!)
      (aesTe0[byte3 s1]! ^^^ aesTe1[byte2 s2]! ^^^ aesTe2[byte1 s3]! ^^^ aesTe3[byte0 s0]! ^^^ rk[4 * r + 1]!)
      (aesTe0[byte3 s2]! ^^^ aesTe1[byte2 s3]! ^^^ aesTe2[byte1 s0]! ^^^ aesTe3[byte0 s1]! ^^^ rk[4 * r + 2]!)
      (aesTe0[byte3 s3]! ^^^ aesTe1[byte2 s0]! ^^^ aesTe2[byte1 s1]! ^^^ aesTe3[byte0 s2]! ^^^ rk[4 * r + 3]!)

/-- final round (no MixColumns) with round keys `rk[56..59]`, serialised -/
def aesEncFinal (rk : Array UInt32) (s : AesState) : Bytes :=
  be32 (subBytes4 aesSbox s.s0 s.s1 s.s2 s.s3 ^^^ rk[56]!)
  (be32 (subBytes4 aesSbox s.s1 s.s2 s.s3 s.s0 ^^^ rk[57]!)
  (be32 (subBytes4 aesSbox s.s2 s.s3 s.s0 s.s1 ^^^ rk[58]!)
  (be32 (subBytes4 aesSbox s.s3 s.s0 s.s1 s.s2 ^^^ rk[59]!) [])))

/-- `n` full rounds of the equivalent inverse cipher starting with round `r` -/
def aesDecRounds (rk : Array UInt32) : Nat → Nat → UInt32 → UInt32 → UInt32 → UInt32 → AesState
  | 0, _, s0, s1, s2, s3 => ⟨s0, s1, s2, s3⟩
  | n + 1, r, s0, s1, s2, s3 =>
    aesDecRounds rk n (r + 1)
      (aesTd0[byte3 s0]! ^^^ aesTd1[byte2 s3]! ^^^ aesTd2[byte1 s2]! ^^^ aesTd3[byte0 s1]! ^^^ rk[4 * r]!)
      (aesTd0[byte3 s1]! ^^^ aesTd1[byte2 s0]! ^^^ aesTd2[byte1 s3]! ^^^ aesTd3[byte0 s2]! ^^^ rk[4 * r + 1]!)
      (aesTd0[byte3 s2]! ^^^ aesTd1[byte2 s1]! ^^^ aesTd2[byte1 s0]! ^^^ aesTd3[byte0 s3]! ^^^ rk[4 * r + 2]!)
      (aesTd0[byte3 s3]! ^^^ aesTd1[byte2 s2]! ^^^ aesTd2[byte1 s1]! ^^^ aesTd3[byte0 s0]! ^^^ rk[4 * r + 3]!)

/-- final round of the equivalent inverse cipher, serialised -/
def aesDecFinal (rk : Array UInt32) (s : AesState) : Bytes :=
  be32 (subBytes4 aesInvSbox s.s0 s.s3 s.s2 s.s1 ^^^ rk[56]!)
  (be32 (subBytes4 aesInvSbox s.s1 s.s0 s.s3 s.s2 ^^^ rk[57]!)
  (be32 (subBytes4 aesInvSbox s.s2 s.s1 s.s0 s.s3 ^^^ rk[58]!)
  (be32 (subBytes4 aesInvSbox s.s3 s.s2 s.s1 s.s0 ^^^ rk[59]!) [])))

/-- big-endian word `i` of a block (missing bytes read as 0) -/
@[inline] def blockWord (a : Array UInt8) (i : Nat) : UInt32 :=
  ((a.getD (4 * i) 0).toUInt32 <<< 24) ||| ((a.getD (4 * i + 1) 0).toUInt32 <<< 16) |||
  ((a.getD (4 * i + 2) 0).toUInt32 <<< 8) ||| (a.getD (4 * i + 3) 0).toUInt32

/-- AES-256 encryption of one 16-byte block (16 bytes out). -/
def aes256EncryptBlock (k : AesKey) (block : Bytes) : Bytes :=
  let a := block.toArray
  let rk := k.enc
  aesEncFinal rk (aesEncRounds rk 13 1 (blockWord a 0 ^^^ rk[0]!) (blockWord a 1 ^^^ rk[1]!)
    (blockWord a 2 ^^^ rk[2]!) (blockWord a 3 ^^^ rk[3]!))

/-- AES-256 decryption of one 16-byte block (16 bytes out). -/
def aes256DecryptBlock (k : AesKey) (block : Bytes) : Bytes :=
  let a := block.toArray
  let rk := k.dec
  aesDecFinal rk (aesDecRounds rk 13 1 (blockWord a 0 ^^^ rk[0]!) (blockWord a 1 ^^^ rk[1]!)
    (blockWord a 2 ^^^ rk[2]!) (blockWord a 3 ^^^ rk[3]!))

theorem aes256EncryptBlock_length (k : AesKey) (block : Bytes) :
    (aes256EncryptBlock k block).length = 16 := rfl

theorem aes256DecryptBlock_length (k : AesKey) (block : Bytes) :
    (aes256DecryptBlock k block).length = 16 := rfl

end Mtv.Crypto
