/-
  Mtv.Crypto.Sha256 — executable SHA-256 (FIPS 180-4 §6.2). Core-only.
-/
import Mtv.Crypto.Util
namespace Mtv.Crypto

def sha256K : Array UInt32 := #[
  0x428a2f98, 0x71374491, 0xb5c0fbcf, 0xe9b5dba5, 0x3956c25b, 0x59f111f1, 0x923f82a4, 0xab1c5ed5,
  0xd807aa98, 0x12835b01, 0x243185be, 0x550c7dc3, 0x72be5d74, 0x80deb1fe, 0x9bdc06a7, 0xc19bf174,
  0xe49b69c1, 0xefbe4786, 0x0fc19dc6, 0x240ca1cc, 0x2de92c6f, 0x4a7484aa, 0x5cb0a9dc, 0x76f988da,
  0x983e5152, 0xa831c66d, 0xb00327c8, 0xbf597fc7, 0xc6e00bf3, 0xd5a79147, 0x06ca6351, 0x14292967,
  0x27b70a85, 0x2e1b2138, 0x4d2c6dfc, 0x53380d13, 0x650a7354, 0x766a0abb, 0x81c2c92e, 0x92722c85,
  0xa2bfe8a1, 0xa81a664b, 0xc24b8b70, 0xc76c51a3, 0xd192e819, 0xd6990624, 0xf40e3585, 0x106aa070,
  0x19a4c116, 0x1e376c08, 0x2748774c, 0x34b0bcb5, 0x391c0cb3, 0x4ed8aa4a, 0x5b9cca4f, 0x682e6ff3,
  0x748f82ee, 0x78a5636f, 0x84c87814, 0x8cc70208, 0x90befffa, 0xa4506ceb, 0xbef9a3f7, 0xc67178f2]

structure Sha256State where
  a : UInt32
  b : UInt32
  c : UInt32
  d : UInt32
  e : UInt32
  f : UInt32
  g : UInt32
  h : UInt32

def sha256Init : Sha256State :=
  ⟨0x6a09e667, 0xbb67ae85, 0x3c6ef372, 0xa54ff53a, 0x510e527f, 0x9b05688c, 0x1f83d9ab, 0x5be0cd19⟩

def sha256Load (ba : ByteArray) (off : Nat) : Nat → Array UInt32 → Array UInt32
  | 0, w => w
  | n + 1, w => sha256Load ba off n (w.push (getU32BE ba (off + 4 * w.size)))

@[inline] def sha256s0 (x : UInt32) : UInt32 := rotr32 x 7 ^^^ rotr32 x 18 ^^^ (x >>> 3)
@[inline] def sha256s1 (x : UInt32) : UInt32 := rotr32 x 17 ^^^ rotr32 x 19 ^^^ (x >>> 10)
@[inline] def sha256S0 (x : UInt32) : UInt32 := rotr32 x 2 ^^^ rotr32 x 13 ^^^ rotr32 x 22
@[inline] def sha256S1 (x : UInt32) : UInt32 := rotr32 x 6 ^^^ rotr32 x 11 ^^^ rotr32 x 25

/-- schedule words 16..63 -/
def sha256Extend : Nat → Array UInt32 → Array UInt32
  | 0, w => w
  | n + 1, w =>
    let i := w.size
    sha256Extend n (w.push (sha256s1 w[i - 2]! + w[i - 7]! + sha256s0 w[i - 15]! + w[i - 16]!))

def sha256Rounds (w : Array UInt32) :
    Nat → Nat → UInt32 → UInt32 → UInt32 → UInt32 → UInt32 → UInt32 → UInt32 → UInt32 → Sha256State
  | 0, _, a, b, c, d, e, f, g, h => ⟨a, b, c, d, e, f, g, h⟩
  | n + 1, i, a, b, c, d, e, f, g, h =>
    let t1 := h + sha256S1 e + ((e &&& f) ^^^ (~~~e &&& g)) + sha256K[i]! + w[i]!
    let t2 := sha256S0 a + ((a &&& b) ^^^ (a &&& c) ^^^ (b &&& c))
    sha256Rounds w n (i + 1) (t1 + t2) a b c (d + t1) e f g

def sha256Compress (s : Sha256State) (ba : ByteArray) (off : Nat) : Sha256State :=
  let w := sha256Extend 48 (sha256Load ba off 16 (Array.mkEmpty 64))
  let t := sha256Rounds w 64 0 s.a s.b s.c s.d s.e s.f s.g s.h
  ⟨s.a + t.a, s.b + t.b, s.c + t.c, s.d + t.d, s.e + t.e, s.f + t.f, s.g + t.g, s.h + t.h⟩

def sha256Blocks (ba : ByteArray) : Nat → Nat → Sha256State → Sha256State
  | 0, _, s => s
  | n + 1, off, s => sha256Blocks ba n (off + 64) (sha256Compress s ba off)

def sha256Out (s : Sha256State) : Bytes :=
  be32 s.a (be32 s.b (be32 s.c (be32 s.d (be32 s.e (be32 s.f (be32 s.g (be32 s.h [])))))))

/-- SHA-256 of a byte string (32 bytes). -/
def sha256 (msg : Bytes) : Bytes :=
  let ba := mdPad 64 8 msg
  sha256Out (sha256Blocks ba (ba.size / 64) 0 sha256Init)

theorem sha256_length (msg : Bytes) : (sha256 msg).length = 32 := rfl

end Mtv.Crypto
