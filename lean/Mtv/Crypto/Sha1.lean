/-
  Mtv.Crypto.Sha1 — executable SHA-1 (FIPS 180-4 §6.1). Core-only.
  Compression over `UInt32` scalars and an 80-word `Array UInt32` schedule; bytes are converted only
  at the API boundary.
-/
import Mtv.Crypto.Util
namespace Mtv.Crypto

structure Sha1State where
  a : UInt32
  b : UInt32
  c : UInt32
  d : UInt32
  e : UInt32

def sha1Init : Sha1State := ⟨0x67452301, 0xEFCDAB89, 0x98BADCFE, 0x10325476, 0xC3D2E1F0⟩

/-- first 16 schedule words: the block at byte offset `off` -/
def sha1Load (ba : ByteArray) (off : Nat) : Nat → Array UInt32 → Array UInt32
  | 0, w => w
  | n + 1, w => sha1Load ba off n (w.push (getU32BE ba (off + 4 * w.size)))

/-- schedule words 16..79 -/
def sha1Extend : Nat → Array UInt32 → Array UInt32
  | 0, w => w
  | n + 1, w =>
    let i := w.size
    sha1Extend n (w.push (rotl32 (w[i - 3]! ^^^ w[i - 8]! ^^^ w[i - 14]! ^^^ w[i - 16]!) 1))

/-- rounds `i .. i+n-1` with round function `f` and constant `k` -/
@[specialize] def sha1Rounds (f : UInt32 → UInt32 → UInt32 → UInt32) (k : UInt32) (w : Array UInt32) :
    Nat → Nat → UInt32 → UInt32 → UInt32 → UInt32 → UInt32 → Sha1State
  | 0, _, a, b, c, d, e => ⟨a, b, c, d, e⟩
  | n + 1, i, a, b, c, d, e =>
    sha1Rounds f k w n (i + 1) (rotl32 a 5 + f b c d + e + k + w[i]!) a (rotl32 b 30) c d

@[inline] def sha1Ch (b c d : UInt32) : UInt32 := (b &&& c) ||| (~~~b &&& d)
@[inline] def sha1Parity (b c d : UInt32) : UInt32 := b ^^^ c ^^^ d
@[inline] def sha1Maj (b c d : UInt32) : UInt32 := (b &&& c) ||| (b &&& d) ||| (c &&& d)

/-- one compression: state × 64-byte block at offset `off` -/
def sha1Compress (s : Sha1State) (ba : ByteArray) (off : Nat) : Sha1State :=
  let w := sha1Extend 64 (sha1Load ba off 16 (Array.mkEmpty 80))
  let t := sha1Rounds sha1Ch 0x5A827999 w 20 0 s.a s.b s.c s.d s.e
  let t := sha1Rounds sha1Parity 0x6ED9EBA1 w 20 20 t.a t.b t.c t.d t.e
  let t := sha1Rounds sha1Maj 0x8F1BBCDC w 20 40 t.a t.b t.c t.d t.e
  let t := sha1Rounds sha1Parity 0xCA62C1D6 w 20 60 t.a t.b t.c t.d t.e
  ⟨s.a + t.a, s.b + t.b, s.c + t.c, s.d + t.d, s.e + t.e⟩

/-- `n` consecutive blocks starting at byte offset `off` -/
def sha1Blocks (ba : ByteArray) : Nat → Nat → Sha1State → Sha1State
  | 0, _, s => s
  | n + 1, off, s => sha1Blocks ba n (off + 64) (sha1Compress s ba off)

def sha1Out (s : Sha1State) : Bytes :=
  be32 s.a (be32 s.b (be32 s.c (be32 s.d (be32 s.e []))))

/-- SHA-1 of a byte string (20 bytes). -/
def sha1 (msg : Bytes) : Bytes :=
  let ba := mdPad 64 8 msg
  sha1Out (sha1Blocks ba (ba.size / 64) 0 sha1Init)

theorem sha1_length (msg : Bytes) : (sha1 msg).length = 20 := rfl

end Mtv.Crypto
