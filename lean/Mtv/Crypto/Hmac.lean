/-
  Mtv.Crypto.Hmac — HMAC-SHA-512 (RFC 2104 / FIPS 198-1). Core-only.
  The key is absorbed once into an inner and an outer SHA-512 state (`HmacSha512Key`), which PBKDF2
  reuses for every iteration.
-/
import Mtv.Crypto.Sha512
namespace Mtv.Crypto

/-- SHA-512 states after the blocks `K ⊕ ipad` and `K ⊕ opad` -/
structure HmacSha512Key where
  inner : Sha512State
  outer : Sha512State

/-- the 128-byte block key K₀: keys longer than a block are hashed, then zero-padded -/
def hmacSha512BlockKey (key : Bytes) : Bytes :=
  let k := if key.length > 128 then sha512 key else key
  k ++ zeros (128 - k.length)

def hmacSha512Init (key : Bytes) : HmacSha512Key :=
  let k0 := hmacSha512BlockKey key
  let ipad := ByteArray.mk (k0.map (· ^^^ 0x36)).toArray
  let opad := ByteArray.mk (k0.map (· ^^^ 0x5c)).toArray
  ⟨sha512Compress sha512Init ipad 0, sha512Compress sha512Init opad 0⟩

/-- SHA-512 continued from `s` (reached after one 128-byte block) over exactly the 64 bytes of the
    digest state `d`: one compression of `d ‖ 0x80 ‖ 0… ‖ bitlen(192 bytes)` -/
@[inline] def sha512AfterBlockDigest (s d : Sha512State) : Sha512State :=
  sha512CompressW s
    (((((((((((((((((Array.mkEmpty 80).push d.a).push d.b).push d.c).push d.d).push d.e).push d.f).push
      d.g).push d.h).push 0x8000000000000000).push 0).push 0).push 0).push 0).push 0).push 0).push 1536)

/-- the HMAC of `msg`, as a SHA-512 state -/
def hmacSha512State (k : HmacSha512Key) (msg : Bytes) : Sha512State :=
  sha512AfterBlockDigest k.outer (sha512From k.inner 128 msg)

/-- the HMAC of the 64-byte string that is the serialisation of state `u`, as a state -/
@[inline] def hmacSha512OfDigest (k : HmacSha512Key) (u : Sha512State) : Sha512State :=
  sha512AfterBlockDigest k.outer (sha512AfterBlockDigest k.inner u)

/-- HMAC-SHA-512 (64 bytes). -/
def hmacSha512 (key msg : Bytes) : Bytes :=
  sha512Out (hmacSha512State (hmacSha512Init key) msg)

theorem hmacSha512_length (key msg : Bytes) : (hmacSha512 key msg).length = 64 := rfl

end Mtv.Crypto
