/-
  Helper lemmas for property C20: `Hostname()` on `host[:port]`, and `strings.ToLower` leaves no ASCII
  capital. Core-only.
-/
import Mtv.Lemmas.C20
namespace Mtv.Links
open Mtv

/-! ### hostname -/

theorem lastIndexByteNat_none {c : UInt8} {s : Bytes} (h : c ∉ s) : lastIndexByteNat c s = none := by
  induction s with
  | nil => rfl
  | cons x xs ih =>
    simp only [List.mem_cons, not_or] at h
    have hx : ¬ x = c := fun e => h.1 e.symm
    simp [lastIndexByteNat, ih h.2, hx]

theorem lastIndexByteNat_append {c : UInt8} {a r : Bytes} (h : c ∉ r) :
    lastIndexByteNat c (a ++ c :: r) = some a.length := by
  induction a with
  | nil => simp [lastIndexByteNat, lastIndexByteNat_none h]
  | cons x xs ih => simp [lastIndexByteNat, ih]

theorem hostname_plain {h : Bytes} (hc : (58 : UInt8) ∉ h) (hb : hasPrefix h [91] = false) :
    hostname h = h := by
  simp [hostname, lastIndexByteNat_none hc, hb]

theorem digits_no_colon {port : Bytes} (hp : port.all isDigit = true) : (58 : UInt8) ∉ port := by
  intro hm
  have := List.all_eq_true.mp hp 58 hm
  revert this; decide

theorem hostname_port {h port : Bytes} (hb : hasPrefix h [91] = false)
    (hp : port.all isDigit = true) : hostname (h ++ 58 :: port) = h := by
  have h1 := lastIndexByteNat_append (a := h) (digits_no_colon hp)
  simp [hostname, h1, validOptionalPort, hp, hb]

/-! ### toLower -/

theorem asciiLowerByte_not_upper (c : UInt8) : isUpperA (asciiLowerByte c) = false := by
  unfold asciiLowerByte
  split
  · rename_i h
    simp only [isUpperA, Bool.and_eq_true, decide_eq_true_eq] at h
    have e : (c + 32).toNat = c.toNat + 32 := by
      rw [UInt8.toNat_add]; simp; omega
    simp only [isUpperA, e, Bool.and_eq_false_iff, decide_eq_false_iff_not]
    omega
  · rename_i h
    simpa using h

theorem ofNat_toNat_lt {n : Nat} (h : n < 256) : (UInt8.ofNat n).toNat = n := by
  simp [UInt8.toNat_ofNat', Nat.mod_eq_of_lt h]

theorem encodeRune_not_upper {x : Nat} (hx : ¬ (65 ≤ x ∧ x ≤ 90)) :
    ∀ b ∈ encodeRune x, isUpperA b = false := by
  intro b hb
  unfold encodeRune at hb
  have key : ∀ n : Nat, n < 256 → ¬ (65 ≤ n ∧ n ≤ 90) → isUpperA (UInt8.ofNat n) = false := by
    intro n h1 h2
    simp only [isUpperA, ofNat_toNat_lt h1]
    simp only [Bool.and_eq_false_iff, decide_eq_false_iff_not]
    omega
  split at hb
  · simp only [List.mem_singleton] at hb; subst hb; exact key _ (by omega) hx
  · split at hb
    · simp only [List.mem_cons, List.not_mem_nil, or_false] at hb
      rcases hb with rfl | rfl <;> exact key _ (by omega) (by omega)
    · split at hb
      · simp only [List.mem_cons, List.not_mem_nil, or_false] at hb
        rcases hb with rfl | rfl | rfl <;> decide
      · split at hb
        · simp only [List.mem_cons, List.not_mem_nil, or_false] at hb
          rcases hb with rfl | rfl | rfl <;> exact key _ (by omega) (by omega)
        · simp only [List.mem_cons, List.not_mem_nil, or_false] at hb
          rcases hb with rfl | rfl | rfl | rfl <;> exact key _ (by omega) (by omega)

/-- regenerated-fact obligation: no run of the case table maps into `A`–`Z` -/
theorem lowerRuns_above_Z : ∀ run ∈ Mtv.Gen.Links.lowerRuns, (90 : Int) < (run.1 : Int) + run.2.2.2 := by
  decide +kernel

theorem lookupRun_above_Z {r v : Nat} : ∀ (runs : List (Nat × Nat × Nat × Int)),
    (∀ run ∈ runs, (90 : Int) < (run.1 : Int) + run.2.2.2) → lookupRun r runs = some v → 90 < v := by
  intro runs
  induction runs with
  | nil => intro _ h; simp [lookupRun] at h
  | cons run rest ih =>
    intro hall h
    obtain ⟨lo, hi, step, delta⟩ := run
    unfold lookupRun at h
    split at h
    · rename_i hc
      simp only [Option.some.injEq] at h
      have := hall (lo, hi, step, delta) (by simp)
      simp only at this
      omega
    · exact ih (fun run hm => hall run (by simp [hm])) h

theorem lowerRune_not_upper (r : Nat) : ¬ (65 ≤ lowerRune r ∧ lowerRune r ≤ 90) := by
  unfold lowerRune
  split
  · split <;> omega
  · cases h : lookupRun r Mtv.Gen.Links.lowerRuns with
    | none => simp only [Option.getD_none]; omega
    | some v =>
      have := lookupRun_above_Z _ lowerRuns_above_Z h
      simp only [Option.getD_some]; omega

/-- `strings.ToLower` leaves no ASCII capital letter, whatever the bytes (valid UTF-8 or not) -/
theorem toLower_no_upper (s : Bytes) : ∀ b ∈ toLower s, isUpperA b = false := by
  intro b hb
  unfold toLower at hb
  split at hb
  · simp only [List.mem_map] at hb
    obtain ⟨c, _, rfl⟩ := hb
    exact asciiLowerByte_not_upper c
  · simp only [List.mem_flatMap] at hb
    obtain ⟨r, _, hr⟩ := hb
    exact encodeRune_not_upper (lowerRune_not_upper r) b hr

end Mtv.Links
