/-
  `strings.TrimSpace` and the comment splitter of the repaired parser (`splitFirstWord`) on texts of
  the shape `blanks word [blank text]`.
-/
import Mtv.Tlgen.Render
namespace Mtv.Tlgen

theorem dropWhile_of_head {p : Char → Bool} (l : Str) (h : ∀ a, l.head? = some a → p a = false) :
    l.dropWhile p = l := by
  cases l with
  | nil => rfl
  | cons a l => simp [List.dropWhile, h a rfl]

theorem dropWhile_append_all {p : Char → Bool} (pre l : Str) (h : ∀ c ∈ pre, p c = true) :
    (pre ++ l).dropWhile p = l.dropWhile p := by
  induction pre with
  | nil => rfl
  | cons a pre ih =>
    simp only [List.cons_append, List.dropWhile, h a (by simp)]
    exact ih (fun c hc => h c (by simp [hc]))

theorem trimSpace_of_trimmed (c : Str) (h : Trimmed c) : trimSpace c = c := by
  have h1 : trimLeft c = c := dropWhile_of_head c h.1
  have h2 : trimLeft c.reverse = c.reverse := dropWhile_of_head _ (by
    intro a ha; rw [List.head?_reverse] at ha; exact h.2 a ha)
  simp [trimSpace, h1, h2]

theorem Word.head {w : Str} (h : Word w) : ∀ a, w.head? = some a → isSpace a = false := by
  intro a ha
  cases w with
  | nil => simp at ha
  | cons b w => simp at ha; subst ha; exact h.2 b (by simp)

theorem Word.last {w : Str} (h : Word w) : ∀ b, w.getLast? = some b → isSpace b = false := by
  intro b hb
  exact h.2 b (List.mem_of_getLast? hb)

theorem Word.no_blank {w : Str} (h : Word w) : ' ' ∉ w := by
  intro hm
  have := h.2 _ hm
  exact absurd this (by decide)

theorem Word.trimmed {w : Str} (h : Word w) : Trimmed w := ⟨h.head, h.last⟩

/-- `blanks word` -/
theorem trimSpace_pad_word (pre w post : Str) (hpre : ∀ c ∈ pre, isSpace c = true) (hw : Word w)
    (hpost : ∀ c ∈ post, isSpace c = true) :
    trimSpace (pre ++ w ++ post) = w := by
  have h1 : trimLeft (pre ++ w ++ post) = w ++ post := by
    rw [List.append_assoc, trimLeft, dropWhile_append_all _ _ hpre]
    exact dropWhile_of_head _ (by
      intro a ha
      cases w with
      | nil => exact absurd rfl hw.1
      | cons b w => simp at ha; subst ha; exact hw.2 b (by simp))
  have h2 : trimLeft (w ++ post).reverse = w.reverse := by
    rw [List.reverse_append, trimLeft, dropWhile_append_all _ _ (by
      intro c hc; exact hpost c (List.mem_reverse.mp hc))]
    exact dropWhile_of_head _ (by
      intro a ha; rw [List.head?_reverse] at ha; exact hw.last a ha)
  unfold trimSpace
  rw [h1, h2]; simp

/-- `blanks word blank text` with a trimmed, non-empty text -/
theorem trimSpace_pad_word_text (pre w text : Str) (hpre : ∀ c ∈ pre, isSpace c = true) (hw : Word w)
    (ht : Trimmed text) (hne : text ≠ []) :
    trimSpace (pre ++ w ++ ' ' :: text) = w ++ ' ' :: text := by
  have h1 : trimLeft (pre ++ w ++ ' ' :: text) = w ++ ' ' :: text := by
    rw [List.append_assoc, trimLeft, dropWhile_append_all _ _ hpre]
    exact dropWhile_of_head _ (by
      intro a ha
      cases w with
      | nil => exact absurd rfl hw.1
      | cons b w => simp at ha; subst ha; exact hw.2 b (by simp))
  have h2 : trimLeft (w ++ ' ' :: text).reverse = (w ++ ' ' :: text).reverse := by
    apply dropWhile_of_head
    intro a ha
    rw [List.head?_reverse] at ha
    have : (w ++ ' ' :: text).getLast? = text.getLast? := by
      rw [List.getLast?_append]
      cases hl : (' ' :: text).getLast? with
      | none => simp at hl
      | some b =>
        simp only [Option.some_or]
        rw [← hl]
        exact (List.getLast?_cons_of_ne_nil hne).symm ▸ rfl
    rw [this] at ha
    exact ht.2 a ha
  unfold trimSpace
  rw [h1, h2]; simp

theorem takeWhile_word (w rest : Str) (hw : ' ' ∉ w) :
    (w ++ ' ' :: rest).takeWhile (· ≠ ' ') = w ∧ (w ++ ' ' :: rest).dropWhile (· ≠ ' ') = ' ' :: rest := by
  induction w with
  | nil => simp
  | cons a w ih =>
    have ha : a ≠ ' ' := fun e => hw (by simp [e])
    have := ih (fun e => hw (by simp [e]))
    simpa [ha] using this

theorem dropWhile_word (w : Str) (hw : ' ' ∉ w) : w.dropWhile (· ≠ ' ') = [] := by
  induction w with
  | nil => rfl
  | cons a w ih =>
    have ha : a ≠ ' ' := fun e => hw (by simp [e])
    have := ih (fun e => hw (by simp [e]))
    simpa [List.dropWhile, ha] using this

/-- a computable test for `Trimmed` (used on concrete texts) -/
def trimmedB (c : Str) : Bool :=
  (match c.head? with | some a => !isSpace a | none => true) &&
  (match c.getLast? with | some b => !isSpace b | none => true)

theorem trimmed_of_check (c : Str) (h : trimmedB c = true) : Trimmed c := by
  simp only [trimmedB, Bool.and_eq_true] at h
  refine ⟨fun a ha => ?_, fun b hb => ?_⟩
  · have := h.1; rw [ha] at this; simpa using this
  · have := h.2; rw [hb] at this; simpa using this

/-- the annotation splitter on `blanks word [blanks]` -/
theorem splitFirstWord_word (pre w post : Str) (hpre : ∀ c ∈ pre, isSpace c = true) (hw : Word w)
    (hpost : ∀ c ∈ post, isSpace c = true) :
    splitFirstWord (pre ++ w ++ post) = (w, []) := by
  simp only [splitFirstWord, trimSpace_pad_word pre w post hpre hw hpost, dropWhile_word w hw.no_blank]

/-- the annotation splitter on `blanks word blank text` -/
theorem splitFirstWord_word_text (pre w text : Str) (hpre : ∀ c ∈ pre, isSpace c = true) (hw : Word w)
    (ht : Trimmed text) (hne : text ≠ []) :
    splitFirstWord (pre ++ w ++ ' ' :: text) = (w, text) := by
  obtain ⟨h1, h2⟩ := takeWhile_word w text hw.no_blank
  simp only [splitFirstWord, trimSpace_pad_word_text pre w text hpre hw ht hne, h1, h2, trimSpace_of_trimmed text ht]

end Mtv.Tlgen
