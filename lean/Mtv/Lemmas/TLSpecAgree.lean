/-
  C02: the model of the Go encoder produces the schema-defined serialisation whenever the registry
  descriptor of every object in the value agrees in layout with its schema definition.
-/
import Mtv.TL.Spec
import Mtv.TL.Typing
namespace Mtv.TL
open Mtv.Schema

/-- field-by-field layout agreement: same conditional bit, `encoded_in_bitflags` exactly on `true`-typed
parameters -/
def FieldsAgree : List Param → List FieldDesc → Prop
  | [], [] => True
  | p :: ps, f :: fs =>
    p.cond = f.flag.map (·.bit) ∧
    (∀ fl, f.flag = some fl → fl.inBits = (p.ty == .prim bTrue)) ∧ FieldsAgree ps fs
  | _, _ => False

/-- a schema definition and a registry descriptor describe the same layout (the local part of C13's
`defMatch`: id, position of the flags word, conditional bits, bitflag bools) -/
def LayoutAgree (d : Def) (c : CtorDesc) : Prop :=
  c.id = d.id ∧ c.flagIndex = flagsPos d.params 0 ∧ FieldsAgree (valueParams d.params) c.fields

/-- registry and schema agree wherever both know a constructor id: a struct has the layout of its
definition, an enum member's definition has no parameters -/
def Covers (R : Registry) (S : List Def) : Prop :=
  ∀ id c d, R.find id = some c → findDef S id = some d →
    (c.kind = .struct → LayoutAgree d c) ∧
    (c.kind = .enum → d.id = c.id ∧ valueParams d.params = [] ∧ flagsPos d.params 0 = none)

mutual
/-- the value holds only ordinary objects (no message container, no gzip_packed) whose constructors
the schema defines -/
def Plain (R : Registry) (S : List Def) : Val → Prop
  | .vec _ items => PlainL R S items
  | .obj id fs =>
    (match R.find id with
     | some c => (c.kind = .struct ∨ (c.kind = .enum ∧ fs = [])) ∧ (findDef S id).isSome
     | none => True) ∧ PlainL R S fs
  | _ => True
def PlainL (R : Registry) (S : List Def) : List Val → Prop
  | [] => True
  | v :: vs => Plain R S v ∧ PlainL R S vs
end

theorem flagWord_eq_specFlags : ∀ (ps : List Param) (fs : List FieldDesc) (vs : List Val),
    FieldsAgree ps fs → flagWord fs vs = specFlags ps vs
  | [], [], vs, _ => by cases vs <;> simp [flagWord, specFlags]
  | [], _ :: _, _, h => by simp [FieldsAgree] at h
  | _ :: _, [], _, h => by simp [FieldsAgree] at h
  | p :: ps, f :: fs, [], _ => by simp [flagWord, specFlags]
  | p :: ps, f :: fs, v :: vs, h => by
    simp only [FieldsAgree] at h
    obtain ⟨hc, _, hrest⟩ := h
    have ih := flagWord_eq_specFlags ps fs vs hrest
    simp only [flagWord, specFlags, ih, hc]
    cases f.flag <;> simp

mutual
theorem spec_val (R : Registry) (S : List Def) (hc : Covers R S) :
    ∀ (v : Val) (bs : Bytes), Plain R S v → encVal R v = .ok bs → specVal S v = .ok bs
  | .word n, bs, _, h => by simpa [encVal, specVal] using h
  | .long n, bs, _, h => by simpa [encVal, specVal] using h
  | .dbl n, bs, _, h => by simpa [encVal, specVal] using h
  | .bool b, bs, _, h => by simpa [encVal, specVal] using h
  | .str s, bs, _, h => by simpa [encVal, specVal] using h
  | .bytes n s, bs, _, h => by simpa [encVal, specVal] using h
  | .big w n, bs, _, h => by
    simp only [encVal] at h
    split at h
    · rename_i hlt; cases h; simp [specVal, hlt]
    · cases h
  | .null, bs, _, h => by simp [encVal] at h
  | .vec isNil items, bs, hp, h => by
    simp only [encVal] at h
    split at h
    · rename_i body hbody
      cases h
      simp only [Plain] at hp
      have := spec_list R S hc items body hp hbody
      simp [specVal, this]
    · cases h
    · cases h
  | .obj id fs, bs, hp, h => by
    simp only [encVal] at h
    simp only [Plain] at hp
    cases hfind : R.find id with
    | none => simp [hfind] at h
    | some c =>
      simp only [hfind] at h hp
      obtain ⟨d, hd⟩ := Option.isSome_iff_exists.mp hp.1.2
      obtain ⟨hcs, hce⟩ := hc id c d hfind hd
      rcases hp.1.1 with hk | hk
      · -- struct
        simp only [hk] at h
        obtain ⟨hid, hfi, hfa⟩ := hcs hk
        split at h
        · cases h
        · split at h
          · rename_i body hbody
            cases h
            have hw := flagWord_eq_specFlags (valueParams d.params) c.fields fs hfa
            have := spec_fields R S hc fs (valueParams d.params) c.fields (flagWord c.fields fs) c.flagIndex body hfa hp.2 hbody
            simp only [specVal, hd, ← hw, ← hfi, this, hid]
          · cases h
          · cases h
      · -- enum
        obtain ⟨hk, hfs⟩ := hk
        subst hfs
        simp only [hk] at h
        cases h
        obtain ⟨hid, hvp, hfp⟩ := hce hk
        simp [specVal, hd, hvp, hfp, specParams, hid]

theorem spec_list (R : Registry) (S : List Def) (hc : Covers R S) :
    ∀ (items : List Val) (bs : Bytes), PlainL R S items → encList R items = .ok bs → specList S items = .ok bs
  | [], bs, _, h => by simpa [encList, specList] using h
  | v :: vs, bs, hp, h => by
    simp only [PlainL] at hp
    simp only [encList] at h
    split at h
    · rename_i a ha
      split at h
      · rename_i b hb
        cases h
        simp [specList, spec_val R S hc v a hp.1 ha, spec_list R S hc vs b hp.2 hb]
      · cases h
      · cases h
    · cases h
    · cases h

theorem spec_fields (R : Registry) (S : List Def) (hc : Covers R S) :
    ∀ (vs : List Val) (ps : List Param) (fs : List FieldDesc) (W : Nat) (k : Option Nat) (bs : Bytes),
      FieldsAgree ps fs → PlainL R S vs → encFields R W k fs vs = .ok bs → specParams S W k ps vs = .ok bs
  | [], ps, fs, W, k, bs, ha, _, h => by
    cases fs with
    | nil =>
      cases ps with
      | nil => simpa [encFields, specParams] using h
      | cons p ps => simp [FieldsAgree] at ha
    | cons f fs => simp [encFields] at h
  | v :: vs, ps, fs, W, k, bs, ha, hp, h => by
    cases fs with
    | nil => simp [encFields] at h
    | cons f fs =>
      cases ps with
      | nil => simp [FieldsAgree] at ha
      | cons p ps =>
        simp only [FieldsAgree] at ha
        obtain ⟨hcond, hin, hrest⟩ := ha
        simp only [PlainL] at hp
        simp only [encFields] at h
        simp only [specParams]
        -- continuation shared by the "written" cases
        have written : ∀ (bs : Bytes),
            (match encVal R v with
              | .ok b =>
                match encFields R W (nextK k) fs vs with
                | .ok c => Outcome.ok ((if k = some 0 then leBytes W 4 else []) ++ (b ++ c))
                | .err e => .err e
                | .panic s => .panic s
              | .err e => .err e
              | .panic s => .panic s) = .ok bs →
            (match specVal S v with
              | .ok b =>
                match specParams S W (nextK k) ps vs with
                | .ok c => Outcome.ok ((if k = some 0 then leBytes W 4 else []) ++ (b ++ c))
                | .err e => .err e
                | .panic s => .panic s
              | .err e => .err e
              | .panic s => .panic s) = .ok bs := by
          intro bs h
          cases hb : encVal R v with
          | err e => simp [hb] at h
          | panic s => simp [hb] at h
          | ok b =>
            simp only [hb] at h
            cases hcc : encFields R W (nextK k) fs vs with
            | err e => simp [hcc] at h
            | panic s => simp [hcc] at h
            | ok c =>
              simp only [hcc] at h
              simp only [spec_val R S hc v b hp.1 hb, spec_fields R S hc vs ps fs W (nextK k) c hrest hp.2 hcc]
              exact h
        have skipped : ∀ (bs : Bytes),
            (match encFields R W (nextK k) fs vs with
              | .ok c => Outcome.ok ((if k = some 0 then leBytes W 4 else []) ++ c)
              | .err e => .err e
              | .panic s => .panic s) = .ok bs →
            (match specParams S W (nextK k) ps vs with
              | .ok c => Outcome.ok ((if k = some 0 then leBytes W 4 else []) ++ c)
              | .err e => .err e
              | .panic s => .panic s) = .ok bs := by
          intro bs h
          cases hcc : encFields R W (nextK k) fs vs with
          | err e => simp [hcc] at h
          | panic s => simp [hcc] at h
          | ok c =>
            simp only [hcc] at h
            simp only [spec_fields R S hc vs ps fs W (nextK k) c hrest hp.2 hcc]
            exact h
        cases hf : f.flag with
        | none =>
          have hpc : p.cond = none := by simp [hcond, hf]
          simp only [hf, if_true] at h
          simp only [hpc, Option.isSome_none, Bool.and_false, Bool.not_false, Bool.and_true, if_true]
          exact written bs h
        | some fl =>
          have hpc : p.cond = some fl.bit := by simp [hcond, hf]
          have hib := hin fl hf
          simp only [hf] at h
          simp only [hpc, Option.isSome_some, Bool.and_true]
          by_cases hbit : (W / 2 ^ fl.bit) % 2 = 1
          · by_cases hinb : fl.inBits = true
            · have hty : (p.ty == STy.prim bTrue) = true := by rw [← hib]; exact hinb
              simp only [hbit, hinb, decide_true, Bool.not_true, Bool.and_false, Bool.false_eq_true, if_false] at h
              simp only [hbit, hty, decide_true, Bool.not_true, Bool.and_false, Bool.false_eq_true, if_false]
              exact skipped bs h
            · have hinb' : fl.inBits = false := by simpa using hinb
              have hty : (p.ty == STy.prim bTrue) = false := by rw [← hib]; exact hinb'
              simp only [hbit, hinb', decide_true, Bool.not_false, Bool.and_true, if_true] at h
              simp only [hbit, hty, decide_true, Bool.not_false, Bool.and_true, if_true]
              exact written bs h
          · simp only [hbit, decide_false, Bool.false_and, Bool.false_eq_true, if_false] at h
            simp only [hbit, decide_false, Bool.false_and, Bool.false_eq_true, if_false]
            exact skipped bs h
end

end Mtv.TL
