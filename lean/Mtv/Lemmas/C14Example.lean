/-
  A concrete schema (an enum constructor with a type comment, a struct with a flags word, a
  conditional `true` field and a vector field, a function with a vector result, namespaces,
  documentation comments) and the proof that it is well-formed — used by the `example`s next to the
  property theorems of Mtv/Props/C14.lean.
-/
import Mtv.Lemmas.C14Render
import Mtv.Lemmas.C14Classify
import Mtv.Tlgen.Emit
namespace Mtv.Tlgen

/-! ### a concrete schema used by the `example`s -/

/-- `cs!"abc"` is the explicit list `['a', 'b', 'c']` -/
macro "cs!" s:str : term => do
  let cs := s.getString.toList.toArray.map fun c => Lean.Syntax.mkCharLit c
  `([ $cs,* ])

def exFlags : Param := { name := cs!"flags", type := kwBitflags }
def exSilent : Param :=
  { name := cs!"silent", type := cs!"true", isOptional := true, bit := 5, comment := cs!"no sound" }
def exIds : Param := { name := cs!"user_ids", type := cs!"long", isVector := true }
def exJpeg : Obj :=
  { name := cs!"storage.fileJpeg", crc := 0x7efe0e, params := [], iface := cs!"storage.FileType",
    comment := cs!"JPEG image." }
def exSettings : Obj :=
  { name := cs!"peerSettings", crc := 0x733f2961, params := [exFlags, exSilent, exIds],
    iface := cs!"PeerSettings" }
def exGetPeers : Method :=
  { name := cs!"messages.getPeers", crc := 0xf1a2b3c4, params := [exIds], respType := cs!"PeerSettings",
    respIsList := true, comment := cs!"Fetch peers" }
def exSchema : Schema :=
  { objects := [exJpeg, exSettings], methods := [exGetPeers],
    typeComments := [(cs!"storage.FileType", cs!"Object describes the file type.")] }

macro "wf_param" : tactic =>
  `(tactic| exact ⟨by unfold NameOk; decide +kernel, by unfold TypeOk; decide +kernel, by decide +kernel, by decide +kernel, by decide +kernel, by decide +kernel,
      by decide +kernel, by decide +kernel, by decide +kernel⟩)

macro "trimmed" : tactic => `(tactic| exact trimmed_of_check _ (by decide +kernel))

theorem exJpeg_wf : WFDef exJpeg.toDef :=
  ⟨by unfold NameOk; decide +kernel, by decide +kernel, by decide +kernel, by intro p hp; simp [Obj.toDef, exJpeg] at hp,
   by unfold TypeOk; decide +kernel, by decide +kernel⟩

theorem exSettings_wf : WFDef exSettings.toDef := by
  refine ⟨by unfold NameOk; decide +kernel, by decide +kernel, by decide +kernel, ?_, by unfold TypeOk; decide +kernel, by decide +kernel⟩
  intro p hp
  simp only [Obj.toDef, exSettings, List.map_cons, List.map_nil, List.mem_cons, List.not_mem_nil, or_false] at hp
  rcases hp with rfl | rfl | rfl <;> wf_param

theorem exGetPeers_wf : WFDef exGetPeers.toDef := by
  refine ⟨by unfold NameOk; decide +kernel, by decide +kernel, by decide +kernel, ?_, by unfold TypeOk; decide +kernel, by decide +kernel⟩
  intro p hp
  simp only [Method.toDef, exGetPeers, List.map_cons, List.map_nil, List.mem_cons, List.not_mem_nil, or_false] at hp
  rcases hp with rfl <;> wf_param

theorem commentOk_nil : CommentOk [] := ⟨⟨by intro a h; simp at h, by intro b h; simp at h⟩, by simp⟩

theorem exSchema_wf : WFAst exSchema := by
  refine ⟨?_, ?_, ?_, ?_⟩
  · intro o ho
    simp only [exSchema, List.mem_cons, List.not_mem_nil, or_false] at ho
    rcases ho with rfl | rfl
    · exact ⟨exJpeg_wf, ⟨by trimmed, by decide +kernel⟩, by decide +kernel, by intro p hp; simp [exJpeg] at hp⟩
    · refine ⟨exSettings_wf, commentOk_nil, by decide +kernel, ?_⟩
      intro p hp
      simp only [exSettings, List.mem_cons, List.not_mem_nil, or_false] at hp
      rcases hp with rfl | rfl | rfl
      · exact commentOk_nil
      · exact ⟨by trimmed, by decide +kernel⟩
      · exact commentOk_nil
  · intro m hm
    simp only [exSchema, List.mem_cons, List.not_mem_nil, or_false] at hm
    subst hm
    refine ⟨exGetPeers_wf, ⟨by trimmed, by decide +kernel⟩, by decide +kernel, ?_⟩
    intro p hp
    simp only [exGetPeers, List.mem_cons, List.not_mem_nil, or_false] at hp
    subst hp
    exact commentOk_nil
  · intro t
    simp only [exSchema, mapGet]
    split
    · exact ⟨by trimmed, by decide +kernel⟩
    · exact commentOk_nil
  · intro t ht
    simp only [exSchema, mapGet] at ht
    split at ht
    · rename_i h; exact ⟨exJpeg, by simp [exSchema], h⟩
    · exact absurd rfl ht

/-- the same schema as a document in a different layout: plain comments, an empty line, the function
first, then `---types---` and the constructors -/
def exDoc : List Item :=
  [.comment (cs!" layer 121"), .blank, .functions, .defn exGetPeers.toDef, .comment (cs!" @unknown note"),
   .types, .comment (cs!""), .defn exJpeg.toDef, .defn exSettings.toDef]

theorem exDoc_wf : WFItems exDoc := by
  intro i hi
  simp only [exDoc, List.mem_cons, List.not_mem_nil, or_false] at hi
  rcases hi with rfl | rfl | rfl | rfl | rfl | rfl | rfl | rfl | rfl
  · show '\n' ∉ _; decide +kernel
  · trivial
  · trivial
  · exact exGetPeers_wf
  · show '\n' ∉ _; decide +kernel
  · trivial
  · show '\n' ∉ _; decide +kernel
  · exact exJpeg_wf
  · exact exSettings_wf

theorem exDoc_noVector : NoVectorTypes false exDoc := by
  simp only [exDoc, NoVectorTypes]
  decide +kernel

end Mtv.Tlgen
