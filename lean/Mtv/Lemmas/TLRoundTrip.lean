/-
  Helper lemmas for the generic TL round-trip theorem (C01).
-/
import Mtv.TL.Typing
import Mtv.Lemmas.TLPrim
namespace Mtv.TL

theorem flagWord_lt : ∀ (fs : List FieldDesc) (vs : List Val), flagWord fs vs < 2 ^ 32
  | [], _ => by simp [flagWord]
  | _ :: _, [] => by simp [flagWord]
  | f :: fs, v :: vs => by
    have ih := flagWord_lt fs vs
    simp only [flagWord]
    cases hf : f.flag with
    | none => simpa using ih
    | some fl =>
      simp only
      split
      · exact Nat.or_lt_two_pow ih (Nat.mod_lt _ (by decide))
      · exact ih

theorem find_mem (R : Registry) (id : Nat) (d : CtorDesc) (h : R.find id = some d) : d ∈ R ∧ d.id = id := by
  unfold Registry.find at h
  have h1 := List.mem_of_find?_eq_some h
  have h2 := List.find?_some h
  exact ⟨h1, by simpa using h2⟩

/-- an encoded value occupies at least one byte (in fact four) -/
theorem encVal_length_pos (R : Registry) (v : Val) (bs : Bytes) (hw : ∀ w n, v = .big w n → 0 < w)
    (h : encVal R v = .ok bs) : 0 < bs.length := by
  cases v with
  | word n => simp [encVal] at h; subst h; simp
  | long n => simp [encVal] at h; subst h; simp
  | dbl n => simp [encVal] at h; subst h; simp
  | bool b => simp [encVal] at h; subst h; simp
  | str s =>
    simp only [encVal, putMessage] at h
    split at h
    · cases h; simp
    · split at h
      · cases h
      · cases h; simp
  | bytes n s =>
    simp only [encVal, putMessage] at h
    split at h
    · cases h; simp
    · split at h
      · cases h
      · cases h; simp
  | big w n =>
    simp only [encVal] at h
    split at h
    · cases h
      rename_i hlt
      simp
      have := hw w n rfl
      omega
    · cases h
  | vec n items =>
    simp only [encVal] at h
    split at h <;> cases h
    simp; omega
  | null => simp [encVal] at h
  | obj id fs =>
    simp only [encVal] at h
    split at h
    · cases h
    · split at h
      · split at h
        · cases h
        · split at h <;> cases h
          simp; omega
      · cases h; simp
      · split at h
        · split at h <;> cases h
          simp; omega
        · cases h
      · cases h

theorem encList_length (R : Registry) : ∀ (items : List Val) (bs : Bytes),
    (∀ v ∈ items, ∀ w n, v = .big w n → 0 < w) → encList R items = .ok bs →
    items.length ≤ bs.length
  | [], bs, _, h => by simp
  | v :: vs, bs, hw, h => by
    simp only [encList] at h
    split at h
    · rename_i a ha
      split at h
      · rename_i b hb
        cases h
        have h1 := encVal_length_pos R v a (hw v (by simp)) ha
        have h2 := encList_length R vs b (fun x hx => hw x (by simp [hx])) hb
        simp; omega
      · cases h
      · cases h
    · cases h
    · cases h

end Mtv.TL
