/-
  Lemmas for C12: string literals (writer's escaping, scanner, unquote).
-/
import Mtv.Session.Json
namespace Mtv.Session

/-! ### bytes as numbers -/

/-- turn a goal/hypotheses about `UInt8` comparisons with literals into `Nat` facts for `omega` -/
macro "u8" : tactic =>
  `(tactic| (simp only [UInt8.le_iff_toNat_le, UInt8.lt_iff_toNat_lt, ne_eq, ← UInt8.toNat_inj,
      Bool.and_eq_true, Bool.or_eq_true, decide_eq_true_eq, bne_iff_ne, Bool.not_eq_true,
      decide_eq_false_iff_not, Bool.and_eq_false_iff, Bool.or_eq_false_iff, not_and, not_or,
      UInt8.toNat_ofNat, UInt8.reduceToNat] at * <;> omega))

/-- a byte the scanner copies inside a literal without changing state -/
def isPlain (c : UInt8) : Bool := 0x20 ≤ c && c != 0x22 && c != 0x5C

theorem isPlain_of_ge {c : UInt8} (h : 0x80 ≤ c) : isPlain c = true := by
  unfold isPlain; have := c.toNat_lt; u8

theorem isPlain_of_htmlSafe {c : UInt8} (h : htmlSafe c = true) : isPlain c = true := by
  unfold isPlain; unfold htmlSafe at h; have := c.toNat_lt; u8

/-! ### well-formed literal bodies -/

def isSimpleEsc (c : UInt8) : Bool :=
  c = 0x62 || c = 0x66 || c = 0x6E || c = 0x72 || c = 0x74 || c = 0x5C || c = 0x2F || c = 0x22

/-- bodies of string literals: plain bytes, one-letter escapes, `u` escapes with four hex digits -/
inductive Lit : Bytes → Prop where
  | nil : Lit []
  | plain {c r} : isPlain c = true → Lit r → Lit (c :: r)
  | esc {c r} : isSimpleEsc c = true → Lit r → Lit (0x5C :: c :: r)
  | uesc {a b c d r} : isHex a = true → isHex b = true → isHex c = true → isHex d = true → Lit r →
      Lit (0x5C :: 0x75 :: a :: b :: c :: d :: r)

theorem Lit.append {x y : Bytes} (hx : Lit x) (hy : Lit y) : Lit (x ++ y) := by
  induction hx with
  | nil => simpa
  | plain h _ ih => exact .plain h ih
  | esc h _ ih => exact .esc h ih
  | uesc h1 h2 h3 h4 _ ih => exact .uesc h1 h2 h3 h4 ih

theorem Lit.of_plain {x : Bytes} (h : ∀ c ∈ x, isPlain c = true) : Lit x := by
  induction x with
  | nil => exact .nil
  | cons c r ih => exact .plain (h c (by simp)) (ih fun d hd => h d (by simp [hd]))

theorem isHex_hexByte : ∀ n, n < 16 → isHex (hexByte n) = true := by decide

theorem lit_escAscii (b : UInt8) : Lit (escAscii b) := by
  unfold escAscii
  split
  · rename_i h; exact .plain (isPlain_of_htmlSafe h) .nil
  split
  · rename_i h
    rcases h with h | h <;> subst h <;> exact .esc (by decide) .nil
  repeat (split; exact .esc (by decide) .nil)
  have := b.toNat_lt
  exact .uesc (by decide) (by decide) (isHex_hexByte _ (by omega)) (isHex_hexByte _ (by omega)) .nil

theorem lit_escReplacement : Lit escReplacement := .uesc (by decide) (by decide) (by decide) (by decide) .nil

theorem ge_of_not_lt {b : UInt8} (h : ¬ b < 0x80) : 0x80 ≤ b := by u8

theorem is2_ge {b0 b1 : UInt8} (h : is2 b0 b1 = true) : 0x80 ≤ b1 := by
  unfold is2 isCont at h; u8

theorem is3_ge {b0 b1 b2 : UInt8} (h : is3 b0 b1 b2 = true) : 0x80 ≤ b1 ∧ 0x80 ≤ b2 := by
  unfold is3 isCont at h
  by_cases h0 : b0 = 0xE0 <;> simp only [h0, if_true, if_false] at h <;> constructor <;> u8

theorem is4_ge {b0 b1 b2 b3 : UInt8} (h : is4 b0 b1 b2 b3 = true) : 0x80 ≤ b1 ∧ 0x80 ≤ b2 ∧ 0x80 ≤ b3 := by
  unfold is4 isCont at h
  by_cases h0 : b0 = 0xF0 <;> simp only [h0, if_true, if_false] at h <;> refine ⟨?_, ?_, ?_⟩ <;> u8

/-- whatever the host name, the writer produces a well-formed literal body -/
theorem lit_escape (h : Bytes) : Lit (escape h) := by
  induction h using escape.induct with
  | case1 => exact .nil
  | case2 b0 r0 hlt ih => rw [escape.eq_def]; simp only [hlt, if_true]; exact (lit_escAscii b0).append ih
  | case3 b0 hlt => rw [escape.eq_def]; simp only [hlt, if_false]; exact lit_escReplacement
  | case4 b0 hlt b1 r1 h2 ih =>
    rw [escape.eq_def]; simp only [hlt, if_false, h2, if_true]
    exact .plain (isPlain_of_ge (ge_of_not_lt hlt)) (.plain (isPlain_of_ge (is2_ge h2)) ih)
  | case5 b0 hlt b1 h2 ih =>
    rw [escape.eq_def]; simp only [hlt, if_false, h2] at ih ⊢
    exact lit_escReplacement.append ih
  | case6 b0 hlt b1 h2 b2 r2 h3 ih =>
    rw [escape.eq_def]; simp only [hlt, if_false, h2, h3, if_true]
    refine Lit.append ?_ ih
    split
    · have : b2.toNat % 16 < 16 := by omega
      exact .uesc (by decide) (by decide) (by decide) (isHex_hexByte _ this) .nil
    · exact .plain (isPlain_of_ge (ge_of_not_lt hlt)) (.plain (isPlain_of_ge (is3_ge h3).1)
        (.plain (isPlain_of_ge (is3_ge h3).2) .nil))
  | case7 b0 hlt b1 h2 b2 h3 ih =>
    rw [escape.eq_def]
    simp only [hlt, if_false, h2, h3]
    exact lit_escReplacement.append ih
  | case8 b0 hlt b1 h2 b2 h3 b3 r3 h4 ih =>
    rw [escape.eq_def]; simp only [hlt, if_false, h2, h3, h4, if_true]
    exact .plain (isPlain_of_ge (ge_of_not_lt hlt)) (.plain (isPlain_of_ge (is4_ge h4).1)
      (.plain (isPlain_of_ge (is4_ge h4).2.1) (.plain (isPlain_of_ge (is4_ge h4).2.2) ih)))
  | case9 b0 hlt b1 h2 b2 h3 b3 r3 h4 ih =>
    rw [escape.eq_def]
    simp only [hlt, if_false, h2, h3, h4]
    exact lit_escReplacement.append ih

/-! ### unquote undoes the writer's escaping on well-formed UTF-8 -/

theorem unq_nil : unquoteGo none [] = [] := by
  rw [unquoteGo.eq_def]; rfl

theorem unq_ascii {b : UInt8} (rest : Bytes) (h1 : b < 0x80) (h2 : b ≠ 0x5C) :
    unquoteGo none (b :: rest) = b :: unquoteGo none rest := by
  rw [unquoteGo.eq_def]; simp [h1, h2, flushPend]

theorem unq_simple {c : UInt8} (rest : Bytes) (h : c ≠ 0x75) :
    unquoteGo none (0x5C :: c :: rest) = escLetter c :: unquoteGo none rest := by
  rw [unquoteGo.eq_def]; simp [h, flushPend]

theorem unq_u (a b c d : UInt8) (rest : Bytes) (h : hex4 a b c d < 0xD800 ∨ 0xE000 ≤ hex4 a b c d) :
    unquoteGo none (0x5C :: 0x75 :: a :: b :: c :: d :: rest) =
      encodeRune (hex4 a b c d) ++ unquoteGo none rest := by
  rw [unquoteGo.eq_def]
  have h1 : ¬ (0xD800 ≤ hex4 a b c d ∧ hex4 a b c d < 0xDC00) := by omega
  have h2 : ¬ (0xDC00 ≤ hex4 a b c d ∧ hex4 a b c d < 0xE000) := by omega
  simp [flushPend, h1, h2]

theorem unq_2 {b0 b1 : UInt8} (rest : Bytes) (h0 : ¬ b0 < 0x80) (h : is2 b0 b1 = true) :
    unquoteGo none (b0 :: b1 :: rest) = b0 :: b1 :: unquoteGo none rest := by
  have : b0 ≠ 0x5C := by u8
  rw [unquoteGo.eq_def]; simp [flushPend, this, h0, h]

theorem unq_3 {b0 b1 b2 : UInt8} (rest : Bytes) (h0 : ¬ b0 < 0x80) (h2 : ¬ is2 b0 b1 = true)
    (h : is3 b0 b1 b2 = true) :
    unquoteGo none (b0 :: b1 :: b2 :: rest) = b0 :: b1 :: b2 :: unquoteGo none rest := by
  have : b0 ≠ 0x5C := by u8
  rw [unquoteGo.eq_def]; simp [flushPend, this, h0, h2, h]

theorem unq_4 {b0 b1 b2 b3 : UInt8} (rest : Bytes) (h0 : ¬ b0 < 0x80) (h2 : ¬ is2 b0 b1 = true)
    (h3 : ¬ is3 b0 b1 b2 = true) (h : is4 b0 b1 b2 b3 = true) :
    unquoteGo none (b0 :: b1 :: b2 :: b3 :: rest) = b0 :: b1 :: b2 :: b3 :: unquoteGo none rest := by
  have : b0 ≠ 0x5C := by u8
  rw [unquoteGo.eq_def]; simp [flushPend, this, h0, h2, h3, h]

theorem hexv_hexByte : ∀ n, n < 16 → hexv (hexByte n) = n := by decide

theorem htmlSafe_ne_bs {b : UInt8} (h : htmlSafe b = true) : b ≠ 0x5C := by
  unfold htmlSafe at h; u8

theorem unq_escAscii (b : UInt8) (rest : Bytes) (hb : b < 0x80) :
    unquoteGo none (escAscii b ++ rest) = b :: unquoteGo none rest := by
  unfold escAscii
  split
  · rename_i h; exact unq_ascii rest hb (htmlSafe_ne_bs h)
  split
  · rename_i h
    rcases h with h | h <;> subst h <;> exact unq_simple rest (by decide)
  split
  · rename_i h; subst h; exact unq_simple rest (by decide)
  split
  · rename_i h; subst h; exact unq_simple rest (by decide)
  split
  · rename_i h; subst h; exact unq_simple rest (by decide)
  split
  · rename_i h; subst h; exact unq_simple rest (by decide)
  split
  · rename_i h; subst h; exact unq_simple rest (by decide)
  have hn := b.toNat_lt
  have hv : hex4 0x30 0x30 (hexByte (b.toNat / 16)) (hexByte (b.toNat % 16)) = b.toNat := by
    unfold hex4
    rw [hexv_hexByte _ (by omega), hexv_hexByte _ (by omega)]
    have : hexv 0x30 = 0 := by decide
    rw [this]; omega
  have hb' : b.toNat < 128 := by u8
  show unquoteGo none (0x5C :: 0x75 :: 0x30 :: 0x30 :: hexByte (b.toNat / 16) :: hexByte (b.toNat % 16) :: rest) = _
  rw [unq_u _ _ _ _ _ (by omega), hv]
  simp [encodeRune, hb']

theorem unquote_escape (h : Bytes) (hv : validUtf8 h = true) : unquoteGo none (escape h) = h := by
  induction h using escape.induct with
  | case1 => rw [escape.eq_def]; exact unq_nil
  | case2 b0 r0 hlt ih =>
    rw [validUtf8.eq_def] at hv; simp only [hlt, if_true] at hv
    rw [escape.eq_def]; simp only [hlt, if_true]
    rw [unq_escAscii b0 _ hlt, ih hv]
  | case3 b0 hlt => rw [validUtf8.eq_def] at hv; simp [hlt] at hv
  | case4 b0 hlt b1 r1 h2 ih =>
    rw [validUtf8.eq_def] at hv; simp only [hlt, if_false, h2, if_true] at hv
    rw [escape.eq_def]; simp only [hlt, if_false, h2, if_true]
    rw [unq_2 _ hlt h2, ih hv]
  | case5 b0 hlt b1 h2 ih => rw [validUtf8.eq_def] at hv; simp [hlt, h2] at hv
  | case6 b0 hlt b1 h2 b2 r2 h3 ih =>
    rw [validUtf8.eq_def] at hv; simp only [hlt, if_false, h2, h3, if_true, Bool.false_eq_true] at hv
    rw [escape.eq_def]; simp only [hlt, if_false, h2, h3, if_true, Bool.false_eq_true]
    by_cases hls : b0 = 226 ∧ b1 = 128 ∧ (b2 = 168 ∨ b2 = 169)
    · simp only [hls]
      obtain ⟨rfl, rfl, h28⟩ := hls
      rcases h28 with rfl | rfl
      · show unquoteGo none (0x5C :: 0x75 :: 0x32 :: 0x30 :: 0x32 :: 0x38 :: escape r2) = _
        rw [unq_u _ _ _ _ _ (by decide), ih hv]
        have : encodeRune (hex4 50 48 50 56) = [226, 128, 168] := by decide
        rw [this]; rfl
      · show unquoteGo none (0x5C :: 0x75 :: 0x32 :: 0x30 :: 0x32 :: 0x39 :: escape r2) = _
        rw [unq_u _ _ _ _ _ (by decide), ih hv]
        have : encodeRune (hex4 50 48 50 57) = [226, 128, 169] := by decide
        rw [this]; rfl
    · simp only [hls, if_false]
      show unquoteGo none (b0 :: b1 :: b2 :: escape r2) = _
      rw [unq_3 _ hlt h2 h3, ih hv]
  | case7 b0 hlt b1 h2 b2 h3 ih => rw [validUtf8.eq_def] at hv; simp [hlt, h2, h3] at hv
  | case8 b0 hlt b1 h2 b2 h3 b3 r3 h4 ih =>
    rw [validUtf8.eq_def] at hv; simp only [hlt, if_false, h2, h3, h4, if_true, Bool.false_eq_true] at hv
    rw [escape.eq_def]; simp only [hlt, if_false, h2, h3, h4, if_true, Bool.false_eq_true]
    rw [unq_4 _ hlt h2 h3 h4, ih hv]
  | case9 b0 hlt b1 h2 b2 h3 b3 r3 h4 ih =>
    rw [validUtf8.eq_def] at hv; simp [hlt, h2, h3, h4] at hv

end Mtv.Session
