/-
  Invariants of the goroutine-level client model (Mtv/Client/Impl.lean) and its refinement of the
  event-level machine (Mtv/Client/Machine.lean). Part 1: the lock invariant (mutual exclusion, wire order).
-/
import Mtv.Client.Impl
import Mtv.Lemmas.ClientInv2
namespace Mtv.Impl
open Mtv.Client

/-! ## inversion of the steps -/

theorem nextId_gt (last ns : Nat) (h : last % 4 = 0) : last < nextId last ns ∧ nextId last ns % 4 = 0 := by
  unfold nextId genId
  split <;> omega

theorem step_cLock {s s' : ISt} {c : Nat} (h : step s (.cLock c) = some s') :
    s.owner = .free ∧ ∃ r, (s.cs c = (if r then .again else .idle)) ∧
      s' = { setC s c (.locked r) with owner := .caller c } := by
  simp only [step] at h
  split at h
  · rename_i ho
    split at h
    · rename_i hc; simp only [Option.some.injEq] at h; exact ⟨ho, false, by simpa using hc, h.symm⟩
    · rename_i hc; simp only [Option.some.injEq] at h; exact ⟨ho, true, by simpa using hc, h.symm⟩
    · simp at h
  · simp at h

theorem step_cIdReg {s s' : ISt} {c now : Nat} (h : step s (.cIdReg c now) = some s') :
    ∃ r, s.cs c = .locked r ∧
      s' = { setC s c (.reg (nextId s.lastMsgID now) r) with
             lastMsgID := nextId s.lastMsgID now, chans := (nextId s.lastMsgID now, c) :: s.chans } := by
  simp only [step] at h
  split at h
  · rename_i r hc; simp only [Option.some.injEq] at h; exact ⟨r, hc, h.symm⟩
  · simp at h

theorem step_cWrite {s s' : ISt} {c : Nat} {ok : Bool} (h : step s (.cWrite c ok) = some s') :
    ∃ id r, s.cs c = .reg id r ∧
      s' = (if ok then { setC s c (.written id) with wire := (id, orOne s.seqNo, s.salt) :: s.wire, seqNo := s.seqNo + 2 }
            else { setC s c .failed with chans := erasePending s.chans id }) := by
  simp only [step] at h
  split at h
  · rename_i id r hc
    split at h <;> simp only [Option.some.injEq] at h
    · rename_i hok; exact ⟨id, r, hc, by simp [hok, h]⟩
    · rename_i hok; exact ⟨id, r, hc, by simp [hok, h]⟩
  · simp at h

theorem step_cUnlock {s s' : ISt} {c : Nat} (h : step s (.cUnlock c) = some s') :
    (∃ id, s.cs c = .written id ∧ s' = { setC s c (.wait id) with owner := .free }) ∨
    (s.cs c = .failed ∧ s' = { setC s c .idle with owner := .free }) := by
  simp only [step] at h
  split at h
  · rename_i id hc; simp only [Option.some.injEq] at h; exact Or.inl ⟨id, hc, h.symm⟩
  · rename_i hc; simp only [Option.some.injEq] at h; exact Or.inr ⟨hc, h.symm⟩
  · simp at h

theorem step_cRecv {s s' : ISt} {c : Nat} (h : step s (.cRecv c) = some s') :
    ∃ id v k, s.cs c = .wait id ∧ s.cur = .sendVal id c v :: k ∧
      s' = { setC s c (afterRecv v) with cur := k } := by
  simp only [step] at h
  split at h
  · rename_i id id' c' v k hc hk
    split at h
    · rename_i hcond
      obtain ⟨rfl, rfl⟩ := hcond
      simp only [Option.some.injEq] at h; exact ⟨_, _, k, hc, hk, h.symm⟩
    · simp at h
  · simp at h

theorem step_lRead {s s' : ISt} {mid seq : Nat} {m : Msg} (h : step s (.lRead mid seq m) = some s') :
    s.cur = [] ∧ s.todo = [] ∧ s' = { s with todo := [.msg mid seq m] } := by
  simp only [step] at h
  split at h
  · rename_i h1 h2; simp only [Option.some.injEq] at h; exact ⟨h1, h2, h.symm⟩
  · simp at h

/-! ## the lock invariant -/

/-- a caller between Lock and Unlock -/
def holds : CPc → Bool
  | .locked _ | .reg _ _ | .written _ | .failed => true
  | _ => false

def opHolds : Op → Bool
  | .ackId _ | .ackWrite _ _ | .ackUnlock => true
  | _ => false

/-- the loop between Lock and Unlock (of its acknowledgement) -/
def headHolds : List Op → Bool
  | op :: _ => opHolds op
  | [] => false

def loopHolds (s : ISt) : Bool := headHolds s.cur

structure Inv (s : ISt) : Prop where
  m1 : ∀ c, holds (s.cs c) = true ↔ s.owner = .caller c
  m2 : headHolds s.cur = true ↔ s.owner = .loop
  n1 : s.lastMsgID % 4 = 0
  n2 : s.seqNo % 2 = 0
  w1 : ∀ e ∈ s.wire, e.1 ≤ s.lastMsgID ∧ e.2.1 ≤ s.seqNo ∧ e.1 % 4 = 0
  w2 : ∀ c id r, s.cs c = .reg id r → id = s.lastMsgID ∧ ∀ e ∈ s.wire, e.1 < id
  w3 : ∀ mid id k, s.cur = .ackWrite mid id :: k → id = s.lastMsgID ∧ ∀ e ∈ s.wire, e.1 < id
  w4 : s.wire.Pairwise (fun newer older => older.1 < newer.1 ∧ older.2.1 ≤ newer.2.1)
  k1 : ∀ e ∈ s.chans, e.1 ≤ s.lastMsgID
  t1 : ∀ op ∈ s.cur.tail, opHolds op = false

theorem inv_init : Inv {} := by
  constructor <;> simp [holds, loopHolds, headHolds]

theorem orOne_even {n : Nat} (h : n % 2 = 0) : orOne n = n + 1 := by simp [orOne, h]

theorem mem_erasePending' {p : List (Nat × Nat)} {id : Nat} {e : Nat × Nat} (h : e ∈ erasePending p id) : e ∈ p := by
  simp only [erasePending, List.mem_filter] at h; exact h.1

theorem inv_cLock {s s' : ISt} (hi : Inv s) {c : Nat} (h : step s (.cLock c) = some s') : Inv s' := by
    obtain ⟨ho, r, hc, rfl⟩ := step_cLock h
    have hnl : headHolds s.cur = false := by
      cases hl : headHolds s.cur with
      | false => rfl
      | true => have := hi.m2.1 hl; rw [ho] at this; cases this
    refine ⟨?_, ?_, hi.n1, hi.n2, hi.w1, ?_, hi.w3, hi.w4, hi.k1, hi.t1⟩
    · intro x
      by_cases hx : x = c
      · subst hx; simp [setC, holds]
      · have hnh : holds (s.cs x) = false := by
          cases hh : holds (s.cs x) with
          | false => rfl
          | true => have := (hi.m1 x).1 hh; rw [ho] at this; cases this
        simp [setC, hx, hnh]; intro h'; exact hx h'.symm
    · simp [setC, hnl]
    · intro x id r' hx
      by_cases hxc : x = c
      · subst hxc; simp [setC] at hx
      · simp [setC, hxc] at hx; exact hi.w2 x id r' hx

theorem inv_cIdReg {s s' : ISt} (hi : Inv s) {c now : Nat} (h : step s (.cIdReg c now) = some s') : Inv s' := by
    obtain ⟨r, hc, rfl⟩ := step_cIdReg h
    have hown : s.owner = .caller c := (hi.m1 c).1 (by simp [hc, holds])
    obtain ⟨hgt, hm4⟩ := nextId_gt s.lastMsgID now hi.n1
    clear h
    generalize nextId s.lastMsgID now = n at hgt hm4 ⊢
    refine ⟨?_, hi.m2, hm4, hi.n2, ?_, ?_, ?_, hi.w4, ?_, hi.t1⟩
    · intro x
      by_cases hx : x = c
      · subst hx; simp [setC, holds, hown]
      · simp [setC, hx]; exact hi.m1 x
    · intro e he; have := hi.w1 e he; exact ⟨by simp; omega, this.2.1, this.2.2⟩
    · intro x id r' hx
      by_cases hxc : x = c
      · subst hxc; simp [setC] at hx
        refine ⟨hx.1.symm, ?_⟩
        intro e he; have := (hi.w1 e he).1; rw [← hx.1]; omega
      · simp [setC, hxc] at hx
        have : s.owner = .caller x := (hi.m1 x).1 (by simp [hx, holds])
        rw [hown] at this; cases this; exact absurd rfl hxc
    · intro mid id k hk
      have : headHolds s.cur = true := by simp [headHolds, show s.cur = .ackWrite mid id :: k from hk, opHolds]
      have := hi.m2.1 this; rw [hown] at this; cases this
    · intro e he
      simp only [List.mem_cons] at he
      rcases he with rfl | he
      · simp
      · have := hi.k1 e he; simp; omega

theorem inv_cWrite {s s' : ISt} (hi : Inv s) {c : Nat} {ok : Bool} (h : step s (.cWrite c ok) = some s') : Inv s' := by
    obtain ⟨id, r, hc, rfl⟩ := step_cWrite h
    have hown : s.owner = .caller c := (hi.m1 c).1 (by simp [hc, holds])
    obtain ⟨hid, hlt⟩ := hi.w2 c id r hc
    have hothers : ∀ x, x ≠ c → ∀ id' r', s.cs x ≠ .reg id' r' := by
      intro x hx id' r' hx'
      have : s.owner = .caller x := (hi.m1 x).1 (by simp [hx', holds])
      rw [hown] at this; cases this; exact hx rfl
    have hnoack : ∀ mid id' k, s.cur ≠ .ackWrite mid id' :: k := by
      intro mid id' k hk
      have : headHolds s.cur = true := by simp [headHolds, hk, opHolds]
      have := hi.m2.1 this; rw [hown] at this; cases this
    cases ok with
    | true =>
      simp only [if_true]
      refine ⟨?_, hi.m2, hi.n1, by simp; have := hi.n2; omega, ?_, ?_, ?_, ?_, hi.k1, hi.t1⟩
      · intro x
        by_cases hx : x = c
        · subst hx; simp [setC, holds, hown]
        · simp [setC, hx]; exact hi.m1 x
      · intro e he
        simp only [List.mem_cons] at he
        rcases he with rfl | he
        · simp only [orOne_even hi.n2]; subst hid; exact ⟨Nat.le_refl _, by omega, hi.n1⟩
        · have := hi.w1 e he; exact ⟨this.1, by simp; omega, this.2.2⟩
      · intro x id' r' hx
        by_cases hxc : x = c
        · subst hxc; simp [setC] at hx
        · simp [setC, hxc] at hx; exact absurd hx (hothers x hxc id' r')
      · intro mid id' k hk; exact absurd hk (hnoack mid id' k)
      · simp only [List.pairwise_cons]
        refine ⟨?_, hi.w4⟩
        intro e he
        refine ⟨hlt e he, ?_⟩
        have := (hi.w1 e he).2.1
        simp only [orOne_even hi.n2]; omega
    | false =>
      simp only [Bool.false_eq_true, if_false]
      refine ⟨?_, hi.m2, hi.n1, hi.n2, hi.w1, ?_, hi.w3, hi.w4, ?_, hi.t1⟩
      · intro x
        by_cases hx : x = c
        · subst hx; simp [setC, holds, hown]
        · simp [setC, hx]; exact hi.m1 x
      · intro x id' r' hx
        by_cases hxc : x = c
        · subst hxc; simp [setC] at hx
        · simp [setC, hxc] at hx; exact absurd hx (hothers x hxc id' r')
      · intro e he; exact hi.k1 e (mem_erasePending' he)

theorem inv_cUnlock {s s' : ISt} (hi : Inv s) {c : Nat} (h : step s (.cUnlock c) = some s') : Inv s' := by
    have key : ∀ p : CPc, holds p = false → holds (s.cs c) = true → (∀ id r, p ≠ .reg id r) →
        Inv { setC s c p with owner := .free } := by
      intro p hp hh hpr
      have hown : s.owner = .caller c := (hi.m1 c).1 hh
      have hnl : headHolds s.cur = false := by
        cases hl : headHolds s.cur with
        | false => rfl
        | true => have := hi.m2.1 hl; rw [hown] at this; cases this
      refine ⟨?_, ?_, hi.n1, hi.n2, hi.w1, ?_, hi.w3, hi.w4, hi.k1, hi.t1⟩
      · intro x
        by_cases hx : x = c
        · subst hx; simp [setC, hp]
        · have hnh : holds (s.cs x) = false := by
            cases hh' : holds (s.cs x) with
            | false => rfl
            | true => have := (hi.m1 x).1 hh'; rw [hown] at this; cases this; exact absurd rfl hx
          simp [setC, hx, hnh]
      · simp [setC, hnl]
      · intro x id r' hx
        by_cases hxc : x = c
        · subst hxc; simp [setC] at hx; exact absurd hx (hpr id r')
        · simp [setC, hxc] at hx; exact hi.w2 x id r' hx
    rcases step_cUnlock h with ⟨id, hc, rfl⟩ | ⟨hc, rfl⟩
    · exact key _ (by simp [holds]) (by simp [hc, holds]) (by intro _ _ h; cases h)
    · exact key _ (by simp [holds]) (by simp [hc, holds]) (by intro _ _ h; cases h)

theorem inv_cRecv {s s' : ISt} (hi : Inv s) {c : Nat} (h : step s (.cRecv c) = some s') : Inv s' := by
    obtain ⟨id, v, k, hc, hk, rfl⟩ := step_cRecv h
    have hnl : headHolds s.cur = false := by simp [headHolds, hk, opHolds]
    have hno : s.owner ≠ .loop := by
      intro ho; have := hi.m2.2 ho; rw [hnl] at this; cases this
    have hp : holds (afterRecv v) = false := by
      cases v <;> simp [holds, afterRecv]
    have hnc : s.owner ≠ .caller c := by
      intro ho; have := (hi.m1 c).2 ho; simp [hc, holds] at this
    have ht : ∀ op ∈ k, opHolds op = false := by
      intro op hop; exact hi.t1 op (by simp [hk, hop])
    have hnl' : headHolds k = false := by
      cases k with
      | nil => rfl
      | cons a k' => exact ht a (by simp)
    refine ⟨?_, ?_, hi.n1, hi.n2, hi.w1, ?_, ?_, hi.w4, hi.k1, ?_⟩
    · intro x
      by_cases hx : x = c
      · subst hx; simp [setC, hp]; exact hnc
      · simp [setC, hx]; exact hi.m1 x
    · constructor
      · intro hl
        simp only [setC] at hl; rw [hnl'] at hl; cases hl
      · intro ho; exact absurd ho hno
    · intro x id' r' hx
      by_cases hxc : x = c
      · subst hxc; cases v <;> simp [setC, afterRecv] at hx
      · simp [setC, hxc] at hx; exact hi.w2 x id' r' hx
    · intro mid id' k' hk'
      simp only [setC] at hk'
      have := ht (.ackWrite mid id') (by simp [hk'])
      simp [opHolds] at this
    · intro op hop
      simp only [setC] at hop
      exact ht op (List.mem_of_mem_tail hop)

theorem inv_lRead {s s' : ISt} (hi : Inv s) {mid seq : Nat} {m : Msg} (h : step s (.lRead mid seq m) = some s') : Inv s' := by
  obtain ⟨_, _, rfl⟩ := step_lRead h
  exact ⟨hi.m1, hi.m2, hi.n1, hi.n2, hi.w1, hi.w2, hi.w3, hi.w4, hi.k1, hi.t1⟩

/-- a loop step outside the acknowledgement's locked section: only `cur` (and fields no invariant clause
mentions) change, entries may disappear from the map -/
theorem inv_cur_change {s s' : ISt} (hi : Inv s) (ho : s'.owner = s.owner) (hl : s'.lastMsgID = s.lastMsgID)
    (hq : s'.seqNo = s.seqNo) (hw : s'.wire = s.wire) (hcs : s'.cs = s.cs) (hch : ∀ e ∈ s'.chans, e ∈ s.chans)
    (hnl : s.owner ≠ .loop) (ht : ∀ op ∈ s'.cur, opHolds op = false) : Inv s' := by
  have hh : headHolds s'.cur = false := by
    cases hc : s'.cur with
    | nil => rfl
    | cons a k => exact ht a (by simp [hc])
  refine ⟨?_, ?_, ?_, ?_, ?_, ?_, ?_, ?_, ?_, ?_⟩
  · rw [hcs, ho]; exact hi.m1
  · rw [hh, ho]; constructor
    · intro h; cases h
    · intro h; exact absurd h hnl
  · rw [hl]; exact hi.n1
  · rw [hq]; exact hi.n2
  · rw [hw, hl, hq]; exact hi.w1
  · rw [hcs, hw, hl]; exact hi.w2
  · intro mid id k hk
    have := ht (.ackWrite mid id) (by simp [hk])
    simp [opHolds] at this
  · rw [hw]; exact hi.w4
  · intro e he; rw [hl]; exact hi.k1 e (hch e he)
  · intro op hop; exact ht op (List.mem_of_mem_tail hop)

theorem dispatch_frame (s : ISt) (it : Item) :
    (dispatch s it).owner = s.owner ∧ (dispatch s it).lastMsgID = s.lastMsgID ∧ (dispatch s it).seqNo = s.seqNo ∧
    (dispatch s it).wire = s.wire ∧ (dispatch s it).cs = s.cs ∧ (dispatch s it).chans = s.chans ∧
    (dispatch s it).stored = s.stored ∧
    (s.cur = [] → ∀ op ∈ (dispatch s it).cur, opHolds op = false) := by
  cases it with
  | endc mid seq => simp [dispatch, opHolds]
  | msg mid seq m =>
    cases m with
    | res rid v => simp only [dispatch]; split <;> simp [opHolds]
    | salt bad ns => simp [dispatch, opHolds]
    | news ns => simp [dispatch, opHolds]
    | badmsg bad => simp only [dispatch]; split <;> simp [opHolds]
    | quiet => simp [dispatch, opHolds]
    | odd => simp [dispatch, opHolds]
    | cont ms =>
      simp only [dispatch]; split
      · simp; intro h; simp [h]
      · simp [opHolds]

theorem inv_lStep {s s' : ISt} (hi : Inv s) {now : Nat} {ok : Bool} (h : step s (.lStep now ok) = some s') : Inv s' := by
  simp only [step, loopStep] at h
  have tl : ∀ {a : Op} {k : List Op}, s.cur = a :: k → ∀ op ∈ k, opHolds op = false := by
    intro a k hk op hop; exact hi.t1 op (by simp [hk, hop])
  have nl : ∀ {a : Op} {k : List Op}, s.cur = a :: k → opHolds a = false → s.owner ≠ .loop := by
    intro a k hk ha ho
    have := hi.m2.2 ho; simp [hk, headHolds, ha] at this
  split at h
  · -- next item
    rename_i hcur
    split at h
    · simp at h
    · rename_i it rest htodo
      simp only [Option.some.injEq] at h; subst h
      obtain ⟨h1, h2, h3, h4, h5, h6, _, h8⟩ := dispatch_frame { s with todo := rest } it
      have hno : s.owner ≠ .loop := by
        intro ho; have := hi.m2.2 ho; simp [hcur, headHolds] at this
      exact inv_cur_change hi h1 h2 h3 h4 h5 (by rw [h6]; exact fun e he => he) hno (h8 hcur)
  · simp at h
  · rename_i id k hcur
    simp only [Option.some.injEq] at h; subst h
    exact inv_cur_change hi rfl rfl rfl rfl rfl (fun e he => mem_erasePending' he) (nl hcur rfl) (tl hcur)
  · rename_i k hcur
    split at h <;> simp only [Option.some.injEq] at h <;> subst h <;>
      exact inv_cur_change hi rfl rfl rfl rfl rfl (fun e he => he) (nl hcur rfl) (tl hcur)
  · rename_i bad k hcur
    split at h <;> simp only [Option.some.injEq] at h <;> subst h
    · refine inv_cur_change hi rfl rfl rfl rfl rfl (fun e he => he) (nl hcur rfl) ?_
      intro op hop
      simp only [List.mem_cons] at hop
      rcases hop with rfl | rfl | hop
      · rfl
      · rfl
      · exact tl hcur op hop
    · exact inv_cur_change hi rfl rfl rfl rfl rfl (fun e he => he) (nl hcur rfl) (tl hcur)
  · rename_i mid seq k hcur
    split at h <;> simp only [Option.some.injEq] at h <;> subst h
    · refine inv_cur_change hi rfl rfl rfl rfl rfl (fun e he => he) (nl hcur rfl) ?_
      intro op hop
      simp only [List.mem_cons] at hop
      rcases hop with rfl | hop
      · rfl
      · exact tl hcur op hop
    · exact inv_cur_change hi rfl rfl rfl rfl rfl (fun e he => he) (nl hcur rfl) (tl hcur)
  · -- ackLock
    rename_i mid k hcur
    split at h
    · rename_i ho
      simp only [Option.some.injEq] at h; subst h
      refine ⟨?_, ?_, hi.n1, hi.n2, hi.w1, hi.w2, ?_, hi.w4, hi.k1, ?_⟩
      · intro x
        have hnh : holds (s.cs x) = false := by
          cases hh : holds (s.cs x) with
          | false => rfl
          | true => have := (hi.m1 x).1 hh; rw [ho] at this; cases this
        simp [hnh]
      · simp [headHolds, opHolds]
      · intro mid' id' k' hk'; simp at hk'
      · intro op hop; exact tl hcur op (by simpa using hop)
    · simp at h
  · -- ackId
    rename_i mid k hcur
    simp only [Option.some.injEq] at h; subst h
    have hown : s.owner = .loop := hi.m2.1 (by simp [hcur, headHolds, opHolds])
    obtain ⟨hgt, hm4⟩ := nextId_gt s.lastMsgID now hi.n1
    generalize nextId s.lastMsgID now = n at hgt hm4 ⊢
    refine ⟨hi.m1, ?_, hm4, hi.n2, ?_, ?_, ?_, hi.w4, ?_, ?_⟩
    · simp [headHolds, opHolds, hown]
    · intro e he; have := hi.w1 e he; exact ⟨by simp; omega, this.2.1, this.2.2⟩
    · intro x id r hx
      have hx' : s.cs x = .reg id r := hx
      have : s.owner = .caller x := (hi.m1 x).1 (by simp [hx', holds])
      rw [hown] at this; cases this
    · intro mid' id' k' hk'
      simp only [List.cons.injEq, Op.ackWrite.injEq] at hk'
      refine ⟨hk'.1.2.symm, ?_⟩
      intro e he; have := (hi.w1 e he).1; rw [← hk'.1.2]; omega
    · intro e he; have := hi.k1 e he; simp; omega
    · intro op hop; exact tl hcur op (by simpa using hop)
  · -- ackWrite
    rename_i mid id k hcur
    have hown : s.owner = .loop := hi.m2.1 (by simp [hcur, headHolds, opHolds])
    obtain ⟨hid, hlt⟩ := hi.w3 mid id k hcur
    have hnoreg : ∀ x id' r', s.cs x ≠ .reg id' r' := by
      intro x id' r' hx
      have : s.owner = .caller x := (hi.m1 x).1 (by simp [hx, holds])
      rw [hown] at this; cases this
    split at h <;> simp only [Option.some.injEq] at h <;> subst h
    · refine ⟨hi.m1, ?_, hi.n1, by simp; have := hi.n2; omega, ?_, ?_, ?_, ?_, hi.k1, ?_⟩
      · simp [headHolds, opHolds, hown]
      · intro e he
        simp only [List.mem_cons] at he
        rcases he with rfl | he
        · subst hid; exact ⟨Nat.le_refl _, by simp, hi.n1⟩
        · have := hi.w1 e he; exact ⟨this.1, by simp; omega, this.2.2⟩
      · intro x id' r' hx; exact absurd hx (hnoreg x id' r')
      · intro mid' id' k' hk'; simp at hk'
      · simp only [List.pairwise_cons]
        refine ⟨?_, hi.w4⟩
        intro e he
        exact ⟨hlt e he, (hi.w1 e he).2.1⟩
      · intro op hop; exact tl hcur op (by simpa using hop)
    · refine ⟨hi.m1, ?_, hi.n1, hi.n2, hi.w1, hi.w2, ?_, hi.w4, hi.k1, ?_⟩
      · simp [headHolds, opHolds, hown]
      · intro mid' id' k' hk'; simp at hk'
      · intro op hop; exact tl hcur op (by simpa using hop)
  · -- ackUnlock
    rename_i k hcur
    simp only [Option.some.injEq] at h; subst h
    have hown : s.owner = .loop := hi.m2.1 (by simp [hcur, headHolds, opHolds])
    have hk : headHolds k = false := by
      cases k with
      | nil => rfl
      | cons a k' => exact tl hcur a (by simp)
    refine ⟨?_, ?_, hi.n1, hi.n2, hi.w1, hi.w2, ?_, hi.w4, hi.k1, ?_⟩
    · intro x
      have hnh : holds (s.cs x) = false := by
        cases hh : holds (s.cs x) with
        | false => rfl
        | true => have := (hi.m1 x).1 hh; rw [hown] at this; cases this
      simp [hnh]
    · simp [hk]
    · intro mid' id' k' hk'
      have := tl hcur (.ackWrite mid' id') (by simp [show k = _ from hk'])
      simp [opHolds] at this
    · intro op hop; exact tl hcur op (List.mem_of_mem_tail hop)

theorem inv_step {s s' : ISt} (hi : Inv s) : ∀ {e : IEv}, step s e = some s' → Inv s'
  | .cLock _, h => inv_cLock hi h
  | .cIdReg _ _, h => inv_cIdReg hi h
  | .cWrite _ _, h => inv_cWrite hi h
  | .cUnlock _, h => inv_cUnlock hi h
  | .cRecv _, h => inv_cRecv hi h
  | .lRead _ _ _, h => inv_lRead hi h
  | .lStep _ _, h => inv_lStep hi h

theorem inv_run : ∀ (es : List IEv) {s s' : ISt}, Inv s → run s es = some s' → Inv s'
  | [], s, s', hi, h => by simp only [run, Option.some.injEq] at h; subst h; exact hi
  | e :: es, s, s', hi, h => by
    simp only [run] at h
    split at h
    · rename_i s1 hs; exact inv_run es (inv_step hi hs) h
    · simp at h

end Mtv.Impl
