/-
  The printed schema (Mtv/Tlgen/Render.lean `render`) as a document: well-formed, and denoting the
  schema it was printed from.
-/
import Mtv.Lemmas.C14Annot
namespace Mtv.Tlgen

/-- what is asked of one constructor (the `objs` clause of `WFAst`) -/
def ObjOk (tc : List (Str × Str)) (o : Obj) : Prop :=
  WFDef o.toDef ∧ CommentOk o.comment ∧ (o.params.map (·.name)).Nodup ∧ (∀ p ∈ o.params, CommentOk p.comment) ∧
    CommentOk (mapGet tc o.iface)

def MethodOk (m : Method) : Prop :=
  WFDef m.toDef ∧ CommentOk m.comment ∧ (m.params.map (·.name)).Nodup ∧ (∀ p ∈ m.params, CommentOk p.comment)

theorem denote_objects (tc : List (Str × Str)) (os : List Obj) (hos : ∀ o ∈ os, ObjOk tc o) (rest : List Item) :
    ∀ st : PState, st.isFunctions = false → st.nextTypeComment = [] → st.paramComments = [] →
      ∃ st', denoteItems (os.flatMap (objItems tc) ++ rest) st = denoteItems rest st' ∧
        st'.isFunctions = false ∧ st'.nextTypeComment = [] ∧ st'.paramComments = [] ∧
        st'.objects = os.reverse ++ st.objects ∧ st'.methods = st.methods ∧
        ∀ t, mapGet st'.typeComments t =
          if (∃ o ∈ os, o.iface = t) ∧ mapGet tc t ≠ [] then mapGet tc t else mapGet st.typeComments t := by
  induction os with
  | nil => intro st h1 h2 h3; exact ⟨st, rfl, h1, h2, h3, by simp, rfl, by simp⟩
  | cons o os ih =>
    intro st h1 h2 h3
    obtain ⟨hwf, hc, hnd, hpc, htc⟩ := hos o (by simp)
    obtain ⟨st1, hd1, hf1, hn1, -, hp1, ho1, hm1, htc1⟩ :=
      denote_objItems tc o hwf hc hnd hpc htc (os.flatMap (objItems tc) ++ rest) st h1 h2 h3
    obtain ⟨st', hd, hf, hn, hp, ho, hm, htcs⟩ := ih (fun o' ho' => hos o' (by simp [ho'])) st1 hf1 hn1 hp1
    refine ⟨st', ?_, hf, hn, hp, ?_, ?_, ?_⟩
    · rw [← hd, ← hd1]; simp [List.flatMap_cons]
    · rw [ho, ho1]; simp
    · rw [hm, hm1]
    · intro t
      rw [htcs t, htc1]
      by_cases hex : (∃ o' ∈ os, o'.iface = t) ∧ mapGet tc t ≠ []
      · have : (∃ o' ∈ o :: os, o'.iface = t) ∧ mapGet tc t ≠ [] := by
          obtain ⟨⟨o', ho', he⟩, hne⟩ := hex
          exact ⟨⟨o', by simp [ho'], he⟩, hne⟩
        rw [if_pos hex, if_pos this]
      · rw [if_neg hex]
        by_cases hto : o.iface = t
        · subst hto
          by_cases hemp : mapGet tc o.iface = []
          · have : ¬ ((∃ o' ∈ o :: os, o'.iface = o.iface) ∧ mapGet tc o.iface ≠ []) := fun h => h.2 hemp
            rw [if_pos hemp, if_neg this]
          · have : (∃ o' ∈ o :: os, o'.iface = o.iface) ∧ mapGet tc o.iface ≠ [] := ⟨⟨o, by simp, rfl⟩, hemp⟩
            rw [if_neg hemp, if_pos this, mapGet_mapSet, if_pos rfl]
        · have : ¬ ((∃ o' ∈ o :: os, o'.iface = t) ∧ mapGet tc t ≠ []) := by
            rintro ⟨⟨o', ho', he⟩, hne⟩
            rcases List.mem_cons.mp ho' with h | h
            · subst h; exact hto he
            · exact hex ⟨⟨o', h, he⟩, hne⟩
          rw [if_neg this]
          by_cases hemp : mapGet tc o.iface = []
          · rw [if_pos hemp]
          · rw [if_neg hemp, mapGet_mapSet, if_neg (fun e => hto e.symm)]

theorem denote_methods (ms : List Method) (hms : ∀ m ∈ ms, MethodOk m) (rest : List Item) :
    ∀ st : PState, st.isFunctions = true →
      ∃ st', denoteItems (ms.flatMap methodItems ++ rest) st = denoteItems rest st' ∧
        st'.isFunctions = true ∧ st'.objects = st.objects ∧ st'.methods = ms.reverse ++ st.methods ∧
        st'.typeComments = st.typeComments := by
  induction ms with
  | nil => intro st h1; exact ⟨st, rfl, h1, rfl, by simp, rfl⟩
  | cons m ms ih =>
    intro st h1
    obtain ⟨hwf, hc, hnd, hpc⟩ := hms m (by simp)
    obtain ⟨st1, hd1, hf1, ho1, hm1, htc1⟩ := denote_methodItems m hwf hc hnd hpc (ms.flatMap methodItems ++ rest) st h1
    obtain ⟨st', hd, hf, ho, hm, htc⟩ := ih (fun m' hm' => hms m' (by simp [hm'])) st1 hf1
    refine ⟨st', ?_, hf, ?_, ?_, ?_⟩
    · rw [← hd, ← hd1]; simp [List.flatMap_cons]
    · rw [ho, ho1]
    · rw [hm, hm1]; simp
    · rw [htc, htc1]

/-- the printed schema denotes the schema -/
theorem denote_toItems (a : Schema) (wf : WFAst a) :
    ∃ st, denoteItems a.toItems {} = some st ∧ st.result.objects = a.objects ∧ st.result.methods = a.methods ∧
      ∀ t, mapGet st.result.typeComments t = mapGet a.typeComments t := by
  have hos : ∀ o ∈ a.objects, ObjOk a.typeComments o := by
    intro o ho
    obtain ⟨h1, h2, h3, h4⟩ := wf.objs o ho
    exact ⟨h1, h2, h3, h4, wf.typeComments_ok _⟩
  have hms : ∀ m ∈ a.methods, MethodOk m := fun m hm => wf.meths m hm
  obtain ⟨st1, hd1, -, -, -, ho1, hm1, htc1⟩ :=
    denote_objects a.typeComments a.objects hos (.functions :: a.methods.flatMap methodItems) {} rfl rfl rfl
  obtain ⟨st2, hd2, -, ho2, hm2, htc2⟩ := denote_methods a.methods hms [] { st1 with isFunctions := true } rfl
  refine ⟨st2, ?_, ?_, ?_, ?_⟩
  · rw [Schema.toItems, hd1]
    simp only [denoteItems]
    have := hd2
    simp only [List.append_nil, denoteItems] at this
    exact this
  · simp only [PState.result, ho2, ho1]; simp
  · simp only [PState.result, hm2, hm1]; simp
  · intro t
    simp only [PState.result, htc2]
    rw [htc1 t]
    by_cases hex : (∃ o ∈ a.objects, o.iface = t) ∧ mapGet a.typeComments t ≠ []
    · rw [if_pos hex]
    · rw [if_neg hex]
      by_cases hne : mapGet a.typeComments t = []
      · rw [hne]; rfl
      · exact absurd ⟨wf.typeComments_used t hne, hne⟩ hex

/-! ### the printed schema is a well-formed document -/

theorem nl_not_in_word (w : Str) (h : Word w) : '\n' ∉ w := by
  intro hm; exact absurd (h.2 _ hm) (by decide)

theorem wf_annot (kind text : Str) (hk : '\n' ∉ kind) (ht : '\n' ∉ text) : WFItem (annot kind text) := by
  simp only [WFItem, annot, annotText]
  by_cases h : text = []
  · simp [h, hk]
  · simp [h, hk, ht]

theorem wf_paramAnnots (ps : List Param) (hn : ∀ p ∈ ps, Word p.name) (hc : ∀ p ∈ ps, CommentOk p.comment) :
    ∀ i ∈ paramAnnots ps, WFItem i := by
  intro i hi
  simp only [paramAnnots, List.mem_map] at hi
  obtain ⟨p, hp, rfl⟩ := hi
  apply wf_annot
  · decide
  · have h1 := nl_not_in_word _ (hn p hp)
    have h2 := (hc p hp).2
    simp only [paramText]
    by_cases h : p.comment = []
    · simp [h, h1]
    · simp [h, h1, h2]

theorem wf_toItems (a : Schema) (wf : WFAst a) : WFItems a.toItems := by
  intro i hi
  simp only [Schema.toItems, List.mem_append, List.mem_flatMap, List.mem_cons] at hi
  rcases hi with ⟨o, ho, hio⟩ | rfl | ⟨m, hm, him⟩
  · obtain ⟨hwf, hc, -, hpc⟩ := wf.objs o ho
    have hnames := names_word_of_wf o.params (by simpa [Obj.toDef] using hwf.params_ok)
    simp only [objItems, List.mem_append, List.mem_cons] at hio
    rcases hio with h | rfl | h | h
    · by_cases hc' : mapGet a.typeComments o.iface = []
      · simp [hc'] at h
      · simp only [hc', if_false, List.mem_singleton] at h
        subst h
        exact wf_annot _ _ (by decide) (wf.typeComments_ok _).2
    · exact wf_annot _ _ (by decide) hc.2
    · exact wf_paramAnnots o.params hnames hpc i h
    · simp at h; subst h; exact hwf
  · trivial
  · obtain ⟨hwf, hc, -, hpc⟩ := wf.meths m hm
    have hnames := names_word_of_wf m.params (by simpa [Method.toDef] using hwf.params_ok)
    simp only [methodItems, List.mem_append, List.mem_cons] at him
    rcases him with rfl | h | h
    · exact wf_annot _ _ (by decide) hc.2
    · exact wf_paramAnnots m.params hnames hpc i h
    · simp at h; subst h; exact hwf

end Mtv.Tlgen
