/-
  C19 — helper lemmas: the closure function `reach` computes exactly the reflexive-transitive
  closure of the edge relation of any finite graph, and the Boolean checkers mean what they say.
-/
import Mtv.Rand.Graph
namespace Mtv.Rand

theorem mem_iff (x : Nat) (l : List Nat) : mem x l = true ↔ x ∈ l := by
  induction l with
  | nil => simp [mem]
  | cons y ys ih =>
    unfold mem
    cases hb : Nat.beq x y with
    | true =>
      have h := Nat.eq_of_beq_eq_true hb
      simp [h]
    | false =>
      have h := Nat.ne_of_beq_eq_false hb
      simp [ih, h]

theorem mem_false_iff (x : Nat) (l : List Nat) : mem x l = false ↔ x ∉ l := by
  rw [← mem_iff]; cases mem x l <;> simp

/-! ### one round -/

theorem insertAll_spec (ys vis nf : List Nat) :
    ∃ a, insertAll ys vis nf = (a ++ vis, a ++ nf) ∧ (∀ z, z ∈ a → z ∈ ys)
      ∧ (∀ z, z ∈ ys → z ∈ a ∨ z ∈ vis) ∧ (vis.Nodup → (a ++ vis).Nodup) := by
  induction ys generalizing vis nf with
  | nil => exact ⟨[], rfl, by simp, by simp, by simp⟩
  | cons y ys ih =>
    unfold insertAll
    cases hm : mem y vis with
    | true =>
      obtain ⟨a, h1, h2, h3, h4⟩ := ih vis nf
      refine ⟨a, by simpa using h1, ?_, ?_, h4⟩
      · intro z hz; exact List.mem_cons_of_mem _ (h2 z hz)
      · intro z hz
        rcases List.mem_cons.mp hz with rfl | hz
        · exact Or.inr ((mem_iff _ _).mp hm)
        · exact h3 z hz
    | false =>
      have hy : y ∉ vis := (mem_false_iff _ _).mp hm
      obtain ⟨a, h1, h2, h3, h4⟩ := ih (y :: vis) (y :: nf)
      refine ⟨a ++ [y], ?_, ?_, ?_, ?_⟩
      · simpa [List.append_assoc] using h1
      · intro z hz
        rcases List.mem_append.mp hz with hz | hz
        · exact List.mem_cons_of_mem _ (h2 z hz)
        · have : z = y := by simpa using hz
          subst this; exact List.mem_cons_self
      · intro z hz
        rcases List.mem_cons.mp hz with rfl | hz
        · exact Or.inl (by simp)
        · rcases h3 z hz with h | h
          · exact Or.inl (List.mem_append_left _ h)
          · rcases List.mem_cons.mp h with rfl | h
            · exact Or.inl (by simp)
            · exact Or.inr h
      · intro hn
        have : (y :: vis).Nodup := List.nodup_cons.mpr ⟨hy, hn⟩
        simpa [List.append_assoc] using h4 this

theorem expand_spec (sc : Nat → List Nat) (xs vis nf : List Nat) :
    ∃ a, expand sc xs vis nf = (a ++ vis, a ++ nf)
      ∧ (∀ z, z ∈ a → ∃ x, x ∈ xs ∧ z ∈ sc x)
      ∧ (∀ x, x ∈ xs → ∀ z, z ∈ sc x → z ∈ a ∨ z ∈ vis)
      ∧ (vis.Nodup → (a ++ vis).Nodup) := by
  induction xs generalizing vis nf with
  | nil => exact ⟨[], rfl, by simp, by simp, by simp⟩
  | cons x xs ih =>
    obtain ⟨a1, e1, p1, q1, n1⟩ := insertAll_spec (sc x) vis nf
    obtain ⟨a2, e2, p2, q2, n2⟩ := ih (a1 ++ vis) (a1 ++ nf)
    refine ⟨a2 ++ a1, ?_, ?_, ?_, ?_⟩
    · simp only [expand, e1, e2, List.append_assoc]
    · intro z hz
      rcases List.mem_append.mp hz with hz | hz
      · obtain ⟨x', hx', hz'⟩ := p2 z hz
        exact ⟨x', List.mem_cons_of_mem _ hx', hz'⟩
      · exact ⟨x, List.mem_cons_self, p1 z hz⟩
    · intro x' hx' z hz
      rcases List.mem_cons.mp hx' with rfl | hx'
      · rcases q1 z hz with h | h
        · exact Or.inl (List.mem_append_right _ h)
        · exact Or.inr h
      · rcases q2 x' hx' z hz with h | h
        · exact Or.inl (List.mem_append_left _ h)
        · rcases List.mem_append.mp h with h | h
          · exact Or.inl (List.mem_append_right _ h)
          · exact Or.inr h
    · intro hn
      simpa [List.append_assoc] using n2 (n1 hn)

/-! ### the closure -/

/-- `S` is closed under the edges of `g` -/
def Closed (sc : Nat → List Nat) (S : List Nat) : Prop := ∀ x, x ∈ S → ∀ z, z ∈ sc x → z ∈ S

theorem bfs_mono (sc : Nat → List Nat) (f : Nat) (fr vis : List Nat) : ∀ x, x ∈ vis → x ∈ bfs sc f fr vis := by
  induction f generalizing fr vis with
  | zero => intro x hx; simpa [bfs] using hx
  | succ f ih =>
    cases fr with
    | nil => intro x hx; simpa [bfs] using hx
    | cons y fr =>
      obtain ⟨a, e, -, -, -⟩ := expand_spec sc (y :: fr) vis []
      intro x hx
      simp only [bfs, e]
      exact ih _ _ x (List.mem_append_right _ hx)

theorem bfs_sound (sc : Nat → List Nat) (s : Nat) (f : Nat) (fr vis : List Nat)
    (hfr : ∀ x, x ∈ fr → Reach sc s x) (hvis : ∀ x, x ∈ vis → Reach sc s x) :
    ∀ x, x ∈ bfs sc f fr vis → Reach sc s x := by
  induction f generalizing fr vis with
  | zero => intro x hx; exact hvis x (by simpa [bfs] using hx)
  | succ f ih =>
    cases fr with
    | nil => intro x hx; exact hvis x (by simpa [bfs] using hx)
    | cons y fr =>
      obtain ⟨a, e, p, -, -⟩ := expand_spec sc (y :: fr) vis []
      intro x hx
      simp only [bfs, e] at hx
      have ha : ∀ z, z ∈ a → Reach sc s z := by
        intro z hz
        obtain ⟨x', hx', hz'⟩ := p z hz
        exact Reach.step (hfr x' hx') hz'
      refine ih (a ++ []) (a ++ vis) ?_ ?_ x hx
      · intro z hz; exact ha z (by simpa using hz)
      · intro z hz
        rcases List.mem_append.mp hz with h | h
        · exact ha z h
        · exact hvis z h

/-- The counting argument: `U` contains every edge target and everything visited; the visited list has
    no duplicates; so a frontier that is still non-empty when the fuel is spent would make the visited
    list longer than `U`. -/
theorem bfs_closed (sc : Nat → List Nat) (U : List Nat) (hU : ∀ x z, z ∈ sc x → z ∈ U)
    (f : Nat) (fr vis : List Nat)
    (hsub : ∀ x, x ∈ fr → x ∈ vis)
    (hinv : ∀ x, x ∈ vis → x ∈ fr ∨ ∀ z, z ∈ sc x → z ∈ vis)
    (hnd : vis.Nodup) (hvU : ∀ x, x ∈ vis → x ∈ U)
    (hfuel : fr = [] ∨ U.length < f + vis.length) :
    Closed sc (bfs sc f fr vis) := by
  have hle : vis.length ≤ U.length := List.Nodup.length_le_of_subset hnd hvU
  have done : fr = [] → Closed sc vis := by
    intro h x hx z hz
    rcases hinv x hx with h' | h'
    · rw [h] at h'; cases h'
    · exact h' z hz
  induction f generalizing fr vis with
  | zero =>
    have : fr = [] := by
      rcases hfuel with h | h
      · exact h
      · omega
    simpa [bfs] using done this
  | succ f ih =>
    cases fr with
    | nil => simpa [bfs] using done rfl
    | cons y fr =>
      obtain ⟨a, e, p, q, n⟩ := expand_spec sc (y :: fr) vis []
      simp only [bfs, e]
      have hnd' : (a ++ vis).Nodup := n hnd
      have hvU' : ∀ x, x ∈ a ++ vis → x ∈ U := by
        intro x hx
        rcases List.mem_append.mp hx with h | h
        · obtain ⟨x', _, hz'⟩ := p x h
          exact hU x' x hz'
        · exact hvU x h
      refine ih (a ++ []) (a ++ vis) ?_ ?_ hnd' hvU' ?_ (List.Nodup.length_le_of_subset hnd' hvU') ?_
      · intro x hx; exact List.mem_append_left _ (by simpa using hx)
      · intro x hx
        rcases List.mem_append.mp hx with h | h
        · exact Or.inl (by simpa using h)
        · rcases hinv x h with h' | h'
          · refine Or.inr (fun z hz => ?_)
            rcases q x h' z hz with h'' | h''
            · exact List.mem_append_left _ h''
            · exact List.mem_append_right _ h''
          · exact Or.inr (fun z hz => List.mem_append_right _ (h' z hz))
      · cases a with
        | nil => exact Or.inl rfl
        | cons b a =>
          refine Or.inr ?_
          rcases hfuel with h | h
          · cases h
          · simp only [List.length_append, List.length_cons] at *
            omega
      · intro h x hx z hz
        have ha : a = [] := by simpa using h
        subst ha
        simp only [List.nil_append] at hx ⊢
        rcases hinv x hx with h' | h'
        · rcases q x h' z hz with h'' | h''
          · cases h''
          · exact h''
        · exact h' z hz

theorem closed_complete (sc : Nat → List Nat) (S : List Nat) (hc : Closed sc S) (s : Nat) (hs : s ∈ S) :
    ∀ y, Reach sc s y → y ∈ S := by
  intro y h
  induction h with
  | refl => exact hs
  | step _ hz ih => exact hc _ ih _ hz

/-- **The closure theorem.** For any successor function whose edge targets all lie in a finite list
    `U`, breadth-first search from `s` with more than `U.length` rounds of fuel returns exactly the
    nodes connected to `s` by a path. -/
theorem mem_bfs_iff (sc : Nat → List Nat) (U : List Nat) (hU : ∀ x z, z ∈ sc x → z ∈ U)
    (f : Nat) (hf : U.length < f) (s y : Nat) : y ∈ bfs sc f [s] [s] ↔ Reach sc s y := by
  constructor
  · intro h
    exact bfs_sound sc s _ [s] [s] (fun x hx => by
        have : x = s := by simpa using hx
        subst this; exact Reach.refl)
      (fun x hx => by
        have : x = s := by simpa using hx
        subst this; exact Reach.refl) y h
  · have hc : Closed sc (bfs sc f [s] [s]) := by
      refine bfs_closed sc (s :: U) ?_ _ [s] [s] ?_ ?_ ?_ ?_ ?_
      · intro x z hz; exact List.mem_cons_of_mem _ (hU x z hz)
      · intro x hx; exact hx
      · intro x hx; exact Or.inl hx
      · simp
      · intro x hx
        have : x = s := by simpa using hx
        subst this; exact List.mem_cons_self
      · refine Or.inr ?_
        simp only [List.length_cons, List.length_nil]; omega
    exact closed_complete sc _ hc s (bfs_mono sc _ [s] [s] s (by simp)) y

theorem edgeCount_eq (g : Graph) : edgeCount g = g.flatten.length := by
  induction g with
  | nil => rfl
  | cons r t ih => simp [edgeCount, ih]

theorem succ_sub_flatten (g : Graph) (x z : Nat) : z ∈ succ g x → z ∈ g.flatten := by
  induction g generalizing x with
  | nil => intro h; simp [succ] at h
  | cons r t ih =>
    cases x with
    | zero => intro h; simp only [succ] at h; simp [h]
    | succ n => intro h; simp only [succ] at h; simp [ih n h]

/-- every finite graph given by adjacency rows -/
theorem mem_reach_iff (g : Graph) (s y : Nat) : y ∈ reach g s ↔ Reach (succ g) s y :=
  mem_bfs_iff (succ g) g.flatten (succ_sub_flatten g) _ (by rw [edgeCount_eq]; omega) s y

/-! chunked graphs -/

theorem nthG_mem (c : List Graph) (i : Nat) : nthG c i = [] ∨ nthG c i ∈ c := by
  induction c generalizing i with
  | nil => exact Or.inl rfl
  | cons g t ih =>
    cases i with
    | zero => exact Or.inr (by simp [nthG])
    | succ n =>
      rcases ih n with h | h
      · exact Or.inl (by simpa [nthG] using h)
      · exact Or.inr (by simp only [nthG]; exact List.mem_cons_of_mem _ h)

theorem succ2_sub (k : Nat) (c : List Graph) (x z : Nat) : z ∈ succ2 k c x → z ∈ c.flatten.flatten := by
  intro h
  unfold succ2 at h
  rcases nthG_mem c (x / k) with e | e
  · rw [e] at h; simp [succ] at h
  · have hz := succ_sub_flatten _ _ _ h
    obtain ⟨row, hrow, hzr⟩ := List.mem_flatten.mp hz
    exact List.mem_flatten.mpr ⟨row, List.mem_flatten.mpr ⟨_, e, hrow⟩, hzr⟩

theorem edgeCount2_eq (c : List Graph) : edgeCount2 c = c.flatten.flatten.length := by
  induction c with
  | nil => rfl
  | cons g t ih => simp [edgeCount2, ih, edgeCount_eq, List.flatten_append]

theorem mem_reach2_iff (k : Nat) (c : List Graph) (s y : Nat) :
    y ∈ reach2 k c s ↔ Reach (succ2 k c) s y :=
  mem_bfs_iff (succ2 k c) c.flatten.flatten (succ2_sub k c) _ (by rw [edgeCount2_eq]; omega) s y

theorem Reach.trans {sc : Nat → List Nat} {a b c : Nat} (h1 : Reach sc a b) (h2 : Reach sc b c) :
    Reach sc a c := by
  induction h2 with
  | refl => exact h1
  | step _ hz ih => exact Reach.step ih hz

/-! ### the Boolean checkers -/

theorem disjointB_iff (xs ys : List Nat) : disjointB xs ys = true ↔ ∀ x, x ∈ xs → x ∉ ys := by
  induction xs with
  | nil => simp [disjointB]
  | cons x xs ih =>
    unfold disjointB
    cases hm : mem x ys with
    | true =>
      have := (mem_iff _ _).mp hm
      simp only [List.mem_cons]
      constructor
      · intro h; cases h
      · intro h; exact absurd this (h x (Or.inl rfl))
    | false =>
      have := (mem_false_iff _ _).mp hm
      simp only [ih, List.mem_cons]
      constructor
      · intro h z hz
        rcases hz with rfl | hz
        · exact this
        · exact h z hz
      · intro h z hz; exact h z (Or.inr hz)

theorem meetsB_iff (xs ys : List Nat) : meetsB xs ys = true ↔ ∃ x, x ∈ xs ∧ x ∈ ys := by
  induction xs with
  | nil => simp [meetsB]
  | cons x xs ih =>
    unfold meetsB
    cases hm : mem x ys with
    | true =>
      have := (mem_iff _ _).mp hm
      simp only [true_iff]
      exact ⟨x, List.mem_cons_self, this⟩
    | false =>
      have := (mem_false_iff _ _).mp hm
      simp only [ih, List.mem_cons]
      constructor
      · rintro ⟨z, hz, hz'⟩; exact ⟨z, Or.inr hz, hz'⟩
      · rintro ⟨z, hz | hz, hz'⟩
        · subst hz; exact absurd hz' this
        · exact ⟨z, hz, hz'⟩

theorem allB_iff (p : Nat → Bool) (xs : List Nat) : allB p xs = true ↔ ∀ x, x ∈ xs → p x = true := by
  induction xs with
  | nil => simp [allB]
  | cons x xs ih =>
    unfold allB
    cases hp : p x with
    | true => simp [ih, hp]
    | false => simp [hp]

theorem allLt_iff (n : Nat) (xs : List Nat) : allLt n xs = true ↔ ∀ x, x ∈ xs → x < n := by
  unfold allLt
  rw [allB_iff]
  constructor
  · intro h x hx; exact Nat.blt_eq.mp (h x hx) |> id
  · intro h x hx; exact Nat.blt_eq.mpr (h x hx)

theorem rowsLt_iff (n : Nat) (g : Graph) : rowsLt n g = true ↔ ∀ x z, z ∈ succ g x → z < n := by
  induction g with
  | nil => simp [rowsLt, succ]
  | cons r t ih =>
    unfold rowsLt
    cases hr : allLt n r with
    | true =>
      have hr' := (allLt_iff _ _).mp hr
      simp only [ih]
      constructor
      · intro h x z hz
        cases x with
        | zero => exact hr' z (by simpa [succ] using hz)
        | succ m => exact h m z (by simpa [succ] using hz)
      · intro h x z hz; exact h (x + 1) z (by simpa [succ] using hz)
    | false =>
      simp only [Bool.false_eq_true, false_iff]
      intro h
      have : allLt n r = true := (allLt_iff _ _).mpr (fun z hz => h 0 z (by simpa [succ] using hz))
      rw [hr] at this; cases this

theorem rows2Lt_spec (n k : Nat) (c : List Graph) (h : rows2Lt n c = true) :
    ∀ x z, z ∈ succ2 k c x → z < n := by
  have hall : ∀ g, g ∈ c → rowsLt n g = true := by
    induction c with
    | nil => intro g hg; cases hg
    | cons g0 t ih =>
      unfold rows2Lt at h
      cases h0 : rowsLt n g0 with
      | false => rw [h0] at h; cases h
      | true =>
        rw [h0] at h
        intro g hg
        rcases List.mem_cons.mp hg with rfl | hg
        · exact h0
        · exact ih h g hg
  intro x z hz
  unfold succ2 at hz
  rcases nthG_mem c (x / k) with e | e
  · rw [e] at hz; simp [succ] at hz
  · exact (rowsLt_iff n _).mp (hall _ e) _ z hz

theorem validPath_reach (sc : Nat → List Nat) (x : Nat) (r : List Nat) :
    validPath sc (x :: r) = true → Reach sc x (lastD r x) := by
  induction r generalizing x with
  | nil => intro _; exact Reach.refl
  | cons y r ih =>
    intro h
    unfold validPath at h
    cases hm : mem y (sc x) with
    | true =>
      rw [hm] at h
      have e : Reach sc x y := Reach.step Reach.refl ((mem_iff _ _).mp hm)
      exact Reach.trans e (ih y (by simpa using h))
    | false => rw [hm] at h; simp at h

/-- everything reachable from a node below `n` is below `n`, when every edge target is -/
theorem reach_lt (sc : Nat → List Nat) (n : Nat) (h : ∀ x z, z ∈ sc x → z < n) (s : Nat) (hs : s < n) :
    ∀ y, Reach sc s y → y < n := by
  intro y hy
  induction hy with
  | refl => exact hs
  | step _ hz _ => exact h _ _ hz

/-! ### the bit-mask closure is the list closure -/

theorem testBit_toMask (l : List Nat) (x : Nat) : (toMask l).testBit x = mem x l := by
  induction l with
  | nil => simp [toMask, mem]
  | cons y l ih =>
    simp only [toMask, mem, Nat.testBit_or, Nat.testBit_two_pow, ih]
    cases hb : Nat.beq x y with
    | true =>
      have h := Nat.eq_of_beq_eq_true hb
      simp [h]
    | false =>
      have h := Nat.ne_of_beq_eq_false hb
      have h' : ¬ y = x := fun e => h e.symm
      simp [h']

theorem insertAllM_eq (ys vis nf : List Nat) :
    insertAllM ys (toMask vis) nf = (toMask (insertAll ys vis nf).1, (insertAll ys vis nf).2) := by
  induction ys generalizing vis nf with
  | nil => rfl
  | cons y ys ih =>
    unfold insertAllM insertAll
    rw [testBit_toMask]
    cases hm : mem y vis with
    | true => exact ih vis nf
    | false => exact ih (y :: vis) (y :: nf)

theorem expandM_eq (sc : Nat → List Nat) (xs vis nf : List Nat) :
    expandM sc xs (toMask vis) nf = (toMask (expand sc xs vis nf).1, (expand sc xs vis nf).2) := by
  induction xs generalizing vis nf with
  | nil => rfl
  | cons x xs ih =>
    unfold expandM expand
    rw [insertAllM_eq]
    exact ih _ _

theorem bfsM_eq (sc : Nat → List Nat) (f : Nat) (fr vis : List Nat) :
    bfsM sc f fr (toMask vis) = toMask (bfs sc f fr vis) := by
  induction f generalizing fr vis with
  | zero => rfl
  | succ f ih =>
    cases fr with
    | nil => rfl
    | cons x fr =>
      unfold bfsM bfs
      rw [expandM_eq]
      exact ih _ _

theorem reachM_eq (g : Graph) (s : Nat) : reachM g s = toMask (reach g s) := bfsM_eq _ _ [s] [s]

theorem testBit_reachM (g : Graph) (s y : Nat) : (reachM g s).testBit y = true ↔ Reach (succ g) s y := by
  rw [reachM_eq, testBit_toMask, mem_iff, mem_reach_iff]

theorem reachM2_eq (k : Nat) (c : List Graph) (s : Nat) : reachM2 k c s = toMask (reach2 k c s) :=
  bfsM_eq _ _ [s] [s]

theorem testBit_reachM2 (k : Nat) (c : List Graph) (s y : Nat) :
    (reachM2 k c s).testBit y = true ↔ Reach (succ2 k c) s y := by
  rw [reachM2_eq, testBit_toMask, mem_iff, mem_reach2_iff]

theorem noneIn_iff (r : Nat) (cs : List Nat) : noneIn r cs = true ↔ ∀ c, c ∈ cs → r.testBit c = false := by
  induction cs with
  | nil => simp [noneIn]
  | cons c cs ih =>
    unfold noneIn
    cases hb : r.testBit c with
    | true =>
      simp only [Bool.false_eq_true, List.mem_cons, false_iff]
      intro h
      have := h c (Or.inl rfl)
      rw [hb] at this; cases this
    | false =>
      simp only [ih, List.mem_cons]
      constructor
      · intro h z hz
        rcases hz with rfl | hz
        · exact hb
        · exact h z hz
      · intro h z hz; exact h z (Or.inr hz)

theorem someIn_iff (r : Nat) (cs : List Nat) : someIn r cs = true ↔ ∃ c, c ∈ cs ∧ r.testBit c = true := by
  induction cs with
  | nil => simp [someIn]
  | cons c cs ih =>
    unfold someIn
    cases hb : r.testBit c with
    | true => simp only [true_iff]; exact ⟨c, List.mem_cons_self, hb⟩
    | false =>
      simp only [ih, List.mem_cons]
      constructor
      · rintro ⟨z, hz, hz'⟩; exact ⟨z, Or.inr hz, hz'⟩
      · rintro ⟨z, hz | hz, hz'⟩
        · subst hz; rw [hb] at hz'; cases hz'
        · exact ⟨z, hz, hz'⟩

theorem allIn_iff (r : Nat) (cs : List Nat) : allIn r cs = true ↔ ∀ c, c ∈ cs → r.testBit c = true := by
  induction cs with
  | nil => simp [allIn]
  | cons c cs ih =>
    unfold allIn
    cases hb : r.testBit c with
    | true =>
      simp only [ih, List.mem_cons]
      constructor
      · intro h z hz
        rcases hz with rfl | hz
        · exact hb
        · exact h z hz
      · intro h z hz; exact h z (Or.inr hz)
    | false =>
      simp only [Bool.false_eq_true, List.mem_cons, false_iff]
      intro h
      have := h c (Or.inl rfl)
      rw [hb] at this; cases this

/-! ### the checkers of the emitted model -/

namespace Model

theorem sourceOK_spec (M : Model) (x : Nat) (h : M.sourceOK x = true) :
    (∀ y, Reach M.sc x y → y ∉ M.mathRand) ∧ (∃ y, Reach M.sc x y ∧ y ∈ M.cryptoRand) := by
  simp only [sourceOK, Bool.and_eq_true] at h
  obtain ⟨h1, h2⟩ := h
  constructor
  · intro y hy hm
    have := (noneIn_iff _ _).mp h1 y hm
    rw [(testBit_reachM2 _ _ _ _).mpr hy] at this; cases this
  · obtain ⟨y, hc, hy⟩ := (someIn_iff _ _).mp h2
    exact ⟨y, (testBit_reachM2 _ _ _ _).mp hy, hc⟩

theorem sourcePure_spec (M : Model) (x : Nat) (h : M.sourcePure x = true) :
    ∀ y, Reach M.sc x y → y ∉ M.clock ∧ y ∉ M.suspect := by
  simp only [sourcePure, Bool.and_eq_true] at h
  obtain ⟨h1, h2⟩ := h
  intro y hy
  have hy' := (testBit_reachM2 _ _ _ _).mpr hy
  constructor
  · intro hm
    have := (noneIn_iff _ _).mp h1 y hm
    rw [hy'] at this; cases this
  · intro hm
    have := (noneIn_iff _ _).mp h2 y hm
    rw [hy'] at this; cases this

theorem allSourcesOK_spec (M : Model) (h : M.allSourcesOK = true) :
    ∀ g, g ∈ M.sources →
      (∀ y, Reach M.sc g y → y ∉ M.mathRand) ∧ (∃ y, Reach M.sc g y ∧ y ∈ M.cryptoRand) :=
  fun g hg => sourceOK_spec M g ((allB_iff _ _).mp h g hg)

theorem allSourcesPure_spec (M : Model) (h : M.allSourcesPure = true) :
    ∀ g, g ∈ M.sources → ∀ y, Reach M.sc g y → y ∉ M.clock ∧ y ∉ M.suspect :=
  fun g hg => sourcePure_spec M g ((allB_iff _ _).mp h g hg)

theorem witnessOK1_spec (M : Model) (g : Nat) (p : List Nat) (h : M.witnessOK1 g p = true) :
    ∃ e, e ∈ M.entries ∧ Reach M.sc e g := by
  cases p with
  | nil => simp [witnessOK1] at h
  | cons e r =>
    simp only [witnessOK1, Bool.and_eq_true] at h
    obtain ⟨⟨h1, h2⟩, h3⟩ := h
    have hl : lastD r e = g := Nat.eq_of_beq_eq_true h2
    exact ⟨e, (mem_iff _ _).mp h1, hl ▸ validPath_reach M.sc e r h3⟩

theorem witnessesOK_spec (M : Model) (gs : List Nat) (ps : List (List Nat))
    (h : M.witnessesOK gs ps = true) : ∀ g, g ∈ gs → ∃ e, e ∈ M.entries ∧ Reach M.sc e g := by
  induction gs generalizing ps with
  | nil => intro g hg; cases hg
  | cons g0 gs ih =>
    cases ps with
    | nil => simp [witnessesOK] at h
    | cons p ps =>
      unfold witnessesOK at h
      cases h1 : M.witnessOK1 g0 p with
      | false => rw [h1] at h; simp at h
      | true =>
        rw [h1] at h
        intro g hg
        rcases List.mem_cons.mp hg with rfl | hg
        · exact witnessOK1_spec M _ p h1
        · exact ih ps (by simpa using h) g hg

theorem seedPathOK_spec (M : Model) (h : M.seedPathOK = true) (hne : M.seedPath ≠ []) :
    ∃ e, e ∈ M.entries ∧ ∃ s, s ∈ M.seeders ∧ Reach M.sc e s := by
  unfold seedPathOK at h
  cases hp : M.seedPath with
  | nil => exact absurd hp hne
  | cons e r =>
    rw [hp] at h
    simp only [Bool.and_eq_true] at h
    obtain ⟨⟨h1, h2⟩, h3⟩ := h
    exact ⟨e, (mem_iff _ _).mp h1, lastD r e, (mem_iff _ _).mp h2, validPath_reach M.sc e r h3⟩

/-- what `closedB` establishes -/
structure WellFormed (M : Model) : Prop where
  ok : M.ok = true
  rows : rowCount2 M.adj = M.numNodes
  roots_lt : ∀ r, r ∈ M.roots → r < M.numNodes
  edges_lt : ∀ x z, z ∈ M.sc x → z < M.numNodes
  reach_lt : ∀ r, r ∈ M.roots → ∀ y, Reach M.sc r y → y < M.numNodes
  leaves_final : ∀ l, l ∈ M.leaves → M.sc l = []
  classes_are_leaves : ∀ c, (c ∈ M.cryptoRand ∨ c ∈ M.mathRand ∨ c ∈ M.seeders ∨ c ∈ M.clock ∨ c ∈ M.suspect) → c ∈ M.leaves
  seeders_math : ∀ s, s ∈ M.seeders → s ∈ M.mathRand
  entries_ne : M.entries ≠ []
  used_sub : ∀ g, g ∈ M.usedGenerators → g ∈ M.generators
  generators_ne : M.usedGenerators ≠ []
  secrets_ne : M.secrets ≠ []

theorem closedB_spec (M : Model) (h : M.closedB = true) : WellFormed M := by
  simp only [closedB, Bool.and_eq_true, Bool.not_eq_true'] at h
  obtain ⟨⟨⟨⟨⟨⟨⟨⟨⟨⟨⟨⟨⟨⟨⟨⟨h1, h2⟩, h3⟩, h4⟩, _⟩, _⟩, _⟩, _⟩, _⟩, _⟩, h11⟩, h12⟩, h13⟩, hused⟩, h14⟩, h15⟩, h16⟩ := h
  have hrows := rows2Lt_spec _ M.chunk _ h3
  have hroots := (allLt_iff _ _).mp h4
  refine ⟨h1, Nat.eq_of_beq_eq_true h2, hroots, hrows, ?_, ?_, ?_, ?_, ?_, ?_, ?_, ?_⟩
  · intro r hr; exact Mtv.Rand.reach_lt M.sc M.numNodes hrows r (hroots r hr)
  · intro l hl
    have := (allB_iff _ _).mp h11 l hl
    simpa using this
  · intro c hc
    have := (allIn_iff _ _).mp h12 c (by
      simp only [List.mem_append]
      rcases hc with h | h | h | h | h
      · exact Or.inl (Or.inl (Or.inl (Or.inl h)))
      · exact Or.inl (Or.inl (Or.inl (Or.inr h)))
      · exact Or.inl (Or.inl (Or.inr h))
      · exact Or.inl (Or.inr h)
      · exact Or.inr h)
    rw [testBit_toMask] at this
    exact (mem_iff _ _).mp this
  · intro s hs
    have := (allIn_iff _ _).mp h13 s hs
    rw [testBit_toMask] at this
    exact (mem_iff _ _).mp this
  · intro e; rw [e] at h14; simp at h14
  · intro g hg
    have := (allIn_iff _ _).mp hused g hg
    rw [testBit_toMask] at this
    exact (mem_iff _ _).mp this
  · intro e; rw [e] at h15; simp at h15
  · intro e; rw [e] at h16; simp at h16

end Model

end Mtv.Rand
