/-
  Printing a number and reading it back: `strconv.ParseUint(_, 16, 32)` / `strconv.Atoi` models of
  Mtv/Tlgen/Parser.lean against `natToDigits` of Mtv/Tlgen/Render.lean.
-/
import Mtv.Tlgen.Render
namespace Mtv.Tlgen

theorem digitVal_digitChar : ∀ d, d < 10 → digitVal? (digitChar d) = some d := by decide
theorem hexDigitVal_digitChar : ∀ d, d < 16 → hexDigitVal? (digitChar d) = some d := by decide
theorem isDigit_digitChar : ∀ d, d < 10 → isDigit (digitChar d) = true := by decide
theorem digitChar_ne_space : ∀ d, d < 16 → digitChar d ≠ ' ' := by decide

theorem digitsVal_append (b : Nat) (dv : Char → Option Nat) (acc : Nat) (xs : Str) (c : Char) :
    digitsVal b dv acc (xs ++ [c]) =
      (digitsVal b dv acc xs).bind fun v => (dv c).map fun d => v * b + d := by
  induction xs generalizing acc with
  | nil => simp [digitsVal]; cases dv c <;> simp
  | cons x xs ih =>
    simp only [List.cons_append, digitsVal]
    cases dv x with
    | none => simp
    | some d => simp [ih]

theorem toDigitsRev_val (b : Nat) (hb : 2 ≤ b) (dv : Char → Option Nat)
    (hdv : ∀ d, d < b → dv (digitChar d) = some d) :
    ∀ fuel n, n < fuel → digitsVal b dv 0 (toDigitsRev b fuel n).reverse = some n := by
  intro fuel
  induction fuel with
  | zero => intro n h; omega
  | succ fuel ih =>
    intro n hn
    have hmod : n % b < b := Nat.mod_lt _ (by omega)
    simp only [toDigitsRev]
    by_cases hz : n / b = 0
    · simp only [hz, if_true, List.reverse_cons, List.reverse_nil, List.nil_append, digitsVal,
        hdv _ hmod]
      have : n < b := by
        rcases Nat.div_eq_zero_iff.mp hz with h | h
        · omega
        · exact h
      simp [Nat.mod_eq_of_lt this]
    · simp only [hz, if_false, List.reverse_cons]
      rw [digitsVal_append]
      have hlt : n / b < fuel := by
        have : n / b < n := Nat.div_lt_self (by
          rcases Nat.eq_zero_or_pos n with h | h
          · subst h; simp at hz
          · exact h) (by omega)
        omega
      rw [ih (n / b) hlt, hdv _ hmod]
      simp [Nat.div_add_mod']

theorem toDigitsRev_ne_nil (b fuel n : Nat) (h : 0 < fuel) : toDigitsRev b fuel n ≠ [] := by
  cases fuel with
  | zero => omega
  | succ f => simp [toDigitsRev]

theorem toDigitsRev_mem (b : Nat) (hb : 0 < b) : ∀ fuel n c, c ∈ toDigitsRev b fuel n → ∃ d, d < b ∧ c = digitChar d := by
  intro fuel
  induction fuel with
  | zero => intro n c h; simp [toDigitsRev] at h
  | succ fuel ih =>
    intro n c h
    simp only [toDigitsRev, List.mem_cons] at h
    rcases h with h | h
    · exact ⟨n % b, Nat.mod_lt _ hb, h⟩
    · by_cases hz : n / b = 0
      · simp [hz] at h
      · simp only [hz, if_false] at h
        exact ih _ _ h

theorem natToDigits_ne_nil (b n : Nat) : natToDigits b n ≠ [] := by
  simp [natToDigits, toDigitsRev_ne_nil]

theorem natToDigits_mem (b : Nat) (hb : 0 < b) (n : Nat) (c : Char) (h : c ∈ natToDigits b n) :
    ∃ d, d < b ∧ c = digitChar d := by
  simp only [natToDigits, List.mem_reverse] at h
  exact toDigitsRev_mem b hb _ _ _ h

/-- `strconv.ParseUint(fmt.Sprintf("%x", n), 16, 32) = n` -/
theorem parseHex32_natToDigits (n : Nat) (h : n < 2 ^ 32) : parseHex32? (natToDigits 16 n) = some n := by
  have hv := toDigitsRev_val 16 (by omega) hexDigitVal? hexDigitVal_digitChar (n + 1) n (by omega)
  simp only [parseHex32?, natToDigits_ne_nil, if_false]
  simp only [natToDigits]
  rw [hv]; simp [h]

/-- `strconv.Atoi(strconv.Itoa(n)) = n` -/
theorem atoi_natToDigits (n : Nat) (h : n < 2 ^ 63) : atoi? (natToDigits 10 n) = some n := by
  have hv := toDigitsRev_val 10 (by omega) digitVal? digitVal_digitChar (n + 1) n (by omega)
  simp only [atoi?, natToDigits_ne_nil, if_false]
  simp only [natToDigits]
  rw [hv]; simp [h]

theorem natToDigits10_isDigit (n : Nat) : ∀ c ∈ natToDigits 10 n, isDigit c = true := by
  intro c hc
  obtain ⟨d, hd, rfl⟩ := natToDigits_mem 10 (by omega) n c hc
  exact isDigit_digitChar d hd

theorem natToDigits16_no_space (n : Nat) : ' ' ∉ natToDigits 16 n := by
  intro hc
  obtain ⟨d, hd, h⟩ := natToDigits_mem 16 (by omega) n _ hc
  exact digitChar_ne_space d hd h.symm

end Mtv.Tlgen
