/-
  Part 2: the channel invariant of the goroutine-level client model — under the causality assumption
  (`CausalRun`), whenever the loop is about to send on a channel, the caller that made the channel has a
  request in flight under exactly that msg_id (so it is at, or on its way to, the matching receive).
-/
import Mtv.Lemmas.ClientRefine
namespace Mtv.Impl
open Mtv.Client

/-! ## the map -/

theorem lp_cons (p : List (Nat × Nat)) (id c id' : Nat) :
    lookupPending ((id, c) :: p) id' = if id = id' then some c else lookupPending p id' := by
  simp only [lookupPending, List.find?_cons]
  by_cases h : id = id'
  · simp [h]
  · have : (id == id') = false := by simpa using h
    simp [this, h]

theorem lp_erase (p : List (Nat × Nat)) (id id' : Nat) :
    lookupPending (erasePending p id) id' = if id' = id then none else lookupPending p id' := by
  induction p with
  | nil => simp [lookupPending, erasePending]
  | cons e p ih =>
    obtain ⟨k, c⟩ := e
    by_cases hk : k = id
    · have : erasePending ((k, c) :: p) id = erasePending p id := by simp [erasePending, hk]
      rw [this, ih, lp_cons]
      by_cases h : id' = id
      · simp [h]
      · have : ¬ k = id' := by rw [hk]; exact fun h' => h h'.symm
        simp [h, this]
    · have : erasePending ((k, c) :: p) id = (k, c) :: erasePending p id := by simp [erasePending, hk]
      rw [this, lp_cons, lp_cons, ih]
      by_cases h : id' = id
      · have : ¬ k = id' := by rw [h]; exact hk
        simp [this]
      · simp [h]

theorem lp_some_mem {p : List (Nat × Nat)} {id c : Nat} (h : lookupPending p id = some c) : (id, c) ∈ p :=
  lookupPending_mem h

theorem lp_none_of_keys_lt {p : List (Nat × Nat)} {id last : Nat} (hk : ∀ e ∈ p, e.1 ≤ last) (h : last < id) :
    lookupPending p id = none := by
  cases hl : lookupPending p id with
  | none => rfl
  | some c => have := hk _ (lp_some_mem hl); simp at this; omega

/-! ## the shapes the loop's continuation can have -/

inductive Shape : List Op → Prop where
  | nil : Shape []
  | ack (mid seq : Nat) : Shape [.ackIf mid seq]
  | res (id c : Nat) (v : String) (mid seq : Nat) : Shape [.sendVal id c (.ret v), .delete id, .ackIf mid seq]
  | resD (id mid seq : Nat) : Shape [.delete id, .ackIf mid seq]
  | salt (bad mid seq : Nat) : Shape [.store, .lookupSalt bad, .ackIf mid seq]
  | saltL (bad mid seq : Nat) : Shape [.lookupSalt bad, .ackIf mid seq]
  | del (id c : Nat) (v : Val) (mid seq : Nat) : Shape [.delete id, .sendVal id c v, .ackIf mid seq]
  | snd (id c : Nat) (v : Val) (mid seq : Nat) : Shape [.sendVal id c v, .ackIf mid seq]
  | news (mid seq : Nat) : Shape [.store, .ackIf mid seq]
  | lock (mid : Nat) : Shape [.ackLock mid]
  | aid (mid : Nat) : Shape [.ackId mid]
  | wr (mid id : Nat) : Shape [.ackWrite mid id]
  | unl : Shape [.ackUnlock]

def opIds : Op → List Nat
  | .sendVal id _ _ => [id]
  | .delete id => [id]
  | .lookupSalt id => [id]
  | _ => []

def itemIds : Item → List Nat
  | .msg _ _ m => msgIds m
  | .endc _ _ => []

def curIds (cur : List Op) : List Nat := cur.flatMap opIds
def todoIds (todo : List Item) : List Nat := todo.flatMap itemIds

theorem todoIds_toItems (ms : List (Nat × Nat × Msg)) : todoIds (toItems ms) = membersIds ms := by
  induction ms with
  | nil => simp [todoIds, toItems, membersIds]
  | cons e ms ih =>
    obtain ⟨a, b, m⟩ := e
    simp only [todoIds, toItems, List.map_cons, List.flatMap_cons, itemIds, membersIds] at ih ⊢
    rw [ih]

structure Inv2 (s : ISt) : Prop where
  sh : Shape s.cur
  c1 : ∀ id c, lookupPending s.chans id = some c →
        regOf (s.cs c) = some id ∨ flightOf (s.cs c) = some id ∨ Op.delete id ∈ s.cur
  c2 : ∀ c id, regOf (s.cs c) = some id → lookupPending s.chans id = some c
  s1 : ∀ id c v, Op.sendVal id c v ∈ s.cur → flightOf (s.cs c) = some id
  x1 : ∀ id c v, Op.sendVal id c v ∈ s.cur → Op.delete id ∈ s.cur ∨ lookupPending s.chans id = none
  q1 : ∀ id, (id ∈ curIds s.cur ∨ id ∈ todoIds s.todo) → ¬ Unwritten s id

theorem inv2_init : Inv2 {} := by
  constructor
  · exact Shape.nil
  · intro id c h; simp [lookupPending] at h
  · intro c id h; simp [regOf] at h
  · intro id c v h; simp at h
  · intro id c v h; simp at h
  · intro id h; simp [curIds, todoIds] at h

/-- the id a caller has registered and not yet written is the newest id, a multiple of four: it is `Unwritten` -/
theorem reg_unwritten {s : ISt} (hi : Inv s) {c id : Nat} (h : regOf (s.cs c) = some id) : Unwritten s id := by
  cases hc : s.cs c with
  | reg id' r =>
    rw [hc] at h; simp only [regOf, Option.some.injEq] at h; subst h
    have := (hi.w2 c id' r hc).1
    exact ⟨by rw [this]; exact hi.n1, Or.inr ⟨c, by rw [hc]; rfl⟩⟩
  | _ => rw [hc] at h; simp [regOf] at h

/-- only the holder of the mutex is between registration and write -/
theorem reg_unique {s : ISt} (hi : Inv s) {c x id id' : Nat} (h : regOf (s.cs c) = some id)
    (h' : regOf (s.cs x) = some id') : x = c := by
  have hc : holds (s.cs c) = true := by
    cases hcc : s.cs c <;> rw [hcc] at h <;> simp [regOf] at h <;> rfl
  have hx : holds (s.cs x) = true := by
    cases hcc : s.cs x <;> rw [hcc] at h' <;> simp [regOf] at h' <;> rfl
  have h1 := (hi.m1 c).1 hc
  have h2 := (hi.m1 x).1 hx
  rw [h1] at h2; cases h2; rfl

/-- a relabelling of one caller's program counter that keeps what the invariant looks at -/
theorem inv2_relabel {s s' : ISt} (h2 : Inv2 s) (hch : s'.chans = s.chans) (hcur : s'.cur = s.cur)
    (htodo : s'.todo = s.todo) (hl : s'.lastMsgID = s.lastMsgID)
    (hr : ∀ x, regOf (s'.cs x) = regOf (s.cs x)) (hf : ∀ x, flightOf (s'.cs x) = flightOf (s.cs x)) : Inv2 s' := by
  refine ⟨by rw [hcur]; exact h2.sh, ?_, ?_, ?_, ?_, ?_⟩
  · intro id c h; rw [hch] at h; rw [hr, hf, hcur]; exact h2.c1 id c h
  · intro c id h; rw [hr] at h; rw [hch]; exact h2.c2 c id h
  · intro id c v h; rw [hcur] at h; rw [hf]; exact h2.s1 id c v h
  · intro id c v h; rw [hcur] at h; rw [hcur, hch]; exact h2.x1 id c v h
  · intro id h hu; rw [hcur, htodo] at h
    refine h2.q1 id h ⟨hu.1, ?_⟩
    rcases hu.2 with hlt | ⟨c, hc⟩
    · left; rw [← hl]; exact hlt
    · right; exact ⟨c, by rw [← hr]; exact hc⟩

theorem inv2_cLock {s s' : ISt} (h2 : Inv2 s) {c : Nat} (h : step s (.cLock c) = some s') : Inv2 s' := by
  obtain ⟨_, r, hc, rfl⟩ := step_cLock h
  refine inv2_relabel h2 rfl rfl rfl rfl ?_ ?_ <;> intro x <;> by_cases hx : x = c
  · subst hx; cases r <;> simp [setC, hc, regOf]
  · simp [setC, hx]
  · subst hx; cases r <;> simp [setC, hc, flightOf]
  · simp [setC, hx]

theorem inv2_cUnlock {s s' : ISt} (h2 : Inv2 s) {c : Nat} (h : step s (.cUnlock c) = some s') : Inv2 s' := by
  rcases step_cUnlock h with ⟨id, hc, rfl⟩ | ⟨hc, rfl⟩
  · refine inv2_relabel h2 rfl rfl rfl rfl ?_ ?_ <;> intro x <;> by_cases hx : x = c
    · subst hx; simp [setC, hc, regOf]
    · simp [setC, hx]
    · subst hx; simp [setC, hc, flightOf]
    · simp [setC, hx]
  · refine inv2_relabel h2 rfl rfl rfl rfl ?_ ?_ <;> intro x <;> by_cases hx : x = c
    · subst hx; simp [setC, hc, regOf]
    · simp [setC, hx]
    · subst hx; simp [setC, hc, flightOf]
    · simp [setC, hx]

theorem inv2_cIdReg {s s' : ISt} (hi : Inv s) (h2 : Inv2 s) {c now : Nat} (h : step s (.cIdReg c now) = some s') :
    Inv2 s' := by
  obtain ⟨r, hc, rfl⟩ := step_cIdReg h
  obtain ⟨hgt, hm4⟩ := nextId_gt s.lastMsgID now hi.n1
  clear h
  generalize nextId s.lastMsgID now = n at hgt hm4 ⊢
  have hcr : regOf (s.cs c) = none := by rw [hc]; rfl
  have hcf : flightOf (s.cs c) = none := by rw [hc]; rfl
  have hnone : lookupPending s.chans n = none := lp_none_of_keys_lt hi.k1 hgt
  refine ⟨h2.sh, ?_, ?_, ?_, ?_, ?_⟩
  · intro id c0 h
    simp only [lp_cons] at h
    by_cases hid : n = id
    · simp only [hid, if_true, Option.some.injEq] at h; subst h; subst hid
      left; simp [setC, regOf]
    · simp only [hid, if_false] at h
      have := h2.c1 id c0 h
      by_cases hc0 : c0 = c
      · subst hc0; rw [hcr, hcf] at this; simp at this; exact Or.inr (Or.inr this)
      · simpa [setC, hc0] using this
  · intro x id h
    by_cases hx : x = c
    · subst hx; simp [setC, regOf] at h; subst h; simp [lp_cons]
    · simp [setC, hx] at h
      have hl := h2.c2 x id h
      have : n ≠ id := by
        intro hn; subst hn; rw [hnone] at hl; cases hl
      simp [lp_cons, this, hl]
  · intro id c0 v h
    have := h2.s1 id c0 v h
    by_cases hc0 : c0 = c
    · subst hc0; rw [hcf] at this; cases this
    · simpa [setC, hc0] using this
  · intro id c0 v h
    rcases h2.x1 id c0 v h with hd | hn
    · exact Or.inl hd
    · right
      have hne : n ≠ id := by
        intro hn'; subst hn'
        have := h2.q1 n (Or.inl (by simp only [curIds, List.mem_flatMap]; exact ⟨_, h, by simp [opIds]⟩))
        exact this ⟨hm4, Or.inl hgt⟩
      simp [lp_cons, hne, hn]
  · intro id h hu
    have hold := h2.q1 id h
    apply hold
    refine ⟨hu.1, ?_⟩
    rcases hu.2 with hlt | ⟨x, hx⟩
    · left; have : n < id := hlt; omega
    · by_cases hxc : x = c
      · subst hxc; simp [setC, regOf] at hx; left; omega
      · right; exact ⟨x, by simpa [setC, hxc] using hx⟩

theorem inv2_cWrite {s s' : ISt} (hi : Inv s) (h2 : Inv2 s) {c : Nat} {ok : Bool}
    (h : step s (.cWrite c ok) = some s') : Inv2 s' := by
  obtain ⟨id, r, hc, rfl⟩ := step_cWrite h
  have hcr : regOf (s.cs c) = some id := by rw [hc]; rfl
  have hcf : flightOf (s.cs c) = none := by rw [hc]; rfl
  have hun : Unwritten s id := reg_unwritten hi hcr
  have hothers : ∀ x, x ≠ c → regOf (s.cs x) = none := by
    intro x hx
    cases hrx : regOf (s.cs x) with
    | none => rfl
    | some id' => exact absurd (reg_unique hi hcr hrx) hx
  have hq : ∀ {s'' : ISt}, s''.lastMsgID = s.lastMsgID → (∀ x, regOf (s''.cs x) = none ∨ regOf (s''.cs x) = regOf (s.cs x)) →
      ∀ id0, Unwritten s'' id0 → Unwritten s id0 := by
    intro s'' hl hr id0 hu
    refine ⟨hu.1, ?_⟩
    rcases hu.2 with hlt | ⟨x, hx⟩
    · left; rw [← hl]; exact hlt
    · right; rcases hr x with h0 | h0
      · rw [h0] at hx; cases hx
      · exact ⟨x, by rw [← h0]; exact hx⟩
  cases ok with
  | true =>
    simp only [if_true]
    refine ⟨h2.sh, ?_, ?_, ?_, h2.x1, ?_⟩
    · intro id0 c0 h
      have := h2.c1 id0 c0 h
      by_cases hc0 : c0 = c
      · subst hc0; rw [hcr, hcf] at this
        rcases this with h1 | h1 | h1
        · simp only [Option.some.injEq] at h1; subst h1; right; left; simp [setC, flightOf]
        · cases h1
        · exact Or.inr (Or.inr h1)
      · simpa [setC, hc0] using this
    · intro x id0 h
      by_cases hx : x = c
      · subst hx; simp [setC, regOf] at h
      · simp [setC, hx] at h; rw [hothers x hx] at h; cases h
    · intro id0 c0 v h
      have := h2.s1 id0 c0 v h
      by_cases hc0 : c0 = c
      · subst hc0; rw [hcf] at this; cases this
      · simpa [setC, hc0] using this
    · intro id0 h hu
      refine h2.q1 id0 h (hq (s'' := { setC s c (.written id) with wire := (id, orOne s.seqNo, s.salt) :: s.wire, seqNo := s.seqNo + 2 }) rfl ?_ id0 hu)
      intro x; by_cases hx : x = c
      · subst hx; left; simp [setC, regOf]
      · right; simp [setC, hx]
  | false =>
    simp only [Bool.false_eq_true, if_false]
    refine ⟨h2.sh, ?_, ?_, ?_, ?_, ?_⟩
    · intro id0 c0 h
      simp only [lp_erase] at h
      split at h
      · cases h
      · rename_i hne
        have := h2.c1 id0 c0 h
        by_cases hc0 : c0 = c
        · subst hc0; rw [hcr, hcf] at this
          rcases this with h1 | h1 | h1
          · simp only [Option.some.injEq] at h1; exact absurd h1.symm hne
          · cases h1
          · exact Or.inr (Or.inr h1)
        · simpa [setC, hc0] using this
    · intro x id0 h
      by_cases hx : x = c
      · subst hx; simp [setC, regOf] at h
      · simp [setC, hx] at h; rw [hothers x hx] at h; cases h
    · intro id0 c0 v h
      have := h2.s1 id0 c0 v h
      by_cases hc0 : c0 = c
      · subst hc0; rw [hcf] at this; cases this
      · simpa [setC, hc0] using this
    · intro id0 c0 v h
      rcases h2.x1 id0 c0 v h with hd | hn
      · exact Or.inl hd
      · right; simp only [lp_erase]; split
        · rfl
        · exact hn
    · intro id0 h hu
      refine h2.q1 id0 h (hq (s'' := { setC s c .failed with chans := erasePending s.chans id }) rfl ?_ id0 hu)
      intro x; by_cases hx : x = c
      · subst hx; left; simp [setC, regOf]
      · right; simp [setC, hx]

theorem shape_tail_of_send {id c : Nat} {v : Val} {k : List Op} (h : Shape (.sendVal id c v :: k)) :
    Shape k ∧ (∀ id' c' v', Op.sendVal id' c' v' ∉ k) ∧ (∀ id', Op.delete id' ∈ k → id' = id) ∧
      (∀ mid id' k', k ≠ .ackWrite mid id' :: k') := by
  cases h with
  | res id c v mid seq => exact ⟨Shape.resD _ _ _, by simp, by simp, by simp⟩
  | snd id c v mid seq => exact ⟨Shape.ack _ _, by simp, by simp, by simp⟩

theorem inv2_cRecv {s s' : ISt} (h2 : Inv2 s) {c : Nat} (h : step s (.cRecv c) = some s') : Inv2 s' := by
  obtain ⟨id, v, k, hc, hk, rfl⟩ := step_cRecv h
  have hsh := h2.sh; rw [hk] at hsh
  obtain ⟨hshk, hnos, hdel, _⟩ := shape_tail_of_send hsh
  have hsub : ∀ op ∈ k, op ∈ s.cur := by intro op hop; rw [hk]; exact List.mem_cons_of_mem _ hop
  have hr : regOf (afterRecv v) = none := by cases v <;> rfl
  have hf : flightOf (afterRecv v) = none := by cases v <;> rfl
  refine ⟨hshk, ?_, ?_, ?_, ?_, ?_⟩
  · intro id0 c0 h
    have := h2.c1 id0 c0 h
    by_cases hc0 : c0 = c
    · subst hc0
      rw [hc] at this
      rcases this with h1 | h1 | h1
      · cases h1
      · simp only [flightOf, Option.some.injEq] at h1; subst h1
        rcases h2.x1 id c0 v (by rw [hk]; simp) with hd | hn
        · rw [hk] at hd; simp at hd; exact Or.inr (Or.inr hd)
        · have h' : lookupPending s.chans id = some c0 := h
          rw [hn] at h'; cases h'
      · rw [hk] at h1; simp at h1; exact Or.inr (Or.inr h1)
    · rcases this with h1 | h1 | h1
      · left; simpa [setC, hc0] using h1
      · right; left; simpa [setC, hc0] using h1
      · rw [hk] at h1; simp at h1; exact Or.inr (Or.inr h1)
  · intro x id0 h
    by_cases hx : x = c
    · subst hx; simp [setC, hr] at h
    · simp [setC, hx] at h; exact h2.c2 x id0 h
  · intro id0 c0 v0 h; exact absurd h (hnos id0 c0 v0)
  · intro id0 c0 v0 h; exact absurd h (hnos id0 c0 v0)
  · intro id0 h hu
    refine h2.q1 id0 ?_ ⟨hu.1, ?_⟩
    · rcases h with h | h
      · left; rw [hk]; simp only [curIds, List.flatMap_cons, List.mem_append]; right; exact h
      · right; exact h
    · rcases hu.2 with hlt | ⟨x, hx⟩
      · exact Or.inl hlt
      · right; by_cases hxc : x = c
        · subst hxc; simp [setC, hr] at hx
        · exact ⟨x, by simpa [setC, hxc] using hx⟩

theorem inv2_lRead {s s' : ISt} (h2 : Inv2 s) {mid seq : Nat} {m : Msg} (hcz : CausalEv s (.lRead mid seq m))
    (h : step s (.lRead mid seq m) = some s') : Inv2 s' := by
  obtain ⟨hcur, _, rfl⟩ := step_lRead h
  refine ⟨h2.sh, h2.c1, h2.c2, h2.s1, h2.x1, ?_⟩
  intro id h hu
  rcases h with h | h
  · exact h2.q1 id (Or.inl h) hu
  · simp only [todoIds, List.flatMap_cons, List.flatMap_nil, List.append_nil, itemIds] at h
    exact hcz id h hu

theorem mem_curIds {cur : List Op} {op : Op} {id : Nat} (h : op ∈ cur) (hid : id ∈ opIds op) : id ∈ curIds cur := by
  simp only [curIds, List.mem_flatMap]; exact ⟨op, h, hid⟩

/-- a loop step that leaves the map, the callers and lastMsgID alone -/
theorem inv2_newcur {s s' : ISt} (h2 : Inv2 s) (hch : s'.chans = s.chans) (hcs : s'.cs = s.cs)
    (hl : s'.lastMsgID = s.lastMsgID) (hsh : Shape s'.cur)
    (hdel : ∀ id, Op.delete id ∈ s.cur → Op.delete id ∈ s'.cur)
    (hs : ∀ id c v, Op.sendVal id c v ∈ s'.cur →
      flightOf (s.cs c) = some id ∧ (Op.delete id ∈ s'.cur ∨ lookupPending s.chans id = none))
    (hq : ∀ id, (id ∈ curIds s'.cur ∨ id ∈ todoIds s'.todo) → (id ∈ curIds s.cur ∨ id ∈ todoIds s.todo)) :
    Inv2 s' := by
  refine ⟨hsh, ?_, ?_, ?_, ?_, ?_⟩
  · intro id c h; rw [hch] at h; rw [hcs]
    rcases h2.c1 id c h with h1 | h1 | h1
    · exact Or.inl h1
    · exact Or.inr (Or.inl h1)
    · exact Or.inr (Or.inr (hdel id h1))
  · intro c id h; rw [hcs] at h; rw [hch]; exact h2.c2 c id h
  · intro id c v h; rw [hcs]; exact (hs id c v h).1
  · intro id c v h; rw [hch]; exact (hs id c v h).2
  · intro id h hu
    refine h2.q1 id (hq id h) ⟨hu.1, ?_⟩
    rcases hu.2 with hlt | ⟨c, hc⟩
    · left; rw [← hl]; exact hlt
    · right; exact ⟨c, by rw [← hcs]; exact hc⟩

theorem inv2_dispatch {s : ISt} (hi : Inv s) (h2 : Inv2 s) (hcur : s.cur = []) {it : Item} {rest : List Item}
    (htodo : s.todo = it :: rest) : Inv2 (dispatch { s with todo := rest } it) := by
  have hq0 : ∀ id, id ∈ itemIds it ∨ id ∈ todoIds rest → id ∈ curIds s.cur ∨ id ∈ todoIds s.todo := by
    intro id h; right; rw [htodo]; simp only [todoIds, List.flatMap_cons, List.mem_append]; exact h
  have hnodel : ∀ id (l : List Op), Op.delete id ∈ s.cur → Op.delete id ∈ l := by
    intro id l h; rw [hcur] at h; cases h
  -- a caller found in the map under a settled id has that request in flight
  have found : ∀ id c, id ∈ itemIds it → lookupPending s.chans id = some c → flightOf (s.cs c) = some id := by
    intro id c hid hl
    rcases h2.c1 id c hl with h1 | h1 | h1
    · exact absurd (reg_unwritten hi h1) (h2.q1 id (hq0 id (Or.inl hid)))
    · exact h1
    · rw [hcur] at h1; cases h1
  cases it with
  | endc mid seq =>
    refine inv2_newcur h2 rfl rfl rfl (Shape.ack _ _) (hnodel · _) ?_ ?_
    · intro id c v h; simp [dispatch] at h
    · intro id h; apply hq0; simp [dispatch, curIds, opIds] at h; exact Or.inr h
  | msg mid seq m =>
    cases m with
    | res rid v =>
      simp only [dispatch]
      split
      · rename_i c hl
        refine inv2_newcur h2 rfl rfl rfl (Shape.res _ _ _ _ _) (hnodel · _) ?_ ?_
        · intro id c' v' h
          simp at h; obtain ⟨rfl, rfl, rfl⟩ := h
          exact ⟨found id c' (by simp [itemIds, msgIds]) hl, Or.inl (by simp)⟩
        · intro id h; apply hq0
          simp [curIds, opIds] at h
          rcases h with rfl | h
          · left; simp [itemIds, msgIds]
          · right; exact h
      · refine inv2_newcur h2 rfl rfl rfl (Shape.ack _ _) (hnodel · _) ?_ ?_
        · intro id c v h; simp at h
        · intro id h; apply hq0; simp [curIds, opIds] at h; exact Or.inr h
    | salt bad ns =>
      refine inv2_newcur h2 rfl rfl rfl (Shape.salt _ _ _) (hnodel · _) ?_ ?_
      · intro id c v h; simp [dispatch] at h
      · intro id h; apply hq0
        simp [dispatch, curIds, opIds] at h
        rcases h with rfl | h
        · left; simp [itemIds, msgIds]
        · right; exact h
    | news ns =>
      refine inv2_newcur h2 rfl rfl rfl (Shape.news _ _) (hnodel · _) ?_ ?_
      · intro id c v h; simp [dispatch] at h
      · intro id h; apply hq0; simp [dispatch, curIds, opIds] at h; exact Or.inr h
    | badmsg bad =>
      simp only [dispatch]
      split
      · rename_i c hl
        refine inv2_newcur h2 rfl rfl rfl (Shape.del _ _ _ _ _) (hnodel · _) ?_ ?_
        · intro id c' v' h
          simp at h; obtain ⟨rfl, rfl, rfl⟩ := h
          exact ⟨found id c' (by simp [itemIds, msgIds]) hl, Or.inl (by simp)⟩
        · intro id h; apply hq0
          simp [curIds, opIds] at h
          rcases h with rfl | h
          · left; simp [itemIds, msgIds]
          · right; exact h
      · refine inv2_newcur h2 rfl rfl rfl (Shape.ack _ _) (hnodel · _) ?_ ?_
        · intro id c v h; simp at h
        · intro id h; apply hq0; simp [curIds, opIds] at h; exact Or.inr h
    | quiet =>
      refine inv2_newcur h2 rfl rfl rfl (Shape.ack _ _) (hnodel · _) ?_ ?_
      · intro id c v h; simp [dispatch] at h
      · intro id h; apply hq0; simp [dispatch, curIds, opIds] at h; exact Or.inr h
    | odd =>
      refine inv2_newcur h2 rfl rfl rfl (Shape.ack _ _) (hnodel · _) ?_ ?_
      · intro id c v h; simp [dispatch] at h
      · intro id h; apply hq0; simp [dispatch, curIds, opIds] at h; exact Or.inr h
    | cont ms =>
      simp only [dispatch]
      split
      · refine inv2_newcur h2 rfl rfl rfl (by simp only [hcur]; exact Shape.nil) (fun id h => h) ?_ ?_
        · intro id c v h; simp [hcur] at h
        · intro id h; apply hq0
          simp only [hcur, curIds, List.flatMap_nil, List.not_mem_nil, false_or] at h
          simp only [todoIds, List.flatMap_append, List.flatMap_cons, List.mem_append, itemIds] at h
          rcases h with h | h | h
          · left; simp only [itemIds, msgIds]; rw [← todoIds_toItems]; exact h
          · cases h
          · right; exact h
      · refine inv2_newcur h2 rfl rfl rfl (Shape.ack _ _) (hnodel · _) ?_ ?_
        · intro id c v h; simp at h
        · intro id h; apply hq0; simp [curIds, opIds] at h; exact Or.inr h

theorem inv2_lStep {s s' : ISt} (hi : Inv s) (h2 : Inv2 s) {now : Nat} {ok : Bool}
    (h : step s (.lStep now ok) = some s') : Inv2 s' := by
  simp only [step, loopStep] at h
  split at h
  · rename_i hcur
    split at h
    · simp at h
    · rename_i it rest htodo
      simp only [Option.some.injEq] at h; subst h
      exact inv2_dispatch hi h2 hcur htodo
  · simp at h
  · -- delete
    rename_i id k hcur
    simp only [Option.some.injEq] at h; subst h
    have hsh := h2.sh; rw [hcur] at hsh
    have hset : ¬ Unwritten s id := h2.q1 id (Or.inl (mem_curIds (op := .delete id) (by rw [hcur]; simp) (by simp [opIds])))
    have hk : Shape k ∧ (∀ id', Op.delete id' ∉ k) ∧ (∀ id' c v, Op.sendVal id' c v ∈ k → id' = id) := by
      cases hsh with
      | resD id mid seq => exact ⟨Shape.ack _ _, by simp, by simp⟩
      | del id c v mid seq => exact ⟨Shape.snd _ _ _ _ _, by simp, by simp; intro _ _ _ h _ _; exact h⟩
    refine ⟨hk.1, ?_, ?_, ?_, ?_, ?_⟩
    · intro id0 c0 h
      simp only [lp_erase] at h
      split at h
      · cases h
      · rename_i hne
        rcases h2.c1 id0 c0 h with h1 | h1 | h1
        · exact Or.inl h1
        · exact Or.inr (Or.inl h1)
        · rw [hcur] at h1; simp at h1
          rcases h1 with h1 | h1
          · exact absurd h1 hne
          · exact absurd h1 (hk.2.1 id0)
    · intro x idx h
      have hne : idx ≠ id := by
        intro he; subst he; exact hset (reg_unwritten hi h)
      simp only [lp_erase, hne, if_false]; exact h2.c2 x idx h
    · intro id0 c0 v0 h; exact h2.s1 id0 c0 v0 (by rw [hcur]; exact List.mem_cons_of_mem _ h)
    · intro id0 c0 v0 h
      right; have := hk.2.2 id0 c0 v0 h; subst this
      simp [lp_erase]
    · intro id0 h hu
      refine h2.q1 id0 ?_ hu
      rcases h with h | h
      · left; rw [hcur]; simp only [curIds, List.flatMap_cons, List.mem_append]; right; exact h
      · right; exact h
  · -- store
    rename_i k hcur
    have hsh := h2.sh; rw [hcur] at hsh
    have hk : Shape k ∧ (∀ id' c v, Op.sendVal id' c v ∉ k) := by
      cases hsh with
      | salt bad mid seq => exact ⟨Shape.saltL _ _ _, by simp⟩
      | news mid seq => exact ⟨Shape.ack _ _, by simp⟩
    have hsub : ∀ id, id ∈ curIds k → id ∈ curIds s.cur := by
      intro id h; rw [hcur]; simp only [curIds, List.flatMap_cons, List.mem_append]; right; exact h
    split at h <;> simp only [Option.some.injEq] at h <;> subst h
    all_goals
      refine inv2_newcur h2 rfl rfl rfl hk.1 ?_ ?_ ?_
      · intro id h; rw [hcur] at h; simpa using h
      · intro id c v h; exact absurd h (hk.2 id c v)
      · intro id h; rcases h with h | h
        · exact Or.inl (hsub id h)
        · exact Or.inr h
  · -- lookupSalt
    rename_i bad k hcur
    have hsh := h2.sh; rw [hcur] at hsh
    obtain ⟨mid, seq, rfl⟩ : ∃ mid seq, k = [.ackIf mid seq] := by
      cases hsh with
      | saltL bad mid seq => exact ⟨mid, seq, rfl⟩
    have hset : ¬ Unwritten s bad := h2.q1 bad (Or.inl (mem_curIds (op := .lookupSalt bad) (by rw [hcur]; simp) (by simp [opIds])))
    split at h <;> simp only [Option.some.injEq] at h <;> subst h
    · rename_i c0 hl
      refine inv2_newcur h2 rfl rfl rfl (Shape.del _ _ _ _ _) ?_ ?_ ?_
      · intro id h; rw [hcur] at h; simp at h
      · intro id c v h
        simp at h; obtain ⟨rfl, rfl, rfl⟩ := h
        refine ⟨?_, Or.inl (by simp)⟩
        rcases h2.c1 id c hl with h1 | h1 | h1
        · exact absurd (reg_unwritten hi h1) hset
        · exact h1
        · rw [hcur] at h1; simp at h1
      · intro id h
        rcases h with h | h
        · left; rw [hcur]; simp [curIds, opIds] at h ⊢; exact h
        · exact Or.inr h
    · refine inv2_newcur h2 rfl rfl rfl (Shape.ack _ _) ?_ ?_ ?_
      · intro id h; rw [hcur] at h; simp at h
      · intro id c v h; simp at h
      · intro id h
        rcases h with h | h
        · simp [curIds, opIds] at h
        · exact Or.inr h
  · -- ackIf
    rename_i mid seq k hcur
    have hsh := h2.sh; rw [hcur] at hsh
    obtain rfl : k = [] := by cases hsh; rfl
    split at h <;> simp only [Option.some.injEq] at h <;> subst h
    · refine inv2_newcur h2 rfl rfl rfl (Shape.lock _) ?_ ?_ ?_
      · intro id h; rw [hcur] at h; simp at h
      · intro id c v h; simp at h
      · intro id h; simp [curIds, opIds] at h; exact Or.inr h
    · refine inv2_newcur h2 rfl rfl rfl Shape.nil ?_ ?_ ?_
      · intro id h; rw [hcur] at h; simp at h
      · intro id c v h; simp at h
      · intro id h; simp [curIds] at h; exact Or.inr h
  · -- ackLock
    rename_i mid k hcur
    have hsh := h2.sh; rw [hcur] at hsh
    obtain rfl : k = [] := by cases hsh; rfl
    split at h
    · simp only [Option.some.injEq] at h; subst h
      refine inv2_newcur h2 rfl rfl rfl (Shape.aid _) ?_ ?_ ?_
      · intro id h; rw [hcur] at h; simp at h
      · intro id c v h; simp at h
      · intro id h; simp [curIds, opIds] at h; exact Or.inr h
    · simp at h
  · -- ackId
    rename_i mid k hcur
    have hsh := h2.sh; rw [hcur] at hsh
    obtain rfl : k = [] := by cases hsh; rfl
    simp only [Option.some.injEq] at h; subst h
    obtain ⟨hgt, hm4⟩ := nextId_gt s.lastMsgID now hi.n1
    generalize nextId s.lastMsgID now = n at hgt hm4 ⊢
    refine ⟨Shape.wr _ _, ?_, h2.c2, ?_, ?_, ?_⟩
    · intro id c h
      rcases h2.c1 id c h with h1 | h1 | h1
      · exact Or.inl h1
      · exact Or.inr (Or.inl h1)
      · rw [hcur] at h1; simp at h1
    · intro id c v h; simp at h
    · intro id c v h; simp at h
    · intro id h hu
      have h' : id ∈ todoIds s.todo := by
        rcases h with h | h
        · simp [curIds, opIds] at h
        · exact h
      refine h2.q1 id (Or.inr h') ⟨hu.1, ?_⟩
      rcases hu.2 with hlt | hr
      · left; have : n < id := hlt; omega
      · exact Or.inr hr
  · -- ackWrite
    rename_i mid id k hcur
    have hsh := h2.sh; rw [hcur] at hsh
    obtain rfl : k = [] := by cases hsh; rfl
    split at h <;> simp only [Option.some.injEq] at h <;> subst h
    all_goals
      refine inv2_newcur h2 rfl rfl rfl Shape.unl ?_ ?_ ?_
      · intro id h; rw [hcur] at h; simp at h
      · intro id c v h; simp at h
      · intro id h; simp [curIds, opIds] at h; exact Or.inr h
  · -- ackUnlock
    rename_i k hcur
    have hsh := h2.sh; rw [hcur] at hsh
    obtain rfl : k = [] := by cases hsh; rfl
    simp only [Option.some.injEq] at h; subst h
    refine inv2_newcur h2 rfl rfl rfl Shape.nil ?_ ?_ ?_
    · intro id h; rw [hcur] at h; simp at h
    · intro id c v h; simp at h
    · intro id h; simp [curIds] at h; exact Or.inr h

theorem inv2_step {s s' : ISt} (hi : Inv s) (h2 : Inv2 s) : ∀ {e : IEv}, CausalEv s e → step s e = some s' → Inv2 s'
  | .cLock _, _, h => inv2_cLock h2 h
  | .cIdReg _ _, _, h => inv2_cIdReg hi h2 h
  | .cWrite _ _, _, h => inv2_cWrite hi h2 h
  | .cUnlock _, _, h => inv2_cUnlock h2 h
  | .cRecv _, _, h => inv2_cRecv h2 h
  | .lRead _ _ _, hc, h => inv2_lRead h2 hc h
  | .lStep _ _, _, h => inv2_lStep hi h2 h

theorem inv2_run : ∀ (es : List IEv) {s s' : ISt}, Inv s → Inv2 s → CausalRun s es → run s es = some s' → Inv s' ∧ Inv2 s'
  | [], s, s', hi, h2, _, h => by simp only [run, Option.some.injEq] at h; subst h; exact ⟨hi, h2⟩
  | e :: es, s, s', hi, h2, hc, h => by
    simp only [run] at h
    split at h
    · rename_i s1 hs
      exact inv2_run es (inv_step hi hs) (inv2_step hi h2 hc.1 hs) (hc.2 s1 hs) h
    · simp at h

end Mtv.Impl
