/-
  Helper lemmas for C04: the TL reader case by case, what an accepted packet must look like,
  absence of panics on the repaired receive path, the D3 witnesses on the model of the code as found.
-/
import Mtv.Lemmas.C03
namespace Mtv.Envelope
open Mtv

/-! ### the TL reader, case by case -/

theorem Rd.raw_bad (r : Bytes) (n : Int) : (Rd.mk r true).raw n = ([], ⟨r, true⟩) := by
  simp [Rd.raw]

theorem Rd.raw_refuse (r : Bytes) (n : Int) (h : n < 0 ∨ (r.length : Int) < n) :
    (Rd.mk r false).raw n = ([], ⟨r, true⟩) := by
  simp [Rd.raw, h]

theorem Rd.raw_empty (n : Int) : ((Rd.mk [] false).raw n).1 = [] := by
  simp only [Rd.raw]; split <;> (try split) <;> simp

theorem Rd.raw_ok (r : Bytes) (n : Int) (h0 : 0 ≤ n) (h1 : n ≤ (r.length : Int)) (hne : r.length ≠ 0) :
    (Rd.mk r false).raw n = (r.take n.toNat, ⟨r.drop n.toNat, false⟩) := by
  have h : ¬ (n < 0 ∨ (r.length : Int) < n) := by omega
  simp [Rd.raw, h, hne]

theorem Rd.word_bad (r : Bytes) (k : Nat) : (Rd.mk r true).word k = (0, ⟨r, true⟩) := by
  simp [Rd.word]

theorem Rd.word_short (r : Bytes) (k : Nat) (h : r.length < k) : (Rd.mk r false).word k = (0, ⟨r, true⟩) := by
  simp [Rd.word, h]

theorem Rd.word_ok (r : Bytes) (k : Nat) (h : k ≤ r.length) :
    (Rd.mk r false).word k = (fromLE (r.take k), ⟨r.drop k, false⟩) := by
  have : ¬ r.length < k := by omega
  simp [Rd.word, this]

/-- what the three pops of the outer packet deliver, as functions of the packet -/
theorem outer_pops (data : Bytes) :
    ((Rd.mk data false).raw 8).1 = (if 8 ≤ data.length then data.take 8 else []) ∧
    (((Rd.mk data false).raw 8).2.raw 16).1 = (if 24 ≤ data.length then (data.drop 8).take 16 else []) ∧
    ((((Rd.mk data false).raw 8).2.raw 16).2.raw ((data.length : Int) - 24)).1 = data.drop 24 := by
  by_cases h8 : 8 ≤ data.length
  · rw [Rd.raw_ok data 8 (by omega) (by omega) (by omega)]
    simp only [h8, if_true]
    have e8 : (8 : Int).toNat = 8 := rfl
    rw [e8]
    by_cases h24 : 24 ≤ data.length
    · have hl : (data.drop 8).length = data.length - 8 := by simp
      rw [Rd.raw_ok (data.drop 8) 16 (by omega) (by rw [hl]; omega) (by rw [hl]; omega)]
      have e16 : (16 : Int).toNat = 16 := rfl
      simp only [h24, if_true, true_and, e16, List.drop_drop]
      by_cases h25 : data.length = 24
      · have : data.drop (8 + 16) = [] := List.drop_of_length_le (by omega)
        rw [this, Rd.raw_empty]
      · have hl2 : (data.drop (8 + 16)).length = data.length - 24 := by simp
        rw [Rd.raw_ok _ _ (by omega) (by rw [hl2]; omega) (by rw [hl2]; omega)]
        have : ((data.length : Int) - 24).toNat = data.length - 24 := by omega
        simp only [this]
        exact List.take_of_length_le (by rw [hl2]; omega)
    · have hl : (data.drop 8).length = data.length - 8 := by simp
      rw [Rd.raw_refuse (data.drop 8) 16 (by rw [hl]; omega)]
      simp only [h24, if_false, true_and, Rd.raw_bad]
      exact (List.drop_of_length_le (by omega)).symm
  · rw [Rd.raw_refuse data 8 (by omega)]
    have h24 : ¬ 24 ≤ data.length := by omega
    simp only [h8, h24, if_false, true_and, Rd.raw_bad]
    exact (List.drop_of_length_le (by omega)).symm

/-- the five pops of the inner header when the decrypted data holds a whole header -/
theorem inner_pops (dec : Bytes) (h : 32 ≤ dec.length) :
    ((Rd.mk dec false).word 8).1 = fromLE (Spec.substr dec 0 8) ∧
    (((Rd.mk dec false).word 8).2.word 8).1 = fromLE (Spec.substr dec 8 8) ∧
    ((((Rd.mk dec false).word 8).2.word 8).2.word 8).1 = fromLE (Spec.substr dec 16 8) ∧
    (((((Rd.mk dec false).word 8).2.word 8).2.word 8).2.word 4).1 = fromLE (Spec.substr dec 24 4) ∧
    ((((((Rd.mk dec false).word 8).2.word 8).2.word 8).2.word 4).2.word 4).1 = fromLE (Spec.substr dec 28 4) ∧
    ((((((Rd.mk dec false).word 8).2.word 8).2.word 8).2.word 4).2.word 4).2 = ⟨dec.drop 32, false⟩ := by
  rw [Rd.word_ok dec 8 (by omega)]
  simp only []
  rw [Rd.word_ok (dec.drop 8) 8 (by simp; omega)]
  simp only [List.drop_drop]
  rw [Rd.word_ok (dec.drop (8 + 8)) 8 (by simp; omega)]
  simp only [List.drop_drop]
  rw [Rd.word_ok (dec.drop (8 + 8 + 8)) 4 (by simp; omega)]
  simp only [List.drop_drop]
  rw [Rd.word_ok (dec.drop (8 + 8 + 8 + 4)) 4 (by simp; omega)]
  simp [Spec.substr, List.drop_drop]

/-- … and when it does not: the failed pops yield 0, in particular the declared length -/
theorem inner_pops_short (dec : Bytes) (h : dec.length < 32) :
    ((((((Rd.mk dec false).word 8).2.word 8).2.word 8).2.word 4).2.word 4).1 = 0 := by
  by_cases h1 : 8 ≤ dec.length
  · rw [Rd.word_ok dec 8 h1]
    by_cases h2 : 16 ≤ dec.length
    · rw [Rd.word_ok (dec.drop 8) 8 (by simp; omega)]
      simp only [List.drop_drop]
      by_cases h3 : 24 ≤ dec.length
      · rw [Rd.word_ok (dec.drop (8 + 8)) 8 (by simp; omega)]
        simp only [List.drop_drop]
        by_cases h4 : 28 ≤ dec.length
        · rw [Rd.word_ok (dec.drop (8 + 8 + 8)) 4 (by simp; omega)]
          simp only [List.drop_drop]
          rw [Rd.word_short _ 4 (by simp; omega)]
        · rw [Rd.word_short _ 4 (by simp; omega)]; simp [Rd.word_bad]
      · rw [Rd.word_short _ 8 (by simp; omega)]; simp [Rd.word_bad]
    · rw [Rd.word_short _ 8 (by simp; omega)]; simp [Rd.word_bad]
  · rw [Rd.word_short _ 8 (by omega)]; simp [Rd.word_bad]

/-- the facts behind an accepted packet -/
structure Accepted (P : Prims) (key data : Bytes) (m : Msg) (dec : Bytes) : Prop where
  len40 : 40 ≤ data.length
  keyid : data.take 8 = authKeyId P key
  keylen : 136 ≤ key.length
  aligned : (data.drop 24).length % 16 = 0
  dec_eq : dec = P.igeD (Spec.keyIv P 8 key ((data.drop 8).take 16)).1
                   (Spec.keyIv P 8 key ((data.drop 8).take 16)).2 (data.drop 24)
  inside : 32 + m.body.length ≤ dec.length
  len31 : m.body.length < 2 ^ 31
  declared : fromLE (Spec.substr dec 28 4) = m.body.length
  salt : m.salt = fromLE (Spec.substr dec 0 8)
  sid : m.sid = fromLE (Spec.substr dec 8 8)
  mid : m.mid = fromLE (Spec.substr dec 16 8)
  seq : m.seq = fromLE (Spec.substr dec 24 4)
  body : m.body = Spec.substr dec 32 m.body.length
  parity : serverParity m.mid
  msgkey : slice (P.H (dec.take (32 + m.body.length))) 4 20 = (data.drop 8).take 16

theorem toSigned32_nonneg (n : Nat) (hn : n < 2 ^ 32) (h : 0 ≤ toSigned 32 n) :
    n < 2 ^ 31 ∧ toSigned 32 n = (n : Int) := by
  unfold toSigned at h ⊢
  by_cases hlt : n < 2 ^ (32 - 1)
  · simp only [hlt, if_true] at h ⊢
    exact ⟨by simpa using hlt, trivial⟩
  · simp only [hlt, if_false] at h
    exfalso
    have : ((2 ^ 32 : Nat) : Int) = 4294967296 := by decide
    have h2 : (2 : Nat) ^ 32 = 4294967296 := by decide
    omega

theorem openClient_ok_elim {P : Prims} (hP : P.Ok) (key data : Bytes) (m : Msg)
    (h : openClient P key data = .ok m) :
    ∃ dec, Accepted P key data m dec := by
  unfold openClient openClientG at h
  obtain ⟨o1, o2, o3⟩ := outer_pops data
  simp only [] at h
  rw [o1, o2, o3] at h
  have hkid := authKeyId_length hP key
  by_cases hid' : (if 8 ≤ data.length then data.take 8 else []) = authKeyId P key
  case neg => rw [if_pos hid'] at h; cases h
  case pos =>
    rw [if_neg (fun hne => hne hid')] at h
    have h8 : 8 ≤ data.length := by
      by_cases h8 : 8 ≤ data.length
      · exact h8
      · simp only [h8, if_false] at hid'
        rw [← hid'] at hkid; simp at hkid
    simp only [h8, if_true] at hid'
    -- the key must be long enough, else generateAESIGE panics
    by_cases hk : 136 ≤ key.length
    · unfold decrypt at h
      rw [kdfG_eq_spec P 8 _ key (by omega)] at h
      simp only [] at h
      -- the ciphertext must be whole blocks
      cases hchk : igeCheck (data.drop 24) with
      | some e => simp [hchk] at h
      | none =>
        simp only [hchk] at h
        have hct : 16 ≤ (data.drop 24).length ∧ (data.drop 24).length % 16 = 0 := by
          unfold igeCheck at hchk
          split at hchk
          · cases hchk
          · split at hchk
            · cases hchk
            · omega
        have hdl : (data.drop 24).length = data.length - 24 := by simp
        have h40 : 40 ≤ data.length := by omega
        have h24 : 24 ≤ data.length := by omega
        simp only [h24, if_true] at h
        unfold openInner at h
        simp only [] at h
        generalize hdec : P.igeD (Spec.keyIv P 8 key ((data.drop 8).take 16)).1
          (Spec.keyIv P 8 key ((data.drop 8).take 16)).2 (data.drop 24) = dec at h
        refine ⟨dec, ?_⟩
        -- the guard: the declared length is inside the decrypted data
        split at h
        · cases h
        · rename_i hg
          by_cases h32 : 32 ≤ dec.length
          · obtain ⟨i1, i2, i3, i4, i5, i6⟩ := inner_pops dec h32
            rw [i1, i2, i3, i4, i5, i6] at h
            rw [i5] at hg
            have hg' : ¬ (toSigned 32 (fromLE (Spec.substr dec 28 4)) < 0 ∨
                (dec.length : Int) - 32 < toSigned 32 (fromLE (Spec.substr dec 28 4))) := by
              simpa [guardRefuses] using hg
            have hlt : fromLE (Spec.substr dec 28 4) < 2 ^ 32 := by
              have := fromLE_lt (Spec.substr dec 28 4)
              rw [substr_length dec 28 4 (by omega)] at this
              simpa using this
            obtain ⟨hl31, hsg⟩ := toSigned32_nonneg _ hlt (by omega)
            rw [hsg] at hg' h
            split at h
            · cases h
            · rename_i hpar
              simp only [sliceHi] at h
              have hc : ¬ (32 + (fromLE (Spec.substr dec 28 4) : Int) < 0 ∨
                  (dec.length : Int) < 32 + (fromLE (Spec.substr dec 28 4) : Int)) := by omega
              simp only [hc, if_false] at h
              by_cases hmk : slice (P.H (dec.take (32 + (fromLE (Spec.substr dec 28 4) : Int)).toNat)) 4 20
                      = (data.drop 8).take 16
              case neg => simp only [ne_eq, hmk, not_false_eq_true, if_true] at h; cases h
              case pos =>
                simp only [ne_eq, hmk, not_true_eq_false, if_false] at h
                · have hmk' := hmk
                  have htn : (32 + (fromLE (Spec.substr dec 28 4) : Int)).toNat
                      = 32 + fromLE (Spec.substr dec 28 4) := by omega
                  rw [htn] at hmk'
                  injection h with h
                  have hbodyraw : ((Rd.mk (dec.drop 32) false).raw (fromLE (Spec.substr dec 28 4) : Int)).1
                      = Spec.substr dec 32 (fromLE (Spec.substr dec 28 4)) := by
                    by_cases he : (dec.drop 32).length = 0
                    · have hnil : dec.drop 32 = [] := List.eq_nil_of_length_eq_zero he
                      rw [hnil, Rd.raw_empty]; simp [Spec.substr, hnil]
                    · rw [Rd.raw_ok _ _ (by omega) (by simp; omega) he]
                      simp [Spec.substr]
                  rw [hbodyraw] at h
                  have hbl : m.body.length = fromLE (Spec.substr dec 28 4) := by
                    rw [← h]; simp only []
                    exact substr_length dec 32 _ (by omega)
                  have hin : 32 + fromLE (Spec.substr dec 28 4) ≤ dec.length := by omega
                  rw [← hbl] at hmk' hl31 hg'
                  exact {
                    len40 := h40, keyid := hid', keylen := hk, aligned := hct.2, dec_eq := hdec.symm,
                    inside := by omega, len31 := hl31, declared := hbl.symm,
                    salt := by rw [← h], sid := by rw [← h], mid := by rw [← h], seq := by rw [← h],
                    body := by rw [← h]; simp only []; rw [substr_length dec 32 _ hin],
                    parity := by rw [← h]; simp only [serverParity]; omega,
                    msgkey := hmk' }
          · -- fewer than 32 decrypted bytes: the length pop fails, declares 0, the guard refuses
            exfalso
            rw [inner_pops_short dec (by omega)] at hg
            have : toSigned 32 0 = 0 := by decide
            simp only [guardRefuses, this] at hg
            apply hg
            simp only [decide_eq_true_eq]
            omega
    · exfalso
      unfold decrypt at h
      rw [kdfG_short P 8 _ key (by omega)] at h
      cases h

/-! ### no panic on the repaired receive path -/

/-- the second half never panics with the repaired guard -/
theorem openInner_fixed_no_panic (P : Prims) (mk dec : Bytes) :
    (openInner .fixed P mk dec).isPanic = false := by
  unfold openInner
  simp only []
  generalize toSigned 32 _ = mlen
  by_cases hg : guardRefuses .fixed dec.length mlen = true
  · simp only [hg, if_true]; rfl
  · simp only [hg, Bool.false_eq_true, if_false]
    split
    · rfl
    · have hg' : ¬ (mlen < 0 ∨ (dec.length : Int) - 32 < mlen) := by
        simpa [guardRefuses] using hg
      have hc : ¬ (sliceHi .fixed mlen < 0 ∨ (dec.length : Int) < sliceHi .fixed mlen) := by
        simp only [sliceHi]; omega
      simp only [hc, if_false]
      split <;> rfl

/-- for EVERY auth key — also none at all (before the key exchange has finished) or a damaged one: a key the
derivation cannot work with is refused by `checkAuthKey` (`kdfG_short`), never reaching `generateAESIGE` -/
theorem openClientG_fixed_no_panic (P : Prims) (key data : Bytes) :
    (openClientG .fixed P key data).isPanic = false := by
  unfold openClientG
  simp only []
  split
  · rfl
  · unfold decrypt
    by_cases hk : 136 ≤ key.length
    · rw [kdfG_eq_spec P 8 _ key (by omega)]
      simp only []
      cases igeCheck _ with
      | some e => rfl
      | none => exact openInner_fixed_no_panic P _ _
    · rw [kdfG_short P 8 _ key (by omega)]
      rfl


/-! ### D3: the receive path as found -/

/-- D3 witness plaintext (32 bytes): salt 0, session 0, msg_id 1, seq_no 0, declared length −100 -/
def d3Plain : Bytes := leBytes 0 8 ++ leBytes 0 8 ++ leBytes 1 8 ++ leBytes 0 4 ++ leBytes (2 ^ 32 - 100) 4

/-- the same with declared length −1 -/
def d3PlainNeg1 : Bytes := leBytes 0 8 ++ leBytes 0 8 ++ leBytes 1 8 ++ leBytes 0 4 ++ leBytes (2 ^ 32 - 1) 4

/-- with the guard as found, a decrypted header declaring −100 bytes reaches the slice expression
`decrypted[0:32+messageLen]` with a negative bound: panic, before the msg_key is looked at -/
theorem openInner_orig_panics (P : Prims) (mk : Bytes) : openInner .orig P mk d3Plain = .panic siteOpen := by
  obtain ⟨i1, i2, i3, i4, i5, i6⟩ := inner_pops d3Plain (by decide)
  have v3 : fromLE (Spec.substr d3Plain 16 8) = 1 := by decide
  have v5 : fromLE (Spec.substr d3Plain 28 4) = 2 ^ 32 - 100 := by decide
  have hs : toSigned 32 (2 ^ 32 - 100) = -100 := by decide
  have hg : guardRefuses .orig d3Plain.length (-100) = false := by decide
  have hh : sliceHi .orig (-100) < 0 ∨ (d3Plain.length : Int) < sliceHi .orig (-100) := by decide
  unfold openInner
  simp only [i3, i5, v3, v5, hs, hg, hh, Bool.false_eq_true, if_false, if_true]
  decide

/-- with the guard as found, a declared length of −1 with the msg_key taken over the first 31 bytes
is *accepted* (empty body): a message whose declared length lies outside the decrypted data -/
theorem openInner_orig_neg1 (P : Prims) :
    openInner .orig P (slice (P.H (d3PlainNeg1.take 31)) 4 20) d3PlainNeg1 = .ok ⟨0, 0, 1, 0, []⟩ := by
  obtain ⟨i1, i2, i3, i4, i5, i6⟩ := inner_pops d3PlainNeg1 (by decide)
  have v1 : fromLE (Spec.substr d3PlainNeg1 0 8) = 0 := by decide
  have v2 : fromLE (Spec.substr d3PlainNeg1 8 8) = 0 := by decide
  have v3 : fromLE (Spec.substr d3PlainNeg1 16 8) = 1 := by decide
  have v4 : fromLE (Spec.substr d3PlainNeg1 24 4) = 0 := by decide
  have v5 : fromLE (Spec.substr d3PlainNeg1 28 4) = 2 ^ 32 - 1 := by decide
  have hs : toSigned 32 (2 ^ 32 - 1) = -1 := by decide
  have hg : guardRefuses .orig d3PlainNeg1.length (-1) = false := by decide
  have hh : ¬ (sliceHi .orig (-1) < 0 ∨ (d3PlainNeg1.length : Int) < sliceHi .orig (-1)) := by decide
  have ht : (sliceHi .orig (-1)).toNat = 31 := by decide
  have hb : ((Rd.mk (d3PlainNeg1.drop 32) false).raw (-1)).1 = [] := by decide
  unfold openInner
  simp only [i1, i2, i3, i4, i5, i6, v1, v2, v3, v4, v5, hs, hg, hh, ht, hb, Bool.false_eq_true, if_false,
    ne_eq, not_true_eq_false]
  decide

/-! ### an accepted packet is a sealing -/

/-- an accepted packet's decrypted data is the plaintext of the accepted message plus padding -/
theorem accepted_plaintext {P : Prims} {key data : Bytes} {m : Msg} {dec : Bytes}
    (a : Accepted P key data m dec) :
    Spec.plaintext m ++ dec.drop (32 + m.body.length) = dec := by
  have hin := a.inside
  have l (off n : Nat) (h : off + n ≤ dec.length) : leBytes (fromLE (Spec.substr dec off n)) n = Spec.substr dec off n := by
    have := leBytes_fromLE (Spec.substr dec off n)
    rwa [substr_length dec off n h] at this
  have s0 := drop_eq_take_append_drop dec 0 8
  have s1 := drop_eq_take_append_drop dec 8 8
  have s2 := drop_eq_take_append_drop dec 16 8
  have s3 := drop_eq_take_append_drop dec 24 4
  have s4 := drop_eq_take_append_drop dec 28 4
  have s5 := drop_eq_take_append_drop dec 32 m.body.length
  rw [plaintext_append, a.salt, a.sid, a.mid, a.seq, ← a.declared, l 0 8 (by omega), l 8 8 (by omega),
    l 16 8 (by omega), l 24 4 (by omega), l 28 4 (by omega), a.declared]
  rw [← a.body] at s5
  simp only [List.drop_zero, Nat.zero_add, Nat.reduceAdd] at s0 s1 s2 s3 s4
  rw [← s5, ← s4, ← s3, ← s2, ← s1, ← s0]

theorem accepted_wf {P : Prims} {key data : Bytes} {m : Msg} {dec : Bytes}
    (a : Accepted P key data m dec) : m.WF := by
  have hin := a.inside
  have b (off n : Nat) (h : off + n ≤ dec.length) : fromLE (Spec.substr dec off n) < 256 ^ n := by
    have := fromLE_lt (Spec.substr dec off n)
    rwa [substr_length dec off n h] at this
  refine ⟨?_, ?_, ?_, ?_, a.len31⟩
  · rw [a.salt]; simpa using b 0 8 (by omega)
  · rw [a.sid]; simpa using b 8 8 (by omega)
  · rw [a.mid]; simpa using b 16 8 (by omega)
  · rw [a.seq]; simpa using b 24 4 (by omega)

/-- an accepted packet is the server-direction sealing of the accepted message -/
theorem accepted_sealing {P : Prims} (hP : P.Ok) {key data : Bytes} {m : Msg} {dec : Bytes}
    (a : Accepted P key data m dec) :
    data = Spec.serverSeal P key m (dec.drop (32 + m.body.length)) ∧
    (32 + m.body.length + (dec.drop (32 + m.body.length)).length) % 16 = 0 := by
  have hrec := accepted_plaintext a
  have hin := a.inside
  have hkv := keyIv_length hP 8 key ((data.drop 8).take 16)
  have hdl : (data.drop 24).length = data.length - 24 := by simp
  have h40 := a.len40
  have hpos : 0 < (data.drop 24).length := by omega
  have hdeclen : dec.length = (data.drop 24).length := by
    rw [a.dec_eq]; exact hP.igeD_len _ _ _ hkv.1 hkv.2 hpos a.aligned
  have hED := hP.igeE_igeD _ _ (data.drop 24) hkv.1 hkv.2 hpos a.aligned
  rw [← a.dec_eq] at hED
  have htake : dec.take (32 + m.body.length) = Spec.plaintext m := by
    conv => lhs; rw [← hrec]
    exact List.take_left' (plaintext_length m)
  have hmk : Spec.msgKeyOf P (Spec.plaintext m) = (data.drop 8).take 16 := by
    rw [← msgKey_eq_spec, msgKey, ← htake]; exact a.msgkey
  refine ⟨?_, ?_⟩
  · unfold Spec.serverSeal Spec.sealDir
    simp only [hmk, hrec, hED, ← authKeyId_eq_spec, ← a.keyid]
    have s0 := drop_eq_take_append_drop data 8 16
    simp only [Spec.substr] at s0
    rw [List.append_assoc, ← s0, List.take_append_drop]
  · simp only [List.length_drop]
    have : 32 + m.body.length + (dec.length - (32 + m.body.length)) = dec.length := by omega
    rw [this, hdeclen]; exact a.aligned

end Mtv.Envelope
