/-
  Lemmas for C18: the modular arithmetic of SRP. Client `t^(a+u·x)` and server `(A·v^u)^b` are the
  same residue modulo ANY modulus p > 0 (p need not be prime, g need not generate anything).
-/
import Mathlib.Data.Nat.ModEq
import Mtv.Srp.Client
namespace Mtv.Srp

/-- The code's `t` is `g^b` modulo p whenever `B = (k·v + g^b mod p) mod p`: the subtraction of
`kv = k·v mod p` with one conditional add of p undoes the server's addition. -/
theorem tValue_modEq (p k v gb : Nat) (hp : 0 < p) :
    tValue ((k * v + gb % p) % p) (k * v % p) p ≡ gb [MOD p] := by
  have hB : (k * v + gb % p) % p < p := Nat.mod_lt _ hp
  have hkv : k * v % p < p := Nat.mod_lt _ hp
  have hsum : tValue ((k * v + gb % p) % p) (k * v % p) p + k * v % p ≡ gb + k * v % p [MOD p] := by
    have h1 : tValue ((k * v + gb % p) % p) (k * v % p) p + k * v % p ≡ (k * v + gb % p) % p [MOD p] := by
      unfold tValue
      by_cases hlt : (k * v + gb % p) % p < k * v % p
      · simp only [hlt, if_true]
        have : (k * v + gb % p) % p + p - k * v % p + k * v % p = (k * v + gb % p) % p + p := by omega
        rw [this]
        show ((k * v + gb % p) % p + p) % p = ((k * v + gb % p) % p) % p
        rw [Nat.add_mod_right]
      · simp only [hlt, if_false]
        have : (k * v + gb % p) % p - k * v % p + k * v % p = (k * v + gb % p) % p := by omega
        rw [this]
    have h2 : (k * v + gb % p) % p ≡ gb + k * v % p [MOD p] := by
      unfold Nat.ModEq
      rw [Nat.mod_mod, Nat.add_comm (k * v), Nat.add_mod, Nat.mod_mod, ← Nat.add_mod (gb)]
      rw [Nat.add_mod gb (k * v % p), Nat.mod_mod, ← Nat.add_mod]
    exact h1.trans h2
  exact Nat.ModEq.add_right_cancel' _ hsum

/-- **SRP agreement**: with `v = g^x mod p`, `A = g^a mod p`, `B = (k·v + g^b mod p) mod p` the
client's `S = t^(u·x+a) mod p` equals the server's `S' = (A·(v^u mod p))^b mod p`, for every
modulus p > 0 and all g, k, u, x, a, b. -/
theorem srp_secret_agree (p g k u x a b : Nat) (hp : 0 < p) :
    (tValue ((k * (g ^ x % p) + g ^ b % p) % p) (k * (g ^ x % p) % p) p) ^ (u * x + a) % p
      = ((g ^ a % p) * ((g ^ x % p) ^ u % p)) ^ b % p := by
  have ht := tValue_modEq p k (g ^ x % p) (g ^ b) hp
  have h1 : (tValue ((k * (g ^ x % p) + g ^ b % p) % p) (k * (g ^ x % p) % p) p) ^ (u * x + a)
      ≡ (g ^ b) ^ (u * x + a) [MOD p] := ht.pow _
  have hA : g ^ a % p ≡ g ^ a [MOD p] := Nat.mod_modEq _ _
  have hv : (g ^ x % p) ^ u % p ≡ (g ^ x) ^ u [MOD p] :=
    (Nat.mod_modEq _ _).trans ((Nat.mod_modEq _ _).pow u)
  have h2 : ((g ^ a % p) * ((g ^ x % p) ^ u % p)) ^ b ≡ (g ^ a * (g ^ x) ^ u) ^ b [MOD p] :=
    (hA.mul hv).pow b
  have h3 : (g ^ a * (g ^ x) ^ u) ^ b = (g ^ b) ^ (u * x + a) := by
    rw [← Nat.pow_mul, ← Nat.pow_add, ← Nat.pow_mul, ← Nat.pow_mul]
    congr 1
    rw [Nat.mul_comm x u, Nat.add_comm, Nat.mul_comm]
  rw [h3] at h2
  exact h1.trans h2.symm

end Mtv.Srp
