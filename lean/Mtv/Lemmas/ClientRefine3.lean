/-
  Part 3: forward simulation — every step of the goroutine-level model (Mtv/Client/Impl.lean) is, seen from
  outside, the list of events `evOf` of the event-level machine (Mtv/Client/Machine.lean), enabled in the
  related specification state; other steps stutter. `Sim s g` is the simulation relation.
-/
import Mtv.Lemmas.ClientRefine2
namespace Mtv.Impl
open Mtv.Client

def delivOf (cur : List Op) : List (Nat × Nat × String) :=
  cur.filterMap fun
    | .sendVal id c (.ret v) => some (c, id, v)
    | _ => none

def ackOf (cur : List Op) : List Nat :=
  cur.filterMap fun
    | .ackIf mid seq => if seq % 2 = 1 then some mid else none
    | .ackLock mid => some mid
    | .ackId mid => some mid
    | .ackWrite mid _ => some mid
    | _ => none

def storeOf (cur : List Op) (salt : Int) : List Int :=
  cur.filterMap fun
    | .store => some salt
    | _ => none

/-- the caller is repeating a request the server rejected -/
def retrying : CPc → Bool
  | .again => true
  | .locked true => true
  | .reg _ true => true
  | _ => false

/-- registered, not yet written -/
def InWin (s : ISt) (id : Nat) : Prop := ∃ c, regOf (s.cs c) = some id

/-- the simulation relation: `g` is what an observer of the wire, the callers and the store knows.
`pending` of the specification = the map without the entries the implementation has registered but not yet
written (`InWin`) and without those the loop is in the middle of handling (`curIds`); what the specification
owes = what the rest of the loop's current message (`cur`) will do. -/
structure Sim (s : ISt) (g : St) : Prop where
  pA : ∀ id, (InWin s id ∨ id ∈ curIds s.cur) → lookupPending g.pending id = none
  pB : ∀ id, ¬ InWin s id → id ∉ curIds s.cur → lookupPending g.pending id = lookupPending s.chans id
  p1 : ∀ e ∈ g.pending, flightOf (s.cs e.2) = some e.1
  d1 : g.owedDeliver = delivOf s.cur
  a1 : g.owedAck = ackOf s.cur
  o1 : g.owedStore = storeOf s.cur s.salt
  r1 : ∀ c, retrying (s.cs c) = true → c ∈ g.owedResend
  r2 : ∀ id c, Op.sendVal id c .retry ∈ s.cur → c ∈ g.owedResend
  r3 : ∀ bad c, Op.lookupSalt bad ∈ s.cur → lookupPending s.chans bad = some c → c ∈ g.owedResend
  l1 : g.lastId ≤ s.lastMsgID
  l1r : ∀ c id, regOf (s.cs c) = some id → g.lastId < id
  l1a : ∀ mid id k, s.cur = .ackWrite mid id :: k → g.lastId < id
  l2 : g.lastSeq ≤ s.seqNo
  l3 : g.salt = s.salt
  hw : g.wire = s.wire.map (fun e => (e.1, e.2.1))
  hs : g.stored = s.stored

theorem sim_init : Sim {} {} := by
  constructor <;> simp [lookupPending, delivOf, ackOf, storeOf, retrying, regOf, curIds]

theorem lp_isSome_of_mem {p : List (Nat × Nat)} {id c : Nat} (h : (id, c) ∈ p) : ∃ c', lookupPending p id = some c' := by
  induction p with
  | nil => cases h
  | cons e p ih =>
    obtain ⟨k, c0⟩ := e
    rw [lp_cons]
    by_cases hk : k = id
    · exact ⟨c0, by simp [hk]⟩
    · simp only [hk, if_false]
      simp only [List.mem_cons, Prod.mk.injEq] at h
      rcases h with ⟨h1, _⟩ | h
      · exact absurd h1.symm hk
      · exact ih h

theorem sim_relabel {s s' : ISt} {g : St} (hm : Sim s g) (hch : s'.chans = s.chans) (hcur : s'.cur = s.cur)
    (hl : s'.lastMsgID = s.lastMsgID) (hq : s'.seqNo = s.seqNo) (hsalt : s'.salt = s.salt) (hw : s'.wire = s.wire)
    (hst : s'.stored = s.stored)
    (hr : ∀ x, regOf (s'.cs x) = regOf (s.cs x)) (hf : ∀ x, flightOf (s'.cs x) = flightOf (s.cs x))
    (ht : ∀ x, retrying (s'.cs x) = retrying (s.cs x)) : Sim s' g := by
  have hwin : ∀ id, InWin s' id ↔ InWin s id := by
    intro id; constructor
    · intro ⟨c, hc⟩; exact ⟨c, by rw [← hr]; exact hc⟩
    · intro ⟨c, hc⟩; exact ⟨c, by rw [hr]; exact hc⟩
  refine ⟨?_, ?_, ?_, ?_, ?_, ?_, ?_, ?_, ?_, ?_, ?_, ?_, ?_, ?_, ?_, ?_⟩
  · intro id h; rw [hwin, hcur] at h; exact hm.pA id h
  · intro id h1 h2; rw [hwin] at h1; rw [hcur] at h2; rw [hch]; exact hm.pB id h1 h2
  · intro e he; rw [hf]; exact hm.p1 e he
  · rw [hcur]; exact hm.d1
  · rw [hcur]; exact hm.a1
  · rw [hcur, hsalt]; exact hm.o1
  · intro c h; rw [ht] at h; exact hm.r1 c h
  · intro id c h; rw [hcur] at h; exact hm.r2 id c h
  · intro bad c h1 h2; rw [hcur] at h1; rw [hch] at h2; exact hm.r3 bad c h1 h2
  · rw [hl]; exact hm.l1
  · intro c id h; rw [hr] at h; exact hm.l1r c id h
  · intro mid id k h; rw [hcur] at h; exact hm.l1a mid id k h
  · rw [hq]; exact hm.l2
  · rw [hsalt]; exact hm.l3
  · rw [hw]; exact hm.hw
  · rw [hst]; exact hm.hs

theorem sim_cLock {s s' : ISt} {g : St} (hm : Sim s g) {c : Nat} (h : step s (.cLock c) = some s') : Sim s' g := by
  obtain ⟨_, r, hc, rfl⟩ := step_cLock h
  refine sim_relabel hm rfl rfl rfl rfl rfl rfl rfl ?_ ?_ ?_ <;> intro x <;> by_cases hx : x = c
  · subst hx; cases r <;> simp [setC, hc, regOf]
  · simp [setC, hx]
  · subst hx; cases r <;> simp [setC, hc, flightOf]
  · simp [setC, hx]
  · subst hx; cases r <;> simp [setC, hc, retrying]
  · simp [setC, hx]

theorem sim_cUnlock {s s' : ISt} {g : St} (hm : Sim s g) {c : Nat} (h : step s (.cUnlock c) = some s') : Sim s' g := by
  rcases step_cUnlock h with ⟨id, hc, rfl⟩ | ⟨hc, rfl⟩
  · refine sim_relabel hm rfl rfl rfl rfl rfl rfl rfl ?_ ?_ ?_ <;> intro x <;> by_cases hx : x = c
    · subst hx; simp [setC, hc, regOf]
    · simp [setC, hx]
    · subst hx; simp [setC, hc, flightOf]
    · simp [setC, hx]
    · subst hx; simp [setC, hc, retrying]
    · simp [setC, hx]
  · refine sim_relabel hm rfl rfl rfl rfl rfl rfl rfl ?_ ?_ ?_ <;> intro x <;> by_cases hx : x = c
    · subst hx; simp [setC, hc, regOf]
    · simp [setC, hx]
    · subst hx; simp [setC, hc, flightOf]
    · simp [setC, hx]
    · subst hx; simp [setC, hc, retrying]
    · simp [setC, hx]

theorem sim_cIdReg {s s' : ISt} {g : St} (hi : Inv s) (h2 : Inv2 s) (hm : Sim s g) {c now : Nat}
    (h : step s (.cIdReg c now) = some s') : Sim s' g := by
  obtain ⟨r, hc, rfl⟩ := step_cIdReg h
  obtain ⟨hgt, hm4⟩ := nextId_gt s.lastMsgID now hi.n1
  clear h
  generalize nextId s.lastMsgID now = n at hgt hm4 ⊢
  have hcr : regOf (s.cs c) = none := by rw [hc]; rfl
  have hcf : flightOf (s.cs c) = none := by rw [hc]; rfl
  have hnone : lookupPending s.chans n = none := lp_none_of_keys_lt hi.k1 hgt
  have hnotcur : n ∉ curIds s.cur := fun hn => h2.q1 n (Or.inl hn) ⟨hm4, Or.inl hgt⟩
  have hnotwin : ¬ InWin s n := by
    intro ⟨x, hx⟩
    have := hm.l1r x n hx
    have hu := reg_unwritten hi hx
    cases hxx : s.cs x with
    | reg id' r' =>
      rw [hxx] at hx; simp only [regOf, Option.some.injEq] at hx; subst hx
      have := (hi.w2 x id' r' hxx).1; omega
    | _ => rw [hxx] at hx; simp [regOf] at hx
  have hgn : lookupPending g.pending n = none := by rw [hm.pB n hnotwin hnotcur]; exact hnone
  have hwin : ∀ id, InWin { setC s c (.reg n r) with lastMsgID := n, chans := (n, c) :: s.chans } id ↔ (InWin s id ∨ id = n) := by
    intro id; constructor
    · intro ⟨x, hx⟩
      by_cases hxc : x = c
      · subst hxc; simp [setC, regOf] at hx; exact Or.inr hx.symm
      · left; exact ⟨x, by simpa [setC, hxc] using hx⟩
    · intro h
      rcases h with ⟨x, hx⟩ | rfl
      · have hxc : x ≠ c := by intro hxc; subst hxc; rw [hcr] at hx; cases hx
        exact ⟨x, by simpa [setC, hxc] using hx⟩
      · exact ⟨c, by simp [setC, regOf]⟩
  refine ⟨?_, ?_, ?_, hm.d1, hm.a1, hm.o1, ?_, hm.r2, ?_, ?_, ?_, ?_, hm.l2, hm.l3, hm.hw, hm.hs⟩
  · intro id h
    rw [hwin] at h
    rcases h with (h | rfl) | h
    · exact hm.pA id (Or.inl h)
    · exact hgn
    · exact hm.pA id (Or.inr h)
  · intro id h1 h2'
    rw [hwin] at h1
    have hne : n ≠ id := fun he => h1 (Or.inr he.symm)
    simp only [lp_cons, hne, if_false]
    exact hm.pB id (fun hw => h1 (Or.inl hw)) h2'
  · intro e he
    have := hm.p1 e he
    by_cases hec : e.2 = c
    · rw [hec, hcf] at this; cases this
    · simpa [setC, hec] using this
  · intro x hx
    by_cases hxc : x = c
    · subst hxc; simp only [setC, if_true] at hx
      cases r with
      | true => exact hm.r1 x (by rw [hc]; rfl)
      | false => simp [retrying] at hx
    · simp [setC, hxc] at hx; exact hm.r1 x hx
  · intro bad c0 hb hl
    have hne : n ≠ bad := by
      intro he; subst he
      exact hnotcur (mem_curIds hb (by simp [opIds]))
    simp only [lp_cons, hne, if_false] at hl
    exact hm.r3 bad c0 hb hl
  · have := hm.l1; show g.lastId ≤ n; omega
  · intro x id hx
    by_cases hxc : x = c
    · subst hxc; simp [setC, regOf] at hx; subst hx; have := hm.l1; omega
    · simp [setC, hxc] at hx; exact hm.l1r x id hx
  · exact hm.l1a

theorem mem_delivOf {cur : List Op} {e : Nat × Nat × String} (h : e ∈ delivOf cur) :
    Op.sendVal e.2.1 e.1 (.ret e.2.2) ∈ cur := by
  simp only [delivOf, List.mem_filterMap] at h
  obtain ⟨op, hop, he⟩ := h
  cases op with
  | sendVal id c v =>
    cases v with
    | ret v => simp only [Option.some.injEq] at he; subst he; exact hop
    | retry => cases he
  | _ => cases he

theorem shape_no_delete_with_lookup {cur : List Op} (h : Shape cur) {bad : Nat} (hb : Op.lookupSalt bad ∈ cur) :
    ∀ id, Op.delete id ∉ cur := by
  cases h <;> simp at hb <;> simp

/-- how one implementation step is seen by the specification -/
def Simulates (s : ISt) (e : IEv) (s' : ISt) (g : St) : Prop :=
  ∃ g', Mtv.Client.run g (evOf s e) = some g' ∧ Sim s' g'

theorem sim_cWrite {s s' : ISt} {g : St} (hi : Inv s) (h2 : Inv2 s) (hm : Sim s g) {c : Nat} {ok : Bool}
    (h : step s (.cWrite c ok) = some s') : Simulates s (.cWrite c ok) s' g := by
  obtain ⟨id, r, hc, rfl⟩ := step_cWrite h
  have hcr : regOf (s.cs c) = some id := by rw [hc]; rfl
  have hcf : flightOf (s.cs c) = none := by rw [hc]; rfl
  have hun : Unwritten s id := reg_unwritten hi hcr
  have hidlast : id = s.lastMsgID := (hi.w2 c id r hc).1
  have hothers : ∀ x, x ≠ c → regOf (s.cs x) = none := by
    intro x hx
    cases hrx : regOf (s.cs x) with
    | none => rfl
    | some id' => exact absurd (reg_unique hi hcr hrx) hx
  have hnotcur : id ∉ curIds s.cur := fun hn => h2.q1 id (Or.inl hn) hun
  have hwin_old : ∀ id', InWin s id' → id' = id := by
    intro id' ⟨x, hx⟩
    by_cases hxc : x = c
    · subst hxc; rw [hcr] at hx; simp only [Option.some.injEq] at hx; exact hx.symm
    · rw [hothers x hxc] at hx; cases hx
  cases ok with
  | false =>
    simp only [Bool.false_eq_true, if_false]
    refine ⟨g, by simp [evOf, Mtv.Client.run], ?_⟩
    have hwin : ∀ id', ¬ InWin { setC s c .failed with chans := erasePending s.chans id } id' := by
      intro id' ⟨x, hx⟩
      by_cases hxc : x = c
      · subst hxc; simp [setC, regOf] at hx
      · simp [setC, hxc] at hx; rw [hothers x hxc] at hx; cases hx
    refine ⟨?_, ?_, ?_, hm.d1, hm.a1, hm.o1, ?_, hm.r2, ?_, hm.l1, ?_, hm.l1a, hm.l2, hm.l3, hm.hw, hm.hs⟩
    · intro id' h
      rcases h with h | h
      · exact absurd h (hwin id')
      · exact hm.pA id' (Or.inr h)
    · intro id' _ hnc
      simp only [lp_erase]
      split
      · rename_i he; subst he; exact hm.pA id' (Or.inl ⟨c, hcr⟩)
      · rename_i hne
        exact hm.pB id' (fun hw => hne (hwin_old id' hw)) hnc
    · intro e he
      have := hm.p1 e he
      by_cases hec : e.2 = c
      · rw [hec, hcf] at this; cases this
      · simpa [setC, hec] using this
    · intro x hx
      by_cases hxc : x = c
      · subst hxc; simp [setC, retrying] at hx
      · simp [setC, hxc] at hx; exact hm.r1 x hx
    · intro bad c0 hb hl
      simp only [lp_erase] at hl
      split at hl
      · cases hl
      · exact hm.r3 bad c0 hb hl
    · intro x id' hx; exact absurd ⟨x, hx⟩ (hwin id')
  | true =>
    simp only [if_true]
    have hcond : id % 4 = 0 ∧ g.lastId < id ∧ orOne s.seqNo % 2 = 1 ∧ g.lastSeq ≤ orOne s.seqNo ∧ mayCall g c = true ∧
        (g.owedResend.contains c = true → s.salt = g.salt) := by
      refine ⟨hun.1, hm.l1r c id hcr, ?_, ?_, ?_, fun _ => hm.l3.symm⟩
      · rw [orOne_even hi.n2]; have := hi.n2; omega
      · rw [orOne_even hi.n2]; have := hm.l2; omega
      · simp only [mayCall, Bool.or_eq_true, Bool.and_eq_true, Bool.not_eq_true']
        cases r with
        | true => left; simpa using hm.r1 c (by rw [hc]; rfl)
        | false =>
          right; constructor
          · rw [List.any_eq_false]
            intro e he hec
            have := hm.p1 e he
            simp only [beq_iff_eq] at hec
            rw [hec, hcf] at this; cases this
          · rw [List.any_eq_false]
            intro e he hec
            simp only [beq_iff_eq] at hec
            rw [hm.d1] at he
            have := h2.s1 _ _ _ (mem_delivOf he)
            rw [hec, hcf] at this; cases this
    refine ⟨{ g with lastId := id, lastSeq := orOne s.seqNo, pending := (id, c) :: g.pending,
                     owedResend := g.owedResend.erase c, sent := (id, orOne s.seqNo, c) :: g.sent,
                     wire := (id, orOne s.seqNo) :: g.wire },
      by simp only [evOf, hc, Mtv.Client.run, Mtv.Client.step, if_pos hcond], ?_⟩
    have hwin : ∀ id', ¬ InWin { setC s c (.written id) with wire := (id, orOne s.seqNo, s.salt) :: s.wire, seqNo := s.seqNo + 2 } id' := by
      intro id' ⟨x, hx⟩
      by_cases hxc : x = c
      · subst hxc; simp [setC, regOf] at hx
      · simp [setC, hxc] at hx; rw [hothers x hxc] at hx; cases hx
    refine ⟨?_, ?_, ?_, hm.d1, hm.a1, hm.o1, ?_, ?_, ?_, ?_, ?_, ?_, ?_, hm.l3, ?_, hm.hs⟩
    · intro id' h
      rcases h with h | h
      · exact absurd h (hwin id')
      · have hne : id ≠ id' := fun he => hnotcur (he ▸ h)
        simp only [lp_cons, hne, if_false]
        exact hm.pA id' (Or.inr h)
    · intro id' _ hnc
      simp only [lp_cons]
      split
      · rename_i he; subst he; exact (h2.c2 c id hcr).symm
      · rename_i hne
        exact hm.pB id' (fun hw => hne (hwin_old id' hw).symm) hnc
    · intro e he
      simp only [List.mem_cons] at he
      rcases he with rfl | he
      · simp [setC, flightOf]
      · have := hm.p1 e he
        by_cases hec : e.2 = c
        · rw [hec, hcf] at this; cases this
        · simpa [setC, hec] using this
    · intro x hx
      by_cases hxc : x = c
      · subst hxc; simp [setC, retrying] at hx
      · simp [setC, hxc] at hx
        exact (List.mem_erase_of_ne hxc).2 (hm.r1 x hx)
    · intro id0 c0 hs
      have hc0 : c0 ≠ c := by
        intro he; subst he
        have := h2.s1 id0 c0 _ hs; rw [hcf] at this; cases this
      exact (List.mem_erase_of_ne hc0).2 (hm.r2 id0 c0 hs)
    · intro bad c0 hb hl
      have hc0 : c0 ≠ c := by
        intro he; subst he
        rcases h2.c1 bad c0 hl with h1 | h1 | h1
        · rw [hcr] at h1; simp only [Option.some.injEq] at h1; subst h1
          exact hnotcur (mem_curIds hb (by simp [opIds]))
        · rw [hcf] at h1; cases h1
        · exact shape_no_delete_with_lookup h2.sh hb bad h1
      exact (List.mem_erase_of_ne hc0).2 (hm.r3 bad c0 hb hl)
    · show id ≤ s.lastMsgID; omega
    · intro x id' hx; exact absurd ⟨x, hx⟩ (hwin id')
    · intro mid id' k hk
      have : headHolds s.cur = true := by rw [show s.cur = _ from hk]; rfl
      have h1 := hi.m2.1 this
      have h2' := (hi.m1 c).1 (by rw [hc]; rfl)
      rw [h1] at h2'; cases h2'
    · show orOne s.seqNo ≤ s.seqNo + 2; rw [orOne_even hi.n2]; omega
    · simp [hm.hw]

theorem sim_cRecv {s s' : ISt} {g : St} (h2 : Inv2 s) (hm : Sim s g) {c : Nat}
    (h : step s (.cRecv c) = some s') : Simulates s (.cRecv c) s' g := by
  obtain ⟨id, v, k, hc, hk, rfl⟩ := step_cRecv h
  have hsh := h2.sh; rw [hk] at hsh
  obtain ⟨hshk, hnos, hdel, hnow⟩ := shape_tail_of_send hsh
  have hr : regOf (afterRecv v) = none := by cases v <;> rfl
  have hf : flightOf (afterRecv v) = none := by cases v <;> rfl
  have hcr : regOf (s.cs c) = none := by rw [hc]; rfl
  have hsubids : ∀ id', id' ∈ curIds k → id' ∈ curIds s.cur := by
    intro id' h; rw [hk]; simp only [curIds, List.flatMap_cons, List.mem_append]; right; exact h
  have hidcur : id ∈ curIds s.cur := mem_curIds (op := .sendVal id c v) (by rw [hk]; simp) (by simp [opIds])
  have hwin : ∀ id', InWin { setC s c (afterRecv v) with cur := k } id' ↔ InWin s id' := by
    intro id'; constructor
    · intro ⟨x, hx⟩
      by_cases hxc : x = c
      · subst hxc; simp [setC, hr] at hx
      · exact ⟨x, by simpa [setC, hxc] using hx⟩
    · intro ⟨x, hx⟩
      have hxc : x ≠ c := by intro hxc; subst hxc; rw [hcr] at hx; cases hx
      exact ⟨x, by simpa [setC, hxc] using hx⟩
  -- the relation for the new implementation state, for any g' that differs from g only in owedDeliver/delivered
  have core : ∀ g' : St, g'.pending = g.pending → g'.owedDeliver = delivOf k → g'.owedAck = g.owedAck →
      g'.owedStore = g.owedStore → g'.owedResend = g.owedResend → g'.lastId = g.lastId → g'.lastSeq = g.lastSeq →
      g'.salt = g.salt → g'.wire = g.wire → g'.stored = g.stored →
      Sim { setC s c (afterRecv v) with cur := k } g' := by
    intro g' e1 e2 e3 e4 e5 e6 e7 e8 e9 e10
    refine ⟨?_, ?_, ?_, e2, ?_, ?_, ?_, ?_, ?_, ?_, ?_, ?_, ?_, ?_, ?_, ?_⟩
    · intro id' h; rw [e1]
      rw [hwin] at h
      rcases h with h | h
      · exact hm.pA id' (Or.inl h)
      · exact hm.pA id' (Or.inr (hsubids id' h))
    · intro id' h1 hnk; rw [e1]
      rw [hwin] at h1
      by_cases hin : id' ∈ curIds s.cur
      · -- then id' = id: the entry is gone (salt, badmsg) or about to be deleted (result)
        have hid : id' = id := by
          rw [hk] at hin
          simp only [curIds, List.flatMap_cons, List.mem_append, opIds, List.mem_singleton] at hin
          rcases hin with h | h
          · exact h
          · exact absurd h hnk
        subst hid
        rw [hm.pA id' (Or.inr hin)]
        rcases h2.x1 id' c v (by rw [hk]; simp) with hd | hn
        · rw [hk] at hd; simp at hd
          exact absurd (mem_curIds hd (by simp [opIds])) hnk
        · exact hn.symm
      · exact hm.pB id' h1 hin
    · intro e he; rw [e1] at he
      have hp := hm.p1 e he
      by_cases hec : e.2 = c
      · exfalso
        rw [hec, hc] at hp; simp only [flightOf, Option.some.injEq] at hp
        obtain ⟨c', hc'⟩ := lp_isSome_of_mem (show (e.1, e.2) ∈ g.pending from he)
        rw [← hp, hm.pA id (Or.inr hidcur)] at hc'; cases hc'
      · simpa [setC, hec] using hp
    · rw [e3, hm.a1, hk]; simp [ackOf]
    · rw [e4, hm.o1, hk]; simp [storeOf, setC]
    · intro x hx; rw [e5]
      by_cases hxc : x = c
      · subst hxc; simp only [setC, if_true] at hx
        cases v with
        | ret v0 => simp [afterRecv, retrying] at hx
        | retry => exact hm.r2 id x (by rw [hk]; simp)
      · simp [setC, hxc] at hx; exact hm.r1 x hx
    · intro id0 c0 hs; exact absurd hs (hnos id0 c0 _)
    · intro bad c0 hb hl; rw [e5]; exact hm.r3 bad c0 (by rw [hk]; exact List.mem_cons_of_mem _ hb) hl
    · rw [e6]; exact hm.l1
    · intro x id' hx; rw [e6]
      by_cases hxc : x = c
      · subst hxc; simp [setC, hr] at hx
      · simp [setC, hxc] at hx; exact hm.l1r x id' hx
    · intro mid id' k' hk'
      exact absurd hk' (hnow mid id' k')
    · rw [e7]; exact hm.l2
    · rw [e8]; exact hm.l3
    · rw [e9]; exact hm.hw
    · rw [e10]; exact hm.hs
  cases v with
  | retry =>
    refine ⟨g, by simp [evOf, hk, Mtv.Client.run], core g rfl ?_ rfl rfl rfl rfl rfl rfl rfl rfl⟩
    rw [hm.d1, hk]; simp [delivOf]
  | ret v0 =>
    have hd : g.owedDeliver = (c, id, v0) :: delivOf k := by rw [hm.d1, hk]; simp [delivOf]
    have hfind : g.owedDeliver.find? (fun e => e.1 == c) = some (c, id, v0) := by rw [hd]; simp
    refine ⟨{ g with owedDeliver := g.owedDeliver.erase (c, id, v0), delivered := (c, id, v0) :: g.delivered }, ?_, ?_⟩
    · simp only [evOf, hk, Mtv.Client.run, Mtv.Client.step, hfind, if_true]
    · refine core _ rfl ?_ rfl rfl rfl rfl rfl rfl rfl rfl
      show g.owedDeliver.erase (c, id, v0) = delivOf k
      rw [hd]; simp

end Mtv.Impl
