/-
  Lemmas for C18: the client model (with the password hash x as a parameter) against the spec server,
  byte level included.
-/
import Mtv.Lemmas.C18Num
import Mtv.Lemmas.C18Alg
import Mtv.Srp.ServerSpec
namespace Mtv.Srp

variable (H : Bytes → Bytes)

/-- the server of the specification holding verifier `v` for the client's algorithm parameters -/
def serverFor (algo : Algo) (v : Nat) : Server :=
  { salt1 := algo.salt1, salt2 := algo.salt2, g := algo.g, pBytes := algo.pBytes, v := v }

theorem validate_eq_true_iff (srpB : Bytes) (algo : Algo) :
    validate srpB algo = true ↔
      (0 < fromBE srpB ∧ fromBE srpB < fromBE algo.pBytes ∧ 248 ≤ srpB.length ∧ srpB.length ≤ 256) := by
  unfold validate
  simp only [Bool.not_eq_true', Bool.or_eq_false_iff, decide_eq_false_iff_not]
  omega

theorem xorBytes_ok (a b : Bytes) (h : a.length ≤ b.length) : xorBytes a b = .ok (specXor a b) := by
  unfold xorBytes specXor
  have : ¬ b.length < a.length := by omega
  simp [this]

theorem xorBytes_ok_inv (a b r : Bytes) (h : xorBytes a b = .ok r) :
    a.length ≤ b.length ∧ r = specXor a b := by
  unfold xorBytes at h
  by_cases hl : b.length < a.length
  · simp [hl] at h
  · simp only [hl, if_false, Outcome.ok.injEq] at h
    exact ⟨by omega, by rw [← h]; rfl⟩

section honest
variable (algo : Algo) (x b : Nat) (random : Bytes)

/-- facts about the honest server's `srp_B` seen by the client -/
theorem srpB_facts (hp : 0 < fromBE algo.pBytes) (hp2 : fromBE algo.pBytes < 256 ^ 256) (v : Nat) :
    let sv := serverFor algo v
    (sv.srpB H b).length = 256 ∧ fromBE (sv.srpB H b) = sv.B H b ∧ sv.B H b < fromBE algo.pBytes ∧
      pad256 (sv.srpB H b) = pad256 (toBE (sv.B H b)) := by
  intro sv
  have hlt : sv.B H b < fromBE algo.pBytes := Nat.mod_lt _ hp
  refine ⟨pad256_length _, ?_, hlt, ?_⟩
  · exact fromBE_pad256_toBE _ (Nat.lt_trans hlt hp2)
  · exact pad256_idem _

/-- the core numbers of the client agree with the honest server's view: same `A` bytes, same `u`,
same session secret — for every x, a, b, every p with 0 < p < 2^2048, every g. -/
theorem core_agrees (hp : 0 < fromBE algo.pBytes) (hp2 : fromBE algo.pBytes < 256 ^ 256) :
    let sv := serverFor algo (powMod algo.g x (fromBE algo.pBytes))
    let c := coreWithX H x (sv.srpB H b) algo random
    c.ga.length = 256 ∧ pad256 (toBE (fromBE c.ga)) = c.ga ∧ c.gb = pad256 (toBE (sv.B H b)) ∧
      c.s = sv.secret H b c.ga ∧ c.sa = pad256 (toBE c.s) ∧ c.ka = H c.sa ∧ c.s < 256 ^ 256 ∧
      sv.secret H b c.ga < 256 ^ 256 := by
  intro sv c
  obtain ⟨hlen, hval, hlt, hpad⟩ := srpB_facts H algo b hp hp2 (powMod algo.g x (fromBE algo.pBytes))
  have hA : powMod algo.g (fromBE random) (fromBE algo.pBytes) < 256 ^ 256 :=
    Nat.lt_trans (powMod_lt _ _ _ hp) hp2
  have hga : c.ga = pad256 (toBE (powMod algo.g (fromBE random) (fromBE algo.pBytes))) := rfl
  have hfrom : fromBE c.ga = powMod algo.g (fromBE random) (fromBE algo.pBytes) := by
    rw [hga, fromBE_pad256_toBE _ hA]
  have hgb : c.gb = pad256 (toBE (sv.B H b)) := hpad
  have hsec : c.s = sv.secret H b c.ga := by
    show powMod (tValue (fromBE (sv.srpB H b)) _ _) _ _ = _
    unfold Server.secret
    simp only []
    rw [hval, hfrom]
    have hu : fromBE (H (c.ga ++ c.gb)) =
        fromBE (H (pad256 (toBE (powMod algo.g (fromBE random) (fromBE algo.pBytes))) ++
          pad256 (toBE (sv.B H b)))) := by rw [hgb, hga]
    show powMod (tValue (sv.B H b) _ _) (fromBE (H (c.ga ++ c.gb)) * x + fromBE random) _ = _
    rw [hu]
    simp only [powMod_eq, Server.B, Server.k, Server.p, serverFor, sv]
    exact srp_secret_agree _ _ _ _ _ _ _ hp
  have hs : c.s < 256 ^ 256 := Nat.lt_trans (powMod_lt _ _ _ hp) hp2
  refine ⟨pad256_length _, ?_, hgb, hsec, rfl, rfl, hs, ?_⟩
  · rw [hfrom, ← hga]
  · rw [← hsec]; exact hs

/-- client and honest server hash the same string for `M1` (given the xor did not panic) -/
theorem m1Pre_agrees (hp : 0 < fromBE algo.pBytes) (hp2 : fromBE algo.pBytes < 256 ^ 256) :
    let sv := serverFor algo (powMod algo.g x (fromBE algo.pBytes))
    let c := coreWithX H x (sv.srpB H b) algo random
    m1Pre H (specXor (H algo.pBytes) (H (pad256 (toBE algo.g)))) algo c = sv.m1Pre H b c.ga := by
  intro sv c
  obtain ⟨_, h2, h3, h4, h5, h6, _, _⟩ := core_agrees H algo x b random hp hp2
  unfold m1Pre Server.m1Pre
  simp only []
  rw [h2, ← h3, ← h4, ← h5, ← h6]
  rfl

/-- **Completeness with x as a parameter**: whenever the honest server's `B` is not 0, the client's
answer exists and the server accepts it. -/
theorem complete_withX (password : Bytes) (hpw : password ≠ [])
    (hp : 0 < fromBE algo.pBytes) (hp2 : fromBE algo.pBytes < 256 ^ 256)
    (hH : (H algo.pBytes).length ≤ (H (pad256 (toBE algo.g))).length)
    (hB : (serverFor algo (powMod algo.g x (fromBE algo.pBytes))).B H b ≠ 0) :
    let sv := serverFor algo (powMod algo.g x (fromBE algo.pBytes))
    ∃ ga m1, answerWithX H password x (sv.srpB H b) algo random = .ok (.srp ga m1) ∧
      sv.accepts H b ga m1 = true := by
  intro sv
  obtain ⟨hlen, hval, hlt, _⟩ := srpB_facts H algo b hp hp2 (powMod algo.g x (fromBE algo.pBytes))
  have hvalid : validate (sv.srpB H b) algo = true := by
    rw [validate_eq_true_iff, hval, hlen]
    exact ⟨Nat.pos_of_ne_zero hB, hlt, by decide, by decide⟩
  obtain ⟨hgal, _⟩ := core_agrees H algo x b random hp hp2
  have hpre := m1Pre_agrees H algo x b random hp hp2
  refine ⟨(coreWithX H x (sv.srpB H b) algo random).ga,
    H (m1Pre H (specXor (H algo.pBytes) (H (pad256 (toBE algo.g)))) algo
      (coreWithX H x (sv.srpB H b) algo random)), ?_, ?_⟩
  · unfold answerWithX m1Of
    simp only [hpw, if_false, hvalid, Bool.not_true, xorBytes_ok _ _ hH]
    rfl
  · unfold Server.accepts Server.m1
    have hgal' : (coreWithX H x (sv.srpB H b) algo random).ga.length = 256 := hgal
    have hpre' : m1Pre H (specXor (H algo.pBytes) (H (pad256 (toBE algo.g)))) algo
        (coreWithX H x (sv.srpB H b) algo random)
        = sv.m1Pre H b (coreWithX H x (sv.srpB H b) algo random).ga := hpre
    simp only [hgal', decide_true, Bool.true_and, decide_eq_true_eq]
    rw [hpre']

end honest
end Mtv.Srp
