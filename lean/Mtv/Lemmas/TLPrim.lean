/-
  Helper lemmas for the TL codec theorems (C01/C02/C15): primitive readers undo primitive writers.
-/
import Mtv.TL.Encode
import Mtv.TL.Decode
namespace Mtv.TL

theorem readN_append_of_ne (m rest : Bytes) (h : m ++ rest ≠ []) :
    readN m.length (m ++ rest) = .ok (m, rest) := by
  unfold readN
  have h1 : (m ++ rest).isEmpty = false := by
    cases hm : m ++ rest with
    | nil => exact absurd hm h
    | cons a b => rfl
  simp [h1]

theorem readN_append (m rest : Bytes) (h : m ≠ []) :
    readN m.length (m ++ rest) = .ok (m, rest) :=
  readN_append_of_ne m rest (by simp [h])

theorem popUint_le (n : Nat) (rest : Bytes) (h : n < 2 ^ 32) :
    popUint (leBytes n 4 ++ rest) = .ok (n, rest) := by
  have hne : leBytes n 4 ≠ [] := by simp [leBytes]
  have := readN_append (leBytes n 4) rest hne
  rw [leBytes_length] at this
  simp [popUint, this, fromLE_leBytes 4 n (by simpa using h)]

theorem popLong_le (n : Nat) (rest : Bytes) (h : n < 2 ^ 64) :
    popLong (leBytes n 8 ++ rest) = .ok (n, rest) := by
  have hne : leBytes n 8 ≠ [] := by simp [leBytes]
  have := readN_append (leBytes n 8) rest hne
  rw [leBytes_length] at this
  simp [popLong, this, fromLE_leBytes 8 n (by simpa using h)]

theorem popBool_le (b : Bool) (rest : Bytes) :
    popBool (leBytes (if b then crcTrue else crcFalse) 4 ++ rest) = .ok (b, rest) := by
  cases b
  · have := popUint_le crcFalse rest (by decide)
    simp only [popBool, Bool.false_eq_true, if_false, this]
    simp [crcTrue, crcFalse]
  · have := popUint_le crcTrue rest (by decide)
    simp only [popBool, if_true, this]

theorem popRaw_be (w n : Nat) (rest : Bytes) (hw : 0 < w) (h : n < 256 ^ w) :
    popRaw (w : Int) (beBytes n w ++ rest) = .ok (beBytes n w, rest) ∧ fromBE (beBytes n w) = n := by
  refine ⟨?_, fromBE_beBytes w n h⟩
  have hne : beBytes n w ≠ [] := by
    intro hh
    have := congrArg List.length hh
    simp at this; omega
  have := readN_append (beBytes n w) rest hne
  rw [beBytes_length] at this
  unfold popRaw
  have h1 : ¬ ((w : Int) < 0) := by omega
  have h2 : ¬ (w + rest.length < w) := by omega
  have h3 : w ≠ 0 := by omega
  simp [this, h1, h2, h3]

theorem zeros_all_zero (n : Nat) : (zeros n).all (· == 0) = true := by
  simp [zeros]

theorem pad4_lt (n : Nat) : pad4 n < 4 := by unfold pad4; omega

theorem putMessage_aligned (bs out : Bytes) (h : putMessage bs = .ok out) : out.length % 4 = 0 := by
  unfold putMessage at h
  split at h
  · cases h; simp [pad4]; omega
  · split at h
    · cases h
    · cases h; simp [pad4]; omega

/-- `PopMessage` undoes `PutMessage`, whatever follows in the stream; every length below 2^24. -/
theorem popMessage_putMessage (bs rest out : Bytes) (h : putMessage bs = .ok out) :
    popMessage (out ++ rest) = .ok (bs, rest) := by
  unfold putMessage at h
  split at h
  · -- short form
    rename_i hlt
    cases h
    have hb : (UInt8.ofNat bs.length).toNat = bs.length := by
      simp [UInt8.toNat_ofNat']; omega
    have hne : ([UInt8.ofNat bs.length] : Bytes) ≠ [0xfe] := by
      intro hh
      have h' : UInt8.ofNat bs.length = 0xfe := by simpa using hh
      have := congrArg UInt8.toNat h'
      rw [hb] at this
      have : (0xfe : UInt8).toNat = 254 := by decide
      omega
    have h1 : readN 1 (UInt8.ofNat bs.length :: (bs ++ zeros (pad4 (1 + bs.length))) ++ rest) =
        .ok ([UInt8.ofNat bs.length], (bs ++ zeros (pad4 (1 + bs.length))) ++ rest) := by
      simp [readN]
    unfold popMessage
    rw [h1]
    simp only [hne, if_false, fromLE, hb, Nat.mul_zero, Nat.add_zero]
    have hlen : ¬ ((bs ++ zeros (pad4 (1 + bs.length)) ++ rest).length < bs.length) := by
      simp
    simp only [hlen, if_false]
    by_cases hp : (1 + bs.length) % 4 = 0
    · have hz : pad4 (1 + bs.length) = 0 := by unfold pad4; omega
      simp only [hz, zeros, List.replicate_zero, List.append_nil]
      have hne2 : bs ≠ [] := by
        intro hh; subst hh; simp at hp
      rw [readN_append bs rest hne2]
      simp [hp]
    · have hz : pad4 (1 + bs.length) = 4 - (1 + bs.length) % 4 := by unfold pad4; omega
      have hzpos : 0 < pad4 (1 + bs.length) := by omega
      have hne2 : bs ++ (zeros (pad4 (1 + bs.length)) ++ rest) ≠ [] := by
        intro hh
        have := congrArg List.length hh
        simp at this; omega
      rw [List.append_assoc, readN_append_of_ne bs _ hne2]
      simp only [hp, if_false]
      have hzne : zeros (pad4 (1 + bs.length)) ≠ [] := by
        intro hh
        have := congrArg List.length hh
        simp at this; omega
      have := readN_append (zeros (pad4 (1 + bs.length))) rest hzne
      rw [zeros_length] at this
      rw [← hz, this]
      simp [zeros_all_zero]
  · rename_i hge
    split at h
    · cases h
    · rename_i hbig
      cases h
      have h1 : readN 1 (0xfe :: (leBytes bs.length 3 ++ (bs ++ zeros (pad4 bs.length))) ++ rest) =
          .ok ([0xfe], (leBytes bs.length 3 ++ (bs ++ zeros (pad4 bs.length))) ++ rest) := by
        simp [readN]
      unfold popMessage
      rw [h1]
      simp only [if_true]
      have h3 := readN_append (leBytes bs.length 3) ((bs ++ zeros (pad4 bs.length)) ++ rest) (by simp [leBytes])
      rw [leBytes_length] at h3
      rw [List.append_assoc, h3]
      have hfl : fromLE (leBytes bs.length 3) = bs.length :=
        fromLE_leBytes 3 bs.length (by simp at hbig ⊢; omega)
      simp only [hfl]
      have hlen : ¬ ((bs ++ zeros (pad4 bs.length) ++ rest).length < bs.length) := by
        simp
      simp only [hlen, if_false]
      have hne2 : bs ≠ [] := by
        intro hh; subst hh; simp at hge
      rw [List.append_assoc, readN_append bs _ hne2]
      by_cases hp : (4 + bs.length) % 4 = 0
      · have hz : pad4 bs.length = 0 := by unfold pad4; omega
        simp [hp, hz, zeros]
      · have hz : pad4 bs.length = 4 - (4 + bs.length) % 4 := by unfold pad4; omega
        have hzne : zeros (pad4 bs.length) ≠ [] := by
          intro hh
          have := congrArg List.length hh
          simp at this; omega
        have := readN_append (zeros (pad4 bs.length)) rest hzne
        rw [zeros_length] at this
        simp only [hp, if_false]
        rw [← hz, this]
        simp [zeros_all_zero]

end Mtv.TL
