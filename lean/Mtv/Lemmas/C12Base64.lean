/-
  Lemmas for C12: base64 and the salt encoding.
-/
import Mtv.Session.Base64
namespace Mtv.Session

theorem b64Val_b64Char : ∀ n, n < 64 → b64Val (b64Char n) = some n := by decide

theorem b64Char_not_pad : ∀ n, n < 64 → b64Char n ≠ padChar := by decide

theorem b64Char_not_newline : ∀ n, n < 64 → isNewline (b64Char n) = false := by decide

/-- characters `EncodeToString` can produce -/
def IsB64Char (c : UInt8) : Prop := (∃ n, n < 64 ∧ c = b64Char n) ∨ c = padChar

theorem b64Encode_chars (bs : Bytes) : ∀ c ∈ b64Encode bs, IsB64Char c := by
  induction bs using b64Encode.induct with
  | case1 => simp [b64Encode]
  | case2 a =>
    have := a.toNat_lt
    intro c hc
    simp only [b64Encode, List.mem_cons, List.not_mem_nil, or_false] at hc
    rcases hc with h | h | h | h
    · exact .inl ⟨_, by omega, h⟩
    · exact .inl ⟨_, by omega, h⟩
    · exact .inr h
    · exact .inr h
  | case3 a b =>
    have := a.toNat_lt; have := b.toNat_lt
    intro c hc
    simp only [b64Encode, List.mem_cons, List.not_mem_nil, or_false] at hc
    rcases hc with h | h | h | h
    · exact .inl ⟨_, by omega, h⟩
    · exact .inl ⟨_, by omega, h⟩
    · exact .inl ⟨_, by omega, h⟩
    · exact .inr h
  | case4 a b c rest ih =>
    have := a.toNat_lt; have := b.toNat_lt; have := c.toNat_lt
    intro x hx
    simp only [b64Encode, List.mem_cons] at hx
    rcases hx with h | h | h | h | h
    · exact .inl ⟨_, by omega, h⟩
    · exact .inl ⟨_, by omega, h⟩
    · exact .inl ⟨_, by omega, h⟩
    · exact .inl ⟨_, by omega, h⟩
    · exact ih x h

theorem isB64Char_not_newline {c : UInt8} (h : IsB64Char c) : isNewline c = false := by
  rcases h with ⟨n, hn, rfl⟩ | rfl
  · exact b64Char_not_newline n hn
  · decide

theorem filter_newline_encode (bs : Bytes) :
    (b64Encode bs).filter (fun c => !isNewline c) = b64Encode bs := by
  rw [List.filter_eq_self]
  intro c hc
  simp [isB64Char_not_newline (b64Encode_chars bs c hc)]

theorem ofNat_toNat_eq (a : UInt8) (n : Nat) (h : n = a.toNat) : UInt8.ofNat n = a := by
  subst h; simp

theorem b64DecodeQ_encode (bs : Bytes) : b64DecodeQ (b64Encode bs) = some bs := by
  induction bs using b64Encode.induct with
  | case1 => simp [b64Encode, b64DecodeQ]
  | case2 a =>
    have ha := a.toNat_lt
    simp only [b64Encode, b64DecodeQ]
    rw [b64Val_b64Char _ (by omega), b64Val_b64Char _ (by omega)]
    simp only [if_true, and_self]
    congr 2
    exact ofNat_toNat_eq _ _ (by omega)
  | case3 a b =>
    have ha := a.toNat_lt; have hb := b.toNat_lt
    simp only [b64Encode, b64DecodeQ]
    rw [b64Val_b64Char _ (by omega), b64Val_b64Char _ (by omega)]
    simp only [b64Char_not_pad _ (show b.toNat % 16 * 4 < 64 by omega), if_false]
    rw [b64Val_b64Char _ (by omega)]
    simp only [if_true]
    congr 2
    · exact ofNat_toNat_eq _ _ (by omega)
    · congr 1; exact ofNat_toNat_eq _ _ (by omega)
  | case4 a b c rest ih =>
    have ha := a.toNat_lt; have hb := b.toNat_lt; have hc := c.toNat_lt
    simp only [b64Encode, b64DecodeQ]
    rw [b64Val_b64Char _ (by omega), b64Val_b64Char _ (by omega)]
    simp only [b64Char_not_pad _ (show b.toNat % 16 * 4 + c.toNat / 64 < 64 by omega), if_false]
    rw [b64Val_b64Char _ (by omega)]
    simp only [b64Char_not_pad _ (show c.toNat % 64 < 64 by omega), if_false]
    rw [b64Val_b64Char _ (by omega), ih]
    simp only [Option.map_some]
    congr 2
    · exact ofNat_toNat_eq _ _ (by omega)
    · congr 1
      · exact ofNat_toNat_eq _ _ (by omega)
      · congr 1; exact ofNat_toNat_eq _ _ (by omega)

theorem b64Decode_encode (bs : Bytes) : b64Decode (b64Encode bs) = some bs := by
  rw [b64Decode, filter_newline_encode, b64DecodeQ_encode]

/-! ### salt -/

theorem toSigned_ofSigned_64 (v : Int) (h1 : -(2 ^ 63 : Int) ≤ v) (h2 : v < (2 ^ 63 : Int)) :
    toSigned 64 (ofSigned 64 v) = v := by
  unfold toSigned ofSigned
  simp only [show (64 - 1 : Nat) = 63 from rfl]
  have hp : ((2 ^ 64 : Nat) : Int) = 18446744073709551616 := by decide
  have h63 : (2 ^ 63 : Int) = 9223372036854775808 := by decide
  have h63n : (2 ^ 63 : Nat) = 9223372036854775808 := by decide
  rw [hp, h63n]
  rw [h63] at h1 h2
  by_cases hv : 0 ≤ v
  · have : v % 18446744073709551616 = v := Int.emod_eq_of_lt hv (by omega)
    rw [this]
    have : ((v.toNat : Nat) : Int) = v := Int.toNat_of_nonneg hv
    split <;> omega
  · have : v % 18446744073709551616 = v + 18446744073709551616 := by omega
    rw [this]
    have : (((v + 18446744073709551616).toNat : Nat) : Int) = v + 18446744073709551616 :=
      Int.toNat_of_nonneg (by omega)
    split <;> omega

theorem ofSigned_lt (v : Int) : ofSigned 64 v < 256 ^ 8 := by
  unfold ofSigned
  have hp : ((2 ^ 64 : Nat) : Int) = 18446744073709551616 := by decide
  rw [hp]
  have h1 : 0 ≤ v % 18446744073709551616 := Int.emod_nonneg _ (by omega)
  have h2 : v % 18446744073709551616 < 18446744073709551616 := Int.emod_lt_of_pos _ (by omega)
  have : (256 : Nat) ^ 8 = 18446744073709551616 := by decide
  omega

theorem decodeSalt_encodeSalt (v : Int) (h1 : -(2 ^ 63 : Int) ≤ v) (h2 : v < (2 ^ 63 : Int)) :
    decodeSalt (encodeSalt v) = .ok v := by
  unfold decodeSalt encodeSalt
  rw [b64Decode_encode]
  have hl : (saltBytes v).length = 8 := by simp [saltBytes]
  simp only [hl, show ¬ (8 < 8) by omega, if_false]
  rw [List.take_of_length_le (by omega)]
  unfold saltBytes
  rw [fromLE_leBytes 8 _ (ofSigned_lt v), toSigned_ofSigned_64 v h1 h2]

end Mtv.Session
