/-
  C12 — lemmas for the loader over a heap (Mtv/Session/Alias.lean): the invariant is kept by every event of the
  copying loader, and every `Load` returns what the file reads as.
-/
import Mtv.Session.Alias
namespace Mtv.Session

theorem AInv.store {st : AState} (h : AInv st) (s : Session) (m : Nat) :
    AInv { st with file := some (s, m), cached := none } where
  handed_lt := h.handed_lt
  cache := by intro a ha; cases ha

theorem AInv.mutate {st : AState} (h : AInv st) (i a : Nat) (s' : Session) (hi : st.handed[i]? = some a) :
    AInv { st with heap := st.heap.set a s' } where
  handed_lt := by
    intro b hb
    simp only [List.length_set]
    exact h.handed_lt b hb
  cache := by
    intro c hc
    obtain ⟨hnot, s, m, hf, hs⟩ := h.cache c hc
    refine ⟨hnot, s, m, hf, ?_⟩
    have hmem : a ∈ st.handed := List.mem_of_getElem? hi
    have hne : a ≠ c := fun e => hnot (e ▸ hmem)
    show (st.heap.set a s')[c]? = some s
    rw [List.getElem?_set_ne hne]
    exact hs

theorem AInv.loadHit {st : AState} (h : AInv st) (x : Session) :
    AInv { st with heap := st.heap ++ [x], handed := st.handed ++ [st.heap.length] } where
  handed_lt := by
    intro b hb
    simp only [List.length_append, List.length_cons, List.length_nil]
    rcases List.mem_append.1 hb with hb | hb
    · have := h.handed_lt b hb; omega
    · simp only [List.mem_cons, List.not_mem_nil, or_false] at hb; omega
  cache := by
    intro c hc
    obtain ⟨hnot, s, m, hf, hs⟩ := h.cache c hc
    have hlt : c < st.heap.length := by
      rcases Nat.lt_or_ge c st.heap.length with hl | hl
      · exact hl
      · rw [List.getElem?_eq_none hl] at hs; cases hs
    refine ⟨?_, s, m, hf, ?_⟩
    · intro hm
      rcases List.mem_append.1 hm with hm | hm
      · exact hnot hm
      · simp only [List.mem_cons, List.not_mem_nil, or_false] at hm; omega
    · show (st.heap ++ [x])[c]? = some s
      rw [List.getElem?_append_left hlt]
      exact hs

theorem AInv.loadMiss {st : AState} (h : AInv st) (s : Session) (m : Nat) (hf : st.file = some (s, m)) :
    AInv { st with heap := st.heap ++ [s, s], cached := some st.heap.length, lastEdited := some m,
                   handed := st.handed ++ [st.heap.length + 1] } where
  handed_lt := by
    intro b hb
    simp only [List.length_append, List.length_cons, List.length_nil]
    rcases List.mem_append.1 hb with hb | hb
    · have := h.handed_lt b hb; omega
    · simp only [List.mem_cons, List.not_mem_nil, or_false] at hb; omega
  cache := by
    intro c hc
    have hc' : st.heap.length = c := by injection hc
    subst hc'
    refine ⟨?_, s, m, hf, ?_⟩
    · intro hm
      rcases List.mem_append.1 hm with hm | hm
      · have := h.handed_lt _ hm; omega
      · simp only [List.mem_cons, List.not_mem_nil, or_false] at hm; omega
    · show (st.heap ++ [s, s])[st.heap.length]? = some s
      rw [List.getElem?_append_right (Nat.le_refl _)]
      simp

/-- the copying loader, from any state that satisfies the invariant: the `Load`s return what the property says -/
theorem runA_copy_spec (evs : List AEv) : ∀ st : AState, AInv st →
    runA true st evs = specA (st.file.map (·.1)) evs := by
  induction evs with
  | nil => intro st _; rfl
  | cons e es ih =>
    intro st h
    cases e with
    | store s m =>
      simp only [runA, stepA, specA]
      exact ih _ (h.store s m)
    | mutate i s' =>
      simp only [runA, stepA, specA]
      cases hi : st.handed[i]? with
      | none => exact ih st h
      | some a =>
        simp only []
        exact ih _ (h.mutate i a s' hi)
    | load =>
      simp only [runA, stepA, specA]
      cases hf : st.file with
      | none =>
        simp only [Option.map_none]
        rw [ih st h, hf]; rfl
      | some sm =>
        obtain ⟨s, m⟩ := sm
        simp only [Option.map_some]
        cases hh : st.hit m with
        | none =>
          simp only [if_true]
          have := ih _ (h.loadMiss s m hf)
          simp only [hf, Option.map_some] at this
          rw [this]
        | some a =>
          simp only [if_true]
          obtain ⟨_, s2, m2, hf2, hs2⟩ := h.cache a (AState.hit_cached hh)
          rw [hf] at hf2
          cases hf2
          have := ih _ (h.loadHit ((st.heap[a]?).getD s))
          simp only [hf, Option.map_some] at this
          rw [this, hs2]

end Mtv.Session
