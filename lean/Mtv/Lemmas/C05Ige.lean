/-
  Helper lemmas for C05, part 1: xor on blocks, the memory of the register model, the loop
  invariant of `doAES256IGEencrypt`/`decrypt`, blocks ↔ bytes.
-/
import Mtv.Ige.Regs
namespace Mtv.Ige
open Mtv

/-! ### xor -/

theorem xorB_comm (a b : Bytes) : xorB a b = xorB b a := by
  unfold xorB
  rw [List.zipWith_comm]
  congr 1
  funext x y
  exact UInt8.xor_comm y x

theorem xorB_length (a b : Bytes) : (xorB a b).length = min a.length b.length := by
  simp [xorB]

theorem xorB_length_eq {a b : Bytes} {n : Nat} (ha : a.length = n) (hb : b.length = n) :
    (xorB a b).length = n := by
  simp [xorB_length, ha, hb]

/-- `(a ⊕ b) ⊕ b = a` for blocks of equal length -/
theorem xorB_cancel_right : ∀ (a b : Bytes), a.length = b.length → xorB (xorB a b) b = a
  | [], [], _ => rfl
  | [], _ :: _, h => by simp at h
  | _ :: _, [], h => by simp at h
  | x :: a, y :: b, h => by
    have ih := xorB_cancel_right a b (by simpa using h)
    simp only [xorB, List.zipWith_cons_cons] at ih ⊢
    rw [ih, UInt8.xor_assoc, UInt8.xor_self, UInt8.xor_zero]

/-! ### spec: decryption is encryption with the roles of the chaining values exchanged -/

theorem igeDec_eq_igeEnc (D : Bytes → Bytes) : ∀ (cs : List Bytes) (cPrev pPrev : Bytes),
    igeDec D cPrev pPrev cs = igeEnc D pPrev cPrev cs
  | [], _, _ => rfl
  | c :: cs, cPrev, pPrev => by
    simp only [igeDec, igeEnc]
    rw [igeDec_eq_igeEnc D cs]

theorem igeEnc_length (E : Bytes → Bytes) : ∀ (ps : List Bytes) (c p : Bytes),
    (igeEnc E c p ps).length = ps.length
  | [], _, _ => rfl
  | _ :: ps, _, _ => by simp [igeEnc, igeEnc_length E ps]

theorem igeDec_length (D : Bytes → Bytes) (cs : List Bytes) (c p : Bytes) :
    (igeDec D c p cs).length = cs.length := by
  rw [igeDec_eq_igeEnc, igeEnc_length]

/-- every output block of the spec is 16 bytes when inputs and chaining values are -/
theorem igeEnc_all16 (E : Bytes → Bytes) (hE : ∀ b : Bytes, b.length = 16 → (E b).length = 16) :
    ∀ (ps : List Bytes) (c p : Bytes), c.length = 16 → p.length = 16 → (∀ b ∈ ps, b.length = 16) →
      ∀ b ∈ igeEnc E c p ps, b.length = 16
  | [], _, _, _, _, _ => by simp [igeEnc]
  | q :: ps, c, p, hc, hp, hps => by
    have hq : q.length = 16 := hps q (by simp)
    have h1 : (xorB (E (xorB q c)) p).length = 16 :=
      xorB_length_eq (hE _ (xorB_length_eq hq hc)) hp
    intro b hb
    simp only [igeEnc, List.mem_cons] at hb
    rcases hb with rfl | hb
    · exact h1
    · exact igeEnc_all16 E hE ps _ _ h1 hq (fun b hb => hps b (by simp [hb])) b hb

/-- the spec round trip on blocks -/
theorem igeDec_igeEnc_blocks (E D : Bytes → Bytes) (h : IsBlockCipher E D) :
    ∀ (ps : List Bytes) (c p : Bytes), c.length = 16 → p.length = 16 → (∀ b ∈ ps, b.length = 16) →
      igeDec D c p (igeEnc E c p ps) = ps
  | [], _, _, _, _, _ => rfl
  | q :: ps, c, p, hc, hp, hps => by
    have hq : q.length = 16 := hps q (by simp)
    have hx : (xorB q c).length = 16 := xorB_length_eq hq hc
    have hE : (E (xorB q c)).length = 16 := h.lenE _ hx
    have h1 : (xorB (E (xorB q c)) p).length = 16 := xorB_length_eq hE hp
    simp only [igeEnc, igeDec]
    rw [xorB_cancel_right _ _ (by rw [hE, hp]), h.DE _ hx, xorB_cancel_right _ _ (by rw [hq, hc])]
    rw [igeDec_igeEnc_blocks E D h ps _ _ h1 hq (fun b hb => hps b (by simp [hb]))]

/-! ### memory -/

@[simp] theorem Mem.read_write_reg_same (m : Mem) (r : Reg) (v : Bytes) :
    (m.write (.reg r) v).read (.reg r) = v := by
  cases r <;> rfl

theorem Mem.read_write_reg_ne (m : Mem) (r : Reg) (p : Ptr) (v : Bytes) (h : p ≠ .reg r) :
    (m.write (.reg r) v).read p = m.read p := by
  cases r <;> cases p <;> try rfl
  all_goals (rename_i r'; cases r' <;> first | rfl | exact absurd rfl h)

@[simp] theorem Mem.inp_write_reg (m : Mem) (r : Reg) (v : Bytes) : (m.write (.reg r) v).inp = m.inp := by
  cases r <;> rfl

@[simp] theorem Mem.out_write_reg (m : Mem) (r : Reg) (v : Bytes) : (m.write (.reg r) v).out = m.out := by
  cases r <;> rfl

theorem Mem.read_inBlk_append (m : Mem) (pre : List Bytes) (b : Bytes) (bs : List Bytes)
    (h : m.inp = pre ++ b :: bs) : m.read (.inBlk pre.length) = b := by
  simp [Mem.read, h]

/-! ### the loop invariant -/

/-- One iteration, from any state in which `t` is `v0`, `x` is a register, `y` is neither `v0` nor
`x`'s register: the input array is untouched, output block `i` receives
`E(x ⊕ in_i) ⊕ y`, and the next state has `t = x = v0`, `y = in_i`. -/
theorem encStep_spec (E : Bytes → Bytes) (c : Cipher) (r : Reg) (pre : List Bytes) (b : Bytes)
    (bs done : List Bytes) (q : Bytes) (qs : List Bytes)
    (ht : c.t = .reg .v0) (hx : c.x = .reg r) (hy0 : c.y ≠ .reg .v0) (hyx : c.y ≠ .reg r)
    (hin : c.mem.inp = pre ++ b :: bs) (hout : c.mem.out = done ++ q :: qs) (hlen : done.length = pre.length) :
    let c' := encStep E c pre.length
    let cnew := xorB (E (xorB (c.mem.read c.x) b)) (c.mem.read c.y)
    c'.t = .reg .v0 ∧ c'.x = .reg .v0 ∧ c'.y = .inBlk pre.length ∧
    c'.mem.inp = pre ++ b :: bs ∧ c'.mem.out = done ++ cnew :: qs ∧
    c'.mem.read (.reg .v0) = cnew := by
  obtain ⟨mem, t, x, y⟩ := c
  simp only at ht hx hy0 hyx hin hout
  subst ht hx
  have hb : mem.read (.inBlk pre.length) = b := Mem.read_inBlk_append _ _ _ _ hin
  have hy : ∀ v1 v2 : Bytes, ((mem.write (.reg r) v1).write (.reg .v0) v2).read y = mem.read y := by
    intro v1 v2
    rw [Mem.read_write_reg_ne _ _ _ _ hy0, Mem.read_write_reg_ne _ _ _ _ hyx]
  simp only [encStep, hb, Mem.read_write_reg_same, hy, Mem.setOut, Mem.inp_write_reg, Mem.out_write_reg]
  refine ⟨trivial, trivial, trivial, hin, ?_, ?_⟩
  · rw [hout, ← hlen]; simp
  · cases r <;> rfl

/-- The invariant carried through any number of iterations: from a state of that shape the loop
leaves the input array as it was and appends to the finished part of the output exactly the
specification's blocks for the chaining values `read x`, `read y`. -/
theorem encLoop_spec (E : Bytes → Bytes) : ∀ (blocks : List Bytes) (c : Cipher) (r : Reg)
    (pre done rest : List Bytes),
    c.t = .reg .v0 → c.x = .reg r → c.y ≠ .reg .v0 → c.y ≠ .reg r →
    (∀ j, c.y = .inBlk j → j < pre.length) →
    c.mem.inp = pre ++ blocks → c.mem.out = done ++ rest →
    done.length = pre.length → rest.length = blocks.length →
    (encLoop E blocks.length pre.length c).mem.inp = pre ++ blocks ∧
    (encLoop E blocks.length pre.length c).mem.out
      = done ++ igeEnc E (c.mem.read c.x) (c.mem.read c.y) blocks
  | [], c, _, pre, done, rest, _, _, _, _, _, hin, hout, _, hrest => by
    have : rest = [] := List.eq_nil_of_length_eq_zero (by simpa using hrest)
    subst this
    simpa [encLoop, igeEnc] using And.intro hin hout
  | b :: bs, c, r, pre, done, rest, ht, hx, hy0, hyx, hj, hin, hout, hlen, hrest => by
    match rest, hrest with
    | q :: qs, hrest =>
      have hs := encStep_spec E c r pre b bs done q qs ht hx hy0 hyx hin hout hlen
      obtain ⟨h1, h2, h3, h4, h5, h6⟩ := hs
      have hyold : c.mem.read c.y = c.mem.read c.y := rfl
      have ih := encLoop_spec E bs (encStep E c pre.length) .v0 (pre ++ [b])
        (done ++ [xorB (E (xorB (c.mem.read c.x) b)) (c.mem.read c.y)]) qs
        h1 h2 (by rw [h3]; simp) (by rw [h3]; simp)
        (by intro j hj'; rw [h3] at hj'; injection hj' with hj'; simp [← hj'])
        (by rw [h4]; simp) (by rw [h5]; simp) (by simp [hlen]) (by simpa using hrest)
      have hl : (pre ++ [b]).length = pre.length + 1 := by simp
      rw [hl] at ih
      simp only [List.length_cons, encLoop]
      refine ⟨by rw [ih.1]; simp, ?_⟩
      rw [ih.2, h2, h3, h6]
      have hyb : (encStep E c pre.length).mem.read (.inBlk pre.length) = b :=
        Mem.read_inBlk_append _ _ _ _ h4
      rw [hyb]
      simp only [igeEnc, List.append_assoc, List.singleton_append]
      rw [xorB_comm b (c.mem.read c.x)]

/-! ### decrypt is the same loop with `x` and `y` exchanged -/

def Cipher.swap (c : Cipher) : Cipher := { c with x := c.y, y := c.x }

theorem decStep_eq (D : Bytes → Bytes) (c : Cipher) (i : Nat) :
    decStep D c i = (encStep D c.swap i).swap := rfl

theorem decLoop_eq (D : Bytes → Bytes) : ∀ (k i : Nat) (c : Cipher),
    decLoop D k i c = (encLoop D k i c.swap).swap
  | 0, _, _ => rfl
  | k + 1, i, c => by
    simp only [decLoop, encLoop]
    rw [decLoop_eq D k (i + 1), decStep_eq]
    rfl

/-! ### blocks and bytes -/

theorem chunks16_length : ∀ (n : Nat) (bs : Bytes), (chunks16 n bs).length = n
  | 0, _ => rfl
  | n + 1, bs => by simp [chunks16, chunks16_length n]

theorem chunks16_flatten : ∀ (n : Nat) (bs : Bytes), bs.length = 16 * n → (chunks16 n bs).flatten = bs
  | 0, bs, h => by
    have : bs = [] := List.eq_nil_of_length_eq_zero (by simpa using h)
    simp [chunks16, this]
  | n + 1, bs, h => by
    simp only [chunks16, List.flatten_cons]
    rw [chunks16_flatten n (bs.drop 16) (by simp [h]; omega)]
    exact List.take_append_drop 16 bs

theorem chunks16_all16 : ∀ (n : Nat) (bs : Bytes), bs.length = 16 * n → ∀ b ∈ chunks16 n bs, b.length = 16
  | 0, _, _ => by simp [chunks16]
  | n + 1, bs, h => by
    intro b hb
    simp only [chunks16, List.mem_cons] at hb
    rcases hb with rfl | hb
    · simp [h]; omega
    · exact chunks16_all16 n (bs.drop 16) (by simp [h]; omega) b hb

/-- chunking a concatenation of 16-byte blocks gives the blocks back -/
theorem chunks16_of_flatten : ∀ (bl : List Bytes), (∀ b ∈ bl, b.length = 16) →
    chunks16 bl.length bl.flatten = bl
  | [], _ => rfl
  | b :: bl, h => by
    have hb : b.length = 16 := h b (by simp)
    simp only [List.length_cons, chunks16, List.flatten_cons]
    rw [List.take_append_of_le_length (by omega), List.take_of_length_le (by omega),
      List.drop_append_of_le_length (by omega), List.drop_of_length_le (by omega), List.nil_append,
      chunks16_of_flatten bl (fun b hb => h b (by simp [hb]))]

theorem flatten_length_of_all16 : ∀ (bl : List Bytes), (∀ b ∈ bl, b.length = 16) →
    bl.flatten.length = 16 * bl.length
  | [], _ => rfl
  | b :: bl, h => by
    simp only [List.flatten_cons, List.length_append, List.length_cons,
      flatten_length_of_all16 bl (fun b hb => h b (by simp [hb])), h b (by simp)]
    omega

theorem blocksOf_length (data : Bytes) : (blocksOf data).length = data.length / 16 :=
  chunks16_length _ _

theorem blocksOf_flatten (data : Bytes) (h : data.length % 16 = 0) : (blocksOf data).flatten = data :=
  chunks16_flatten _ _ (by omega)

theorem blocksOf_all16 (data : Bytes) (h : data.length % 16 = 0) : ∀ b ∈ blocksOf data, b.length = 16 :=
  chunks16_all16 _ _ (by omega)

theorem blocksOf_flatten_of_all16 (bl : List Bytes) (h : ∀ b ∈ bl, b.length = 16) :
    blocksOf bl.flatten = bl := by
  unfold blocksOf
  rw [flatten_length_of_all16 bl h, Nat.mul_div_cancel_left _ (by decide)]
  exact chunks16_of_flatten bl h

end Mtv.Ige
