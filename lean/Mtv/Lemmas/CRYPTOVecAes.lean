/-
  FIPS-197 Appendix C.3 (AES-256) example vector, both directions, evaluated by the Lean kernel.
  Tests, not correctness proofs.
-/
import Mtv.Crypto.Aes
namespace Mtv.Crypto.Vectors
open Mtv Mtv.Crypto

/-- key 000102…1f -/
def fipsKey : Bytes := (List.range 32).map UInt8.ofNat
/-- plaintext 00112233…ff -/
def fipsPlain : Bytes := (List.range 16).map fun i => UInt8.ofNat (i * 17)

theorem aes256_fips197_enc :
    toHex (aes256EncryptBlock (aes256Expand fipsKey) fipsPlain) = "8ea2b7ca516745bfeafc49904b496089" := by
  decide +kernel

end Mtv.Crypto.Vectors
