/-
  C17 — helper lemmas about the process model of held errors (Mtv/Client/ErrHeld.lean); the property theorems that
  use them are in Mtv/Props/C17.lean.
-/
import Mtv.Client.ErrHeld
namespace Mtv.Client

/-- converting replies appends one cell per reply and touches no other -/
theorem Proc.run_replies (p : Proc) (rs : List Reply) :
    (Proc.run p (rs.map fun r => Step.reply r.1 r.2)).cells = p.cells ++ rs.map convert := by
  induction rs generalizing p with
  | nil => simp [Proc.run]
  | cons r rs ih =>
    have := ih (p.step (.reply r.1 r.2))
    simp only [Proc.run, List.map_cons, List.foldl_cons] at this ⊢
    rw [this]; simp [Proc.step, convert]

/-- what the conversions of a history returned is the conversions of its replies, whatever the callers wrote -/
theorem Proc.run_atReturn (p : Proc) (ss : List Step) :
    (Proc.run p ss).atReturn = p.atReturn ++ (repliesOf ss).map convert := by
  induction ss generalizing p with
  | nil => simp [Proc.run, repliesOf]
  | cons s ss ih =>
    have := ih (p.step s)
    simp only [Proc.run, List.foldl_cons] at this ⊢
    rw [this]
    cases s <;> simp [Proc.step, repliesOf, convert]

theorem repliesOf_scribbledHistory (junk : NativeErr) (i : Nat) (rs : List Reply) :
    repliesOf (scribbledHistory junk i rs) = rs := by
  induction rs generalizing i with
  | nil => rfl
  | cons r rs ih => simp [scribbledHistory, repliesOf, ih]


/-- a cell nobody wrote into stays what its conversion returned -/
theorem Proc.run_kept (p : Proc) (ss : List Step) (i : Nat)
    (hl : p.cells.length = p.atReturn.length) (hi : p.cells[i]? = p.atReturn[i]?)
    (hs : ∀ j e, Step.scribble j e ∈ ss → j ≠ i) :
    (Proc.run p ss).cells[i]? = (Proc.run p ss).atReturn[i]? := by
  induction ss generalizing p with
  | nil => simpa [Proc.run] using hi
  | cons s ss ih =>
    simp only [Proc.run, List.foldl_cons]
    apply ih
    · cases s <;> simp [Proc.step, hl]
    · cases s with
      | reply c t =>
        simp only [Proc.step, List.getElem?_append, hl, hi]
      | scribble j e =>
        have hj : j ≠ i := hs j e (by simp)
        simp only [Proc.step]
        rw [List.getElem?_set_ne hj]; exact hi
    · intro j e hm; exact hs j e (List.mem_cons_of_mem _ hm)

end Mtv.Client
