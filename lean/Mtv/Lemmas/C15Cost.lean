/-
  Helper lemmas for C15's allocation clause: the cost semantics of `Mtv/TL/DecodeCost.lean` is bounded by a
  linear function of the bytes consumed and of the bytes gunzip produced. The invariant (`BdS`) is stated per
  call in terms of what the call CONSUMES, so it composes along the call tree by plain induction on the fuel
  (no induction on the length of the input and no use of the depth limit: every packed level is paid for by
  the text gunzip really produced for it).
-/
import Mtv.TL.DecodeCost
import Mtv.Lemmas.C15Fuel
namespace Mtv.TL

theorem mul_le_of {a x k y : Nat} (h : x + k ≤ y) : a * x + a * k ≤ a * y := by
  rw [← Nat.mul_add]; exact Nat.mul_le_mul_left a h

theorem le_mul_of_one_le {a : Nat} (x : Nat) (ha : 1 ≤ a) : x ≤ a * x := Nat.le_mul_of_pos_left x ha

/-! ## what the byte-level readers cost -/

theorem readN_length {n : Nat} {bs m r : Bytes} (h : readN n bs = .ok (m, r)) : m.length = n := by
  unfold readN at h
  split at h
  · cases h
  · split at h
    · cases h
    · cases h; simp; omega

theorem costMessage_le (bs : Bytes) : costMessage bs ≤ bs.length := by
  unfold costMessage
  cases h1 : readN 1 bs with
  | err e => simp
  | panic s => simp
  | ok p1 =>
    obtain ⟨hd, r1⟩ := p1
    have hl1 := readN_consumes h1
    simp only
    split
    · cases h3 : readN 3 r1 with
      | err e => simp
      | panic s => simp
      | ok p3 =>
        obtain ⟨l, r2⟩ := p3
        have hl3 := readN_consumes h3
        simp only
        split <;> omega
    · split <;> omega

/-- a string that was read: the buffer made for it, its length byte and what is left fit into the input -/
theorem popMessage_cost {bs m r : Bytes} (h : popMessage bs = .ok (m, r)) :
    costMessage bs + 1 + r.length ≤ bs.length := by
  unfold popMessage at h
  unfold costMessage
  cases h1 : readN 1 bs with
  | err e => simp [h1] at h
  | panic s => simp [h1] at h
  | ok p1 =>
    obtain ⟨hd, r1⟩ := p1
    simp only [h1] at h
    have hl1 := readN_consumes h1
    have tail : ∀ (size lenSize : Nat) (r2 : Bytes),
        (if r2.length < size then (Outcome.err "msgSize" : Outcome (Bytes × Bytes))
          else match readN size r2 with
            | .err e => .err e
            | .panic s => .panic s
            | .ok (buf, r3) =>
              if (lenSize + size) % 4 = 0 then .ok (buf, r3)
              else match readN (4 - (lenSize + size) % 4) r3 with
                | .err e => .err e
                | .panic s => .panic s
                | .ok (pad, r4) => if pad.all (· == 0) then .ok (buf, r4) else .err "voidBytes") = .ok (m, r) →
        ¬ (r2.length < size) ∧ r.length + size ≤ r2.length := by
      intro size lenSize r2 hh
      split at hh
      · cases hh
      · rename_i hns
        refine ⟨hns, ?_⟩
        cases h4 : readN size r2 with
        | err e => simp [h4] at hh
        | panic s => simp [h4] at hh
        | ok p4 =>
          obtain ⟨buf, r3⟩ := p4
          have hl4 := readN_consumes h4
          simp only [h4] at hh
          split at hh
          · cases hh; omega
          · cases h5 : readN (4 - (lenSize + size) % 4) r3 with
            | err e => simp [h5] at hh
            | panic s => simp [h5] at hh
            | ok p5 =>
              obtain ⟨pad, r4⟩ := p5
              have hl5 := readN_consumes h5
              simp only [h5] at hh
              split at hh
              · cases hh; omega
              · cases hh
    simp only
    by_cases hfe : hd = [0xfe]
    · simp only [hfe, if_true] at h ⊢
      cases h3 : readN 3 r1 with
      | err e => simp [h3] at h
      | panic s => simp [h3] at h
      | ok p3 =>
        obtain ⟨l, r2⟩ := p3
        simp only [h3] at h
        have hl3 := readN_consumes h3
        obtain ⟨hns, hle⟩ := tail (fromLE l) 4 r2 h
        simp only [hns, if_false]
        omega
    · simp only [hfe, if_false] at h ⊢
      obtain ⟨hns, hle⟩ := tail (fromLE hd) 1 r1 h
      simp only [hns, if_false]
      omega

theorem popRaw_length {size : Int} {bs m r : Bytes} (h : popRaw size bs = .ok (m, r)) :
    m.length = size.toNat := by
  unfold popRaw at h
  split at h
  · cases h
  · split at h
    · cases h
    · split at h
      · rename_i h0
        cases h
        simp [h0]
      · exact readN_length h

/-- the members of a container: what they cost is paid by what they consume, up to the one member that was
being made when the data ran out -/
theorem costMembers_bound (a : Nat) (ha : 2 ≤ a) : ∀ (n : Nat) (bs : Bytes),
    (match decMembers n bs with
      | .ok (_, r) => costMembers n bs + a * r.length ≤ a * bs.length
      | _ => costMembers n bs ≤ a * bs.length + 4)
  | 0, bs => by simp [decMembers, costMembers]
  | n + 1, bs => by
    simp only [decMembers, costMembers]
    cases h1 : popLong bs with
    | err e => simp
    | panic s => simp
    | ok p1 =>
      obtain ⟨mid, r1⟩ := p1
      simp only
      have c1 := popLong_consumes h1
      have m1 := @mul_le_of a r1.length 8 bs.length (by omega)
      cases h2 : popUint r1 with
      | err e => simp only; omega
      | panic s => simp only; omega
      | ok p2 =>
        obtain ⟨seq, r2⟩ := p2
        simp only
        cases h3 : popUint r2 with
        | err e => simp only; omega
        | panic s => simp only; omega
        | ok p3 =>
          obtain ⟨size, r3⟩ := p3
          simp only
          cases h4 : popRaw (toSigned 32 size) r3 with
          | err e => simp only; omega
          | panic s => simp only; omega
          | ok p4 =>
            obtain ⟨body, r4⟩ := p4
            simp only
            have c2 := popUint_consumes h2
            have c3 := popUint_consumes h3
            have c4 := popRaw_consumes h4
            have l4 := popRaw_length h4
            have ih := costMembers_bound a ha n r4
            have m2 := @mul_le_of a r4.length (16 + body.length) bs.length (by omega)
            have m3 : body.length ≤ a * body.length := le_mul_of_one_le _ (by omega)
            rw [Nat.mul_add] at m2
            cases h5 : decMembers n r4 with
            | err e => simp only [h5] at ih ⊢; omega
            | panic s => simp only [h5] at ih ⊢; omega
            | ok p5 =>
              obtain ⟨ms, r5⟩ := p5
              simp only [h5] at ih ⊢
              omega

theorem structUnits_le {d : CtorDesc} {F : Nat} (h : d.fields.length ≤ F) : structUnits d ≤ 2 * F + 2 := by
  unfold structUnits
  split <;> omega

/-! ## the invariant -/

/-- What a call may cost. `a` units per byte the call consumes, `b` units per byte gunzip produced below it; a
call that succeeds keeps `s` units in reserve for its caller (the slot its value is put into); a call that
fails may have made one thing, of at most `e` units, for data that never came. A gunzip call weighs `a`. -/
def BdS {α : Type} (a b s e : Nat) (bs : Bytes) (res : DRes α) (c : Cost) : Prop :=
  match res with
  | .ok (_, r, _) => c.alloc + a * c.gzCalls + s + a * r.length ≤ a * bs.length + b * c.gzOut
  | _ => c.alloc + a * c.gzCalls ≤ a * bs.length + b * c.gzOut + e

theorem BdS_ok {α : Type} {a b s e : Nat} {bs : Bytes} {x : DRes α} {c : Cost} {v : α} {r : Bytes} {hs : List Ty}
    (h : BdS a b s e bs x c) (hx : x = .ok (v, r, hs)) :
    c.alloc + a * c.gzCalls + s + a * r.length ≤ a * bs.length + b * c.gzOut := by
  subst hx; exact h

theorem BdS_err {α : Type} {a b s e : Nat} {bs : Bytes} {x : DRes α} {c : Cost} {er : String}
    (h : BdS a b s e bs x c) (hx : x = .err er) :
    c.alloc + a * c.gzCalls ≤ a * bs.length + b * c.gzOut + e := by
  subst hx; exact h

theorem BdS_panic {α : Type} {a b s e : Nat} {bs : Bytes} {x : DRes α} {c : Cost} {er : String}
    (h : BdS a b s e bs x c) (hx : x = .panic er) :
    c.alloc + a * c.gzCalls ≤ a * bs.length + b * c.gzOut + e := by
  subst hx; exact h

/-- whatever the outcome: the cost is at most the bound for all of the input plus the larger of the reserves -/
theorem BdS_any {α : Type} {a b s e : Nat} {bs : Bytes} {x : DRes α} {c : Cost} (h : BdS a b s e bs x c) :
    c.alloc + a * c.gzCalls ≤ a * bs.length + b * c.gzOut + e := by
  cases x with
  | ok p => obtain ⟨v, r, hs⟩ := p; have := BdS_ok h rfl; omega
  | err er => exact h
  | panic er => exact h

/-- a call that costs nothing and consumes at least a byte -/
theorem BdS_zero_of_Lt {α : Type} {a b e : Nat} {bs : Bytes} {x : DRes α} (ha : 2 ≤ a) (h : Lt bs x) :
    BdS a b 2 e bs x Cost.zero := by
  cases x with
  | ok p =>
    obtain ⟨v, r, hs⟩ := p
    have hl : r.length < bs.length := h
    have := @mul_le_of a r.length 1 bs.length (by omega)
    show 0 + a * 0 + 2 + a * r.length ≤ a * bs.length + b * 0
    omega
  | err er => show 0 + a * 0 ≤ _; omega
  | panic er => show 0 + a * 0 ≤ _; omega

/-- a call that costs nothing and gives no bytes back -/
theorem BdS_zero_of_Le {α : Type} {a b e : Nat} {bs : Bytes} {x : DRes α} (h : Le bs x) :
    BdS a b 0 e bs x Cost.zero := by
  cases x with
  | ok p =>
    obtain ⟨v, r, hs⟩ := p
    have hl : r.length ≤ bs.length := h
    have := Nat.mul_le_mul_left a hl
    show 0 + a * 0 + 0 + a * r.length ≤ a * bs.length + b * 0
    omega
  | err er => show 0 + a * 0 ≤ _; omega
  | panic er => show 0 + a * 0 ≤ _; omega


theorem BdS_mono {α : Type} {a b s e : Nat} {bs r : Bytes} {x : DRes α} {c : Cost} (hl : r.length ≤ bs.length)
    (h : BdS a b s e r x c) : BdS a b s e bs x c := by
  have hm := Nat.mul_le_mul_left a hl
  cases x with
  | ok p =>
    obtain ⟨v, r', hs⟩ := p
    have := BdS_ok h rfl
    show _ ≤ _
    omega
  | err er => have := BdS_err h rfl; show _ ≤ _; omega
  | panic er => have := BdS_panic h rfl; show _ ≤ _; omega

macro "bd_simp" : tactic =>
  `(tactic| simp only [BdS, Cost.add_alloc, Cost.add_gzCalls, Cost.add_gzOut, Cost.units_alloc, Cost.units_gzCalls,
      Cost.units_gzOut, Cost.zero_alloc, Cost.zero_gzCalls, Cost.zero_gzOut, Nat.mul_add, Nat.mul_zero, Nat.add_zero,
      Nat.zero_add])

/-- All six decoder functions at once, by induction on the fuel. `a ≥ F + 2` units per consumed byte (`F` bounds the
number of fields of a registered constructor), `b = a + 1` per byte gunzip produced. A value, a vector body and a
registered object keep 2 units in reserve when they succeed and have made at most `2a − 2` units too many when
they fail; item lists, structs and field lists keep nothing and have made at most `2a` too many. -/
theorem cost_bound_all (R : Registry) (gz : Bytes → Option Bytes) (F a b : Nat)
    (hF : ∀ d ∈ R, d.fields.length ≤ F) (ha : F + 2 ≤ a) (hb : b = a + 1) : ∀ (fuel : Nat),
    (∀ dp ty bs hs, BdS a b 2 (2 * a - 2) bs (decVal R gz dp fuel ty bs hs) (costVal R gz dp fuel ty bs hs)) ∧
    (∀ dp e bs hs, BdS a b 2 (2 * a - 2) bs (decVecBody R gz dp fuel e bs hs) (costVecBody R gz dp fuel e bs hs)) ∧
    (∀ dp e n bs hs, BdS a b 0 (2 * a) bs (decItems R gz dp fuel e n bs hs) (costItems R gz dp fuel e n bs hs)) ∧
    (∀ dp d bs hs, BdS a b 0 (2 * a) bs (decStruct R gz dp fuel d bs hs) (costStruct R gz dp fuel d bs hs)) ∧
    (∀ dp k w fs bs hs, BdS a b 0 (2 * a) bs (decFields R gz dp fuel k w fs bs hs)
      (costFields R gz dp fuel k w fs bs hs)) ∧
    (∀ dp bs hs, BdS a b 2 (2 * a - 2) bs (decRegistered R gz dp fuel bs hs) (costRegistered R gz dp fuel bs hs))
  | 0 => by
    refine ⟨?_, ?_, ?_, ?_, ?_, ?_⟩
    · intro dp ty bs hs; simp only [decVal, costVal]; bd_simp; omega
    · intro dp e bs hs; simp only [decVecBody, costVecBody]; bd_simp; omega
    · intro dp e n bs hs; cases n <;> (simp only [decItems, costItems]; bd_simp; omega)
    · intro dp d bs hs; simp only [decStruct, costStruct]; bd_simp; omega
    · intro dp k w fs bs hs; cases fs <;> (simp only [decFields, costFields]; bd_simp; omega)
    · intro dp bs hs; simp only [decRegistered, costRegistered]; bd_simp; omega
  | fuel + 1 => by
    obtain ⟨ihVal, ihVec, ihItems, ihStruct, ihFields, ihReg⟩ := cost_bound_all R gz F a b hF ha hb fuel
    have ha2 : 2 ≤ a := by omega
    refine ⟨?_, ?_, ?_, ?_, ?_, ?_⟩
    · -- decVal
      intro dp ty bs hs
      have hLt := (decoder_consumes R gz (fuel + 1)).1 dp ty bs hs
      have scalar : costVal R gz dp (fuel + 1) ty bs hs = Cost.zero →
          BdS a b 2 (2 * a - 2) bs (decVal R gz dp (fuel + 1) ty bs hs) (costVal R gz dp (fuel + 1) ty bs hs) := by
        intro hc; rw [hc]; exact BdS_zero_of_Lt ha2 hLt
      have msg : ∀ (f : Bytes → Val),
          BdS a b 2 (2 * a - 2) bs
            (match popMessage bs with
              | .ok (m, r) => (Outcome.ok (f m, r, hs) : DRes Val)
              | .err e => .err e
              | .panic s => .panic s) (Cost.units (costMessage bs)) := by
        intro f
        have hle := costMessage_le bs
        have hm0 := le_mul_of_one_le (a := a) bs.length (by omega)
        cases h : popMessage bs with
        | err _ => bd_simp; omega
        | panic _ => bd_simp; omega
        | ok p =>
          obtain ⟨m, r⟩ := p
          have hc := popMessage_cost h
          have h1 := @mul_le_of a r.length (costMessage bs + 1) bs.length (by omega)
          rw [Nat.mul_add] at h1
          have h2 := le_mul_of_one_le (a := a) (costMessage bs) (by omega)
          bd_simp
          omega
      cases ty with
      | int32 => exact scalar (by simp only [costVal])
      | uint32 => exact scalar (by simp only [costVal])
      | enum nm => exact scalar (by simp only [costVal])
      | int64 => exact scalar (by simp only [costVal])
      | f64 => exact scalar (by simp only [costVal])
      | bool => exact scalar (by simp only [costVal])
      | i128 => exact scalar (by simp only [costVal])
      | i256 => exact scalar (by simp only [costVal])
      | bad w => exact scalar (by simp only [costVal])
      | str => simp only [decVal, costVal]; exact msg (fun m => .str m)
      | bytes => simp only [decVal, costVal]; exact msg (fun m => .bytes false m)
      | vec e =>
        simp only [decVal, costVal]
        cases h : popUint bs with
        | err _ => bd_simp; omega
        | panic _ => bd_simp; omega
        | ok p =>
          obtain ⟨crc, r⟩ := p
          have hc := popUint_consumes h
          simp only
          by_cases hcv : crc ≠ crcVector
          · simp only [if_pos hcv]; bd_simp; omega
          · simp only [if_neg hcv]
            exact BdS_mono (by omega) (ihVec dp e r hs)
      | ptr id =>
        simp only [decVal, costVal]
        cases hfind : R.find id with
        | none => bd_simp; omega
        | some d =>
          simp only
          have hsu := structUnits_le (hF d (List.mem_of_find?_eq_some hfind))
          cases hk : d.kind with
          | struct =>
            simp only
            cases h : popUint bs with
            | err _ => bd_simp; omega
            | panic _ => bd_simp; omega
            | ok p =>
              obtain ⟨crc, r⟩ := p
              have hc := popUint_consumes h
              have hm := @mul_le_of a r.length 4 bs.length (by omega)
              simp only
              by_cases hcv : crc ≠ d.id
              · simp only [if_pos hcv]; bd_simp; omega
              · simp only [if_neg hcv]
                have ih := ihStruct dp d r hs
                cases h2 : decStruct R gz dp fuel d r hs with
                | ok q => obtain ⟨v, r', hs'⟩ := q; have := BdS_ok ih h2; bd_simp; omega
                | err _ => have := BdS_err ih h2; bd_simp; omega
                | panic _ => have := BdS_panic ih h2; bd_simp; omega
          | enum => bd_simp; omega
          | container => bd_simp; omega
          | gzip => bd_simp; omega
      | iface nm =>
        simp only [decVal, costVal]
        have ih := ihReg dp bs hs
        cases h : decRegistered R gz dp fuel bs hs with
        | err _ => have := BdS_err ih h; simp only [BdS]; omega
        | panic _ => have := BdS_panic ih h; simp only [BdS]; omega
        | ok p =>
          obtain ⟨v, r, hs'⟩ := p
          have := BdS_ok ih h
          simp only
          by_cases hcn : convertible R nm v = true
          · simp only [if_pos hcn, BdS]; omega
          · simp only [if_neg hcn, BdS]; omega
    · -- decVecBody
      intro dp e bs hs
      simp only [decVecBody, costVecBody]
      cases h : popUint bs with
      | err _ => bd_simp; omega
      | panic _ => bd_simp; omega
      | ok p =>
        obtain ⟨n, r⟩ := p
        have hc := popUint_consumes h
        have hm := @mul_le_of a r.length 4 bs.length (by omega)
        simp only
        by_cases hg : r.length < n
        · simp only [if_pos hg]; bd_simp; omega
        · simp only [if_neg hg]
          have ih := ihItems dp e n r hs
          cases h2 : decItems R gz dp fuel e n r hs with
          | ok q => obtain ⟨items, r', hs'⟩ := q; have := BdS_ok ih h2; bd_simp; omega
          | err _ => have := BdS_err ih h2; bd_simp; omega
          | panic _ => have := BdS_panic ih h2; bd_simp; omega
    · -- decItems
      intro dp e n bs hs
      cases n with
      | zero => simp only [decItems, costItems]; bd_simp; omega
      | succ n =>
        simp only [decItems, costItems]
        have ihv := ihVal dp e bs hs
        cases hv : decVal R gz dp fuel e bs hs with
        | err _ => have := BdS_err ihv hv; bd_simp; omega
        | panic _ => have := BdS_panic ihv hv; bd_simp; omega
        | ok p =>
          obtain ⟨v, r, hs'⟩ := p
          have h1 := BdS_ok ihv hv
          simp only
          have ih2 := ihItems dp e n r hs'
          cases hi : decItems R gz dp fuel e n r hs' with
          | ok q => obtain ⟨vs, r', hs''⟩ := q; have := BdS_ok ih2 hi; bd_simp; omega
          | err _ => have := BdS_err ih2 hi; bd_simp; omega
          | panic _ => have := BdS_panic ih2 hi; bd_simp; omega
    · -- decStruct
      intro dp d bs hs
      simp only [decStruct, costStruct]
      by_cases hwf : (!wfDesc d) = true
      · simp only [if_pos hwf]; bd_simp; omega
      · simp only [if_neg hwf]
        have ih := ihFields dp d.flagIndex 0 d.fields bs hs
        cases h : decFields R gz dp fuel d.flagIndex 0 d.fields bs hs with
        | ok q => obtain ⟨fs, r, hs'⟩ := q; have := BdS_ok ih h; simp only [BdS]; omega
        | err _ => have := BdS_err ih h; simp only [BdS]; omega
        | panic _ => have := BdS_panic ih h; simp only [BdS]; omega
    · -- decFields
      intro dp k w fs bs hs
      cases fs with
      | nil => simp only [decFields, costFields]; bd_simp; omega
      | cons f fs =>
        simp only [decFields, costFields]
        generalize hx : (if k = some 0 then popUint bs else Outcome.ok (w, bs)) = x
        cases x with
        | err _ => bd_simp; omega
        | panic _ => bd_simp; omega
        | ok p =>
          obtain ⟨w', r0⟩ := p
          have hr0 : r0.length ≤ bs.length := by
            split at hx
            · have := popUint_consumes hx; omega
            · cases hx; exact Nat.le_refl _
          have hm0 := Nat.mul_le_mul_left a hr0
          simp only
          have tailOK : ∀ (pre : Val),
              BdS a b 0 (2 * a) bs (match decFields R gz dp fuel (nextK k) w' fs r0 hs with
                | .ok (vs, r, hs'') => (Outcome.ok (pre :: vs, r, hs'') : DRes (List Val))
                | .err er => .err er
                | .panic s => .panic s) (costFields R gz dp fuel (nextK k) w' fs r0 hs) := by
            intro pre
            have ih := ihFields dp (nextK k) w' fs r0 hs
            cases h2 : decFields R gz dp fuel (nextK k) w' fs r0 hs with
            | ok q => obtain ⟨vs, r', hs''⟩ := q; have := BdS_ok ih h2; simp only [BdS]; omega
            | err _ => have := BdS_err ih h2; simp only [BdS]; omega
            | panic _ => have := BdS_panic ih h2; simp only [BdS]; omega
          have valCase : BdS a b 0 (2 * a) bs (match decVal R gz dp fuel f.ty r0 hs with
              | .err er => (Outcome.err er : DRes (List Val))
              | .panic s => .panic s
              | .ok (v, r, hs') =>
                match decFields R gz dp fuel (nextK k) w' fs r hs' with
                | .ok (vs, r', hs'') => .ok (v :: vs, r', hs'')
                | .err er => .err er
                | .panic s => .panic s)
              (costVal R gz dp fuel f.ty r0 hs +
                match decVal R gz dp fuel f.ty r0 hs with
                | .ok (_, r, hs') => costFields R gz dp fuel (nextK k) w' fs r hs'
                | _ => Cost.zero) := by
            have ihv := ihVal dp f.ty r0 hs
            cases hv : decVal R gz dp fuel f.ty r0 hs with
            | err _ => have := BdS_err ihv hv; bd_simp; omega
            | panic _ => have := BdS_panic ihv hv; bd_simp; omega
            | ok p =>
              obtain ⟨v, r, hs'⟩ := p
              have h1 := BdS_ok ihv hv
              simp only
              have ih2 := ihFields dp (nextK k) w' fs r hs'
              cases hi : decFields R gz dp fuel (nextK k) w' fs r hs' with
              | ok q => obtain ⟨vs, r', hs''⟩ := q; have := BdS_ok ih2 hi; bd_simp; omega
              | err _ => have := BdS_err ih2 hi; bd_simp; omega
              | panic _ => have := BdS_panic ih2 hi; bd_simp; omega
          cases hfl : f.flag with
          | none =>
            simp only [Bool.false_eq_true, if_false]
            exact valCase
          | some fl =>
            simp only
            by_cases h1 : decide (w' / 2 ^ fl.bit % 2 = 0) = true
            · simp only [h1, if_true]
              exact tailOK _
            · simp only [h1]
              by_cases h2 : fl.inBits = true
              · simp only [h2, if_true]
                exact tailOK _
              · simp only [h2]
                exact valCase
    · -- decRegistered
      intro dp bs hs
      simp only [decRegistered, costRegistered]
      cases h : popUint bs with
      | err _ => bd_simp; omega
      | panic _ => bd_simp; omega
      | ok p =>
        obtain ⟨crc, r⟩ := p
        have hc := popUint_consumes h
        have hm := @mul_le_of a r.length 4 bs.length (by omega)
        simp only
        by_cases hcv : crc = crcVector
        · simp only [if_pos hcv]
          cases hs with
          | nil => bd_simp; omega
          | cons h0 hs' =>
            cases h0 with
            | vec e => exact BdS_mono (by omega) (ihVec dp e r hs')
            | _ => bd_simp; omega
        · simp only [if_neg hcv]
          by_cases hps : (crc = crcFalse || crc = crcTrue || crc = crcNull) = true
          · simp only [if_pos hps]; bd_simp; omega
          · simp only [if_neg hps]
            cases hfind : R.find crc with
            | none =>
              have := le_mul_of_one_le (a := a) r.length (by omega)
              bd_simp; omega
            | some d =>
              simp only
              have hsu := structUnits_le (hF d (List.mem_of_find?_eq_some hfind))
              cases hk : d.kind with
              | enum => bd_simp; omega
              | struct =>
                simp only
                have ih := ihStruct dp d r hs
                cases h2 : decStruct R gz dp fuel d r hs with
                | ok q => obtain ⟨v, r', hs'⟩ := q; have := BdS_ok ih h2; bd_simp; omega
                | err _ => have := BdS_err ih h2; bd_simp; omega
                | panic _ => have := BdS_panic ih h2; bd_simp; omega
              | container =>
                simp only
                cases h2 : popUint r with
                | err _ => bd_simp; omega
                | panic _ => bd_simp; omega
                | ok q =>
                  obtain ⟨cnt, r1⟩ := q
                  have hc2 := popUint_consumes h2
                  have hm2 := @mul_le_of a r1.length 8 bs.length (by omega)
                  have hmem := costMembers_bound a ha2 (toSigned 32 cnt).toNat r1
                  simp only
                  cases h3 : decMembers (toSigned 32 cnt).toNat r1 with
                  | err _ => simp only [h3] at hmem; bd_simp; omega
                  | panic _ => simp only [h3] at hmem; bd_simp; omega
                  | ok q2 => obtain ⟨ms, r2⟩ := q2; simp only [h3] at hmem; bd_simp; omega
              | gzip =>
                simp only
                have hle := costMessage_le r
                have hm0 := le_mul_of_one_le (a := a) (costMessage r) (by omega)
                have hmr := Nat.mul_le_mul_left a hle
                cases h2 : popMessage r with
                | err _ => bd_simp; omega
                | panic _ => bd_simp; omega
                | ok q =>
                  obtain ⟨packed, r1⟩ := q
                  have hc2 := popMessage_cost h2
                  have hm2 := @mul_le_of a r1.length (costMessage r + 1) r.length (by omega)
                  rw [Nat.mul_add] at hm2
                  simp only
                  cases hg : gz packed with
                  | none => bd_simp; omega
                  | some plain =>
                    simp only
                    have hbp : b * plain.length = a * plain.length + plain.length := by
                      subst hb; rw [Nat.add_mul, Nat.one_mul]
                    by_cases hdp : maxNestedDecoders ≤ dp
                    · simp only [if_pos hdp]; bd_simp; omega
                    · simp only [if_neg hdp]
                      have ih := BdS_any (ihReg (dp + 1) plain hs)
                      cases h3 : decRegistered R gz (dp + 1) fuel plain hs with
                      | ok q2 => obtain ⟨inner, r2, hs2⟩ := q2; bd_simp; omega
                      | err _ => bd_simp; omega
                      | panic _ => bd_simp; omega

end Mtv.TL
