/-
  Lemmas for C18 about the number/byte layer of Mtv.Srp.Num: `powMod` is modular exponentiation,
  `toBE`/`fromBE` round trip, `pad256` keeps the number (below 2^2048) and always yields 256 bytes.
  Core-only proofs.
-/
import Mtv.Srp.Num
namespace Mtv.Srp

/-! ### powMod -/

theorem powModAux_eq : ∀ (fuel b e m acc : Nat), e ≤ fuel →
    powModAux fuel b e m acc = acc * b ^ e % m := by
  intro fuel
  induction fuel with
  | zero =>
    intro b e m acc h
    have : e = 0 := by omega
    subst this
    simp [powModAux]
  | succ fuel ih =>
    intro b e m acc h
    unfold powModAux
    by_cases he : e = 0
    · subst he; simp
    · simp only [he, if_false]
      rw [ih _ _ _ _ (by omega)]
      have hsq : (b * b % m) ^ (e / 2) % m = (b * b) ^ (e / 2) % m := by
        rw [← Nat.pow_mod]
      have hbb : (b * b) ^ (e / 2) = b ^ (2 * (e / 2)) := by
        rw [Nat.pow_mul, Nat.pow_two]
      by_cases hodd : e % 2 = 1
      · simp only [hodd, if_true]
        have he2 : e = 2 * (e / 2) + 1 := by omega
        calc acc * b % m * (b * b % m) ^ (e / 2) % m
            = (acc * b % m) * ((b * b % m) ^ (e / 2) % m) % m := by
              rw [Nat.mul_mod, Nat.mod_mod]
          _ = (acc * b % m) * ((b * b) ^ (e / 2) % m) % m := by rw [hsq]
          _ = (acc * b) * (b * b) ^ (e / 2) % m := by rw [← Nat.mul_mod]
          _ = acc * b ^ e % m := by
              rw [hbb, Nat.mul_assoc, ← Nat.pow_succ']
              have : (2 * (e / 2)).succ = e := by omega
              rw [this]
      · simp only [hodd, if_false]
        have he2 : e = 2 * (e / 2) := by omega
        calc acc * (b * b % m) ^ (e / 2) % m
            = (acc % m) * ((b * b % m) ^ (e / 2) % m) % m := by rw [Nat.mul_mod]
          _ = (acc % m) * ((b * b) ^ (e / 2) % m) % m := by rw [hsq]
          _ = acc * (b * b) ^ (e / 2) % m := by rw [← Nat.mul_mod]
          _ = acc * b ^ e % m := by rw [hbb, ← he2]

/-- `powMod` (square-and-multiply, what the driver runs) is modular exponentiation. -/
theorem powMod_eq (b e m : Nat) : powMod b e m = b ^ e % m := by
  unfold powMod
  rw [powModAux_eq _ _ _ _ _ (Nat.le_refl _), Nat.one_mul]

theorem powMod_lt (b e m : Nat) (hm : 0 < m) : powMod b e m < m := by
  rw [powMod_eq]; exact Nat.mod_lt _ hm

/-! ### toBE / fromBE -/

theorem fromLE_toLEminAux : ∀ (fuel n : Nat), n ≤ fuel → fromLE (toLEminAux fuel n) = n := by
  intro fuel
  induction fuel with
  | zero => intro n h; have : n = 0 := by omega
            subst this; simp [toLEminAux, fromLE]
  | succ fuel ih =>
    intro n h
    unfold toLEminAux
    by_cases h0 : n = 0
    · simp [h0, fromLE]
    · simp only [h0, if_false, fromLE]
      rw [ih (n / 256) (by omega)]
      have : (UInt8.ofNat (n % 256)).toNat = n % 256 := by simp [UInt8.toNat_ofNat']
      rw [this]; omega

theorem fromLE_toLEmin (n : Nat) : fromLE (toLEmin n) = n :=
  fromLE_toLEminAux n n (Nat.le_refl _)

theorem toLEminAux_length_le (k : Nat) : ∀ fuel n, n < 256 ^ k → (toLEminAux fuel n).length ≤ k := by
  induction k with
  | zero =>
    intro fuel n h
    have : n = 0 := by simpa using h
    subst this; cases fuel <;> simp [toLEminAux]
  | succ k ih =>
    intro fuel n h
    cases fuel with
    | zero => simp [toLEminAux]
    | succ fuel =>
      unfold toLEminAux
      by_cases h0 : n = 0
      · simp [h0]
      · simp only [h0, if_false, List.length_cons]
        have : n / 256 < 256 ^ k := by
          rw [Nat.div_lt_iff_lt_mul (by decide)]; rw [Nat.pow_succ] at h; exact h
        have := ih fuel _ this
        omega

theorem toLEmin_length_le (k n : Nat) (h : n < 256 ^ k) : (toLEmin n).length ≤ k :=
  toLEminAux_length_le k n n h

/-- `SetBytes(Bytes(n)) = n` -/
theorem fromBE_toBE (n : Nat) : fromBE (toBE n) = n := by
  simp [fromBE, toBE, fromLE_toLEmin]

theorem toBE_length_le (k n : Nat) (h : n < 256 ^ k) : (toBE n).length ≤ k := by
  simp [toBE, toLEmin_length_le k n h]

theorem fromLE_append_zeros (b : Bytes) (k : Nat) : fromLE (b ++ zeros k) = fromLE b := by
  induction b with
  | nil =>
    induction k with
    | zero => simp [zeros]
    | succ k ih =>
      simp only [zeros, List.replicate_succ, List.nil_append, fromLE] at ih ⊢
      rw [ih]; simp
  | cons x xs ih => simp only [List.cons_append, fromLE, ih]

/-- leading zero bytes do not change the number -/
theorem fromBE_zeros_append (k : Nat) (b : Bytes) : fromBE (zeros k ++ b) = fromBE b := by
  unfold fromBE
  rw [List.reverse_append]
  have : (zeros k).reverse = zeros k := by simp [zeros]
  rw [this, fromLE_append_zeros]

theorem fromBE_lt (b : Bytes) : fromBE b < 256 ^ b.length := by
  have := fromLE_lt b.reverse
  simpa [fromBE] using this

/-! ### pad256 -/

@[simp] theorem pad256_length (b : Bytes) : (pad256 b).length = 256 := by
  unfold pad256
  by_cases h : b.length ≥ 256
  · simp only [h, if_true, List.length_drop]; omega
  · simp only [h, if_false, List.length_append, zeros_length]; omega

/-- an input of at most 256 bytes keeps its number under `pad256` (no truncation) -/
theorem fromBE_pad256_of_length_le (b : Bytes) (h : b.length ≤ 256) : fromBE (pad256 b) = fromBE b := by
  unfold pad256
  by_cases h2 : b.length ≥ 256
  · have : b.length - 256 = 0 := by omega
    simp [h2, this]
  · simp only [h2, if_false, fromBE_zeros_append]

/-- a 256-byte string is left alone -/
theorem pad256_of_length_eq (b : Bytes) (h : b.length = 256) : pad256 b = b := by
  unfold pad256
  simp [h]

theorem pad256_idem (b : Bytes) : pad256 (pad256 b) = pad256 b :=
  pad256_of_length_eq _ (pad256_length b)

/-- **No leading-zero case is lost**: for every number below 2^2048 — whatever the number of
leading zero bytes of its 256-byte form, including 0 itself — padding the minimal representation
(`pad256(x.Bytes())`) and reading it back gives the number. -/
theorem fromBE_pad256_toBE (n : Nat) (h : n < 256 ^ 256) : fromBE (pad256 (toBE n)) = n := by
  rw [fromBE_pad256_of_length_le _ (toBE_length_le 256 n h), fromBE_toBE]

/-- consequently the 256-byte form determines the number -/
theorem pad256_toBE_inj (m n : Nat) (hm : m < 256 ^ 256) (hn : n < 256 ^ 256)
    (h : pad256 (toBE m) = pad256 (toBE n)) : m = n := by
  have := congrArg fromBE h
  rwa [fromBE_pad256_toBE m hm, fromBE_pad256_toBE n hn] at this

/-- re-padding the number of an at-most-256-byte string gives the padded string
(`pad256(srpB)` is what a server that reads `srp_B` as a number would write) -/
theorem pad256_toBE_fromBE (b : Bytes) (h : b.length ≤ 256) : pad256 (toBE (fromBE b)) = pad256 b := by
  -- both are 256-byte strings with the same number
  have h1 : (pad256 (toBE (fromBE b))).length = 256 := pad256_length _
  have h2 : (pad256 b).length = 256 := pad256_length _
  have hlt : fromBE b < 256 ^ 256 :=
    Nat.lt_of_lt_of_le (fromBE_lt b) (Nat.pow_le_pow_right (by decide) h)
  have hv : fromBE (pad256 (toBE (fromBE b))) = fromBE (pad256 b) := by
    rw [fromBE_pad256_toBE _ hlt, fromBE_pad256_of_length_le _ h]
  -- equal length + equal value ⇒ equal strings
  have key : ∀ (x y : Bytes), x.length = y.length → fromLE x = fromLE y → x = y := by
    intro x y hl hv
    have hx := leBytes_fromLE x
    have hy := leBytes_fromLE y
    rw [← hx, ← hy, hl, hv]
  have := key (pad256 (toBE (fromBE b))).reverse (pad256 b).reverse (by simp [h1, h2])
    (by simpa [fromBE] using hv)
  simpa using congrArg List.reverse this

/-- 256-byte strings are the numbers below 2^2048 -/
theorem pow256_eq : (256 : Nat) ^ 256 = 2 ^ 2048 := by
  show ((2 : Nat) ^ 8) ^ 256 = 2 ^ 2048
  rw [← Nat.pow_mul]

theorem lt_pow2048_of_lt_256 (n : Nat) (h : n < 256) : n < 2 ^ 2048 :=
  Nat.lt_trans (show n < 2 ^ 8 from h) (Nat.pow_lt_pow_right (by decide) (by decide))

end Mtv.Srp
