/-
  The declarations model (Mtv/Tlgen/Emit.lean): fields follow the schema's parameters, the flag index is
  the position of the flags word.
-/
import Mtv.Tlgen.Emit
namespace Mtv.Tlgen

/-- the `tl:"…"` tag of a parameter -/
def tagOf (p : Param) : Str :=
  (if p.isOptional then "flag:".toList ++ (Nat.repr p.bit).toList else []) ++
  (if p.type = "true".toList then ",encoded_in_bitflags".toList else [])

theorem fieldOf_spec (objs : List Obj) (p : Param) (f : GoField) (h : fieldOf objs p = some f) :
    f.name = p.name ∧ f.vec = p.isVector ∧ f.tag = tagOf p ∧ goTypeOf objs p.type = some f.type := by
  simp only [fieldOf] at h
  cases ht : goTypeOf objs p.type with
  | none => simp [ht] at h
  | some t =>
    simp only [ht, Option.some.injEq] at h
    subst h
    refine ⟨rfl, rfl, ?_, rfl⟩
    simp only [tagOf]
    split <;> split <;> simp

/-- the struct fields are the parameters other than the flags word, in the schema's order, each with
its name, vector marker, tag and mapped type -/
theorem fieldsOf_spec (objs : List Obj) (ps : List Param) (fs : List GoField) (h : fieldsOf objs ps = some fs) :
    fs.map (fun f => (f.name, f.vec, f.tag)) =
      (ps.filter fun p => p.type ≠ kwBitflags).map (fun p => (p.name, p.isVector, tagOf p)) ∧
    fs.map (fun f => some f.type) = (ps.filter fun p => p.type ≠ kwBitflags).map (fun p => goTypeOf objs p.type) := by
  induction ps generalizing fs with
  | nil => simp only [fieldsOf, Option.some.injEq] at h; subst h; simp
  | cons p ps ih =>
    simp only [fieldsOf] at h
    by_cases hb : p.type = kwBitflags
    · simp only [hb, if_true] at h
      have := ih fs h
      simpa [List.filter_cons, hb] using this
    · simp only [hb, if_false] at h
      cases hf : fieldOf objs p with
      | none => simp [hf] at h
      | some f =>
        cases hr : fieldsOf objs ps with
        | none => simp [hf, hr] at h
        | some fr =>
          simp only [hf, hr, Option.some.injEq] at h
          subst h
          obtain ⟨h1, h2, h3, h4⟩ := fieldOf_spec objs p f hf
          obtain ⟨i1, i2⟩ := ih fr hr
          simp [hb, h1, h2, h3, h4, i1, i2]

theorem flagsWordIndex_go_spec (ps : List Param) (i : Nat) (found : Option Nat) (r : Nat)
    (h : flagsWordIndex.go i found ps = some r) :
    found = some r ∨ ∃ j p, ps[j]? = some p ∧ r = i + j ∧ p.name = kwFlagsWord ∧ p.type = kwBitflags := by
  induction ps generalizing i found with
  | nil => simp only [flagsWordIndex.go] at h; exact Or.inl h
  | cons q qs ih =>
    simp only [flagsWordIndex.go] at h
    rcases ih _ _ h with h1 | ⟨j, p, hj, hr, hn, ht⟩
    · split at h1
      · rename_i hq
        simp only [Option.some.injEq] at h1
        exact Or.inr ⟨0, q, by simp, by omega, hq.1, hq.2⟩
      · exact Or.inl h1
    · exact Or.inr ⟨j + 1, p, by simpa using hj, by omega, hn, ht⟩

/-- `FlagIndex()` exists exactly when some field is conditional, and then it is the position of a
`flags:#` parameter among the parameters -/
theorem flagIndexOf_spec (ps : List Param) :
    (flagIndexOf ps = some none ↔ ps.any (·.isOptional) = false) ∧
    (∀ i, flagIndexOf ps = some (some i) →
      ps.any (·.isOptional) = true ∧ ∃ p, ps[i]? = some p ∧ p.name = kwFlagsWord ∧ p.type = kwBitflags) := by
  constructor
  · simp only [flagIndexOf]
    cases ha : ps.any (·.isOptional) with
    | false => simp
    | true =>
      simp only [if_true]
      cases flagsWordIndex ps <;> simp
  · intro i h
    simp only [flagIndexOf] at h
    cases ha : ps.any (·.isOptional) with
    | false => simp [ha] at h
    | true =>
      simp only [ha, if_true] at h
      cases hw : flagsWordIndex ps with
      | none => simp [hw] at h
      | some r =>
        simp only [hw, Option.some.injEq] at h
        subst h
        refine ⟨rfl, ?_⟩
        rcases flagsWordIndex_go_spec ps 0 none r hw with h1 | ⟨j, p, hj, hr, hn, ht⟩
        · cases h1
        · exact ⟨p, by simpa [hr] using hj, hn, ht⟩

end Mtv.Tlgen
