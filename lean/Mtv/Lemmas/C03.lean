/-
  Helper lemmas for C03 / C04: slices, the key schedule, the padding, reading a known prefix.
-/
import Mtv.Envelope.Model
import Mtv.Envelope.Spec
namespace Mtv.Envelope
open Mtv

/-! ### slices -/

theorem slice_eq_substr (b : Bytes) (i n : Nat) : slice b i (i + n) = Spec.substr b i n := by
  simp [slice, Spec.substr, List.drop_take]

theorem slice_eq_substr' (b : Bytes) (i j : Nat) (h : i ≤ j) : slice b i j = Spec.substr b i (j - i) := by
  have : j = i + (j - i) := by omega
  rw [this, slice_eq_substr]; congr 1; omega

theorem substr_length (b : Bytes) (i n : Nat) (h : i + n ≤ b.length) : (Spec.substr b i n).length = n := by
  simp [Spec.substr]; omega

theorem slice_length (b : Bytes) (i j : Nat) (h : j ≤ b.length) : (slice b i j).length = j - i := by
  simp [slice]; omega

theorem substr_zero (b : Bytes) (n : Nat) : Spec.substr b 0 n = b.take n := by simp [Spec.substr]

/-- reading the middle part of `a ++ b ++ c` -/
theorem substr_mid (a b c : Bytes) (off n : Nat) (ha : a.length = off) (hb : b.length = n) :
    Spec.substr (a ++ (b ++ c)) off n = b := by
  simp [Spec.substr, List.drop_left' ha, List.take_left' hb]

/-- a list is its consecutive pieces -/
theorem drop_eq_take_append_drop (l : Bytes) (a n : Nat) :
    l.drop a = Spec.substr l a n ++ l.drop (a + n) := by
  have := (List.take_append_drop n (l.drop a)).symm
  simpa [Spec.substr, List.drop_drop] using this

/-! ### identifiers and the key schedule: model = specification -/

theorem authKeyId_eq_spec (P : Prims) (key : Bytes) : authKeyId P key = Spec.authKeyId P key := by
  simp [authKeyId, Spec.authKeyId, slice_eq_substr' _ 12 20]

theorem msgKey_eq_spec (P : Prims) (pt : Bytes) : msgKey P pt = Spec.msgKeyOf P pt := by
  simp [msgKey, Spec.msgKeyOf, slice_eq_substr' _ 4 20]

theorem authKeyId_length {P : Prims} (hP : P.Ok) (key : Bytes) : (authKeyId P key).length = 8 := by
  simp [authKeyId, slice, hP.H_len]

theorem msgKey_length {P : Prims} (hP : P.Ok) (pt : Bytes) : (msgKey P pt).length = 16 := by
  simp [msgKey, slice, hP.H_len]

/-- `generateAESIGE` computes the MTProto 1.0 key schedule whenever it does not panic -/
theorem kdf_eq_spec (P : Prims) (x : Nat) (mk ak : Bytes) (h : 128 + x ≤ ak.length) :
    kdf P x mk ak = .ok (Spec.keyIv P x ak mk) := by
  have h' : ¬ ak.length < 96 + x + 32 := by omega
  simp only [kdf, h', if_false, Spec.keyIv]
  have e1 : ∀ b : Bytes, slice b 0 8 = Spec.substr b 0 8 := fun b => slice_eq_substr' b 0 8 (by omega)
  have e2 : ∀ b : Bytes, slice b 8 20 = Spec.substr b 8 12 := fun b => slice_eq_substr' b 8 20 (by omega)
  have e3 : ∀ b : Bytes, slice b 4 16 = Spec.substr b 4 12 := fun b => slice_eq_substr' b 4 16 (by omega)
  have e4 : ∀ b : Bytes, slice b 16 20 = Spec.substr b 16 4 := fun b => slice_eq_substr' b 16 20 (by omega)
  have f1 : slice ak x (x + 32) = Spec.substr ak x 32 := slice_eq_substr ak x 32
  have f2 : slice ak (32 + x) (32 + x + 16) = Spec.substr ak (32 + x) 16 := slice_eq_substr ak _ 16
  have f3 : slice ak (48 + x) (48 + x + 16) = Spec.substr ak (48 + x) 16 := slice_eq_substr ak _ 16
  have f4 : slice ak (64 + x) (64 + x + 32) = Spec.substr ak (64 + x) 32 := slice_eq_substr ak _ 32
  have f5 : slice ak (96 + x) (96 + x + 32) = Spec.substr ak (96 + x) 32 := slice_eq_substr ak _ 32
  simp only [e1, e2, e3, e4, f1, f2, f3, f4, f5]

theorem kdf_panics (P : Prims) (x : Nat) (mk ak : Bytes) (h : ak.length < 128 + x) :
    kdf P x mk ak = .panic siteKdf := by
  have h' : ak.length < 96 + x + 32 := by omega
  simp [kdf, h']

theorem kdfG_eq_spec (P : Prims) (x : Nat) (mk ak : Bytes) (h : 128 + x ≤ ak.length) :
    kdfG P x mk ak = .ok (Spec.keyIv P x ak mk) := by
  have : ¬ ak.length < 96 + x + 32 := by omega
  simp only [kdfG, this, if_false]
  exact kdf_eq_spec P x mk ak h

/-- behind `checkAuthKey` a key that is too short is an error, not the derivation's panic -/
theorem kdfG_short (P : Prims) (x : Nat) (mk ak : Bytes) (h : ak.length < 128 + x) :
    kdfG P x mk ak = .err "shortKey" := by
  have : ak.length < 96 + x + 32 := by omega
  simp [kdfG, this]


/-- the derived AES key and IV are 32 bytes each -/
theorem keyIv_length {P : Prims} (hP : P.Ok) (x : Nat) (ak mk : Bytes) :
    (Spec.keyIv P x ak mk).1.length = 32 ∧ (Spec.keyIv P x ak mk).2.length = 32 := by
  simp [Spec.keyIv, Spec.substr, hP.H_len]

/-! ### padding -/

theorem padLen_eq (n : Nat) : padLen n = (16 - n % 16) % 16 := by
  have : (15 : Nat) = 2 ^ 4 - 1 := by decide
  unfold padLen
  rw [this, Nat.and_two_pow_sub_one_eq_mod]

theorem padLen_lt (n : Nat) : padLen n < 16 := by rw [padLen_eq]; omega

theorem padLen_aligned (n : Nat) : (n + padLen n) % 16 = 0 := by rw [padLen_eq]; omega

/-! ### the plaintext -/

theorem plaintext_length (m : Msg) : (Spec.plaintext m).length = 32 + m.body.length := by
  simp [Spec.plaintext]; omega

theorem serializePacket_eq_plaintext (salt sid mid seq : Nat) (ack : Bool) (body : Bytes) :
    serializePacket salt sid mid seq ack body
      = Spec.plaintext ⟨salt, sid, mid, if ack then seq ||| 1 else seq, body⟩ := rfl

/-- the plaintext followed by anything, with the header fields separated -/
theorem plaintext_append (m : Msg) (r : Bytes) :
    Spec.plaintext m ++ r = leBytes m.salt 8 ++ (leBytes m.sid 8 ++ (leBytes m.mid 8 ++
      (leBytes m.seq 4 ++ (leBytes m.body.length 4 ++ (m.body ++ r))))) := by
  simp [Spec.plaintext, List.append_assoc]

theorem toSigned32_small (n : Nat) (h : n < 2 ^ 31) : toSigned 32 n = (n : Int) := by
  have : n < 2 ^ (32 - 1) := by simpa using h
  simp [toSigned, this]

/-! ### reading a known prefix; sealing and opening -/

theorem Rd.raw_append (a r : Bytes) (n : Int) (ha : (a.length : Int) = n) (hne : a ++ r ≠ []) :
    (Rd.mk (a ++ r) false).raw n = (a, ⟨r, false⟩) := by
  subst ha
  have h1 : ¬ (((a.length : Nat) : Int) < 0 ∨ (((a ++ r).length : Nat) : Int) < (a.length : Int)) := by
    simp only [List.length_append]; omega
  have h2 : ¬ (a ++ r).length = 0 := by
    intro h; exact hne (List.eq_nil_of_length_eq_zero h)
  simp only [Rd.raw, Bool.false_eq_true, if_false, h1, h2, Int.toNat_natCast, List.take_left' rfl,
    List.drop_left' rfl]

theorem Rd.word_append (a r : Bytes) (k : Nat) (ha : a.length = k) :
    (Rd.mk (a ++ r) false).word k = (fromLE a, ⟨r, false⟩) := by
  have h1 : ¬ (a ++ r).length < k := by simp only [List.length_append, ha]; omega
  simp only [Rd.word, Bool.false_eq_true, if_false, h1, List.take_left' ha, List.drop_left' ha]

theorem pkt_parts (A B C : Bytes) (hA : A.length = 8) (hB : B.length = 16) :
    Spec.substr (A ++ B ++ C) 0 8 = A ∧ Spec.substr (A ++ B ++ C) 8 16 = B ∧ (A ++ B ++ C).drop 24 = C := by
  refine ⟨?_, ?_, ?_⟩
  · rw [List.append_assoc, substr_zero, List.take_left' hA]
  · rw [List.append_assoc]; exact substr_mid A B C 8 16 hA hB
  · have : (A ++ B).length = 24 := by simp [hA, hB]
    exact List.drop_left' this

/-- the fields of a plaintext followed by anything -/
theorem plaintext_fields (m : Msg) (r : Bytes) :
    let D := Spec.plaintext m ++ r
    Spec.substr D 0 8 = leBytes m.salt 8 ∧ Spec.substr D 8 8 = leBytes m.sid 8 ∧
    Spec.substr D 16 8 = leBytes m.mid 8 ∧ Spec.substr D 24 4 = leBytes m.seq 4 ∧
    Spec.substr D 28 4 = leBytes m.body.length 4 ∧ D.drop 32 = m.body ++ r := by
  intro D
  have hD : D = leBytes m.salt 8 ++ (leBytes m.sid 8 ++ (leBytes m.mid 8 ++
      (leBytes m.seq 4 ++ (leBytes m.body.length 4 ++ (m.body ++ r))))) := plaintext_append m r
  rw [hD]
  have d : ∀ (n k j : Nat), k ≤ j → List.drop j (leBytes n k) = [] :=
    fun n k j h => List.drop_of_length_le (by simpa using h)
  simp [Spec.substr, List.drop_append, d]

/-- The specification's receiver opens the specification's sealing (either direction) to the
message sealed. -/
theorem openDir_sealDir {P : Prims} (hP : P.Ok) (x : Nat) (key : Bytes) (m : Msg) (pad : Bytes)
    (hm : m.WF) (hpad : pad.length < 16) (hal : (32 + m.body.length + pad.length) % 16 = 0) :
    Spec.openDir P x key (Spec.sealDir P x key m pad) = some m := by
  obtain ⟨h1, h2, h3, h4, h5⟩ := hm
  have hkv := keyIv_length hP x key (Spec.msgKeyOf P (Spec.plaintext m))
  have hDlen : (Spec.plaintext m ++ pad).length = 32 + m.body.length + pad.length := by
    simp [plaintext_length]
  have hpos : 0 < (Spec.plaintext m ++ pad).length := by omega
  have hmod : (Spec.plaintext m ++ pad).length % 16 = 0 := by rw [hDlen]; exact hal
  have hC := hP.igeE_len _ _ _ hkv.1 hkv.2 hpos hmod
  have hDE := hP.igeD_igeE _ _ _ hkv.1 hkv.2 hpos hmod
  have hA : (Spec.authKeyId P key).length = 8 := by rw [← authKeyId_eq_spec]; exact authKeyId_length hP key
  have hB : (Spec.msgKeyOf P (Spec.plaintext m)).length = 16 := by
    rw [← msgKey_eq_spec]; exact msgKey_length hP _
  obtain ⟨p1, p2, p3⟩ := pkt_parts _ _ (P.igeE (Spec.keyIv P x key (Spec.msgKeyOf P (Spec.plaintext m))).1
    (Spec.keyIv P x key (Spec.msgKeyOf P (Spec.plaintext m))).2 (Spec.plaintext m ++ pad)) hA hB
  obtain ⟨f1, f2, f3, f4, f5, f6⟩ := plaintext_fields m pad
  have hlen : fromLE (leBytes m.body.length 4) = m.body.length :=
    fromLE_leBytes 4 _ (by have : (2:Nat) ^ 31 < 256 ^ 4 := by decide
                           omega)
  have hpl : ¬ (Spec.authKeyId P key ++ Spec.msgKeyOf P (Spec.plaintext m) ++ P.igeE (Spec.keyIv P x key (Spec.msgKeyOf P (Spec.plaintext m))).1
    (Spec.keyIv P x key (Spec.msgKeyOf P (Spec.plaintext m))).2 (Spec.plaintext m ++ pad)).length < 24 + 32 := by
    simp only [List.length_append, hA, hB, hC, hDlen]; omega
  have htake : (Spec.plaintext m ++ pad).take (32 + m.body.length) = Spec.plaintext m :=
    List.take_left' (plaintext_length m)
  have hbody : Spec.substr (Spec.plaintext m ++ pad) 32 m.body.length = m.body := by
    simp only [Spec.substr, f6]; exact List.take_left' rfl
  simp only [Spec.openDir, Spec.sealDir, hpl, if_false, p1, p2, p3, hC, hDE, f1, f2, f3, f4, f5, hlen,
    ne_eq, not_true_eq_false, htake, hbody, hDlen]
  have c1 : ¬ 2 ^ 31 ≤ m.body.length := by omega
  have c2 : ¬ 32 + m.body.length + pad.length < 32 + m.body.length := by omega
  have c3 : ¬ 16 ≤ 32 + m.body.length + pad.length - (32 + m.body.length) := by omega
  simp only [c1, c2, c3, if_false]
  rw [fromLE_leBytes 8 _ (by simpa using h1), fromLE_leBytes 8 _ (by simpa using h2),
    fromLE_leBytes 8 _ (by simpa using h3), fromLE_leBytes 4 _ (by simpa using h4)]
  simp [hal]

theorem igeCheck_none (d : Bytes) (h1 : 16 ≤ d.length) (h2 : d.length % 16 = 0) : igeCheck d = none := by
  have : ¬ d.length < 16 := by omega
  simp [igeCheck, this, h2]

/-- `Encrypted.Serialize` produces the specification's client-to-server sealing, with
`(16 - len%16) & 15` zero bytes of padding. -/
theorem sealClient_eq_spec (P : Prims) (key : Bytes) (salt sid mid seq : Nat) (ack : Bool) (body : Bytes)
    (hk : 128 ≤ key.length) :
    sealClient P key salt sid mid seq ack body
      = .ok (Spec.sealDir P 0 key ⟨salt, sid, mid, if ack then seq ||| 1 else seq, body⟩
               (zeros (padLen (32 + body.length)))) := by
  have hobj := serializePacket_eq_plaintext salt sid mid seq ack body
  have hl : (Spec.plaintext ⟨salt, sid, mid, if ack then seq ||| 1 else seq, body⟩).length = 32 + body.length :=
    plaintext_length _
  have hpl : (pad16 (Spec.plaintext ⟨salt, sid, mid, if ack then seq ||| 1 else seq, body⟩)).length
      = (32 + body.length) + padLen (32 + body.length) := by
    simp [pad16, hl]
  have hchk := igeCheck_none _ (by rw [hpl]; omega) (by rw [hpl]; exact padLen_aligned _)
  simp only [pad16, hl] at hchk
  simp only [sealClient, encrypt, hobj, kdfG_eq_spec P 0 _ key (by omega), Spec.sealDir,
    authKeyId_eq_spec, msgKey_eq_spec, pad16, hl, hchk]

/-- `DeserializeEncrypted` on a packet sealed in direction 8 over *any* block-aligned plaintext
`pt` and with *any* 16-byte msg_key `mk`: the first half (key id, pops, decryption) succeeds and hands
`pt` to the second half. Both variants of the guard. -/
theorem openClientG_sealed {P : Prims} (hP : P.Ok) (g : Guard) (key mk pt : Bytes)
    (hk : 136 ≤ key.length) (hmk : mk.length = 16) (h16 : 16 ≤ pt.length) (hmod : pt.length % 16 = 0) :
    openClientG g P key (authKeyId P key ++ mk ++
        P.igeE (Spec.keyIv P 8 key mk).1 (Spec.keyIv P 8 key mk).2 pt) = openInner g P mk pt := by
  have hkv := keyIv_length hP 8 key mk
  have hpos : 0 < pt.length := by omega
  have hC := hP.igeE_len _ _ _ hkv.1 hkv.2 hpos hmod
  have hDE := hP.igeD_igeE _ _ _ hkv.1 hkv.2 hpos hmod
  have hA : (authKeyId P key).length = 8 := authKeyId_length hP key
  generalize hCdef : P.igeE (Spec.keyIv P 8 key mk).1 (Spec.keyIv P 8 key mk).2 pt = C at hC hDE
  have hCne : C ≠ [] := by
    intro h
    have : C.length = 0 := by rw [h]; rfl
    omega
  have hdata : authKeyId P key ++ mk ++ C = authKeyId P key ++ (mk ++ (C ++ [])) := by simp
  have hdl : ((authKeyId P key ++ mk ++ C).length : Int) - 24 = (C.length : Nat) := by
    simp only [List.length_append, hA, hmk]; omega
  have r1 := Rd.raw_append (authKeyId P key) (mk ++ (C ++ [])) 8 (by simp [hA])
    (by intro h; have := congrArg List.length h; simp [hA] at this)
  have r2 := Rd.raw_append mk (C ++ []) 16 (by simp [hmk])
    (by intro h; have := congrArg List.length h; simp [hmk] at this)
  have r3 := Rd.raw_append C [] C.length rfl (by simpa using hCne)
  have hchk := igeCheck_none C (by omega) (by rw [hC]; exact hmod)
  unfold openClientG
  simp only [hdl]
  simp only [hdata, r1, ne_eq, not_true_eq_false, if_false, r2, r3]
  simp only [decrypt, kdfG_eq_spec P 8 _ key (by omega), hchk, hDE]

/-- the second half of `DeserializeEncrypted` (repaired) on a well-formed plaintext with its own
msg_key: the message -/
theorem openInner_plaintext {P : Prims} (m : Msg) (pad : Bytes)
    (hm : m.WF) (hpar : serverParity m.mid) :
    openInner .fixed P (Spec.msgKeyOf P (Spec.plaintext m)) (Spec.plaintext m ++ pad) = .ok m := by
  obtain ⟨h1, h2, h3, h4, h5⟩ := hm
  have hDlen : (Spec.plaintext m ++ pad).length = 32 + m.body.length + pad.length := by
    simp [plaintext_length]
  have w1 := Rd.word_append (leBytes m.salt 8) (leBytes m.sid 8 ++ (leBytes m.mid 8 ++
      (leBytes m.seq 4 ++ (leBytes m.body.length 4 ++ (m.body ++ pad))))) 8 (by simp)
  have w2 := Rd.word_append (leBytes m.sid 8) (leBytes m.mid 8 ++
      (leBytes m.seq 4 ++ (leBytes m.body.length 4 ++ (m.body ++ pad)))) 8 (by simp)
  have w3 := Rd.word_append (leBytes m.mid 8) (leBytes m.seq 4 ++ (leBytes m.body.length 4 ++ (m.body ++ pad)))
    8 (by simp)
  have w4 := Rd.word_append (leBytes m.seq 4) (leBytes m.body.length 4 ++ (m.body ++ pad)) 4 (by simp)
  have w5 := Rd.word_append (leBytes m.body.length 4) (m.body ++ pad) 4 (by simp)
  have hlen : fromLE (leBytes m.body.length 4) = m.body.length :=
    fromLE_leBytes 4 _ (by have : (2:Nat) ^ 31 < 256 ^ 4 := by decide
                           omega)
  have hsg : toSigned 32 m.body.length = (m.body.length : Int) := toSigned32_small _ h5
  have htake : (Spec.plaintext m ++ pad).take (32 + m.body.length) = Spec.plaintext m :=
    List.take_left' (plaintext_length m)
  have hbody : ((Rd.mk (m.body ++ pad) false).raw (m.body.length : Int)).1 = m.body := by
    by_cases hne : m.body ++ pad = []
    · obtain ⟨hb, hp⟩ := List.append_eq_nil_iff.mp hne
      simp [Rd.raw, hb, hp]
    · rw [Rd.raw_append m.body pad _ rfl hne]
  have hg : guardRefuses .fixed (Spec.plaintext m ++ pad).length (m.body.length : Int) = false := by
    simp only [guardRefuses, hDlen, decide_eq_false_iff_not]; omega
  have hparity : ¬ (¬ m.mid % 4 = 1 ∧ ¬ m.mid % 4 = 3) := by
    unfold serverParity at hpar; omega
  have e1 := fromLE_leBytes 8 m.salt (by simpa using h1)
  have e2 := fromLE_leBytes 8 m.sid (by simpa using h2)
  have e3 := fromLE_leBytes 8 m.mid (by simpa using h3)
  have e4 := fromLE_leBytes 4 m.seq (by simpa using h4)
  have hhi : ¬ (sliceHi .fixed (m.body.length : Int) < 0 ∨
      ((Spec.plaintext m ++ pad).length : Int) < sliceHi .fixed (m.body.length : Int)) := by
    simp only [sliceHi, hDlen]; omega
  have hhiN : (sliceHi .fixed (m.body.length : Int)).toNat = 32 + m.body.length := by
    simp only [sliceHi]; omega
  have hmk : slice (P.H (Spec.plaintext m)) 4 20 = Spec.msgKeyOf P (Spec.plaintext m) := msgKey_eq_spec P _
  unfold openInner
  simp only [plaintext_append, w1, w2, w3, w4, w5]
  simp only [← plaintext_append, hlen, hsg, hg, hhi, hhiN, htake, hmk, hbody, e1, e2, e3, e4,
    Bool.false_eq_true, if_false, ne_eq, not_true_eq_false, hparity]

/-- `DeserializeEncrypted` (repaired) opens the specification's server-to-client sealing to the
message sealed; any padding that keeps the plaintext block-aligned. -/
theorem openClient_sealDir8 {P : Prims} (hP : P.Ok) (key : Bytes) (m : Msg) (pad : Bytes)
    (hk : 136 ≤ key.length) (hm : m.WF) (hpar : serverParity m.mid)
    (hal : (32 + m.body.length + pad.length) % 16 = 0) :
    openClient P key (Spec.serverSeal P key m pad) = .ok m := by
  have hDlen : (Spec.plaintext m ++ pad).length = 32 + m.body.length + pad.length := by
    simp [plaintext_length]
  have hB : (Spec.msgKeyOf P (Spec.plaintext m)).length = 16 := by
    rw [← msgKey_eq_spec]; exact msgKey_length hP _
  have := openClientG_sealed hP .fixed key (Spec.msgKeyOf P (Spec.plaintext m)) (Spec.plaintext m ++ pad)
    hk hB (by omega) (by rw [hDlen]; exact hal)
  rw [authKeyId_eq_spec] at this
  unfold openClient Spec.serverSeal Spec.sealDir
  rw [this]
  exact openInner_plaintext m pad hm hpar

/-! ### a trivial instance of the primitives, to show the hypotheses are satisfiable -/

/-- constant 20-byte digest, identity cipher: satisfies `Prims.Ok` (used only in `example`s) -/
def toyPrims : Prims := ⟨fun _ => zeros 20, fun _ _ x => x, fun _ _ x => x⟩

theorem toyPrims_ok : toyPrims.Ok :=
  ⟨fun _ => by simp [toyPrims], fun _ _ _ _ _ _ _ => rfl, fun _ _ _ _ _ _ _ => rfl,
   fun _ _ _ _ _ _ _ => rfl, fun _ _ _ _ _ _ _ => rfl⟩

end Mtv.Envelope
