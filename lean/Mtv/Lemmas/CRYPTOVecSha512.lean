/-
  Published test vectors for SHA-512 and HMAC-SHA-512, evaluated by the Lean kernel. Tests, not
  correctness proofs. FIPS 180-4 examples; RFC 4231 test case 2.
-/
import Mtv.Crypto.Hmac
namespace Mtv.Crypto.Vectors
open Mtv Mtv.Crypto

theorem sha512_empty : toHex (sha512 []) =
    "cf83e1357eefb8bdf1542850d66d8007d620e4050b5715dc83f4a921d36ce9ce47d0d13c5d85f2b0ff8318d2877eec2f63b931bd47417a81a538327af927da3e" := by
  decide +kernel
theorem sha512_abc : toHex (sha512 [0x61, 0x62, 0x63]) =
    "ddaf35a193617abacc417349ae20413112e6fa4e89a97ea20a9eeee64b55d39a2192992a274fc1a836ba3c23a3feebbd454d4423643ce80e2a9ac94fa54ca49f" := by
  decide +kernel

/-- RFC 4231 test case 2: key "Jefe", data "what do ya want for nothing?" -/
theorem hmacSha512_rfc4231_2 :
    toHex (hmacSha512 "Jefe".toUTF8.toList "what do ya want for nothing?".toUTF8.toList) =
    "164b7a7bfcf819e2e395fbe73b56e0a387bd64222e831fd610270cd7ea2505549758bf75c05a994a6d034f65f8f0e6fdcaeab1a34d4a6b4b636e070a38bce737" := by
  decide +kernel

end Mtv.Crypto.Vectors
