/-
  Helper lemmas for property C20: `UrlLite.parse` on the links of the structured grammar
  (`SLink.render`). Core-only.
-/
import Mtv.Lemmas.C20
namespace Mtv.Links
open Mtv

deriving instance DecidableEq for Except

/-! ### byte classes -/

theorem forall_uint8 {P : UInt8 → Prop} (h : ∀ n, n < 256 → P (UInt8.ofNat n)) : ∀ c, P c := by
  intro c
  have := h c.toNat c.toNat_lt
  simpa using this

set_option synthInstance.maxSize 2000 in
theorem hostByte_facts : ∀ c : UInt8, hostByte c = true →
    c ≠ 47 ∧ c ≠ 58 ∧ c ≠ 63 ∧ c ≠ 35 ∧ c ≠ 64 ∧ c ≠ 37 ∧ c ≠ 91 ∧ c ≠ 42 ∧ isCtl c = false ∧
    shouldEscapeHost c = false ∧
    (isAlpha c = true ∨ (isAlpha c = false ∧ (isDigit c || c = 43 || c = 45 || c = 46) = true)) := by
  apply forall_uint8; decide +kernel

set_option synthInstance.maxSize 2000 in
theorem digit_facts : ∀ c : UInt8, isDigit c = true →
    c ≠ 47 ∧ c ≠ 58 ∧ c ≠ 63 ∧ c ≠ 35 ∧ c ≠ 64 ∧ c ≠ 37 ∧ isCtl c = false ∧ shouldEscapeHost c = false := by
  apply forall_uint8; decide +kernel

theorem alpha_facts : ∀ c : UInt8, isAlpha c = true →
    c ≠ 47 ∧ c ≠ 58 ∧ c ≠ 63 ∧ c ≠ 35 ∧ c ≠ 42 ∧ isCtl c = false := by
  apply forall_uint8; decide +kernel

theorem pathByte_facts : ∀ c : UInt8, pathByte c = true → c ≠ 63 ∧ c ≠ 35 ∧ isCtl c = false := by
  apply forall_uint8; decide +kernel

theorem queryByte_facts : ∀ c : UInt8, queryByte c = true → c ≠ 35 ∧ isCtl c = false := by
  apply forall_uint8; decide +kernel

theorem colon_facts : (58 : UInt8) ≠ 47 ∧ (58 : UInt8) ≠ 63 ∧ (58 : UInt8) ≠ 35 ∧ (58 : UInt8) ≠ 64 ∧
    (58 : UInt8) ≠ 37 ∧ isCtl 58 = false ∧ shouldEscapeHost 58 = false := by decide

/-- `c` does not occur in a string all of whose bytes are in a class that excludes `c` -/
theorem not_mem_of_all {cls : UInt8 → Bool} {c : UInt8} {s : Bytes} (hs : s.all cls = true)
    (hc : ∀ b, cls b = true → b ≠ c) : c ∉ s := by
  intro hm
  exact hc c (List.all_eq_true.mp hs c hm) rfl

theorem all_of_all {cls : UInt8 → Bool} {Q : UInt8 → Prop} {s : Bytes} (hs : s.all cls = true)
    (hc : ∀ b, cls b = true → Q b) : ∀ b ∈ s, Q b :=
  fun b hb => hc b (List.all_eq_true.mp hs b hb)

/-! ### cut -/

theorem cut_append {c : UInt8} {a r : Bytes} (h : c ∉ a) : cut c (a ++ c :: r) = (a, r, true) := by
  simp [cut, indexByteNat_append h]

theorem cut_not_mem {c : UInt8} {s : Bytes} (h : c ∉ s) : cut c s = (s, [], false) := by
  simp [cut, indexByteNat_none.mpr h]

theorem cut_opt {c : UInt8} {a : Bytes} (h : c ∉ a) (o : Option Bytes) :
    (cut c (a ++ optPart c o)).1 = a ∧ (cut c (a ++ optPart c o)).2.1 = o.getD [] := by
  cases o with
  | none => simp [optPart, cut_not_mem h]
  | some x => simp [optPart, cut_append h]

/-! ### unescape without escapes -/

theorem unescapeCheck_plain (mode : EscMode) : ∀ (x : Bytes), (37 : UInt8) ∉ x →
    (∀ c ∈ x, shouldEscapeHost c = false) → unescapeCheck mode x = .ok () := by
  intro x
  induction x with
  | nil => intro _ _; rfl
  | cons c cs ih =>
    intro h1 h2
    simp only [List.mem_cons, not_or] at h1
    have hc : ¬ c = 37 := fun e => h1.1 e.symm
    have h3 := h2 c (by simp)
    unfold unescapeCheck
    simp only [hc, if_false, h3, Bool.false_eq_true, and_false, if_false]
    exact ih h1.2 (fun b hb => h2 b (by simp [hb]))

theorem unescapeBytes_plain : ∀ (x : Bytes), (37 : UInt8) ∉ x → unescapeBytes x = x := by
  intro x
  induction x with
  | nil => intro _; rfl
  | cons c cs ih =>
    intro h1
    simp only [List.mem_cons, not_or] at h1
    have hc : ¬ c = 37 := fun e => h1.1 e.symm
    unfold unescapeBytes
    simp [hc, ih h1.2]

theorem unescape_host_plain {x : Bytes} (h1 : (37 : UInt8) ∉ x) (h2 : ∀ c ∈ x, shouldEscapeHost c = false) :
    unescape .host x = .ok x := by
  simp [unescape, unescapeCheck_plain .host x h1 h2, unescapeBytes_plain x h1]

/-- a prefix without `%` passes through the path unescaping unchanged -/
theorem unescape_path_prefix : ∀ (a b p' : Bytes), (37 : UInt8) ∉ a → unescape .path b = .ok p' →
    unescape .path (a ++ b) = .ok (a ++ p') := by
  intro a
  induction a with
  | nil => intro b p' _ h; simpa using h
  | cons c cs ih =>
    intro b p' h1 h
    simp only [List.mem_cons, not_or] at h1
    have hc : ¬ c = 37 := fun e => h1.1 e.symm
    have := ih b p' h1.2 h
    unfold unescape at this ⊢
    simp only [List.cons_append]
    unfold unescapeCheck unescapeBytes
    simp only [hc, if_false]
    have hm : ¬ ((EscMode.path = EscMode.host ∨ EscMode.path = EscMode.zone) ∧ c.toNat < 128 ∧ shouldEscapeHost c = true) := by
      simp
    simp only [hm, if_false]
    revert this
    cases unescapeCheck .path (cs ++ b) with
    | ok u => simp
    | error e => simp

theorem unescape_path_nil : unescape .path [] = .ok [] := rfl

/-! ### getScheme -/

theorem getSchemeAux_alpha (raw rest : Bytes) : ∀ (s : Bytes) (i : Nat), s.all isAlpha = true →
    i + s.length ≠ 0 → getSchemeAux raw i (s ++ 58 :: rest) = .ok (raw.take (i + s.length), rest) := by
  intro s
  induction s with
  | nil =>
    intro i _ hi
    have : i ≠ 0 := by simpa using hi
    have h1 : isAlpha 58 = false := by decide
    have h2 : isDigit 58 = false := by decide
    simp [getSchemeAux, h1, h2, this]
  | cons x xs ih =>
    intro i ha _
    simp only [List.all_cons, Bool.and_eq_true] at ha
    have := ih (i + 1) ha.2 (by omega)
    simp only [List.cons_append, getSchemeAux, ha.1, if_true, this, List.length_cons]
    have e : i + 1 + xs.length = i + (xs.length + 1) := by omega
    rw [e]

theorem getScheme_scheme {s rest : Bytes} (hs : s ≠ []) (ha : s.all isAlpha = true) :
    getScheme (s ++ 58 :: rest) = .ok (s, rest) := by
  have hl : 0 + s.length ≠ 0 := by
    cases s with
    | nil => exact absurd rfl hs
    | cons _ _ => simp
  have := getSchemeAux_alpha (s ++ 58 :: rest) rest s 0 ha hl
  simpa [getScheme] using this

theorem getSchemeAux_host (raw tail : Bytes)
    (ht : tail = [] ∨ ∃ c r, tail = c :: r ∧ (c = 47 ∨ c = 63)) :
    ∀ (h : Bytes) (i : Nat), h.all hostByte = true → getSchemeAux raw i (h ++ tail) = .ok ([], raw) := by
  intro h
  induction h with
  | nil =>
    intro i _
    rcases ht with rfl | ⟨c, r, rfl, hc⟩
    · simp [getSchemeAux]
    · have h1 : isAlpha c = false := by rcases hc with rfl | rfl <;> decide
      have h2 : (isDigit c || c = 43 || c = 45 || c = 46) = false := by rcases hc with rfl | rfl <;> decide
      have h3 : ¬ c = 58 := by rcases hc with rfl | rfl <;> decide
      simp [getSchemeAux, h1, h2, h3]
  | cons x xs ih =>
    intro i ha
    simp only [List.all_cons, Bool.and_eq_true] at ha
    have f := (hostByte_facts x ha.1).2.2.2.2.2.2.2.2.2.2
    simp only [List.cons_append, getSchemeAux]
    rcases f with f | ⟨f1, f2⟩
    · simp only [f, if_true]; exact ih (i + 1) ha.2
    · simp only [f1, Bool.false_eq_true, if_false, f2, if_true]
      split
      · rfl
      · exact ih (i + 1) ha.2

/-! ### parseHost / parseAuthority on `host[:port]` -/

theorem lastIndexByteNat_none' {c : UInt8} {s : Bytes} (h : c ∉ s) : lastIndexByteNat c s = none := by
  induction s with
  | nil => rfl
  | cons x xs ih =>
    simp only [List.mem_cons, not_or] at h
    have hx : ¬ x = c := fun e => h.1 e.symm
    simp [lastIndexByteNat, ih h.2, hx]

theorem lastIndexByteNat_append' {c : UInt8} {a r : Bytes} (h : c ∉ r) :
    lastIndexByteNat c (a ++ c :: r) = some a.length := by
  induction a with
  | nil => simp [lastIndexByteNat, lastIndexByteNat_none' h]
  | cons x xs ih => simp [lastIndexByteNat, ih]

theorem hasPrefix_append_of_head {h t : Bytes} {c : UInt8} (hne : h ≠ []) (hc : c ∉ h) :
    hasPrefix (h ++ t) [c] = false := by
  cases h with
  | nil => exact absurd rfl hne
  | cons x xs =>
    simp only [List.mem_cons, not_or] at hc
    simp [hasPrefix_single, hc.1]

theorem parseAuthority_hostport {host : Bytes} (port : Option Bytes)
    (hh : host.all hostByte = true) (hp : ∀ p, port = some p → p.all isDigit = true) :
    parseAuthority (host ++ optPart 58 port) = .ok (host ++ optPart 58 port) := by
  have hhost := fun c (hc : c ∈ host) => hostByte_facts c (List.all_eq_true.mp hh c hc)
  -- facts about the whole authority text
  have hall : ∀ c ∈ host ++ optPart 58 port, c ≠ 64 ∧ c ≠ 37 ∧ shouldEscapeHost c = false := by
    intro c hc
    rw [List.mem_append] at hc
    rcases hc with hc | hc
    · have := hhost c hc; exact ⟨this.2.2.2.2.1, this.2.2.2.2.2.1, this.2.2.2.2.2.2.2.2.2.1⟩
    · cases port with
      | none => simp [optPart] at hc
      | some p =>
        simp only [optPart, List.mem_cons] at hc
        rcases hc with rfl | hc
        · exact ⟨colon_facts.2.2.2.1, colon_facts.2.2.2.2.1, colon_facts.2.2.2.2.2.2⟩
        · have := digit_facts c (List.all_eq_true.mp (hp p rfl) c hc)
          exact ⟨this.2.2.2.2.1, this.2.2.2.2.2.1, this.2.2.2.2.2.2.2⟩
  have hat : (64 : UInt8) ∉ host ++ optPart 58 port := fun hm => (hall 64 hm).1 rfl
  have hpct : (37 : UInt8) ∉ host ++ optPart 58 port := fun hm => (hall 37 hm).2.1 rfl
  have hun := unescape_host_plain hpct (fun c hc => (hall c hc).2.2)
  have hbr : hasPrefix (host ++ optPart 58 port) [91] = false := by
    cases host with
    | nil =>
      cases port with
      | none => simp [optPart, hasPrefix_nil_single]
      | some p => simp [optPart, hasPrefix_single]
    | cons x xs =>
      have := (hhost x (by simp)).2.2.2.2.2.2.1
      simp only [List.cons_append, hasPrefix_single]
      simp only [decide_eq_false_iff_not]
      exact fun e => this e.symm
  simp only [parseAuthority, lastIndexByteNat_none' hat, parseHost, hbr, Bool.false_eq_true, if_false]
  cases port with
  | none =>
    have hc : (58 : UInt8) ∉ host ++ optPart 58 none := by
      simp only [optPart, List.append_nil]
      exact fun hm => (hhost 58 hm).2.1 rfl
    rw [lastIndexByteNat_none' hc]
    exact hun
  | some p =>
    have hc : (58 : UInt8) ∉ p := fun hm => (digit_facts 58 (List.all_eq_true.mp (hp p rfl) 58 hm)).2.1 rfl
    simp only [optPart] at hun ⊢
    rw [lastIndexByteNat_append' hc]
    simp [validOptionalPort, hp p rfl, hun]

/-! ### parseRest / parseNoFrag / parse on the two shapes -/

theorem splitAuthority_hostport {a path : Bytes} (ha : (47 : UInt8) ∉ a)
    (hroot : path = [] ∨ ∃ r, path = 47 :: r) : splitAuthority (a ++ path) = (a, path) := by
  rcases hroot with rfl | ⟨r, rfl⟩
  · simp [splitAuthority, indexByteNat_none.mpr ha]
  · simp [splitAuthority, indexByteNat_append ha]

/-- `47 ∉ host[:port]` -/
theorem authority_no_byte {host : Bytes} {port : Option Bytes} {c : UInt8}
    (hh : host.all hostByte = true) (hp : ∀ p, port = some p → p.all isDigit = true)
    (hc1 : ∀ b, hostByte b = true → b ≠ c) (hc2 : ∀ b, isDigit b = true → b ≠ c) (hc3 : (58 : UInt8) ≠ c) :
    c ∉ host ++ optPart 58 port := by
  intro hm
  rw [List.mem_append] at hm
  rcases hm with hm | hm
  · exact not_mem_of_all hh hc1 hm
  · cases port with
    | none => simp [optPart] at hm
    | some p =>
      simp only [optPart, List.mem_cons] at hm
      rcases hm with rfl | hm
      · exact hc3 rfl
      · exact not_mem_of_all (hp p rfl) hc2 hm

theorem parseRest_withAuthority {scheme A path p' : Bytes} (query : Option Bytes)
    (hsc : scheme ≠ []) (hA47 : (47 : UInt8) ∉ A) (hA63 : (63 : UInt8) ∉ A)
    (hPA : parseAuthority A = .ok A)
    (hroot : path = [] ∨ ∃ r, path = 47 :: r) (hpath : path.all pathByte = true)
    (hun : unescape .path path = .ok p') :
    parseRest scheme (47 :: 47 :: (A ++ path) ++ optPart 63 query) =
      .ok { scheme := scheme, host := A, path := p', rawQuery := query.getD [] } := by
  have hP63 : (63 : UInt8) ∉ path := not_mem_of_all hpath (fun b hb => (pathByte_facts b hb).1)
  have h63 : (63 : UInt8) ∉ 47 :: 47 :: (A ++ path) := by
    intro hm
    rcases List.mem_cons.mp hm with e | hm
    · revert e; decide
    rcases List.mem_cons.mp hm with e | hm
    · revert e; decide
    rcases List.mem_append.mp hm with hm | hm
    · exact hA63 hm
    · exact hP63 hm
  obtain ⟨c1, c2⟩ := cut_opt h63 query
  have hpre1 : hasPrefix (47 :: 47 :: (A ++ path)) [47] = true := by
    simp [hasPrefix_single]
  have hpre2 : hasPrefix (47 :: 47 :: (A ++ path)) [47, 47] = true := by
    simp [hasPrefix, List.isPrefixOf]
  have hsplit := splitAuthority_hostport hA47 hroot
  unfold parseRest
  simp only [c1, c2]
  rw [if_neg (by simp [hpre1]), if_neg (by simp [hpre1]), if_pos (by simp [hpre2, hsc])]
  simp only [List.drop_succ_cons, List.drop_zero, hsplit, hPA, hun]

theorem parseRest_schemeless {host path p' : Bytes} (query : Option Bytes)
    (hne : host ≠ []) (hh : host.all hostByte = true)
    (hroot : path = [] ∨ ∃ r, path = 47 :: r) (hpath : path.all pathByte = true)
    (hun : unescape .path path = .ok p') :
    parseRest [] ((host ++ path) ++ optPart 63 query) =
      .ok { scheme := [], host := [], path := host ++ p', rawQuery := query.getD [] } := by
  have hH63 : (63 : UInt8) ∉ host := not_mem_of_all hh (fun b hb => (hostByte_facts b hb).2.2.1)
  have hH47 : (47 : UInt8) ∉ host := not_mem_of_all hh (fun b hb => (hostByte_facts b hb).1)
  have hH58 : (58 : UInt8) ∉ host := not_mem_of_all hh (fun b hb => (hostByte_facts b hb).2.1)
  have hH37 : (37 : UInt8) ∉ host := not_mem_of_all hh (fun b hb => (hostByte_facts b hb).2.2.2.2.2.1)
  have hP63 : (63 : UInt8) ∉ path := not_mem_of_all hpath (fun b hb => (pathByte_facts b hb).1)
  have h63 : (63 : UInt8) ∉ host ++ path := by
    simp only [List.mem_append, not_or]; exact ⟨hH63, hP63⟩
  obtain ⟨c1, c2⟩ := cut_opt h63 query
  have hpre1 : hasPrefix (host ++ path) [47] = false := hasPrefix_append_of_head hne hH47
  have hpre2 : hasPrefix (host ++ path) [47, 47] = false := by
    cases host with
    | nil => exact absurd rfl hne
    | cons x xs =>
      simp only [List.mem_cons, not_or] at hH47
      have : (47 == x) = false := by simp [hH47.1]
      simp [hasPrefix, List.isPrefixOf, this]
  have hcut : (cut 47 (host ++ path)).1 = host := by
    rcases hroot with rfl | ⟨r, rfl⟩
    · simp [cut_not_mem hH47]
    · simp [cut_append hH47]
  have hcolon : host.contains 58 = false := by
    simpa using hH58
  unfold parseRest
  simp only [c1, c2]
  rw [if_neg (by simp [hpre1]), if_neg (by simp [hpre1, hcut, hH58]), if_neg (by simp [hpre2])]
  simp only [unescape_path_prefix host path p' hH37 hun]

theorem containsCTL_false {s : Bytes} (h : ∀ b ∈ s, isCtl b = false) : containsCTL s = false := by
  unfold containsCTL
  rw [List.any_eq_false]
  intro b hb
  have := h b hb
  simpa [isCtl] using this

theorem optPart_noctl {cls : UInt8 → Bool} {sep : UInt8} {o : Option Bytes}
    (hsep : isCtl sep = false) (ho : ∀ x, o = some x → x.all cls = true)
    (hc : ∀ b, cls b = true → isCtl b = false) : ∀ b ∈ optPart sep o, isCtl b = false := by
  intro b hb
  cases o with
  | none => simp [optPart] at hb
  | some x =>
    simp only [optPart, List.mem_cons] at hb
    rcases hb with rfl | hb
    · exact hsep
    · exact hc b (List.all_eq_true.mp (ho x rfl) b hb)

/-- the fields `deeplinks.Resolve` reads off a parsed structured link -/
theorem parse_of_parseNoFrag {X : Bytes} {u : Url} (frag : Option Bytes) (h35 : (35 : UInt8) ∉ X)
    (hu : parseNoFrag X = .ok u) (hf : ∀ f, frag = some f → ∃ f', unescape .fragment f = .ok f') :
    ∃ u', parse (X ++ optPart 35 frag) = .ok u' ∧ u'.scheme = u.scheme ∧ u'.host = u.host ∧
      u'.path = u.path := by
  obtain ⟨c1, c2⟩ := cut_opt h35 frag
  unfold parse
  simp only [c1, c2, hu]
  cases frag with
  | none => exact ⟨u, by simp⟩
  | some f =>
    by_cases hfe : f = []
    · exact ⟨u, by simp [hfe]⟩
    · obtain ⟨f', hf'⟩ := hf f rfl
      exact ⟨{ u with fragment := f' }, by simp [hfe, hf']⟩

/-- `url.Parse` (model) on a well-formed structured link: which Scheme, Host, Path the resolver sees -/
theorem parse_structured (l : SLink) (wf : l.WF) {p' : Bytes} (hun : unescape .path l.path = .ok p') :
    ∃ u, parse l.render = .ok u ∧
      ((∃ s, l.scheme = some s ∧ u.scheme = s.map asciiLowerByte ∧ u.host = l.host ++ optPart 58 l.port ∧
          u.path = p') ∨
       (l.scheme = none ∧ u.scheme = [] ∧ u.host = [] ∧ u.path = l.host ++ p')) := by
  have hH := fun b (hb : b ∈ l.host) => hostByte_facts b (List.all_eq_true.mp wf.host_ok b hb)
  have hHctl : ∀ b ∈ l.host, isCtl b = false := fun b hb => (hH b hb).2.2.2.2.2.2.2.2.1
  have hPctl : ∀ b ∈ l.path, isCtl b = false :=
    all_of_all wf.path_ok (fun b hb => (pathByte_facts b hb).2.2)
  have hQctl : ∀ b ∈ optPart 63 l.query, isCtl b = false :=
    optPart_noctl (by decide) wf.query_ok (fun b hb => (queryByte_facts b hb).2)
  have hPortctl : ∀ b ∈ optPart 58 l.port, isCtl b = false :=
    optPart_noctl (by decide) wf.port_ok (fun b hb => (digit_facts b hb).2.2.2.2.2.2.1)
  have hH35 : (35 : UInt8) ∉ l.host := fun hm => (hH 35 hm).2.2.2.1 rfl
  have hP35 : (35 : UInt8) ∉ l.path := not_mem_of_all wf.path_ok (fun b hb => (pathByte_facts b hb).2.1)
  have hQ35 : (35 : UInt8) ∉ optPart 63 l.query := by
    intro hm
    cases hq : l.query with
    | none => simp [hq, optPart] at hm
    | some q =>
      simp only [hq, optPart, List.mem_cons] at hm
      rcases hm with hm | hm
      · revert hm; decide
      · exact not_mem_of_all (wf.query_ok q hq) (fun b hb => (queryByte_facts b hb).1) hm
  have hPort35 : (35 : UInt8) ∉ optPart 58 l.port := by
    intro hm
    cases hq : l.port with
    | none => simp [hq, optPart] at hm
    | some q =>
      simp only [hq, optPart, List.mem_cons] at hm
      rcases hm with hm | hm
      · revert hm; decide
      · exact not_mem_of_all (wf.port_ok q hq) (fun b hb => (digit_facts b hb).2.2.2.1) hm
  cases hs : l.scheme with
  | some s =>
    obtain ⟨hs1, hs2⟩ := wf.scheme_ok s hs
    have hS := fun b (hb : b ∈ s) => alpha_facts b (List.all_eq_true.mp hs2 b hb)
    -- the text before the fragment
    let X := s ++ 58 :: (47 :: 47 :: ((l.host ++ optPart 58 l.port) ++ l.path) ++ optPart 63 l.query)
    have eR : l.render = X ++ optPart 35 l.frag := by
      have e3 : lit "://" = [58, 47, 47] := by decide
      simp only [SLink.render, hs, e3, X]
      simp
    have hX35 : (35 : UInt8) ∉ X := by
      simp only [X, List.mem_append, List.mem_cons, not_or]
      refine ⟨fun hm => (hS 35 hm).2.2.2.1 rfl, by decide, ⟨by decide, by decide, ⟨hH35, hPort35⟩, hP35⟩, hQ35⟩
    have hXctl : containsCTL X = false := by
      apply containsCTL_false
      intro b hb
      simp only [X, List.mem_append, List.mem_cons] at hb
      rcases hb with hb | rfl | ((rfl | rfl | (hb | hb) | hb) | hb)
      · exact (hS b hb).2.2.2.2.2
      · decide
      · decide
      · decide
      · exact hHctl b hb
      · exact hPortctl b hb
      · exact hPctl b hb
      · exact hQctl b hb
    have hXstar : ¬ X = [42] := by
      cases s with
      | nil => exact absurd rfl hs1
      | cons x xs =>
        intro e
        simp only [X, List.cons_append, List.cons.injEq] at e
        exact (hS x (by simp)).2.2.2.2.1 e.1
    have hsm : s.map asciiLowerByte ≠ [] := by simpa using hs1
    have hNF : parseNoFrag X =
        .ok { scheme := s.map asciiLowerByte, host := l.host ++ optPart 58 l.port, path := p', rawQuery := l.query.getD [] } := by
      unfold parseNoFrag
      simp only [hXctl, hXstar, X, getScheme_scheme hs1 hs2, Bool.false_eq_true, if_false]
      exact parseRest_withAuthority l.query hsm
        (authority_no_byte wf.host_ok wf.port_ok (fun b hb => (hostByte_facts b hb).1) (fun b hb => (digit_facts b hb).1) (by decide))
        (authority_no_byte wf.host_ok wf.port_ok (fun b hb => (hostByte_facts b hb).2.2.1) (fun b hb => (digit_facts b hb).2.2.1) (by decide))
        (parseAuthority_hostport l.port wf.host_ok wf.port_ok) wf.path_root wf.path_ok hun
    obtain ⟨u', h1, h2, h3, h4⟩ := parse_of_parseNoFrag l.frag hX35 hNF wf.frag_ok
    refine ⟨u', by rw [eR]; exact h1, Or.inl ⟨s, rfl, h2, h3, h4⟩⟩
  | none =>
    obtain ⟨hport, hne⟩ := wf.schemeless_ok hs
    let X := (l.host ++ l.path) ++ optPart 63 l.query
    have eR : l.render = X ++ optPart 35 l.frag := by
      simp only [SLink.render, hs, hport, optPart, X]
      simp
    have hX35 : (35 : UInt8) ∉ X := by
      simp only [X, List.mem_append, not_or]
      exact ⟨⟨hH35, hP35⟩, hQ35⟩
    have hXctl : containsCTL X = false := by
      apply containsCTL_false
      intro b hb
      simp only [X, List.mem_append] at hb
      rcases hb with (hb | hb) | hb
      · exact hHctl b hb
      · exact hPctl b hb
      · exact hQctl b hb
    have hXstar : ¬ X = [42] := by
      cases hh : l.host with
      | nil => exact absurd hh hne
      | cons x xs =>
        intro e
        simp only [X, hh, List.cons_append, List.cons.injEq] at e
        exact (hH x (by simp [hh])).2.2.2.2.2.2.2.1 e.1
    have hGS : getScheme X = .ok ([], X) := by
      have ht : (l.path ++ optPart 63 l.query) = [] ∨ ∃ c r, (l.path ++ optPart 63 l.query) = c :: r ∧ (c = 47 ∨ c = 63) := by
        rcases wf.path_root with hp | ⟨r, hp⟩
        · cases hq : l.query with
          | none => left; simp [hp, optPart]
          | some q => right; exact ⟨63, q, by simp [hp, optPart], Or.inr rfl⟩
        · right; exact ⟨47, r ++ optPart 63 l.query, by simp [hp], Or.inl rfl⟩
      have := getSchemeAux_host X (l.path ++ optPart 63 l.query) ht l.host 0 wf.host_ok
      simpa [getScheme, X] using this
    have hNF : parseNoFrag X = .ok { scheme := [], host := [], path := l.host ++ p', rawQuery := l.query.getD [] } := by
      unfold parseNoFrag
      simp only [hXctl, hXstar, hGS, Bool.false_eq_true, if_false, List.map_nil]
      exact parseRest_schemeless l.query hne wf.host_ok wf.path_root wf.path_ok hun
    obtain ⟨u', h1, h2, h3, h4⟩ := parse_of_parseNoFrag l.frag hX35 hNF wf.frag_ok
    refine ⟨u', by rw [eR]; exact h1, Or.inr ⟨rfl, h2, h3, h4⟩⟩

/-- the computable well-formedness test is sound -/
theorem wf_of_wfB (l : SLink) (h : l.wfB = true) : l.WF := by
  unfold SLink.wfB at h
  simp only [Bool.and_eq_true] at h
  obtain ⟨⟨⟨⟨⟨⟨h1, h2⟩, h3⟩, h4⟩, h5⟩, h6⟩, h7⟩ := h
  refine ⟨?_, h2, ?_, ?_, h5, ?_, ?_, ?_⟩
  · intro s hs
    rw [hs] at h1
    simp only [Bool.and_eq_true, Bool.not_eq_true', List.isEmpty_eq_false_iff] at h1
    exact h1
  · intro p hp; rw [hp] at h3; exact h3
  · cases hpath : l.path with
    | nil => exact Or.inl rfl
    | cons c r =>
      rw [hpath] at h4
      simp only [decide_eq_true_eq] at h4
      exact Or.inr ⟨r, by rw [h4]⟩
  · intro q hq; rw [hq] at h6; exact h6
  · intro f hf
    rw [hf] at h7
    cases hu : unescape .fragment f with
    | ok f' => exact ⟨f', rfl⟩
    | error e => simp only [hu] at h7; cases h7
  · intro hs
    rw [hs] at h1
    simp only [Bool.and_eq_true, Option.isNone_iff_eq_none, Bool.not_eq_true', List.isEmpty_eq_false_iff] at h1
    exact h1

end Mtv.Links
