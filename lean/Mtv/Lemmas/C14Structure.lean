/-
  The structural part of what the loop state holds after a document: exactly the declared
  definitions, whatever comments and annotations stand between them.
-/
import Mtv.Lemmas.C14Loop
namespace Mtv.Tlgen

theorem PState.comment_structure (s : PState) (t : Str) :
    (s.comment t).objects = s.objects ∧ (s.comment t).methods = s.methods ∧
    (s.comment t).isFunctions = s.isFunctions := by
  simp only [PState.comment]
  split <;> (try split) <;> (try split) <;> simp

theorem map_strip_eq_self (ps : List Param) (h : ∀ p ∈ ps, p.comment = []) : ps.map Param.strip = ps := by
  induction ps with
  | nil => rfl
  | cons p ps ih =>
    have hp := h p (by simp)
    simp only [List.map_cons, ih (fun q hq => h q (by simp [hq]))]
    congr 1
    cases p; simp_all [Param.strip]

/-- the parameters of a definition with the pending `@param` comments attached -/
def PState.withComments (s : PState) (ps : List Param) : List Param :=
  ps.map fun p => { p with comment := mapGet s.paramComments p.name }

theorem PState.define_method (s : PState) (d : Def) (hfn : s.isFunctions = true) :
    ∃ s', s.define d = some s' ∧ s'.isFunctions = true ∧ s'.objects = s.objects ∧
      s'.methods = { name := d.name, comment := s.constructorComment, crc := d.crc, params := s.withComments d.params,
                     respType := d.eqType, respIsList := d.isEqVector } :: s.methods ∧
      s'.typeComments = s.typeComments ∧ s'.paramComments = s.paramComments ∧
      s'.constructorComment = s.constructorComment ∧ s'.nextTypeComment = s.nextTypeComment := by
  refine ⟨_, by simp only [PState.define, hfn, if_true]; rfl, ?_⟩
  simp [PState.withComments]

theorem PState.define_obj (s : PState) (d : Def) (hfn : s.isFunctions = false) (hv : d.isEqVector = false) :
    ∃ s', s.define d = some s' ∧ s'.isFunctions = false ∧ s'.methods = s.methods ∧
      s'.objects = { name := d.name, comment := s.constructorComment, crc := d.crc, params := s.withComments d.params,
                     iface := d.eqType } :: s.objects ∧
      s'.typeComments = (if s.nextTypeComment ≠ [] then mapSet s.typeComments d.eqType s.nextTypeComment else s.typeComments) ∧
      s'.paramComments = [] ∧ s'.constructorComment = [] ∧ s'.nextTypeComment = [] := by
  by_cases h : s.nextTypeComment = []
  · refine ⟨_, by simp only [PState.define, hfn, hv, Bool.false_eq_true, if_false]; rfl, ?_⟩
    simp [h, PState.withComments]
  · refine ⟨_, by simp only [PState.define, hfn, hv, Bool.false_eq_true, if_false]; rfl, ?_⟩
    simp [h, PState.withComments]

theorem strip_withComments (s : PState) (ps : List Param) : (s.withComments ps).map Param.strip = ps.map Param.strip := by
  simp [PState.withComments, Param.strip, List.map_map, Function.comp_def]

/-- the state after the lines, in terms of the state before them -/
theorem denoteItems_structure (items : List Item) (wf : WFItems items) :
    ∀ (st : PState), NoVectorTypes st.isFunctions items →
      ∃ st', denoteItems items st = some st' ∧
        st'.objects.reverse.map Obj.strip = st.objects.reverse.map Obj.strip ++ declaredObjects st.isFunctions items ∧
        st'.methods.reverse.map Method.strip = st.methods.reverse.map Method.strip ++ declaredMethods st.isFunctions items := by
  induction items with
  | nil => intro st _; exact ⟨st, rfl, by simp [declaredObjects], by simp [declaredMethods]⟩
  | cons it items ih =>
    intro st hnv
    have wfr : WFItems items := fun i hi => wf i (by simp [hi])
    cases it with
    | blank => simpa [denoteItems, declaredObjects, declaredMethods, NoVectorTypes] using ih wfr st (by simpa [NoVectorTypes] using hnv)
    | types =>
      have := ih wfr { st with isFunctions := false } (by simpa [NoVectorTypes] using hnv)
      simpa [denoteItems, declaredObjects, declaredMethods] using this
    | functions =>
      have := ih wfr { st with isFunctions := true } (by simpa [NoVectorTypes] using hnv)
      simpa [denoteItems, declaredObjects, declaredMethods] using this
    | comment t =>
      obtain ⟨h1, h2, h3⟩ := st.comment_structure t
      have := ih wfr (st.comment t) (by rw [h3]; simpa [NoVectorTypes] using hnv)
      rw [h1, h2, h3] at this
      simpa [denoteItems, declaredObjects, declaredMethods] using this
    | defn d =>
      have wfd : WFDef d := wf (.defn d) (by simp)
      have hpc : ∀ p ∈ d.params, p.comment = [] := fun p hp => (wfd.params_ok p hp).no_comment
      simp only [NoVectorTypes] at hnv
      obtain ⟨hv, hnv'⟩ := hnv
      cases hfn : st.isFunctions with
      | true =>
        obtain ⟨st1, hst1, hfn1, hobj, hmeth, -⟩ := st.define_method d hfn
        obtain ⟨st', hden, ho, hm⟩ := ih wfr st1 (by rw [hfn1]; rw [hfn] at hnv'; exact hnv')
        refine ⟨st', by simp [denoteItems, hst1, hden], ?_, ?_⟩
        · rw [ho, hfn1, hobj]; simp [declaredObjects]
        · rw [hm, hfn1, hmeth]
          simp only [declaredMethods, if_true, List.reverse_cons, List.map_append, List.map_cons, List.map_nil,
            List.append_assoc, List.cons_append, List.nil_append]
          congr 2
          simp only [Method.strip, Def.toMethod, strip_withComments, map_strip_eq_self d.params hpc]
      | false =>
        have hvec : d.isEqVector = false := hv hfn
        obtain ⟨st1, hst1, hfn1, hmeth, hobj, -⟩ := st.define_obj d hfn hvec
        obtain ⟨st', hden, ho, hm⟩ := ih wfr st1 (by rw [hfn1]; rw [hfn] at hnv'; exact hnv')
        refine ⟨st', by simp [denoteItems, hst1, hden], ?_, ?_⟩
        · rw [ho, hfn1, hobj]
          simp only [declaredObjects, Bool.false_eq_true, if_false, List.reverse_cons, List.map_append, List.map_cons,
            List.map_nil, List.append_assoc, List.cons_append, List.nil_append]
          congr 2
          simp only [Obj.strip, Def.toObj, strip_withComments, map_strip_eq_self d.params hpc]
        · rw [hm, hfn1, hmeth]; simp [declaredMethods]

end Mtv.Tlgen
