/-
  Helper lemmas for property C20 (model: Mtv/Links/*). Core-only.
-/
import Mtv.Links.Resolve
namespace Mtv.Links
open Mtv

/-! ### indexByteNat -/

theorem indexByteNat_none {c : UInt8} {s : Bytes} : indexByteNat c s = none ↔ c ∉ s := by
  induction s with
  | nil => simp [indexByteNat]
  | cons x xs ih =>
    unfold indexByteNat
    by_cases h : x = c
    · simp [h]
    · simp only [h, if_false, Option.map_eq_none_iff, ih, List.mem_cons, not_or]
      constructor
      · intro h2; exact ⟨fun e => h e.symm, h2⟩
      · intro h2; exact h2.2

theorem indexByteNat_some {c : UInt8} {s : Bytes} {i : Nat} (h : indexByteNat c s = some i) :
    i < s.length ∧ c ∉ s.take i ∧ s = s.take i ++ c :: s.drop (i + 1) := by
  induction s generalizing i with
  | nil => simp [indexByteNat] at h
  | cons x xs ih =>
    unfold indexByteNat at h
    by_cases hx : x = c
    · simp only [hx, if_true, Option.some.injEq] at h
      subst h; subst hx; simp
    · simp only [hx, if_false, Option.map_eq_some_iff] at h
      obtain ⟨j, hj, rfl⟩ := h
      obtain ⟨h1, h2, h3⟩ := ih hj
      refine ⟨by simp; omega, ?_, ?_⟩
      · simp only [List.take_succ_cons, List.mem_cons, not_or]
        exact ⟨fun e => hx e.symm, h2⟩
      · simp only [List.take_succ_cons, List.drop_succ_cons, List.cons_append]
        rw [← h3]

theorem indexByteNat_append {c : UInt8} {a r : Bytes} (h : c ∉ a) :
    indexByteNat c (a ++ c :: r) = some a.length := by
  induction a with
  | nil => simp [indexByteNat]
  | cons x xs ih =>
    simp only [List.mem_cons, not_or] at h
    have hx : ¬ x = c := fun e => h.1 e.symm
    simp [indexByteNat, hx, ih h.2]

/-! ### splitByte -/

theorem splitByte_ne_nil (c : UInt8) (s : Bytes) : splitByte c s ≠ [] := by
  induction s with
  | nil => simp [splitByte]
  | cons x xs ih =>
    unfold splitByte
    by_cases h : x = c
    · simp [h]
    · simp only [h, if_false]
      split <;> simp

theorem splitByte_not_mem {c : UInt8} {s : Bytes} (h : c ∉ s) : splitByte c s = [s] := by
  induction s with
  | nil => simp [splitByte]
  | cons x xs ih =>
    simp only [List.mem_cons, not_or] at h
    have hx : ¬ x = c := fun e => h.1 e.symm
    simp [splitByte, hx, ih h.2]

theorem splitByte_append {c : UInt8} {a s : Bytes} (h : c ∉ a) :
    splitByte c (a ++ c :: s) = a :: splitByte c s := by
  induction a with
  | nil => simp [splitByte]
  | cons x xs ih =>
    simp only [List.mem_cons, not_or] at h
    have hx : ¬ x = c := fun e => h.1 e.symm
    simp [splitByte, hx, ih h.2]

/-- what a result of `strings.Split` says about the string -/
theorem splitByte_cons_inv {c : UInt8} {s a : Bytes} {rest : List Bytes}
    (h : splitByte c s = a :: rest) :
    c ∉ a ∧ ((rest = [] ∧ s = a) ∨ (∃ s', s = a ++ c :: s' ∧ splitByte c s' = rest)) := by
  induction s generalizing a rest with
  | nil =>
    simp only [splitByte, List.cons.injEq] at h
    obtain ⟨rfl, rfl⟩ := h
    simp
  | cons x xs ih =>
    unfold splitByte at h
    by_cases hx : x = c
    · simp only [hx, if_true, List.cons.injEq] at h
      obtain ⟨rfl, rfl⟩ := h
      subst hx
      exact ⟨by simp, Or.inr ⟨xs, by simp, rfl⟩⟩
    · simp only [hx, if_false] at h
      cases hs : splitByte c xs with
      | nil => exact absurd hs (splitByte_ne_nil c xs)
      | cons h0 t0 =>
        rw [hs] at h
        simp only [List.cons.injEq] at h
        obtain ⟨rfl, rfl⟩ := h
        obtain ⟨h1, h2⟩ := ih hs
        refine ⟨?_, ?_⟩
        · simp only [List.mem_cons, not_or]; exact ⟨fun e => hx e.symm, h1⟩
        · rcases h2 with ⟨r1, r2⟩ | ⟨s', r1, r2⟩
          · left; exact ⟨r1, by rw [r2]⟩
          · right; exact ⟨s', by rw [r1]; simp, r2⟩

/-! ### fixURLHost (as repaired) never slices out of range -/

theorem hasPrefix_single (x : UInt8) (xs : Bytes) (c : UInt8) :
    hasPrefix (x :: xs) [c] = decide (c = x) := by
  simp only [hasPrefix, List.isPrefixOf, Bool.and_true]
  by_cases h : c = x <;> simp [h]

theorem hasPrefix_nil_single (c : UInt8) : hasPrefix [] [c] = false := by
  simp [hasPrefix, List.isPrefixOf]

theorem indexByte_of_mem {c : UInt8} {s : Bytes} (h : c ∈ s) :
    ∃ i : Nat, indexByteNat c s = some i ∧ indexByte s c = (i : Int) ∧ i < s.length := by
  cases hi : indexByteNat c s with
  | none => exact absurd h (indexByteNat_none.mp hi)
  | some i => exact ⟨i, rfl, by simp [indexByte, hi], (indexByteNat_some hi).1⟩

theorem indexByte_eq_neg_one {c : UInt8} {s : Bytes} : indexByte s c = -1 ↔ c ∉ s := by
  unfold indexByte
  cases hi : indexByteNat c s with
  | none => simp [indexByteNat_none.mp hi]
  | some i =>
    have : c ∈ s := by
      by_cases hm : c ∈ s
      · exact hm
      · rw [indexByteNat_none.mpr hm] at hi; cases hi
    simp only [this, not_true_eq_false, iff_false]
    omega

theorem fixURLHost_host {host path : Bytes} (h : host ≠ []) :
    fixURLHost host path = .ok (host, path) := by
  simp [fixURLHost, h]

theorem fixURLHost_rooted {path : Bytes} (h : path = [] ∨ ∃ r, path = 47 :: r) :
    fixURLHost [] path = .ok ([], path) := by
  rcases h with rfl | ⟨r, rfl⟩ <;> simp [fixURLHost, hasPrefix_single]

theorem fixURLHost_bare {h : Bytes} (hne : h ≠ []) (hs : (47 : UInt8) ∉ h) :
    fixURLHost [] h = .ok (h, []) := by
  have h1 : hasPrefix h [47] = false := by
    cases h with
    | nil => exact absurd rfl hne
    | cons x xs =>
      simp only [List.mem_cons, not_or] at hs
      simp [hasPrefix_single, hs.1]
  simp [fixURLHost, h1, hne, indexByte_eq_neg_one.mpr hs]

theorem fixURLHost_schemeless {h r : Bytes} (hne : h ≠ []) (hs : (47 : UInt8) ∉ h) :
    fixURLHost [] (h ++ 47 :: r) = .ok (h, 47 :: r) := by
  have h1 : hasPrefix (h ++ 47 :: r) [47] = false := by
    cases h with
    | nil => exact absurd rfl hne
    | cons x xs =>
      simp only [List.mem_cons, not_or] at hs
      simp [hasPrefix_single, hs.1]
  have h2 : h ++ 47 :: r ≠ [] := by simp
  have h3 : indexByte (h ++ 47 :: r) 47 = (h.length : Int) := by
    simp [indexByte, indexByteNat_append hs]
  have h4 : ¬ ((h.length : Int) = -1) := by omega
  have h5 : (h.length : Int) ≤ (h.length : Int) + ((r.length : Int) + 1) := by omega
  simp [fixURLHost, h1, h2, h3, h4, h5, sliceTo, sliceFrom]

/-- the three possible results of `fixURLHost`, none of them a panic -/
theorem fixURLHost_cases (host path : Bytes) :
    (host ≠ [] ∧ fixURLHost host path = .ok (host, path)) ∨
    (host = [] ∧ (path = [] ∨ ∃ r, path = 47 :: r) ∧ fixURLHost host path = .ok ([], path)) ∨
    (host = [] ∧ path ≠ [] ∧ (47 : UInt8) ∉ path ∧ fixURLHost host path = .ok (path, [])) ∨
    (host = [] ∧ ∃ h r, h ≠ [] ∧ (47 : UInt8) ∉ h ∧ path = h ++ 47 :: r ∧
      fixURLHost host path = .ok (h, 47 :: r)) := by
  by_cases hh : host = []
  · subst hh
    right
    cases path with
    | nil => left; exact ⟨rfl, Or.inl rfl, fixURLHost_rooted (Or.inl rfl)⟩
    | cons x xs =>
      by_cases hx : x = 47
      · subst hx; left; exact ⟨rfl, Or.inr ⟨xs, rfl⟩, fixURLHost_rooted (Or.inr ⟨xs, rfl⟩)⟩
      · right
        by_cases hm : (47 : UInt8) ∈ (x :: xs)
        · right
          obtain ⟨i, hi, _, _⟩ := indexByte_of_mem hm
          obtain ⟨_, h2, h3⟩ := indexByteNat_some hi
          have hne : (x :: xs).take i ≠ [] := by
            intro e
            rw [e] at h3
            simp only [List.nil_append, List.cons.injEq] at h3
            exact hx h3.1
          refine ⟨rfl, (x :: xs).take i, (x :: xs).drop (i + 1), hne, h2, h3, ?_⟩
          have := fixURLHost_schemeless (r := (x :: xs).drop (i + 1)) hne h2
          rw [← h3] at this
          exact this
        · left; exact ⟨rfl, by simp, hm, fixURLHost_bare (by simp) hm⟩
  · left; exact ⟨hh, fixURLHost_host hh⟩

/-! ### matchPath on the two templates -/

theorem mem_first_split {c : UInt8} {s : Bytes} (h : c ∈ s) :
    ∃ a r, c ∉ a ∧ s = a ++ c :: r := by
  obtain ⟨i, hi, _, _⟩ := indexByte_of_mem h
  obtain ⟨_, h2, h3⟩ := indexByteNat_some hi
  exact ⟨_, _, h2, h3⟩

theorem splitByte_length_of_mem {c : UInt8} {s : Bytes} (h : c ∈ s) : 2 ≤ (splitByte c s).length := by
  obtain ⟨a, r, h1, rfl⟩ := mem_first_split h
  rw [splitByte_append h1]
  have := splitByte_ne_nil c r
  cases hs : splitByte c r with
  | nil => exact absurd hs this
  | cons _ _ => simp

theorem tplUser_items : splitByte 47 tplUser.tpl = [[], lit "{username}"] := by decide
theorem tplJoin_items : splitByte 47 tplJoin.tpl = [[], lit "joinchat", lit "{token}"] := by decide

theorem matchPath_user_some {u : Bytes} (h : (47 : UInt8) ∉ u) :
    matchPath tplUser.tpl (47 :: u) = .ok (some [(lit "username", u)]) := by
  have h1 : (tplUser.tpl.any fun c => c = 123 || c = 125) = true := by decide
  have h2 : hasPrefix tplUser.tpl [47] = true := by decide
  have h3 : splitByte 47 (47 :: u) = [[], u] := by
    have := splitByte_append (c := 47) (a := []) (s := u) (by simp)
    simpa [splitByte_not_mem h] using this
  have h4 : hasPrefix (lit "{username}") [123] = true := by decide
  have h5 : hasSuffix (lit "{username}") [125] = true := by decide
  have h6 : trimBraces (lit "{username}") = lit "username" := by decide
  have h7 : hasPrefix [] [123] = false := by decide
  simp [matchPath, h1, h2, h3, hasPrefix_single, tplUser_items, matchItems, h4, h5, h6, h7, Vars.set]

theorem matchPath_user_total (path : Bytes) :
    matchPath tplUser.tpl path = .ok none ∨
    ∃ u, path = 47 :: u ∧ (47 : UInt8) ∉ u ∧
      matchPath tplUser.tpl path = .ok (some [(lit "username", u)]) := by
  have h1 : (tplUser.tpl.any fun c => c = 123 || c = 125) = true := by decide
  have h2 : hasPrefix tplUser.tpl [47] = true := by decide
  cases path with
  | nil => left; simp [matchPath, h1, h2, hasPrefix_nil_single]
  | cons x xs =>
    by_cases hx : 47 = x
    · subst hx
      by_cases hm : (47 : UInt8) ∈ xs
      · left
        have h3 : splitByte 47 (47 :: xs) = [] :: splitByte 47 xs :=
          splitByte_append (c := 47) (a := []) (s := xs) (by simp)
        have h4 := splitByte_length_of_mem hm
        have h5 : ¬ (2 = (splitByte 47 xs).length + 1) := by omega
        simp [matchPath, h1, h2, hasPrefix_single, tplUser_items, h3, h5]
      · right; exact ⟨xs, rfl, hm, matchPath_user_some hm⟩
    · left; simp [matchPath, h1, h2, hasPrefix_single, hx]

theorem matchPath_join_some {t : Bytes} (h : (47 : UInt8) ∉ t) :
    matchPath tplJoin.tpl (lit "/joinchat/" ++ t) = .ok (some [(lit "token", t)]) := by
  have h1 : (tplJoin.tpl.any fun c => c = 123 || c = 125) = true := by decide
  have h2 : hasPrefix tplJoin.tpl [47] = true := by decide
  have e : lit "/joinchat/" ++ t = 47 :: (lit "joinchat" ++ 47 :: t) := by
    have : lit "/joinchat/" = 47 :: (lit "joinchat" ++ [47]) := by decide
    rw [this]; simp
  have h3 : splitByte 47 (47 :: (lit "joinchat" ++ 47 :: t)) = [[], lit "joinchat", t] := by
    have a1 := splitByte_append (c := 47) (a := []) (s := lit "joinchat" ++ 47 :: t) (by simp)
    have a2 := splitByte_append (c := 47) (a := lit "joinchat") (s := t) (by decide)
    rw [List.nil_append] at a1
    rw [a1, a2, splitByte_not_mem h]
  have h4 : hasPrefix (lit "{token}") [123] = true := by decide
  have h5 : hasSuffix (lit "{token}") [125] = true := by decide
  have h6 : trimBraces (lit "{token}") = lit "token" := by decide
  have h7 : hasPrefix [] [123] = false := by decide
  have h8 : hasPrefix (lit "joinchat") [123] = false := by decide
  rw [e]
  simp [matchPath, h1, h2, h3, hasPrefix_single, tplJoin_items, matchItems, h4, h5, h6, h7, h8, Vars.set]

theorem matchPath_join_total (path : Bytes) :
    matchPath tplJoin.tpl path = .ok none ∨
    ∃ t, path = lit "/joinchat/" ++ t ∧ (47 : UInt8) ∉ t ∧
      matchPath tplJoin.tpl path = .ok (some [(lit "token", t)]) := by
  have h1 : (tplJoin.tpl.any fun c => c = 123 || c = 125) = true := by decide
  have h2 : hasPrefix tplJoin.tpl [47] = true := by decide
  have h7 : hasPrefix [] [123] = false := by decide
  have h8 : hasPrefix (lit "joinchat") [123] = false := by decide
  cases path with
  | nil => left; simp [matchPath, h1, h2, hasPrefix_nil_single]
  | cons x xs =>
    by_cases hx : 47 = x
    · subst hx
      have h3 : splitByte 47 (47 :: xs) = [] :: splitByte 47 xs :=
        splitByte_append (c := 47) (a := []) (s := xs) (by simp)
      by_cases hm : (47 : UInt8) ∈ xs
      · obtain ⟨a, r, ha, rfl⟩ := mem_first_split hm
        have h4 : splitByte 47 (a ++ 47 :: r) = a :: splitByte 47 r := splitByte_append ha
        by_cases hr : (47 : UInt8) ∈ r
        · left
          have h5 := splitByte_length_of_mem hr
          have h6 : ¬ (3 = (splitByte 47 r).length + 1 + 1) := by omega
          simp [matchPath, h1, h2, hasPrefix_single, tplJoin_items, h3, h4, h6]
        · by_cases hj : lit "joinchat" = a
          · right
            subst hj
            refine ⟨r, ?_, hr, ?_⟩
            · have : lit "/joinchat/" = 47 :: (lit "joinchat" ++ [47]) := by decide
              rw [this]; simp
            · have := matchPath_join_some hr
              have e : lit "/joinchat/" ++ r = 47 :: (lit "joinchat" ++ 47 :: r) := by
                have : lit "/joinchat/" = 47 :: (lit "joinchat" ++ [47]) := by decide
                rw [this]; simp
              rw [e] at this
              exact this
          · left
            simp [matchPath, h1, h2, hasPrefix_single, tplJoin_items, h3, h4, splitByte_not_mem hr,
              matchItems, h7, h8, hj]
      · left
        simp [matchPath, h1, h2, hasPrefix_single, tplJoin_items, h3, splitByte_not_mem hm]
    · left; simp [matchPath, h1, h2, hasPrefix_single, hx]

/-! ### the template loop and resolveHttpLink -/

/-- result of the `/{username}` converter on a path item -/
def userResult (u : Bytes) : Outcome Deeplink :=
  if u = [] then .err "username" else .ok (.resolve (toLower u))

/-- result of the `/joinchat/{token}` converter on a path item -/
def joinResult (t : Bytes) : Outcome Deeplink :=
  if t = [] then .err "token" else .ok (.join t)

theorem tplUser_conv (u : Bytes) : tplUser.conv [(lit "username", u)] = userResult u := by
  simp [tplUser, Vars.get?, List.lookup, userResult]

theorem tplJoin_conv (t : Bytes) : tplJoin.conv [(lit "token", t)] = joinResult t := by
  simp [tplJoin, Vars.get?, List.lookup, joinResult]

/-- a `/joinchat/<token>` path is not a one-segment path -/
theorem shapes_disjoint {u t : Bytes} (hu : (47 : UInt8) ∉ u) :
    ¬ ((47 : UInt8) :: u = lit "/joinchat/" ++ t) := by
  intro e
  have h : lit "/joinchat/" = 47 :: (lit "joinchat" ++ [47]) := by decide
  rw [h] at e
  simp only [List.cons_append, List.cons.injEq, true_and] at e
  subst e
  simp at hu

/-- the template loop, for either iteration order of the two-entry map -/
theorem tryTemplates_cases (path : Bytes) (order : List Template)
    (ho : order = [tplJoin, tplUser] ∨ order = [tplUser, tplJoin]) :
    (∃ u, path = 47 :: u ∧ (47 : UInt8) ∉ u ∧ tryTemplates order path = userResult u) ∨
    (∃ t, path = lit "/joinchat/" ++ t ∧ (47 : UInt8) ∉ t ∧ tryTemplates order path = joinResult t) ∨
    ((¬ ∃ u, path = 47 :: u ∧ (47 : UInt8) ∉ u) ∧
     (¬ ∃ t, path = lit "/joinchat/" ++ t ∧ (47 : UInt8) ∉ t) ∧
     tryTemplates order path = .err "path") := by
  rcases matchPath_user_total path with hu | ⟨u, rfl, hu1, hu2⟩
  · rcases matchPath_join_total path with hj | ⟨t, rfl, ht1, ht2⟩
    · right; right
      refine ⟨?_, ?_, ?_⟩
      · rintro ⟨u, rfl, h⟩
        rw [matchPath_user_some h] at hu; cases hu
      · rintro ⟨t, rfl, h⟩
        rw [matchPath_join_some h] at hj; cases hj
      · rcases ho with rfl | rfl <;> simp [tryTemplates, hu, hj]
    · right; left
      refine ⟨t, rfl, ht1, ?_⟩
      rcases ho with rfl | rfl <;> simp [tryTemplates, hu, ht2, tplJoin_conv]
  · left
    refine ⟨u, rfl, hu1, ?_⟩
    rcases matchPath_join_total (47 :: u) with hj | ⟨t, e, _, _⟩
    · rcases ho with rfl | rfl <;> simp [tryTemplates, hu2, hj, tplUser_conv]
    · exact absurd e (shapes_disjoint hu1)

theorem resolveHttpWith_eq (order : List Template) (host path : Bytes) :
    ∃ h p, fixURLHost host path = .ok (h, p) ∧
      resolveHttpWith fixURLHost order host path =
        if stringListContains reservedHosts (hostname h) = true then tryTemplates order p else .err "host" := by
  rcases fixURLHost_cases host path with ⟨_, h⟩ | ⟨_, _, h⟩ | ⟨_, _, _, h⟩ | ⟨_, a, r, _, _, _, h⟩
  all_goals
    refine ⟨_, _, h, ?_⟩
    simp only [resolveHttpWith, h]
    split <;> simp_all

end Mtv.Links
