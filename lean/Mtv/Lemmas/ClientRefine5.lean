/-
  Part 5: the loop is never wedged — what "blocked in a channel send" can and cannot lead to; who may change
  the fields under the mutex; no deadlock.
-/
import Mtv.Lemmas.ClientRefine4
namespace Mtv.Impl
open Mtv.Client

/-- the goroutine that takes the step -/
def actor : IEv → Owner
  | .cLock c => .caller c
  | .cIdReg c _ => .caller c
  | .cWrite c _ => .caller c
  | .cUnlock c => .caller c
  | .cRecv c => .caller c
  | .lRead _ _ _ => .loop
  | .lStep _ _ => .loop

/-- lastMsgID and seqNo are changed only by the goroutine that holds seqNoMutex -/
theorem fields_only_by_owner {s s' : ISt} (hi : Inv s) {e : IEv} (h : step s e = some s')
    (hch : s'.lastMsgID ≠ s.lastMsgID ∨ s'.seqNo ≠ s.seqNo) : s.owner = actor e := by
  cases e with
  | cLock c => obtain ⟨_, r, _, rfl⟩ := step_cLock h; simp [setC] at hch
  | cIdReg c now =>
    obtain ⟨r, hc, rfl⟩ := step_cIdReg h
    exact (hi.m1 c).1 (by rw [hc]; rfl)
  | cWrite c ok =>
    obtain ⟨id, r, hc, rfl⟩ := step_cWrite h
    exact (hi.m1 c).1 (by rw [hc]; rfl)
  | cUnlock c =>
    rcases step_cUnlock h with ⟨id, hc, rfl⟩ | ⟨hc, rfl⟩
    · exact (hi.m1 c).1 (by rw [hc]; rfl)
    · exact (hi.m1 c).1 (by rw [hc]; rfl)
  | cRecv c => obtain ⟨id, v, k, _, _, rfl⟩ := step_cRecv h; simp [setC] at hch
  | lRead mid seq m => obtain ⟨_, _, rfl⟩ := step_lRead h; simp at hch
  | lStep now ok =>
    simp only [step, loopStep] at h
    split at h
    · split at h
      · simp at h
      · rename_i it rest _
        simp only [Option.some.injEq] at h; subst h
        obtain ⟨_, h2, h3, _⟩ := dispatch_frame { s with todo := rest } it
        rw [h2, h3] at hch; simp at hch
    · simp at h
    · simp only [Option.some.injEq] at h; subst h; simp at hch
    · split at h <;> simp only [Option.some.injEq] at h <;> subst h <;> simp at hch
    · split at h <;> simp only [Option.some.injEq] at h <;> subst h <;> simp at hch
    · split at h <;> simp only [Option.some.injEq] at h <;> subst h <;> simp at hch
    · split at h
      · simp only [Option.some.injEq] at h; subst h; simp at hch
      · simp at h
    · rename_i mid k hcur; exact hi.m2.1 (by rw [hcur]; rfl)
    · rename_i mid id k hcur; exact hi.m2.1 (by rw [hcur]; rfl)
    · rename_i k hcur; exact hi.m2.1 (by rw [hcur]; rfl)

/-! ## blocked in a channel send -/

/-- the loop is blocked sending on the channel caller `c` made for request `id`, and `c` has that request in flight -/
def Blocked (s : ISt) (id c : Nat) (v : Val) (k : List Op) : Prop :=
  s.cur = .sendVal id c v :: k ∧ flightOf (s.cs c) = some id

def isOwn (c : Nat) : IEv → Bool
  | .cLock c' => c' == c
  | .cIdReg c' _ => c' == c
  | .cWrite c' _ => c' == c
  | .cUnlock c' => c' == c
  | .cRecv c' => c' == c
  | _ => false

/-- while the loop is blocked, nothing but the receive of exactly that caller unblocks it; nobody else changes
the caller's state, and the caller's only other step is the (never blocking) deferred Unlock -/
theorem blocked_step {s s' : ISt} {id c : Nat} {v : Val} {k : List Op} (hb : Blocked s id c v k) {e : IEv}
    (h : step s e = some s') :
    (e = .cRecv c ∧ s'.cur = k) ∨
    (Blocked s' id c v k ∧ (isOwn c e = true → s.cs c = .written id ∧ s'.cs c = .wait id)) := by
  obtain ⟨hcur, hfl⟩ := hb
  have hflc : s.cs c = .written id ∨ s.cs c = .wait id := by
    cases hc : s.cs c <;> rw [hc] at hfl <;> simp [flightOf] at hfl <;> simp [hfl]
  cases e with
  | cLock x =>
    obtain ⟨_, r, hx, rfl⟩ := step_cLock h
    have hxc : x ≠ c := by
      intro he; subst he; rcases hflc with h1 | h1 <;> rw [h1] at hx <;> cases r <;> simp at hx
    right; exact ⟨⟨hcur, by simpa [setC, Ne.symm hxc] using hfl⟩, by simp [isOwn, hxc]⟩
  | cIdReg x now =>
    obtain ⟨r, hx, rfl⟩ := step_cIdReg h
    have hxc : x ≠ c := by
      intro he; subst he; rcases hflc with h1 | h1 <;> rw [h1] at hx <;> cases hx
    right; exact ⟨⟨hcur, by simpa [setC, Ne.symm hxc] using hfl⟩, by simp [isOwn, hxc]⟩
  | cWrite x ok =>
    obtain ⟨id', r, hx, rfl⟩ := step_cWrite h
    have hxc : x ≠ c := by
      intro he; subst he; rcases hflc with h1 | h1 <;> rw [h1] at hx <;> cases hx
    right
    cases ok
    · exact ⟨⟨hcur, by simpa [setC, Ne.symm hxc] using hfl⟩, by simp [isOwn, hxc]⟩
    · exact ⟨⟨hcur, by simpa [setC, Ne.symm hxc] using hfl⟩, by simp [isOwn, hxc]⟩
  | cUnlock x =>
    right
    rcases step_cUnlock h with ⟨id', hx, rfl⟩ | ⟨hx, rfl⟩
    · by_cases hxc : x = c
      · subst hxc
        have : id' = id := by rw [hx] at hfl; simpa [flightOf] using hfl
        subst this
        exact ⟨⟨hcur, by simp [setC, flightOf]⟩, fun _ => ⟨hx, by simp [setC]⟩⟩
      · exact ⟨⟨hcur, by simpa [setC, Ne.symm hxc] using hfl⟩, by simp [isOwn, hxc]⟩
    · have hxc : x ≠ c := by
        intro he; subst he; rcases hflc with h1 | h1 <;> rw [h1] at hx <;> cases hx
      exact ⟨⟨hcur, by simpa [setC, Ne.symm hxc] using hfl⟩, by simp [isOwn, hxc]⟩
  | cRecv x =>
    obtain ⟨id', v', k', hx, hk', rfl⟩ := step_cRecv h
    rw [hcur] at hk'
    simp only [List.cons.injEq, Op.sendVal.injEq] at hk'
    obtain ⟨⟨_, rfl, _⟩, rfl⟩ := hk'
    left; exact ⟨rfl, rfl⟩
  | lRead mid seq m => obtain ⟨hc, _, _⟩ := step_lRead h; rw [hcur] at hc; cases hc
  | lStep now ok => simp [step, loopStep, hcur] at h

/-- the caller the loop waits for can always take its next step, and that step does not wait for anybody -/
theorem blocked_caller_enabled {s : ISt} {id c : Nat} {v : Val} {k : List Op} (hb : Blocked s id c v k) :
    (s.cs c = .wait id ∧ (step s (.cRecv c)).isSome = true) ∨
    (s.cs c = .written id ∧ ∃ s1, step s (.cUnlock c) = some s1 ∧ (step s1 (.cRecv c)).isSome = true) := by
  obtain ⟨hcur, hfl⟩ := hb
  cases hc : s.cs c with
  | written id' =>
    rw [hc] at hfl; simp only [flightOf, Option.some.injEq] at hfl; subst hfl
    right
    refine ⟨rfl, { setC s c (.wait id') with owner := .free }, by simp [step, hc], ?_⟩
    simp [step, setC, hcur]
  | wait id' =>
    rw [hc] at hfl; simp only [flightOf, Option.some.injEq] at hfl; subst hfl
    left
    exact ⟨rfl, by simp [step, hc, hcur]⟩
  | idle => rw [hc] at hfl; cases hfl
  | again => rw [hc] at hfl; cases hfl
  | locked r => rw [hc] at hfl; cases hfl
  | reg id' r => rw [hc] at hfl; cases hfl
  | failed => rw [hc] at hfl; cases hfl

def ownSteps (c : Nat) (es : List IEv) : Nat := es.countP (isOwn c)

/-- **progress**: in any continuation in which the caller takes two steps (weak fairness: its next step is
enabled all the time, see `blocked_caller_enabled`), the loop gets past the send -/
theorem blocked_progress : ∀ (es : List IEv) {s s' : ISt} {id c : Nat} {v : Val} {k : List Op},
    Blocked s id c v k → run s es = some s' → (2 ≤ ownSteps c es ∨ (s.cs c = .wait id ∧ 1 ≤ ownSteps c es)) →
    ∃ es1 es2 s1, es = es1 ++ es2 ∧ run s es1 = some s1 ∧ s1.cur = k
  | [], s, s', id, c, v, k, _, _, hn => by simp [ownSteps] at hn
  | e :: es, s, s', id, c, v, k, hb, hr, hn => by
    simp only [run] at hr
    cases hs : step s e with
    | none => rw [hs] at hr; cases hr
    | some s1 =>
      rw [hs] at hr
      rcases blocked_step hb hs with ⟨rfl, hk⟩ | ⟨hb1, hown⟩
      · exact ⟨[.cRecv c], es, s1, rfl, by simp [run, hs], hk⟩
      · have hn1 : 2 ≤ ownSteps c es ∨ (s1.cs c = .wait id ∧ 1 ≤ ownSteps c es) := by
          simp only [ownSteps, List.countP_cons] at hn ⊢
          by_cases ho : isOwn c e = true
          · obtain ⟨hw, hw1⟩ := hown ho
            simp only [ho, if_true] at hn
            right; refine ⟨hw1, ?_⟩
            rcases hn with hn | ⟨hcw, _⟩
            · omega
            · rw [hw] at hcw; cases hcw
          · have ho' : isOwn c e = false := by simpa using ho
            simp only [ho', Bool.false_eq_true, if_false, Nat.add_zero] at hn
            rcases hn with hn | ⟨hcw, hn⟩
            · exact Or.inl hn
            · right; refine ⟨?_, hn⟩
              -- nobody else changed the caller's state
              have hcs : s1.cs c = s.cs c := by
                cases e with
                | cLock x => obtain ⟨_, r, _, rfl⟩ := step_cLock hs; have : x ≠ c := by simpa [isOwn] using ho'
                             simp [setC, Ne.symm this]
                | cIdReg x now => obtain ⟨r, _, rfl⟩ := step_cIdReg hs; have : x ≠ c := by simpa [isOwn] using ho'
                                  simp [setC, Ne.symm this]
                | cWrite x ok =>
                  obtain ⟨id', r, _, rfl⟩ := step_cWrite hs; have : x ≠ c := by simpa [isOwn] using ho'
                  cases ok <;> simp [setC, Ne.symm this]
                | cUnlock x =>
                  have : x ≠ c := by simpa [isOwn] using ho'
                  rcases step_cUnlock hs with ⟨id', _, rfl⟩ | ⟨_, rfl⟩ <;> simp [setC, Ne.symm this]
                | cRecv x => obtain ⟨_, _, _, _, _, rfl⟩ := step_cRecv hs; have : x ≠ c := by simpa [isOwn] using ho'
                             simp [setC, Ne.symm this]
                | lRead mid seq m => obtain ⟨_, _, rfl⟩ := step_lRead hs; rfl
                | lStep now ok => simp [step, loopStep, hb.1] at hs
              rw [hcs]; exact hcw
        obtain ⟨es1, es2, s2, he, hr2, hk⟩ := blocked_progress es hb1 hr hn1
        exact ⟨e :: es1, es2, s2, by rw [he]; rfl, by simp [run, hs, hr2], hk⟩

/-! ## no deadlock -/

/-- every goroutine is legitimately waiting for input: the loop for the server, callers for their answer (or
they have no call in progress) -/
def Waiting (s : ISt) : Prop :=
  s.cur = [] ∧ s.todo = [] ∧ ∀ c, s.cs c = .idle ∨ ∃ id, s.cs c = .wait id

/-- whoever holds the mutex can take a step (none of the steps under the mutex waits for anything) -/
theorem holder_enabled {s : ISt} (hi : Inv s) :
    (∀ c, s.owner = .caller c → ∀ now ok, (step s (.cIdReg c now)).isSome = true ∨ (step s (.cWrite c ok)).isSome = true ∨
        (step s (.cUnlock c)).isSome = true) ∧
    (s.owner = .loop → ∀ now ok, (step s (.lStep now ok)).isSome = true) := by
  constructor
  · intro c ho now ok
    have hh := (hi.m1 c).2 ho
    cases hc : s.cs c <;> rw [hc] at hh <;> simp [holds] at hh
    · left; simp [step, hc]
    · right; left; cases ok <;> simp [step, hc]
    · right; right; simp [step, hc]
    · right; right; simp [step, hc]
  · intro ho now ok
    have hh := hi.m2.2 ho
    cases hcur : s.cur with
    | nil => rw [hcur] at hh; cases hh
    | cons op k =>
      rw [hcur] at hh
      cases op <;> simp [headHolds, opHolds] at hh
      · simp [step, loopStep, hcur]
      · cases ok <;> simp [step, loopStep, hcur]
      · simp [step, loopStep, hcur]

theorem no_deadlock {s : ISt} (hi : Inv s) (h2 : Inv2 s) (hw : ¬ Waiting s) : ∃ e, (step s e).isSome = true := by
  -- whoever holds the mutex has a step; so assume it is free whenever somebody needs it
  have hfree : s.owner ≠ .free → ∃ e, (step s e).isSome = true := by
    intro hne
    cases ho : s.owner with
    | free => exact absurd ho hne
    | caller c =>
      rcases (holder_enabled hi).1 c ho 0 true with h | h | h
      · exact ⟨_, h⟩
      · exact ⟨_, h⟩
      · exact ⟨_, h⟩
    | loop => exact ⟨_, (holder_enabled hi).2 ho 0 true⟩
  by_cases hof : s.owner = .free
  case neg => exact hfree hof
  cases hcur : s.cur with
  | cons op k =>
    cases op with
    | sendVal id c v =>
      have hb : Blocked s id c v k := ⟨hcur, h2.s1 id c v (by rw [hcur]; simp)⟩
      rcases blocked_caller_enabled hb with ⟨_, h⟩ | ⟨_, s1, h, _⟩
      · exact ⟨_, h⟩
      · exact ⟨.cUnlock c, by rw [h]; rfl⟩
    | ackLock mid => exact ⟨.lStep 0 true, by simp [step, loopStep, hcur, hof]⟩
    | delete id => exact ⟨.lStep 0 true, by simp [step, loopStep, hcur]⟩
    | store => exact ⟨.lStep 0 true, by simp [step, loopStep, hcur]⟩
    | lookupSalt bad => exact ⟨.lStep 0 true, by simp only [step, loopStep, hcur]; split <;> rfl⟩
    | ackIf mid seq => exact ⟨.lStep 0 true, by simp only [step, loopStep, hcur]; split <;> rfl⟩
    | ackId mid => exact ⟨.lStep 0 true, by simp [step, loopStep, hcur]⟩
    | ackWrite mid id => exact ⟨.lStep 0 true, by simp [step, loopStep, hcur]⟩
    | ackUnlock => exact ⟨.lStep 0 true, by simp [step, loopStep, hcur]⟩
  | nil =>
    cases htodo : s.todo with
    | cons it rest => exact ⟨.lStep 0 true, by simp [step, loopStep, hcur, htodo]⟩
    | nil =>
      -- the loop is at its read point: some caller is neither idle nor waiting for its answer
      have : ∃ c, ¬ (s.cs c = .idle ∨ ∃ id, s.cs c = .wait id) := by
        apply Classical.byContradiction
        intro hn
        exact hw ⟨hcur, htodo, fun c => Classical.byContradiction fun hc => hn ⟨c, hc⟩⟩
      obtain ⟨c, hc⟩ := this
      cases hcc : s.cs c with
      | idle => exact absurd (Or.inl hcc) hc
      | wait id => exact absurd (Or.inr ⟨id, hcc⟩) hc
      | again => exact ⟨.cLock c, by simp [step, hof, hcc]⟩
      | locked r => exact ⟨.cIdReg c 0, by simp [step, hcc]⟩
      | reg id r => exact ⟨.cWrite c true, by simp [step, hcc]⟩
      | written id => exact ⟨.cUnlock c, by simp [step, hcc]⟩
      | failed => exact ⟨.cUnlock c, by simp [step, hcc]⟩

/-! ## what an acausal server can do: a send nobody will ever receive -/

/-- the loop sends on the channel made for `id`, and caller `c` has left that request for good (its write
failed): it is not, and never will be again, at the receive of that channel -/
def Wedged (s : ISt) (id c : Nat) : Prop :=
  (∃ v k, s.cur = .sendVal id c v :: k) ∧ id ≤ s.lastMsgID ∧ flightOf (s.cs c) ≠ some id ∧ regOf (s.cs c) ≠ some id

theorem wedged_step {s s' : ISt} (hi : Inv s) {id c : Nat} (hwd : Wedged s id c) {e : IEv} (h : step s e = some s') :
    Wedged s' id c := by
  obtain ⟨⟨v, k, hcur⟩, hle, hnf, hnr⟩ := hwd
  cases e with
  | cLock x =>
    obtain ⟨_, r, hx, rfl⟩ := step_cLock h
    refine ⟨⟨v, k, hcur⟩, hle, ?_, ?_⟩ <;> by_cases hxc : c = x
    · subst hxc; simp [setC, flightOf]
    · simpa [setC, hxc] using hnf
    · subst hxc; simp [setC, regOf]
    · simpa [setC, hxc] using hnr
  | cIdReg x now =>
    obtain ⟨r, hx, rfl⟩ := step_cIdReg h
    obtain ⟨hgt, _⟩ := nextId_gt s.lastMsgID now hi.n1
    generalize nextId s.lastMsgID now = n at hgt ⊢
    refine ⟨⟨v, k, hcur⟩, by show id ≤ n; omega, ?_, ?_⟩ <;> by_cases hxc : c = x
    · subst hxc; simp [setC, flightOf]
    · simpa [setC, hxc] using hnf
    · subst hxc; simp [setC, regOf]; omega
    · simpa [setC, hxc] using hnr
  | cWrite x ok =>
    obtain ⟨id', r, hx, rfl⟩ := step_cWrite h
    cases ok
    · refine ⟨⟨v, k, hcur⟩, hle, ?_, ?_⟩ <;> by_cases hxc : c = x
      · subst hxc; simp [setC, flightOf]
      · simpa [setC, hxc] using hnf
      · subst hxc; simp [setC, regOf]
      · simpa [setC, hxc] using hnr
    · refine ⟨⟨v, k, hcur⟩, hle, ?_, ?_⟩ <;> by_cases hxc : c = x
      · subst hxc; rw [hx] at hnr; simp [regOf] at hnr; simp [setC, flightOf]; exact fun h => hnr h
      · simpa [setC, hxc] using hnf
      · subst hxc; simp [setC, regOf]
      · simpa [setC, hxc] using hnr
  | cUnlock x =>
    rcases step_cUnlock h with ⟨id', hx, rfl⟩ | ⟨hx, rfl⟩
    · refine ⟨⟨v, k, hcur⟩, hle, ?_, ?_⟩ <;> by_cases hxc : c = x
      · subst hxc; rw [hx] at hnf; simp [flightOf] at hnf; simp [setC, flightOf]; exact hnf
      · simpa [setC, hxc] using hnf
      · subst hxc; simp [setC, regOf]
      · simpa [setC, hxc] using hnr
    · refine ⟨⟨v, k, hcur⟩, hle, ?_, ?_⟩ <;> by_cases hxc : c = x
      · subst hxc; simp [setC, flightOf]
      · simpa [setC, hxc] using hnf
      · subst hxc; simp [setC, regOf]
      · simpa [setC, hxc] using hnr
  | cRecv x =>
    obtain ⟨id', v', k', hx, hk', rfl⟩ := step_cRecv h
    rw [hcur] at hk'
    simp only [List.cons.injEq, Op.sendVal.injEq] at hk'
    obtain ⟨⟨rfl, rfl, _⟩, _⟩ := hk'
    rw [hx] at hnf; simp [flightOf] at hnf
  | lRead mid seq m => obtain ⟨hc, _, _⟩ := step_lRead h; rw [hcur] at hc; cases hc
  | lStep now ok => simp [step, loopStep, hcur] at h

theorem wedged_forever : ∀ (es : List IEv) {s s' : ISt} {id c : Nat}, Inv s → Wedged s id c → run s es = some s' →
    Wedged s' id c
  | [], s, s', id, c, _, hw, h => by simp only [run, Option.some.injEq] at h; subst h; exact hw
  | e :: es, s, s', id, c, hi, hw, h => by
    simp only [run] at h
    cases hs : step s e with
    | none => rw [hs] at h; cases h
    | some s1 => rw [hs] at h; exact wedged_forever es (inv_step hi hs) (wedged_step hi hw hs) h

/-! ## a computable check of the causality assumption (for concrete runs) -/

theorem causalB_sound {s : ISt} (hi : Inv s) {e : IEv} (h : causalB s e = true) : CausalEv s e := by
  cases e with
  | lRead mid seq m =>
    simp only [causalB, List.all_eq_true] at h
    intro id hid hu
    have := h id hid
    obtain ⟨h4, hrest⟩ := hu
    simp only [Bool.or_eq_true, bne_iff_ne, ne_eq, decide_eq_true_eq, Bool.and_eq_true, beq_iff_eq] at this
    rcases this with (h1 | h1) | ⟨h1, h1'⟩
    · exact h1 h4
    · rcases hrest with hlt | ⟨c, hc⟩
      · omega
      · have hun := reg_unwritten hi hc
        cases hcc : s.cs c with
        | reg id' r =>
          rw [hcc] at hc; simp only [regOf, Option.some.injEq] at hc; subst hc
          have := (hi.w2 c id' r hcc).1; omega
        | _ => rw [hcc] at hc; simp [regOf] at hc
    · rcases hrest with hlt | ⟨c, hc⟩
      · omega
      · have hh : holds (s.cs c) = true := by
          cases hcc : s.cs c <;> rw [hcc] at hc <;> simp [regOf] at hc <;> rfl
        have ho := (hi.m1 c).1 hh
        rw [ho] at h1'; simp at h1'
  | _ => trivial

theorem causalRunB_sound : ∀ (es : List IEv) {s : ISt}, Inv s → causalRunB s es = true → CausalRun s es
  | [], _, _, _ => trivial
  | e :: es, s, hi, h => by
    simp only [causalRunB, Bool.and_eq_true] at h
    refine ⟨causalB_sound hi h.1, ?_⟩
    intro s' hs
    have h2 := h.2; rw [hs] at h2
    exact causalRunB_sound es (inv_step hi hs) h2

/-! ## the order of the model's micro-steps against the order of the source statements -/

/-- the abstract action a source statement is (only the statements that touch shared state) -/
def actionOf (tag : String) : Option String :=
  if tag = "get responseChannels" then some "get"
  else if tag = "delete responseChannels" then some "delete"
  else if tag = "[v, ok := m.responseChannels.Get(badMsgID); ok] delete responseChannels" then some "delete"
  else if tag = "chan send" then some "send"
  else if tag = "[v, ok := m.responseChannels.Get(badMsgID); ok] chan send" then some "send"
  else if tag = "call SaveSession" then some "store"
  else if tag = "set m.serverSalt = message.NewSalt" then some "salt"
  else if tag = "set m.serverSalt = message.ServerSalt" then some "salt"
  else none

def opAction : Op → List String
  | .delete _ => ["delete"]
  | .store => ["store"]
  | .lookupSalt _ => ["get"]
  | _ => []

def sourceActions (name : String) : List String :=
  match sourceSkeleton.find? (fun e => e.1 == name) with
  | some e => e.2.filterMap actionOf
  | none => []

/-- run the loop alone (every send is received at once) up to the acknowledgement, recording what it does -/
def traceLoop : Nat → ISt → List String
  | 0, _ => []
  | n + 1, s =>
    match s.cur with
    | [] => []
    | .sendVal _ _ _ :: k => "send" :: traceLoop n { s with cur := k }
    | .ackIf _ _ :: _ => []
    | op :: _ =>
      match loopStep s 0 true with
      | some s' => opAction op ++ traceLoop n s'
      | none => []

/-- the micro-steps the model runs for one message while the caller of request 8 waits, as actions; `first` =
what `dispatch` itself does (its first shared access: the map `Get`, or the assignment of the salt) -/
def modelActions (first : String) (m : Msg) : List String :=
  first :: traceLoop 8 (dispatch { chans := [(8, 0)], cs := fun c => if c = 0 then .wait 8 else .idle } (.msg 1 2 m))

/-! ## a container is the sequence of its members -/

mutual
/-- the leaf-level events a server message stands for: a container is seen as its members, one after the other,
then its own acknowledgement; a container nested too deep is refused like an unknown message -/
def flat (d mid seq : Nat) : Msg → List Ev
  | .res rid v => [.recv mid seq (.res rid v)]
  | .salt bad ns => [.recv mid seq (.salt bad ns)]
  | .news ns => [.recv mid seq (.news ns)]
  | .badmsg bad => [.recv mid seq (.badmsg bad)]
  | .quiet => [.recv mid seq .quiet]
  | .odd => [.recv mid seq .odd]
  | .cont ms =>
    if d < maxContainerDepth then flatAll (d + 1) ms ++ [.recv mid seq .quiet] else [.recv mid seq .odd]
def flatAll (d : Nat) : List (Nat × Nat × Msg) → List Ev
  | [] => []
  | (mid, seq, m) :: rest => flat d mid seq m ++ flatAll d rest
end

mutual
theorem flat_sound : ∀ (m : Msg) (d : Nat) (g : St) (mid seq : Nat),
    Mtv.Client.run g (flat d mid seq m) = some (process d g mid seq m)
  | .res rid v, d, g, mid, seq => by simp [flat, Mtv.Client.run, Mtv.Client.step, process]
  | .salt bad ns, d, g, mid, seq => by simp [flat, Mtv.Client.run, Mtv.Client.step, process]
  | .news ns, d, g, mid, seq => by simp [flat, Mtv.Client.run, Mtv.Client.step, process]
  | .badmsg bad, d, g, mid, seq => by simp [flat, Mtv.Client.run, Mtv.Client.step, process]
  | .quiet, d, g, mid, seq => by simp [flat, Mtv.Client.run, Mtv.Client.step, process]
  | .odd, d, g, mid, seq => by simp [flat, Mtv.Client.run, Mtv.Client.step, process]
  | .cont ms, d, g, mid, seq => by
    simp only [flat, process]
    split
    · rw [run_append (flatAll_sound ms (d + 1) g)]
      simp [Mtv.Client.run, Mtv.Client.step, process]
    · simp [Mtv.Client.run, Mtv.Client.step, process]
theorem flatAll_sound : ∀ (ms : List (Nat × Nat × Msg)) (d : Nat) (g : St),
    Mtv.Client.run g (flatAll d ms) = some (processAll d g ms)
  | [], d, g => by simp [flatAll, processAll, Mtv.Client.run]
  | (mid, seq, m) :: rest, d, g => by
    simp only [flatAll, processAll]
    rw [run_append (flat_sound m d g mid seq)]
    exact flatAll_sound rest d _
end

end Mtv.Impl
