/-
  Invariants of the connection lifecycle (Mtv/Client/Lifecycle.lean), helper lemmas for Props/C16Life.lean.
-/
import Mtv.Client.Lifecycle
namespace Mtv.Client.Life
open Mtv.Client

/-- contexts are numbered in the order they are made; every context but the current one is cancelled; the current
one has at most one goroutine coming: a reader in its loop or a dial that will start one -/
structure Inv (s : LSt) : Prop where
  curLe : s.cur ≤ s.nextCtx
  canLe : ∀ c ∈ s.cancelled, c ≤ s.nextCtx
  rdLe : ∀ c ∈ s.readers, c ≤ s.nextCtx
  inLe : ∀ c ∈ s.inflight, c ≤ s.nextCtx
  rdLive : ∀ c ∈ s.readers, c = s.cur ∨ c ∈ s.cancelled
  inLive : ∀ c ∈ s.inflight, c = s.cur ∨ c ∈ s.cancelled
  once : s.readers.count s.cur + s.inflight.count s.cur ≤ 1

theorem inv_init (m : St) (k : Bool) (id : Nat) : Inv (connected0 m k id) where
  curLe := by simp [connected0]
  canLe := by simp [connected0]
  rdLe := by simp [connected0]
  inLe := by simp [connected0]
  rdLive := by simp [connected0]
  inLive := by simp [connected0]
  once := by simp [connected0]

theorem count_erase_le' (a c : Nat) (l : List Nat) : (l.erase c).count a ≤ l.count a :=
  (List.erase_sublist).count_le a

theorem inv_eraseReader {s : LSt} (h : Inv s) (c : Nat) : Inv { s with readers := s.readers.erase c } where
  curLe := h.curLe
  canLe := h.canLe
  rdLe := fun x hx => h.rdLe x (List.mem_of_mem_erase hx)
  inLe := h.inLe
  rdLive := fun x hx => h.rdLive x (List.mem_of_mem_erase hx)
  inLive := h.inLive
  once := by
    have := count_erase_le' s.cur c s.readers
    have := h.once
    show (s.readers.erase c).count s.cur + s.inflight.count s.cur ≤ 1
    omega

theorem inv_begin {s : LSt} (h : Inv s) (b : Bool) : Inv (beginReconnect s b) where
  curLe := by simp [beginReconnect]
  canLe := by
    intro c hc
    simp only [beginReconnect, List.mem_cons] at hc ⊢
    rcases hc with rfl | hc
    · have := h.curLe; omega
    · have := h.canLe c hc; omega
  rdLe := by
    intro c hc
    have := h.rdLe c hc
    simp only [beginReconnect]; omega
  inLe := by
    intro c hc
    simp only [beginReconnect, List.mem_cons] at hc ⊢
    rcases hc with rfl | hc
    · omega
    · have := h.inLe c hc; omega
  rdLive := by
    intro c hc
    simp only [beginReconnect, List.mem_cons]
    rcases h.rdLive c hc with e | e
    · exact Or.inr (Or.inl e)
    · exact Or.inr (Or.inr e)
  inLive := by
    intro c hc
    simp only [beginReconnect, List.mem_cons] at hc ⊢
    rcases hc with rfl | hc
    · exact Or.inl rfl
    · rcases h.inLive c hc with e | e
      · exact Or.inr (Or.inl e)
      · exact Or.inr (Or.inr e)
  once := by
    have h1 : s.readers.count (s.nextCtx + 1) = 0 :=
      List.count_eq_zero_of_not_mem fun hm => by have := h.rdLe _ hm; omega
    have h2 : s.inflight.count (s.nextCtx + 1) = 0 :=
      List.count_eq_zero_of_not_mem fun hm => by have := h.inLe _ hm; omega
    simp only [beginReconnect, List.count_cons_self, h1, h2]
    omega

theorem inv_lose {s : LSt} (h : Inv s) : Inv (lose s) := by
  unfold lose
  split
  · exact inv_begin (inv_eraseReader h s.cur) true
  · exact inv_eraseReader h s.cur

/-- a fresh context is neither the current one nor cancelled -/
theorem fresh_not_cancelled {s : LSt} (h : Inv s) : (s.cur :: s.cancelled).contains (s.nextCtx + 1) = false := by
  have h1 := h.curLe
  have h2 : s.nextCtx + 1 ∉ s.cancelled := fun hm => by have := h.canLe _ hm; omega
  simp only [List.contains_cons, Bool.or_eq_false_iff]
  refine ⟨by simp; omega, by simpa using h2⟩

theorem inv_step {s s' : LSt} {e : LEv} (h : Inv s) (hs : step s e = some s') : Inv s' := by
  cases e with
  | mach e =>
    simp only [step] at hs
    split at hs
    · cases hm : Client.step s.m e with
      | none => simp [hm] at hs
      | some m' => simp [hm] at hs; subst hs; exact ⟨h.curLe, h.canLe, h.rdLe, h.inLe, h.rdLive, h.inLive, h.once⟩
    · simp at hs
  | connClosed =>
    simp only [step] at hs
    split at hs
    · simp only [Option.some.injEq] at hs; subst hs; exact inv_lose h
    · simp at hs
  | connBroken =>
    simp only [step] at hs
    split at hs
    · simp only [Option.some.injEq] at hs; subst hs
      exact inv_lose (s := { s with connWarnings := s.connWarnings + 1 })
        ⟨h.curLe, h.canLe, h.rdLe, h.inLe, h.rdLive, h.inLive, h.once⟩
    · simp at hs
  | redialOk c k =>
    simp only [step] at hs
    split at hs
    · rename_i hc
      have hc' : c ∈ s.inflight := by simpa using hc
      simp only [Option.some.injEq] at hs; subst hs
      refine ⟨h.curLe, h.canLe, ?_, ?_, ?_, ?_, ?_⟩
      · intro x hx
        simp only [dialled, List.mem_cons] at hx
        rcases hx with hx | hx
        · rw [hx]; exact h.inLe _ hc'
        · exact h.rdLe x hx
      · exact fun x hx => h.inLe x (List.mem_of_mem_erase hx)
      · intro x hx
        simp only [dialled, List.mem_cons] at hx
        rcases hx with hx | hx
        · rw [hx]; exact h.inLive _ hc'
        · exact h.rdLive x hx
      · exact fun x hx => h.inLive x (List.mem_of_mem_erase hx)
      · show (c :: s.readers).count s.cur + (s.inflight.erase c).count s.cur ≤ 1
        have ho := h.once
        by_cases hcc : c = s.cur
        · rw [hcc] at hc' ⊢
          have hp : 0 < s.inflight.count s.cur := List.count_pos_iff.mpr hc'
          rw [List.count_cons_self, List.count_erase_self]
          omega
        · have hne : s.cur ≠ c := fun e => hcc e.symm
          rw [List.count_cons_of_ne hcc, List.count_erase_of_ne hne]
          exact ho
    · simp at hs
  | redialFailed c =>
    simp only [step] at hs
    split at hs
    · simp only [Option.some.injEq] at hs; subst hs
      refine ⟨h.curLe, h.canLe, h.rdLe, fun x hx => h.inLe x (List.mem_of_mem_erase hx), h.rdLive,
        fun x hx => h.inLive x (List.mem_of_mem_erase hx), ?_⟩
      show s.readers.count s.cur + (s.inflight.erase c).count s.cur ≤ 1
      have := count_erase_le' s.cur c s.inflight
      have := h.once
      omega
    · simp at hs
  | appReconnect =>
    simp only [step, Option.some.injEq] at hs; subst hs; exact inv_begin h false
  | appDisconnect =>
    simp only [step, Option.some.injEq] at hs; subst hs
    refine ⟨h.curLe, ?_, h.rdLe, h.inLe, ?_, ?_, h.once⟩
    · intro c hc
      simp only [List.mem_cons] at hc
      rcases hc with rfl | hc
      · exact h.curLe
      · exact h.canLe c hc
    · intro c hc
      rcases h.rdLive c hc with e | e
      · exact Or.inl e
      · exact Or.inr (List.mem_cons_of_mem _ e)
    · intro c hc
      rcases h.inLive c hc with e | e
      · exact Or.inl e
      · exact Or.inr (List.mem_cons_of_mem _ e)
  | readerExit c =>
    simp only [step] at hs
    split at hs
    · simp only [Option.some.injEq] at hs; subst hs; exact inv_eraseReader h c
    · simp at hs
  | callDown c o =>
    simp only [step] at hs
    split at hs
    · simp only [Option.some.injEq] at hs; subst hs; exact h
    · simp at hs

theorem inv_reachable {s : LSt} (h : Reachable s) : Inv s := by
  induction h with
  | init m k id => exact inv_init m k id
  | step _ hs ih => exact inv_step ih hs

/-- readers that pass a test only the element `a` can pass are at most as many as the occurrences of `a` -/
theorem filter_length_le_count (p : Nat → Bool) (a : Nat) :
    ∀ (l : List Nat), (∀ c ∈ l, p c = true → c = a) → (l.filter p).length ≤ l.count a
  | [], _ => by simp
  | x :: l, h => by
    have ih := filter_length_le_count p a l fun c hc => h c (List.mem_cons_of_mem _ hc)
    by_cases hp : p x = true
    · have : x = a := h x (List.mem_cons_self ..) hp
      subst this
      rw [List.filter_cons_of_pos hp, List.count_cons_self]
      simp only [List.length_cons]; omega
    · rw [List.filter_cons_of_neg hp]
      have := List.count_le_count_cons (a := a) (b := x) (l := l)
      omega

/-- a machine event moves nothing of the lifecycle -/
theorem mach_fields {s s' : LSt} {e : Ev} (hs : step s (.mach e) = some s') :
    ∃ m', Client.step s.m e = some m' ∧ s' = { s with m := m' } := by
  simp only [step] at hs
  split at hs
  · cases hm : Client.step s.m e with
    | none => simp [hm] at hs
    | some m' => simp [hm] at hs; exact ⟨m', rfl, hs.symm⟩
  · simp at hs

end Mtv.Client.Life
